// Command c04valid: correspondence cases for the C04 theorems about the DEFAULT reader
// (coq/Props/C04ValidText.v): the extracted model of ach.NewReader(text).Read() with its
// validation followed by File.Validate() (coq/Codec/ReaderSkel.v accept_code) against the
// real code on the same bytes — generated valid files of every kind (21 SEC codes, IAT,
// IAT corrections, ADV, mixed), every protected field of every protected line with its
// FIRST digit and random digits replaced, characters outside the protected columns, and
// truncations around the file control record.  Both sides print "A" (accepted) or "R".
package main

import (
	"encoding/json"
	"flag"
	"fmt"
	"os"
	"path/filepath"
	"strings"

	"github.com/moov-io/ach"

	"verifharness/internal/arith"
	"verifharness/internal/gen"
	"verifharness/internal/hx"
	"verifharness/internal/rng"
)

type field struct {
	name   string
	lo, hi int
}

// the protected columns per record type (the model's table is coq/Model/TamperText.v
// protected_columns, checked against the regenerated layouts)
var (
	hdrFields      = []field{{"batch-header:odfi", 79, 87}, {"batch-header:batch-number", 87, 94}}
	entryFields    = []field{{"entry:rdfi", 3, 11}, {"entry:check-digit", 11, 12}, {"entry:amount", 29, 39}}
	advEntryFields = []field{{"adv-entry:rdfi", 3, 11}, {"adv-entry:check-digit", 11, 12}, {"adv-entry:amount", 27, 39}}
	bctlFields     = []field{{"batch-control:service-class", 1, 4}, {"batch-control:entry-count", 4, 10}, {"batch-control:hash", 10, 20},
		{"batch-control:debit", 20, 32}, {"batch-control:credit", 32, 44}, {"batch-control:odfi", 79, 87}, {"batch-control:batch-number", 87, 94}}
	advBctlFields = []field{{"adv-batch-control:service-class", 1, 4}, {"adv-batch-control:entry-count", 4, 10}, {"adv-batch-control:hash", 10, 20},
		{"adv-batch-control:debit", 20, 40}, {"adv-batch-control:credit", 40, 60}, {"adv-batch-control:odfi", 79, 87}, {"adv-batch-control:batch-number", 87, 94}}
	fctlFields    = []field{{"file-control:batch-count", 1, 7}, {"file-control:entry-count", 13, 21}, {"file-control:hash", 21, 31}, {"file-control:debit", 31, 43}, {"file-control:credit", 43, 55}}
	advFctlFields = []field{{"adv-file-control:batch-count", 1, 7}, {"adv-file-control:entry-count", 13, 21}, {"adv-file-control:hash", 21, 31}, {"adv-file-control:debit", 31, 51}, {"adv-file-control:credit", 51, 71}}
)

func protected(lines []string) (map[int][]field, int, bool) {
	out := map[int][]field{}
	sec := ""
	adv, iatcor := false, false
	ctl := -1
	for i, l := range lines {
		if len(l) < 94 {
			continue
		}
		switch l[0] {
		case '5':
			sec = l[50:53]
			if sec == "ADV" {
				adv = true
			}
			if strings.TrimSpace(l[4:20]) == "IATCOR" {
				iatcor = true
				sec = "IAT"
			}
			out[i] = hdrFields
		case '6':
			if sec == "ADV" {
				out[i] = advEntryFields
			} else {
				out[i] = entryFields
			}
		case '8':
			if sec == "ADV" {
				out[i] = advBctlFields
			} else {
				out[i] = bctlFields
			}
		case '9':
			if ctl < 0 && l != strings.Repeat("9", 94) {
				ctl = i
				if adv {
					out[i] = advFctlFields
				} else {
					out[i] = fctlFields
				}
			}
		}
	}
	return out, ctl, iatcor
}

// verdict of the implementation: "A" when the text reads and validates, else "R"
func verdict(text string) string {
	var f *ach.File
	var perr error
	err := arith.Safe(func() error {
		f, perr = gen.Parse(text)
		return nil
	})
	if err != nil || perr != nil || f == nil {
		return "R"
	}
	if arith.Safe(f.Validate) != nil {
		return "R"
	}
	return "A"
}

func ascii(s string) bool {
	for i := 0; i < len(s); i++ {
		if s[i] >= 0x80 {
			return false
		}
	}
	return true
}

func replay(path string) int {
	raw, err := os.ReadFile(path)
	if err != nil {
		fmt.Println(err)
		return 2
	}
	var doc struct {
		Input struct {
			Description string `json:"description"`
			TextHex     string `json:"text_hex"`
		} `json:"input"`
	}
	if json.Unmarshal(raw, &doc) != nil || doc.Input.TextHex == "" {
		fmt.Println("no text_hex in", path)
		return 2
	}
	text := hx.Dec(doc.Input.TextHex)
	fmt.Println(doc.Input.Description)
	v := verdict(string(text))
	if v == "A" {
		fmt.Println("FAIL: ach.NewReader(text).Read() and File.Validate() accept the tampered text")
		return 1
	}
	fmt.Println("ok: the tampered text is rejected")
	return 0
}

func main() {
	if len(os.Args) >= 3 && os.Args[1] == "replay" {
		os.Exit(replay(os.Args[2]))
	}
	if len(os.Args) < 2 || os.Args[1] != "corr" {
		fmt.Fprintln(os.Stderr, "usage: c04valid corr -out dir -files n [-samples s] [-stride t] | replay file")
		os.Exit(2)
	}
	fs := flag.NewFlagSet("corr", flag.ExitOnError)
	out := fs.String("out", "", "output directory")
	nfiles := fs.Int("files", 26, "generated files (cycling through the kinds)")
	extra := fs.Int("iatcor", 8, "additional files generated with IAT corrections allowed")
	samples := fs.Int("samples", 3, "random digit positions per protected field (the first digit is always taken)")
	stride := fs.Int("stride", 19, "truncation offsets around the file control record: every stride-th")
	fs.Parse(os.Args[2:])
	cases := hx.Create(filepath.Join(*out, "cases.txt"))
	impl := hx.Create(filepath.Join(*out, "impl.txt"))
	desc := hx.Create(filepath.Join(*out, "desc.txt"))
	n := 0
	emitV := func(text, what string) string {
		v := verdict(text)
		cases.Printf("V %s\n", hx.Enc(text))
		impl.Printf("%s\n", v)
		desc.Printf("%s\n", what)
		n++
		return v
	}
	seed := rng.Seed()
	r := rng.New(seed*37 + 11)
	stats := map[string]int{}
	total := *nfiles + *extra
	for i := 0; i < total; i++ {
		var f *ach.File
		var what string
		if i < *nfiles {
			f, what = arith.GenFile(seed, i, true)
		} else {
			// files that may hold IAT correction (IATCOR) batches
			func() {
				defer func() {
					if recover() != nil {
						f = nil
					}
				}()
				rr := rng.New(seed*0x9E3779B97F4A7C15 + uint64(i)*7919 + 17)
				f = gen.File(rr, gen.Opts{IAT: true, NOC: true, Returns: true, Addenda: true, MaxBatches: 3, MaxEntries: 3})
				what = "IAT+NOC"
			}()
		}
		if f == nil {
			stats["skipped: "+what]++
			continue
		}
		text, err := gen.Text(f, false)
		if err != nil || !ascii(text) {
			stats["skipped: not writable / non-ASCII"]++
			continue
		}
		if verdict(text) == "R" {
			stats["skipped: generated text not accepted"]++
			continue
		}
		lines := strings.Split(text, "\n")
		prot, ctl, iatcor := protected(lines)
		if iatcor {
			what += "+IATCOR"
		}
		stats["files "+what]++
		id := fmt.Sprintf("seed %d file %d (%s)", seed, i, what)
		emitV(text, id+": original, LF")
		crlf := strings.ReplaceAll(text, "\n", "\r\n")
		emitV(crlf, id+": original, CRLF")
		cursec := ""
		for li := 0; li < len(lines); li++ {
			for _, fd := range prot[li] {
				cols := []int{fd.lo}
				for s := 0; s < *samples; s++ {
					cols = append(cols, fd.lo+r.Intn(fd.hi-fd.lo))
				}
				for ci, col := range cols {
					orig := lines[li][col]
					if orig < '0' || orig > '9' {
						continue
					}
					d := byte('0' + (int(orig-'0')+1+r.Intn(9))%10)
					bs := []byte(lines[li])
					bs[col] = d
					cp := append([]string{}, lines...)
					cp[li] = string(bs)
					t := strings.Join(cp, "\n")
					if (li+ci)%2 == 1 {
						t = strings.ReplaceAll(t, "\n", "\r\n")
					}
					kind := "tamper"
					if ci == 0 {
						kind = "tamper-first-digit"
					}
					emitV(t, fmt.Sprintf("%s: %s %s line %d col %d %c->%c", id, kind, fd.name, li+1, col+1, orig, d))
					stats["tamper "+fd.name]++
				}
			}
			if len(lines[li]) == 94 && lines[li][0] == '5' {
				cursec = lines[li][50:53]
				if strings.TrimSpace(lines[li][4:20]) == "IATCOR" {
					cursec = "IAT"
				}
			}
			// a character outside the protected columns: the individual name of a standard entry (not
			// CTX, whose name columns hold the addenda count; not IAT / ADV, other layouts)
			if len(lines[li]) == 94 && lines[li][0] == '6' && cursec != "IAT" && cursec != "ADV" && cursec != "CTX" {
				col := 60 + r.Intn(14)
				bs := []byte(lines[li])
				if bs[col] != 'X' {
					bs[col] = 'X'
				} else {
					bs[col] = 'Y'
				}
				cp := append([]string{}, lines...)
				cp[li] = string(bs)
				v := emitV(strings.Join(cp, "\n"), fmt.Sprintf("%s: unprotected line %d col %d", id, li+1, col+1))
				stats["unprotected "+v]++
			}
		}
		// truncations around the file control record (LF)
		if ctl > 0 {
			lo, hi := (ctl-1)*95, (ctl+2)*95
			if hi > len(text) {
				hi = len(text)
			}
			for k := lo; k < hi; k++ {
				if k%*stride == i%*stride || (k >= ctl*95+50 && k <= ctl*95+60) || (k >= (ctl+1)*95 && k <= (ctl+1)*95+3) {
					v := emitV(text[:k], fmt.Sprintf("%s: truncate LF at %d of %d", id, k, len(text)))
					stats["truncate "+v]++
				}
			}
			// phase 7 (C04_valid_reader_truncation_filler): inside a LATER filler line (after 0, 1, 2, 50
			// characters: the same file, except after one character), and the same in the CRLF text,
			// where the cut can also fall between CR and LF
			nl := len(text) / 95
			if nl > ctl+2 {
				last := (nl - 1) * 95
				for _, c := range []int{0, 1, 2, 50, 94} {
					v := emitV(text[:last+c], fmt.Sprintf("%s: truncate LF in last filler line at %d of %d", id, last+c, len(text)))
					stats["truncate-filler "+v]++
				}
			}
			if nl > ctl+1 {
				at := (ctl + 1 + i%(nl-ctl-1)) * 96
				for _, c := range []int{-1, 0, 1, 2, 94, 95} {
					if at+c < len(crlf) {
						v := emitV(crlf[:at+c], fmt.Sprintf("%s: truncate CRLF in a filler line at %d of %d", id, at+c, len(crlf)))
						stats["truncate-filler-crlf "+v]++
					}
				}
			}
		}
	}
	cases.Close()
	impl.Close()
	desc.Close()
	fmt.Printf("cases %d\n", n)
	for k, v := range stats {
		fmt.Printf("%s: %d\n", k, v)
	}
}

// Command c02valid: C02 "valid => width".
//
//	corr   -plan plan.txt -out dir -n N
//	    correspondence between the rule interpreter extracted from Coq (rec_validb over the rules the
//	    translator regenerated) and the real Validate() of each of the 26 record types: valid records taken
//	    from generated files, ONE field changed at a time to the boundary values of the plan (every member of
//	    the accepted sets, literals, width-1 / width / width+1 …) and to generic perturbations of the current
//	    value; plus the batch level entry rules (AddendaRecordIndicator) against Batch.Validate().
//	oracle -plan plan.txt -out dir -n N -corpus dir
//	    the property on the real code: files whose raw / Itoa / custom columns are set to IN-WIDTH values
//	    (directed corpus cases first, then random ones); whenever the validating writer succeeds every record
//	    must be 94 characters.  Also replays the out-of-width witnesses of the unbounded columns (reported as
//	    samples, never as failures: out-of-width struct values are outside C02).
//	replay <file>
package main

import (
	"encoding/json"
	"flag"
	"fmt"
	"os"
	"path/filepath"
	"reflect"
	"sort"
	"strconv"
	"strings"
	"unicode/utf8"
	"unsafe"

	"github.com/moov-io/ach"

	"verifharness/internal/gen"
	"verifharness/internal/hx"
	"verifharness/internal/recs"
	"verifharness/internal/rng"
)

func main() {
	if len(os.Args) < 2 {
		fmt.Fprintln(os.Stderr, "usage: c02valid corr|oracle|replay ...")
		os.Exit(2)
	}
	switch os.Args[1] {
	case "corr":
		corr(os.Args[2:])
	case "oracle":
		oracle(os.Args[2:])
	case "replay":
		replay(os.Args[2:])
	default:
		os.Exit(2)
	}
}

// ---------------------------------------------------------------- plan (printed by the OCaml driver)

type planField struct {
	Name   string
	Width  int // nominal width of the raw / Itoa / custom column it fills, -1 otherwise
	Strs   []string
	Ints   []int64
	Column bool
}

type plan struct {
	Fields    map[string][]planField // record type -> fields
	Unbounded map[string][]string
	Subs      map[string][]string
}

func readPlan(path string) *plan {
	p := &plan{Fields: map[string][]planField{}, Unbounded: map[string][]string{}, Subs: map[string][]string{}}
	b, err := os.ReadFile(path)
	if err != nil {
		fmt.Fprintln(os.Stderr, err)
		os.Exit(2)
	}
	for _, line := range strings.Split(string(b), "\n") {
		t := strings.Fields(line)
		if len(t) < 2 {
			continue
		}
		switch t[0] {
		case "F":
			if len(t) < 4 {
				continue
			}
			f := planField{Name: t[2], Width: -1}
			if w, err := strconv.Atoi(t[3]); err == nil {
				f.Width, f.Column = w, true
			}
			for _, v := range t[4:] {
				switch {
				case strings.HasPrefix(v, "S:"):
					f.Strs = append(f.Strs, hx.Dec(v[2:]))
				case strings.HasPrefix(v, "I:"):
					if n, err := strconv.ParseInt(v[2:], 10, 64); err == nil {
						f.Ints = append(f.Ints, n)
					}
				}
			}
			p.Fields[t[1]] = append(p.Fields[t[1]], f)
		case "U":
			p.Unbounded[t[1]] = t[2:]
		case "S":
			p.Subs[t[1]] = t[2:]
		}
	}
	return p
}

// ---------------------------------------------------------------- records of a file, reflective access

func isNil(v any) bool {
	rv := reflect.ValueOf(v)
	return !rv.IsValid() || (rv.Kind() == reflect.Ptr && rv.IsNil())
}

// records lists pointers to the records of f in writer order.
func records(f *ach.File) []recs.Record {
	var out []recs.Record
	add := func(v recs.Record) {
		if !isNil(v) {
			out = append(out, v)
		}
	}
	add(&f.Header)
	isADV := f.IsADV()
	for _, b := range f.Batches {
		add(b.GetHeader())
		if !isADV {
			for _, e := range b.GetEntries() {
				add(e)
				add(e.Addenda02)
				for _, a := range e.Addenda05 {
					add(a)
				}
				add(e.Addenda98)
				add(e.Addenda98Refused)
				add(e.Addenda99)
				add(e.Addenda99Dishonored)
				add(e.Addenda99Contested)
			}
		} else {
			for _, e := range b.GetADVEntries() {
				add(e)
				add(e.Addenda99)
			}
		}
		if b.GetHeader() != nil && b.GetHeader().StandardEntryClassCode == ach.ADV {
			add(b.GetADVControl())
		} else {
			add(b.GetControl())
		}
	}
	for _, b := range f.IATBatches {
		add(b.GetHeader())
		for _, e := range b.GetEntries() {
			add(e)
			add(e.Addenda10)
			add(e.Addenda11)
			add(e.Addenda12)
			add(e.Addenda13)
			add(e.Addenda14)
			add(e.Addenda15)
			add(e.Addenda16)
			for _, a := range e.Addenda17 {
				add(a)
			}
			for _, a := range e.Addenda18 {
				add(a)
			}
			add(e.Addenda98)
			add(e.Addenda99)
		}
		add(b.GetControl())
	}
	if isADV {
		add(&f.ADVControl)
	} else {
		add(&f.Control)
	}
	return out
}

func typeName(r recs.Record) string { return reflect.TypeOf(r).Elem().Name() }

// field returns a settable view of the named field, also when it is unexported (the four constant
// columns of FileHeader): the correspondence has to drive the model on those fields too.
func field(r recs.Record, name string) (reflect.Value, bool) {
	v := reflect.ValueOf(r).Elem()
	f := v.FieldByName(name)
	if !f.IsValid() {
		return f, false
	}
	if !f.CanSet() {
		f = reflect.NewAt(f.Type(), unsafe.Pointer(f.UnsafeAddr())).Elem()
	}
	return f, true
}

func exported(r recs.Record, name string) bool {
	sf, ok := reflect.TypeOf(r).Elem().FieldByName(name)
	return ok && sf.IsExported()
}

// defaultOpts: the record validates with default options (validateOpts == nil).
func defaultOpts(r recs.Record) bool {
	f := reflect.ValueOf(r).Elem().FieldByName("validateOpts")
	return !f.IsValid() || f.IsNil()
}

func validate(r recs.Record) (verdict string) {
	defer func() {
		if e := recover(); e != nil {
			verdict = "PANIC"
		}
	}()
	v, ok := r.(interface{ Validate() error })
	if !ok {
		return "NOVALIDATE"
	}
	if err := v.Validate(); err != nil {
		return "REJ"
	}
	return "ACC"
}

func safeString(r recs.Record) (s string) {
	defer func() {
		if e := recover(); e != nil {
			s = ""
		}
	}()
	return r.String()
}

// ---------------------------------------------------------------- value candidates

func perturbStr(v string, width int) []string {
	out := []string{"", v + "0", v + " ", " " + v, "0" + v, "+" + v, strings.ToLower(v), strings.ToUpper(v), "é", "  "}
	if len(v) > 0 {
		out = append(out, v[:len(v)-1], v[1:], "é"+v[1:], v[:len(v)-1]+"é")
		out = append(out, foldVariant(v))
	}
	if width > 0 {
		out = append(out, strings.Repeat("7", width), strings.Repeat("7", width+1), strings.Repeat("Z", width))
		if width > 1 {
			out = append(out, strings.Repeat("7", width-1))
		}
	}
	return out
}

// foldVariant replaces I, S, K by the non-ASCII runes whose upper or lower case they are (dotless i, long s, Kelvin sign).
func foldVariant(v string) string {
	return strings.NewReplacer("I", "ı", "S", "ſ", "K", "K").Replace(v)
}

func perturbInt(v int64) []int64 {
	return []int64{v - 1, v + 1, 0, -v, v * 10, v / 10, 1, 2, 3, 7, 9, 10, 20, 99, 100, 123, 1000, -1}
}

func uniqStr(l []string) []string {
	seen := map[string]bool{}
	var out []string
	for _, x := range l {
		if !seen[x] {
			seen[x] = true
			out = append(out, x)
		}
	}
	return out
}

func uniqInt(l []int64) []int64 {
	seen := map[int64]bool{}
	var out []int64
	for _, x := range l {
		if !seen[x] {
			seen[x] = true
			out = append(out, x)
		}
	}
	return out
}

// ---------------------------------------------------------------- generated files

func genOpts(i int) gen.Opts {
	o := gen.Opts{Addenda: true}
	switch i % 5 {
	case 1:
		o.Returns, o.NOC = true, true
	case 2:
		o.IAT = true
	case 3:
		o.NonASCII = true
	case 4:
		o.Returns, o.NOC, o.IAT = true, true, true
	}
	return o
}

func genFile(r *rng.R, i int) (*ach.File, string) {
	secs := append(gen.AllSECs(), "IAT", "ADV", "COR")
	sec := secs[i%len(secs)]
	return fileOfSEC(r, sec, genOpts(i/len(secs))), sec
}

// fileOfSEC: gen.FileOfSEC gives up with a panic when the library (possibly changed) refuses everything it builds.
func fileOfSEC(r *rng.R, sec string, o gen.Opts) (f *ach.File) {
	defer func() {
		if e := recover(); e != nil {
			f = nil
		}
	}()
	return gen.FileOfSEC(r, sec, o)
}

// ---------------------------------------------------------------- correspondence

func subFlags(e any, subs []string) string {
	v := reflect.ValueOf(e).Elem()
	var parts []string
	for _, s := range subs {
		f := v.FieldByName(strings.TrimPrefix(s, "#"))
		n := 0
		if f.IsValid() {
			switch f.Kind() {
			case reflect.Ptr:
				if !f.IsNil() {
					n = 1
				}
			case reflect.Slice:
				n = f.Len()
			}
		}
		parts = append(parts, fmt.Sprintf("%s=i:%d", s, n))
	}
	return strings.Join(parts, " ")
}

func safeBatchValidate(v interface{ Validate() error }) (verdict string) {
	defer func() {
		if e := recover(); e != nil {
			verdict = "PANIC"
		}
	}()
	if err := v.Validate(); err != nil {
		return "REJ"
	}
	return "ACC"
}

func corr(args []string) {
	fs := flag.NewFlagSet("corr", flag.ExitOnError)
	out := fs.String("out", "", "output directory")
	planPath := fs.String("plan", "", "plan printed by the OCaml driver")
	n := fs.Int("n", 60, "generated files")
	perType := fs.Int("per-type", 3, "base records per record type")
	fs.Parse(args)
	p := readPlan(*planPath)
	cases := hx.Create(filepath.Join(*out, "cases.txt"))
	impl := hx.Create(filepath.Join(*out, "impl.txt"))
	r := rng.FromEnv(2102)
	bases := map[string]int{}
	total, batchCases := 0, 0
	dist := map[string]int{}
	emit := func(rec recs.Record, tn, varied string) {
		cases.Printf("V %s %s %s\n", tn, varied, recs.Dump(rec))
		v := validate(rec)
		impl.Printf("%s\n", v)
		dist[tn+":"+v]++
		total++
	}
	// every record type of the plan needs at least one valid base record: rare types (contested / dishonored
	// returns, refused NOCs) may not turn up in the first n files of a seed, so the loop goes on (bounded)
	// until each type has one
	lacking := func() bool {
		for tn := range p.Fields {
			if bases[tn] == 0 {
				return true
			}
		}
		return false
	}
	for i := 0; i < *n || (lacking() && i < 40**n); i++ {
		f, _ := genFile(r, i)
		if f == nil {
			continue
		}
		for _, rec := range records(f) {
			tn := typeName(rec)
			if bases[tn] >= *perType || !defaultOpts(rec) || validate(rec) != "ACC" {
				continue
			}
			bases[tn]++
			emit(rec, tn, "-")
			for _, pf := range p.Fields[tn] {
				fv, ok := field(rec, pf.Name)
				if !ok {
					continue
				}
				switch fv.Kind() {
				case reflect.String:
					old := fv.String()
					cand := append(append([]string{}, pf.Strs...), perturbStr(old, pf.Width)...)
					for _, m := range pf.Strs { // case variants of the accepted values (strings.ToUpper comparisons)
						cand = append(cand, strings.ToLower(m), foldVariant(m), m+" ", " "+m)
					}
					for _, v := range uniqStr(cand) {
						if v == old {
							continue
						}
						fv.SetString(v)
						emit(rec, tn, pf.Name)
					}
					fv.SetString(old)
				case reflect.Int:
					old := fv.Int()
					for _, v := range uniqInt(append(append([]int64{}, pf.Ints...), perturbInt(old)...)) {
						if v == old {
							continue
						}
						fv.SetInt(v)
						emit(rec, tn, pf.Name)
					}
					fv.SetInt(old)
				}
			}
		}
		// batch level: the addenda record indicator of one entry per batch; the case lists every entry of the
		// batch in order (the loop of IATBatch.isAddendaSequence stops inspecting at the first correction entry)
		indicators := []int{0, 1, 2, 7, 9, 10, -1}
		for _, b := range f.Batches {
			es := b.GetEntries()
			if f.IsADV() || len(es) == 0 {
				continue
			}
			k := r.Intn(len(es))
			old := es[k].AddendaRecordIndicator
			for _, v := range indicators {
				es[k].AddendaRecordIndicator = v
				var parts []string
				for _, e := range es {
					parts = append(parts, fmt.Sprintf("AddendaRecordIndicator=i:%d %s", e.AddendaRecordIndicator, subFlags(e, p.Subs["EntryDetail"])))
				}
				cases.Printf("B EntryDetail %d %s\n", k, strings.Join(parts, " | "))
				impl.Printf("%s\n", safeBatchValidate(b))
				total++
				batchCases++
			}
			es[k].AddendaRecordIndicator = old
		}
		for j := range f.IATBatches {
			b := &f.IATBatches[j]
			es := b.GetEntries()
			if len(es) == 0 {
				continue
			}
			k := r.Intn(len(es))
			old := es[k].AddendaRecordIndicator
			for _, v := range indicators {
				es[k].AddendaRecordIndicator = v
				var parts []string
				for _, e := range es {
					parts = append(parts, fmt.Sprintf("AddendaRecordIndicator=i:%d %s", e.AddendaRecordIndicator, subFlags(e, p.Subs["IATEntryDetail"])))
				}
				cases.Printf("B IATEntryDetail %d %s\n", k, strings.Join(parts, " | "))
				impl.Printf("%s\n", safeBatchValidate(b))
				total++
				batchCases++
			}
			es[k].AddendaRecordIndicator = old
		}
	}
	cases.Close()
	impl.Close()
	var missing []string
	for _, tn := range recs.Names {
		if bases[tn] == 0 {
			missing = append(missing, tn)
		}
	}
	b, _ := json.Marshal(map[string]any{"cases": total, "batch_cases": batchCases, "record_types_without_base": missing, "bases": bases})
	fmt.Println(string(b))
}

// ---------------------------------------------------------------- oracle

type fail struct {
	Kind string `json:"kind"`
	Key  string `json:"key"`
	What string `json:"what"`
	Case dcase  `json:"case"`
}

type summary struct {
	Kind        string           `json:"kind"`
	Evaluations int              `json:"evaluations"`
	Distinct    int              `json:"distinct_nontrivial"`
	Rule        string           `json:"rule"`
	Dist        map[string]int   `json:"distribution"`
	Samples     []map[string]any `json:"samples"`
}

type setting struct {
	Type  string `json:"type"`
	Field string `json:"field"`
	S     string `json:"s,omitempty"`
	I     int64  `json:"i,omitempty"`
	IsInt bool   `json:"int,omitempty"`
}

// directed case: a generated file of the given SEC (fixed seed), the first record of each named type changed.
type dcase struct {
	Source   string    `json:"source"`
	Name     string    `json:"name"`
	SEC      string    `json:"sec"`
	Opt      int       `json:"opt"`
	Seed     uint64    `json:"seed"`
	Set      []setting `json:"set"`
	Recreate bool      `json:"recreate,omitempty"`
	InWidth  bool      `json:"in_width"`
	Note     string    `json:"note,omitempty"`
}

func safeText(f *ach.File) (s string, err error) {
	defer func() {
		if r := recover(); r != nil {
			err = fmt.Errorf("panic: %v", r)
		}
	}()
	return gen.Text(f, false)
}

// rdfiWithCheckDigit0: an 8 digit routing prefix whose check digit is 0.
func rdfiWithCheckDigit0() string {
	for n := 7100000; n < 7200000; n++ {
		s := fmt.Sprintf("%08d", n)
		if ach.CalculateCheckDigit(s) == 0 {
			return s
		}
	}
	return "00000000"
}

func recreate(f *ach.File) (err error) {
	defer func() {
		if r := recover(); r != nil {
			err = fmt.Errorf("panic: %v", r)
		}
	}()
	for _, b := range f.Batches {
		if err := b.Create(); err != nil {
			return err
		}
	}
	for k := range f.IATBatches {
		if err := f.IATBatches[k].Create(); err != nil {
			return err
		}
	}
	return f.Create()
}

// apply sets the fields of the first record of each named type; false when a type or field is absent.
func apply(f *ach.File, set []setting) bool {
	rs := records(f)
	for _, st := range set {
		done := false
		for _, rec := range rs {
			if typeName(rec) != st.Type {
				continue
			}
			fv, ok := field(rec, st.Field)
			if !ok {
				return false
			}
			switch fv.Kind() {
			case reflect.String:
				v := st.S
				if v == "$rdfi-check0" {
					v = rdfiWithCheckDigit0()
				}
				if strings.HasPrefix(v, "$prefix:") { // the current value with a prefix, e.g. check digit "4" -> "04"
					v = strings.TrimPrefix(v, "$prefix:") + fv.String()
				}
				fv.SetString(v)
			case reflect.Int:
				fv.SetInt(st.I)
			default:
				return false
			}
			done = true
			break
		}
		if !done {
			return false
		}
	}
	return true
}

// widths: (record number, first column, characters) of every record that is not 94 characters long.
func badLines(text string) (out []string, types []string) {
	for i, l := range strings.Split(strings.TrimSuffix(text, "\n"), "\n") {
		if n := utf8.RuneCountInString(l); n != 94 {
			t := "?"
			if len(l) > 0 {
				t = l[:1]
			}
			out = append(out, fmt.Sprintf("record %d (type %s) has %d characters: %q", i+1, t, n, l))
			types = append(types, t)
		}
	}
	return
}

func classify(st setting, width int) string {
	n := utf8.RuneCountInString(st.S)
	if st.IsInt {
		n = len(strconv.FormatInt(st.I, 10))
	}
	switch {
	case width < 0:
		return "other"
	case n == 0:
		return "empty"
	case n < width:
		return "short"
	case n == width:
		return "full"
	}
	return "long"
}

func runCase(c dcase, p *plan) (f *fail, status string, detail string) {
	// the first seed (of a few) whose generated file contains the record types of the case
	var file *ach.File
	for k := uint64(0); k < 40; k++ {
		g := fileOfSEC(rng.New(c.Seed+k), c.SEC, genOpts(c.Opt))
		if g != nil && apply(g, c.Set) {
			file = g
			break
		}
	}
	if file == nil {
		return nil, "not-applicable", ""
	}
	// C02's first domain is "built through the public constructors + Create": tabulate again after the change
	// (Batch.Create as well when the case says so: it re-derives the computed fields and validates the batch)
	if c.Recreate {
		if err := recreate(file); err != nil {
			return nil, "create-refused", err.Error()
		}
	} else if err := safeCreate(file); err != nil {
		return nil, "create-refused", err.Error()
	}
	text, err := safeText(file)
	if err != nil {
		return nil, "write-refused", err.Error()
	}
	bad, _ := badLines(text)
	if len(bad) == 0 {
		return nil, "written-ok", ""
	}
	if !c.InWidth {
		return nil, "written-bad-width(out-of-scope)", bad[0]
	}
	st := c.Set[len(c.Set)-1]
	w := -1
	for _, pf := range p.Fields[st.Type] {
		if pf.Name == st.Field {
			w = pf.Width
		}
	}
	key := fmt.Sprintf("c02:valid-width:%s.%s:%s", st.Type, st.Field, classify(st, w))
	what := "the validating writer accepted in-width field values and wrote: " + bad[0]
	// root cause known under C03: File.ValidateWith validates f.Batches of a non-ADV file only; an IAT batch
	// or the batches of an ADV file are written without their own Validate() having run
	if gap := unvalidatedBatch(file); gap != "" {
		key = "c02:valid-width:" + gap
		what = "File.Validate does not run the Validate() of this batch (which rejects it); " + what
	}
	return &fail{Kind: "fail", Key: key, What: what, Case: c}, "written-bad-width", bad[0]
}

func safeCreate(f *ach.File) (err error) {
	defer func() {
		if r := recover(); r != nil {
			err = fmt.Errorf("panic: %v", r)
		}
	}()
	return f.Create()
}

// unvalidatedBatch names the validation gap when some batch of the file is rejected by its own Validate()
// although File.Validate() accepted the file.
func unvalidatedBatch(f *ach.File) string {
	if f.IsADV() {
		for _, b := range f.Batches {
			if safeBatchValidate(b) != "ACC" {
				return "adv-batch-not-validated"
			}
		}
		return ""
	}
	for k := range f.IATBatches {
		if safeBatchValidate(&f.IATBatches[k]) != "ACC" {
			return "iat-batch-not-validated"
		}
	}
	return ""
}

func corpusCases(dir string) []dcase {
	var out []dcase
	if dir == "" {
		return out
	}
	names, _ := filepath.Glob(filepath.Join(dir, "*.json"))
	sort.Strings(names)
	for _, n := range names {
		b, err := os.ReadFile(n)
		if err != nil {
			continue
		}
		var one struct {
			Input dcase   `json:"input"`
			Cases []dcase `json:"cases"`
		}
		if json.Unmarshal(b, &one) != nil {
			continue
		}
		if one.Input.Source == "valid-width" {
			out = append(out, one.Input)
		}
		for _, c := range one.Cases {
			if c.Source == "valid-width" {
				out = append(out, c)
			}
		}
	}
	return out
}

var inWidthAlphabet = []string{"0", "1", "2", "5", "7", "9", "A", "C", "R", "P", "D", " ", "é", "+", "-"}

func randomInWidth(r *rng.R, pf planField, isInt bool) setting {
	st := setting{Field: pf.Name, IsInt: isInt}
	if isInt {
		if len(pf.Ints) > 0 && r.Chance(1, 3) {
			st.I = rng.Pick(r, pf.Ints)
			if st.I < 0 {
				st.I = 0
			}
		} else {
			digits := r.Range(1, pf.Width)
			max := int64(1)
			for k := 0; k < digits; k++ {
				max *= 10
			}
			st.I = int64(r.U64() % uint64(max))
		}
		if len(strconv.FormatInt(st.I, 10)) > pf.Width {
			st.I = 0
		}
		return st
	}
	if len(pf.Strs) > 0 && r.Chance(1, 3) {
		st.S = rng.Pick(r, pf.Strs)
	} else {
		k := r.Range(0, pf.Width)
		var b strings.Builder
		for j := 0; j < k; j++ {
			b.WriteString(rng.Pick(r, inWidthAlphabet))
		}
		st.S = b.String()
	}
	if utf8.RuneCountInString(st.S) > pf.Width {
		st.S = ""
	}
	return st
}

func oracle(args []string) {
	fs := flag.NewFlagSet("oracle", flag.ExitOnError)
	out := fs.String("out", "", "output directory")
	planPath := fs.String("plan", "", "plan printed by the OCaml driver")
	n := fs.Int("n", 400, "random in-width cases")
	corpus := fs.String("corpus", "", "corpus directory")
	fs.Parse(args)
	p := readPlan(*planPath)
	res := hx.Create(filepath.Join(*out, "oracle.jsonl"))
	enc := func(v any) {
		b, _ := json.Marshal(v)
		res.Printf("%s\n", b)
	}
	sum := summary{Kind: "summary", Dist: map[string]int{}, Rule: "valid => width on the real code: a generated valid file, the raw / Itoa / custom-rendered columns of one record set to IN-WIDTH values (directed corpus cases, members of the accepted sets, random strings of at most the column width, integers of at most that many digits; exported fields only), written with the validating writer; a successful write must give 94-character records; non-trivial = the writer accepted the changed file; distinct by (record type, field, value); out-of-width witnesses of the unbounded columns are replayed and reported as samples only"}
	seen := map[string]bool{}
	note := func(c dcase, status, detail string) {
		sum.Evaluations++
		sum.Dist[status]++
		if strings.HasPrefix(status, "written") {
			st := c.Set[len(c.Set)-1]
			k := fmt.Sprintf("%s.%s=%q/%d", st.Type, st.Field, st.S, st.I)
			if !seen[k] {
				seen[k] = true
				sum.Distinct++
			}
		}
	}
	for _, c := range corpusCases(*corpus) {
		f, status, detail := runCase(c, p)
		note(c, "directed:"+status, detail)
		if f != nil {
			enc(f)
		}
		if len(sum.Samples) < 40 {
			sum.Samples = append(sum.Samples, map[string]any{"directed": c.Name, "in_width": c.InWidth, "status": status, "detail": detail})
		}
	}
	r := rng.FromEnv(2103)
	secs := append(gen.AllSECs(), "IAT", "ADV", "COR")
	for i := 0; i < *n; i++ {
		c := dcase{Source: "valid-width", Name: "random", SEC: secs[i%len(secs)], Opt: r.Intn(5), Seed: r.U64(), InWidth: true}
		file := fileOfSEC(rng.New(c.Seed), c.SEC, genOpts(c.Opt))
		if file == nil {
			sum.Dist["generator-gave-up"]++
			continue
		}
		rs := records(file)
		// pick a record that has a column field, then one of its column fields
		var cands []recs.Record
		for _, rec := range rs {
			for _, pf := range p.Fields[typeName(rec)] {
				if pf.Column && pf.Width > 0 && exported(rec, pf.Name) {
					cands = append(cands, rec)
					break
				}
			}
		}
		if len(cands) == 0 {
			continue
		}
		rec := cands[r.Intn(len(cands))]
		tn := typeName(rec)
		var cols []planField
		for _, pf := range p.Fields[tn] {
			if pf.Column && pf.Width > 0 && exported(rec, pf.Name) {
				cols = append(cols, pf)
			}
		}
		pf := cols[r.Intn(len(cols))]
		fv, _ := field(rec, pf.Name)
		st := randomInWidth(r, pf, fv.Kind() == reflect.Int)
		st.Type = tn
		// the directed machinery changes the FIRST record of the type: good enough, the file is regenerated from the seed
		c.Set = []setting{st}
		f, status, detail := runCase(c, p)
		note(c, status, detail)
		sum.Dist["field:"+tn+"."+pf.Name]++
		if f != nil {
			enc(f)
		}
	}
	enc(sum)
	res.Close()
}

func replay(args []string) {
	if len(args) < 1 {
		os.Exit(2)
	}
	b, err := os.ReadFile(args[0])
	if err != nil {
		fmt.Fprintln(os.Stderr, err)
		os.Exit(2)
	}
	var rp struct {
		Input dcase `json:"input"`
	}
	if json.Unmarshal(b, &rp) != nil || rp.Input.Source != "valid-width" {
		fmt.Println("not a valid-width case")
		return
	}
	plan := &plan{Fields: map[string][]planField{}}
	if len(args) > 1 {
		plan = readPlan(args[1])
	}
	f, status, detail := runCase(rp.Input, plan)
	fmt.Println(status, detail)
	if f != nil {
		fmt.Println(f.Key, f.What)
		os.Exit(1)
	}
}

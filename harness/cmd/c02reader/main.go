// Command c02reader: correspondence and oracle for C02_reader_domain (Props/C02Reader.v).
//
// For arbitrary texts (the generators of harness/cmd/c02 domain 2 — fixtures, mutated valid texts, byte
// noise — plus directed changes of the columns the theorem talks about) the REAL default reader is run; when
// it accepts, the REAL Writer writes the returned file.  The extracted model (ocaml/c02reader) reads the same
// text with ReaderValid.read_text_valid and writes its tree with Dispatch.write_file_padded; the two line
// lists must be equal line by line.  The oracle part measures the real output directly (94 characters,
// valid UTF-8, blocks of ten, filler, record order) and replays the witnesses of corpus/C02/reader-domain.json.
//
//	run    -out dir -n files -ntext texts -repo repo -corpus dir     cases.txt impl.txt desc.txt oracle.jsonl
//	replay file
package main

import (
	"bytes"
	"encoding/json"
	"flag"
	"fmt"
	"io"
	"os"
	"path/filepath"
	"strings"
	"unicode/utf8"

	"github.com/moov-io/ach"
	"golang.org/x/net/html/charset"

	"verifharness/internal/gen"
	"verifharness/internal/hx"
	"verifharness/internal/rng"
)

func main() {
	if len(os.Args) < 2 {
		fmt.Fprintln(os.Stderr, "usage: c02reader run|replay ...")
		os.Exit(2)
	}
	switch os.Args[1] {
	case "run":
		run(os.Args[2:])
	case "replay":
		replay(os.Args[2:])
	default:
		os.Exit(2)
	}
}

var nines = strings.Repeat("9", 94)

type fail struct {
	Kind string         `json:"kind"`
	Key  string         `json:"key"`
	What string         `json:"what"`
	Case map[string]any `json:"case"`
}

type summary struct {
	Kind        string           `json:"kind"`
	Evaluations int              `json:"evaluations"`
	Distinct    int              `json:"distinct_nontrivial"`
	Rule        string           `json:"rule"`
	Dist        map[string]int   `json:"distribution"`
	Samples     []map[string]any `json:"samples"`
}

// lingering: a batch that was added without its control record having been read, or an IAT batch still
// open when the input ended (as in harness/cmd/c01valid).
func lingering(r *ach.Reader, f *ach.File) bool {
	for _, b := range f.Batches {
		if h := b.GetHeader(); h != nil && h.StandardEntryClassCode == ach.ADV {
			if c := b.GetADVControl(); c == nil || c.LineNumber == 0 {
				return true
			}
		} else if c := b.GetControl(); c == nil || c.LineNumber == 0 {
			return true
		}
	}
	return r.IATCurrentBatch.Header != nil
}

type obs struct {
	tag   string // REJ | LINGER | WERR | W | PANIC
	timed bool
	lines []string
	werr  string
}

// observe: the real default reader, then the real default Writer (LF) on the file it returned.
// The model (Codec/Framing.v) is the reader on a text declared as UTF-8: bufio.ScanRunes on the bytes, an
// invalid byte is U+FFFD.  ach.NewReader sniffs the character set first (charset.NewReader: bytes that are not
// UTF-8 are decoded as windows-1252) — with sniff the text goes through that decoder, which is outside the model;
// its output is valid UTF-8, the domain of C02_reader_domain_lines.
func observe(text string, sniff bool) (o obs) {
	defer func() {
		if e := recover(); e != nil {
			o = obs{tag: "PANIC", werr: fmt.Sprint(e)}
		}
	}()
	var r *ach.Reader
	if sniff {
		r = ach.NewReader(strings.NewReader(text))
	} else {
		r = ach.NewReaderWithContentType(strings.NewReader(text), "text/plain; charset=utf-8")
	}
	f, err := r.Read()
	if err != nil {
		return obs{tag: "REJ"}
	}
	if lingering(r, &f) {
		o.tag = "LINGER"
		var buf bytes.Buffer
		if err := ach.NewWriter(&buf).Write(&f); err != nil {
			o.werr = err.Error()
		}
		return o
	}
	var buf bytes.Buffer
	if err := ach.NewWriter(&buf).Write(&f); err != nil {
		return obs{tag: "WERR", werr: err.Error()}
	}
	out := buf.String()
	o.tag = "W"
	o.timed = f.Header.FileCreationTime != ""
	o.lines = strings.Split(strings.TrimSuffix(out, "\n"), "\n")
	return o
}

// decoded: what charset.NewReader (the first thing NewReaderWithContentType does) makes of a text that is not
// UTF-8 — the bytes the framing then sees.  With "text/plain" the character set is sniffed (windows-1252 for such a
// text); with charset=utf-8 the decoder of golang.org/x/text replaces ill-formed input by U+FFFD, ONE for a
// truncated multi-byte prefix (F2 97 followed by a blank), where bufio.ScanRunes alone would give one per byte.
func decoded(text, contentType string) (out string, ok bool) {
	defer func() {
		if recover() != nil {
			ok = false
		}
	}()
	rr, err := charset.NewReader(strings.NewReader(text), contentType)
	if err != nil || rr == nil {
		return "", false
	}
	b, err := io.ReadAll(rr)
	if err != nil {
		return "", false
	}
	return string(b), true
}

// clock: what FileCreationTimeField() wrote when the header holds no creation time ("-" otherwise).
func clock(o obs) string {
	if o.tag != "W" || o.timed || len(o.lines) == 0 {
		return "-"
	}
	rs := []rune(o.lines[0])
	if len(rs) < 33 {
		return "-"
	}
	return hx.Enc(string(rs[29:33]))
}

// physical: the real output measured directly.
func physical(lines []string) (key, what string) {
	for i, l := range lines {
		if strings.ContainsAny(l, "\r\n") {
			return "c02:reader-domain:line-ending", fmt.Sprintf("line %d contains a stray CR/LF", i+1)
		}
		if n := utf8.RuneCountInString(l); n != 94 || !utf8.ValidString(l) {
			t := "?"
			if len(l) > 0 {
				t = l[:1]
			}
			if len(l) > 2 && t == "7" {
				t = "7" + l[1:3]
			}
			return "c02:reader-domain:line-width:" + t, fmt.Sprintf("record %d has %d characters (valid UTF-8: %v): %q", i+1, n, utf8.ValidString(l), l)
		}
	}
	if len(lines)%10 != 0 {
		return "c02:reader-domain:blocking", fmt.Sprintf("%d records, not a multiple of ten", len(lines))
	}
	state := "start"
	for i, l := range lines {
		t := l[0]
		ok := true
		switch state {
		case "start":
			ok = t == '1'
			state = "file"
		case "file":
			switch t {
			case '5':
				state = "batch"
			case '9':
				state = "done"
			default:
				ok = false
			}
		case "batch":
			switch t {
			case '6':
				state = "entry"
			case '8':
				state = "file"
			default:
				ok = false
			}
		case "entry":
			switch t {
			case '6', '7':
			case '8':
				state = "file"
			default:
				ok = false
			}
		case "done":
			if l != nines {
				return "c02:reader-domain:filler", fmt.Sprintf("record %d after the file control is not all-9 filler", i+1)
			}
		}
		if !ok {
			return "c02:reader-domain:order", fmt.Sprintf("record %d of type %c not allowed here (%s)", i+1, t, state)
		}
	}
	if state != "done" {
		return "c02:reader-domain:order", "no file control record"
	}
	return "", ""
}

func genOpts(i int) gen.Opts {
	o := gen.Opts{Addenda: true}
	switch i % 6 {
	case 1:
		o.Returns, o.NOC = true, true
	case 2:
		o.IAT = true
	case 3:
		o.NonASCII = true
	case 4:
		o.NonASCII, o.Returns, o.NOC, o.IAT = true, true, true, true
	case 5:
		o.Offset = true
		o.MaxBatches, o.MaxEntries = 5, 7
	}
	return o
}

func genFile(r *rng.R, i int) (f *ach.File, sec string) {
	defer func() {
		if recover() != nil {
			f = nil
		}
	}()
	o := genOpts(i)
	secs := append(gen.AllSECs(), "IAT", "ADV")
	if i%3 == 0 {
		sec := secs[(i/3)%len(secs)]
		return gen.FileOfSEC(r, sec, o), sec
	}
	return gen.File(r, o), "mixed"
}

func setCols(l string, lo int, s string) string {
	rs := []rune(l)
	ss := []rune(s)
	if lo+len(ss) > len(rs) {
		return l
	}
	copy(rs[lo:], ss)
	return string(rs)
}

func indices(ls []string, prefix string) []int {
	var out []int
	for i, l := range ls {
		if strings.HasPrefix(l, prefix) && utf8.RuneCountInString(l) == 94 {
			out = append(out, i)
		}
	}
	return out
}

// directed changes of the columns the theorem talks about (one per call)
func directed(r *rng.R, ls []string, k int) ([]string, string) {
	out := append([]string{}, ls...)
	pick := func(prefix string) int {
		ix := indices(out, prefix)
		if len(ix) == 0 {
			return -1
		}
		return ix[r.Intn(len(ix))]
	}
	switch k % 14 {
	case 12: // short lines with CR LF / lone CR line ends: the reader cuts at CR as well as at LF
		for i := range out {
			if r.Intn(2) == 0 {
				out[i] = strings.TrimRight(out[i], " ")
			}
		}
		if r.Intn(2) == 0 {
			out[len(out)-1] += "\r"
			return []string{strings.Join(out, "\r\n")}, "trailing blanks trimmed, CR LF"
		}
		return []string{strings.Join(out, "\r")}, "trailing blanks trimmed, CR"
	case 13: // a CR in the middle of a record: the record is cut there
		if i := pick(rng.Pick(r, []string{"6", "7", "5"})); i >= 0 {
			lo := 20 + r.Intn(70)
			out[i] = setCols(out[i], lo, "\r")
			return out, fmt.Sprintf("CR at column %d of a record", lo+1)
		}
	case 0: // creation time no time: Parse keeps "", no rule rejects, FileCreationTimeField formats the clock
		v := rng.Pick(r, []string{"9999", "2460", "    ", "12 4", "ab:d", "１２３４", "2959", "0000"})
		out[0] = setCols(out[0], 29, v)
		return out, "header creation time := " + v
	case 1: // creation date no date: Parse keeps "", fieldInclusion rejects
		v := rng.Pick(r, []string{"999999", "250230", "      ", "-21123", "+21123", "000101"})
		out[0] = setCols(out[0], 23, v)
		return out, "header creation date := " + v
	case 2: // 798 records: the IAT extension of the corrected data, the reserved columns around it
		if i := pick("798"); i >= 0 {
			v := rng.Pick(r, []string{"IATX1 ", "é1    ", "     Z", "      "})
			lo := rng.Pick(r, []int{64, 64, 64, 21, 70})
			out[i] = setCols(out[i], lo, v)
			return out, fmt.Sprintf("798 record columns %d.. := %q", lo+1, v)
		}
	case 3: // check digit column of an entry
		if i := pick("6"); i >= 0 {
			v := rng.Pick(r, []string{" ", "+", "é", "٣", "x", "0", "9"})
			out[i] = setCols(out[i], 11, v)
			return out, "entry check digit := " + v
		}
	case 4: // addenda record indicator column
		if i := pick("6"); i >= 0 {
			v := rng.Pick(r, []string{" ", "0", "1", "2", "9", "-", "é"})
			out[i] = setCols(out[i], 78, v)
			return out, "entry addenda indicator := " + v
		}
	case 5: // a name / free text column of an entry or an addenda record: stays valid
		if i := pick(rng.Pick(r, []string{"6", "705", "6", "5"})); i >= 0 {
			lo := 54 + r.Intn(20)
			if strings.HasPrefix(out[i], "7") {
				lo = 3 + r.Intn(70)
			} else if strings.HasPrefix(out[i], "5") {
				lo = 4 + r.Intn(30)
			}
			v := rng.Pick(r, []string{"A", "z", "7", " ", "é", "Ω", "-"})
			out[i] = setCols(out[i], lo, v)
			return out, fmt.Sprintf("free text column %d := %q", lo+1, v)
		}
	case 6: // priority code, record size, blocking factor, format code columns of the header: Parse ignores them
		lo := rng.Pick(r, []int{1, 2, 34, 35, 36, 37, 38, 39})
		v := rng.Pick(r, []string{"7", " ", "é", "A"})
		out[0] = setCols(out[0], lo, v)
		return out, fmt.Sprintf("header constant column %d := %q", lo+1, v)
	case 7: // reserved columns of the file control / batch control
		if i := pick(rng.Pick(r, []string{"8", "90", "91", "8"})); i >= 0 {
			lo := 55 + r.Intn(39)
			if strings.HasPrefix(out[i], "8") {
				lo = 73 + r.Intn(6)
			}
			out[i] = setCols(out[i], lo, rng.Pick(r, []string{"X", "é", "1"}))
			return out, fmt.Sprintf("control record column %d changed", lo+1)
		}
	case 8: // drop the trailing blanks of some lines (short lines are padded by the reader)
		for i := range out {
			if r.Intn(2) == 0 {
				out[i] = strings.TrimRight(out[i], " ")
			}
		}
		return out, "trailing blanks trimmed"
	case 9: // fillers removed / added
		var nof []string
		for _, l := range out {
			if l != nines {
				nof = append(nof, l)
			}
		}
		if r.Intn(2) == 0 {
			return nof, "fillers removed"
		}
		return append(out, nines, nines, nines), "three more fillers"
	case 10: // immediate origin / destination columns
		lo := rng.Pick(r, []int{3, 13})
		v := rng.Pick(r, []string{"0", " ", "1", "é"})
		out[0] = setCols(out[0], lo+r.Intn(10), v)
		return out, "header routing column := " + v
	case 11: // a batch control record removed: the batch is never closed
		if i := pick("8"); i >= 0 {
			return append(out[:i:i], out[i+1:]...), "batch control removed"
		}
	}
	return out, "as written"
}

func mutateText(r *rng.R, s string) string {
	rs := []rune(s)
	if len(rs) == 0 {
		return s
	}
	k := r.Range(1, 4)
	pool := []rune{' ', '0', '1', '5', '9', 'A', 'z', 'é', 'I', 'T'}
	for i := 0; i < k; i++ {
		p := r.Intn(len(rs))
		if rs[p] == '\n' || rs[p] == '\r' {
			continue
		}
		rs[p] = rng.Pick(r, pool)
	}
	return string(rs)
}

type witness struct {
	Name   string `json:"name"`
	Text   string `json:"text"`
	Expect string `json:"expect"` // clock | same | refused
}

func corpusWitnesses(dir string) []witness {
	var out []witness
	b, err := os.ReadFile(filepath.Join(dir, "reader-domain.json"))
	if err != nil {
		return out
	}
	var doc struct {
		Witnesses []witness `json:"witnesses"`
	}
	if json.Unmarshal(b, &doc) == nil {
		out = doc.Witnesses
	}
	return out
}

func isDigits(s string) bool {
	for _, c := range s {
		if c < '0' || c > '9' {
			return false
		}
	}
	return s != ""
}

func run(args []string) {
	fs := flag.NewFlagSet("run", flag.ExitOnError)
	out := fs.String("out", "", "output directory")
	n := fs.Int("n", 60, "generated files")
	ntext := fs.Int("ntext", 1700, "texts")
	repo := fs.String("repo", "/repo", "repository (fixtures)")
	corpus := fs.String("corpus", "", "corpus directory")
	fs.Parse(args)
	cases := hx.Create(filepath.Join(*out, "cases.txt"))
	impl := hx.Create(filepath.Join(*out, "impl.txt"))
	desc := hx.Create(filepath.Join(*out, "desc.txt"))
	res := hx.Create(filepath.Join(*out, "oracle.jsonl"))
	enc := func(v any) {
		b, _ := json.Marshal(v)
		res.Printf("%s\n", b)
	}
	sum := summary{Kind: "summary", Dist: map[string]int{}, Rule: "texts: the witnesses of corpus/C02/reader-domain.json, the writer's output of generated files (every SEC, IAT, ADV, returns/NOC, non-ASCII; LF / CRLF / no final newline), directed changes of the columns C02_reader_domain talks about, fixtures, random character changes and byte noise; each read by ach.NewReader(...).Read() with default options; when the reader accepts, the returned file is written by ach.NewWriter and the output measured (94 characters of valid UTF-8, blocks of ten, filler, record order); non-trivial = the reader accepted and the writer wrote; distinct by output text"}
	seen := map[string]bool{}
	total := 0
	nonUTF8 := 0
	emit := func(text, what string) {
		var o obs
		if !utf8.ValidString(text) {
			// a text that is not UTF-8 reaches the framing through a decoder: alternately the sniffing constructor
			// (ach.NewReader) and the declared-UTF-8 one; the model reads what the real decoder delivers —
			// C02_reader_domain holds of every byte string, in particular of that (C02_reader_domain_decoded)
			nonUTF8++
			sniff := nonUTF8%2 == 0
			ct := "text/plain; charset=utf-8"
			if sniff {
				ct = "text/plain"
			}
			o = observe(text, sniff)
			if dt, ok := decoded(text, ct); ok && utf8.ValidString(dt) {
				text = dt
				if sniff {
					what += " (sniffed character set, decoded)"
					sum.Dist["not-utf8-sniffed-"+strings.ToLower(o.tag)]++
				} else {
					what += " (declared UTF-8, decoded)"
					sum.Dist["not-utf8-declared-"+strings.ToLower(o.tag)]++
				}
			} else {
				sum.Dist["not-utf8-decoder-failed"]++
			}
		} else {
			o = observe(text, false)
		}
		total++
		sum.Evaluations++
		cases.Printf("T %s %s\n", hx.Enc(text), clock(o))
		d := what
		if len(d) > 200 {
			d = d[:200]
		}
		desc.Printf("%s\n", strings.ReplaceAll(d, "\n", " "))
		switch o.tag {
		case "W":
			t := "0"
			if o.timed {
				t = "1"
			}
			hs := make([]string, len(o.lines))
			for i, l := range o.lines {
				hs[i] = hx.Enc(l)
			}
			impl.Printf("W %s %s\n", t, strings.Join(hs, ","))
			sum.Dist["accepted-written"]++
			if !o.timed {
				sum.Dist["accepted-written-with-the-clock"]++
			}
			key := strings.Join(o.lines, "\n")
			if !seen[key] {
				seen[key] = true
				sum.Distinct++
			}
			if key, whatf := physical(o.lines); key != "" {
				enc(fail{"fail", key, whatf, map[string]any{"source": "reader-domain", "text": hx.Enc(text), "change": what}})
			}
			if len(sum.Samples) < 3 && total%211 == 0 {
				sum.Samples = append(sum.Samples, map[string]any{"change": what, "records": len(o.lines), "first": o.lines[0]})
			}
		case "WERR":
			impl.Printf("WERR\n")
			sum.Dist["accepted-writer-refused"]++
		case "LINGER":
			impl.Printf("LINGER\n")
			sum.Dist["accepted-unclosed-batch"]++
			if o.werr == "" {
				// a file with a batch that was never closed went through File.Validate: report, the theorem excludes it
				enc(fail{"fail", "c02:reader-domain:unclosed-batch-written", "the Writer wrote a file that holds a batch without control record", map[string]any{"source": "reader-domain", "text": hx.Enc(text), "change": what}})
			}
		case "PANIC":
			impl.Printf("PANIC\n")
			enc(fail{"fail", "c02:reader-domain:panic", o.werr, map[string]any{"source": "reader-domain", "text": hx.Enc(text), "change": what}})
		default:
			impl.Printf("REJ\n")
			sum.Dist["read-rejected"]++
		}
	}
	// 1. witnesses of the Coq file, on the real code
	for _, w := range corpusWitnesses(*corpus) {
		text := hx.Dec(w.Text)
		o := observe(text, true)
		bad := ""
		switch w.Expect {
		case "clock":
			if o.tag != "W" || o.timed {
				bad = fmt.Sprintf("expected: accepted with an empty creation time and written; observed %s timed=%v %s", o.tag, o.timed, o.werr)
			} else if rs := []rune(o.lines[0]); len(rs) != 94 || !isDigits(string(rs[29:33])) {
				bad = fmt.Sprintf("the header written with the clock is %q", o.lines[0])
			}
		case "same":
			if o.tag != "W" {
				bad = fmt.Sprintf("expected: accepted and written; observed %s %s", o.tag, o.werr)
			} else if got := strings.Join(o.lines, "\n") + "\n"; got != text {
				bad = "the text is not written back as it was read"
			}
		case "refused":
			if o.tag != "LINGER" || o.werr == "" {
				bad = fmt.Sprintf("expected: accepted with an unclosed batch, refused by the Writer; observed %s %q", o.tag, o.werr)
			}
		}
		sum.Dist["witness-"+w.Expect]++
		if bad != "" {
			enc(fail{"fail", "c02:reader-domain:witness:" + w.Name, bad, map[string]any{"source": "reader-domain", "text": w.Text, "witness": w.Name}})
		}
		emit(text, "witness "+w.Name)
	}
	// 2. generated files and directed changes
	r := rng.FromEnv(2026)
	var texts []string
	var lineLists [][]string
	for i := 0; i < *n; i++ {
		f, sec := genFile(r, i)
		if f == nil {
			continue
		}
		t, err := gen.Text(f, false)
		if err != nil {
			continue
		}
		texts = append(texts, t)
		ls := strings.Split(strings.TrimSuffix(t, "\n"), "\n")
		lineLists = append(lineLists, ls)
		switch i % 3 {
		case 0:
			emit(t, "as written "+sec)
		case 1:
			emit(strings.ReplaceAll(t, "\n", "\r\n"), "as written, CRLF "+sec)
		case 2:
			emit(strings.TrimSuffix(t, "\n"), "as written, no final newline "+sec)
		}
	}
	achFiles, _ := gen.Fixtures(*repo)
	nfix := 0
	for _, p := range achFiles {
		if b, err := os.ReadFile(p); err == nil && len(b) < 60000 {
			texts = append(texts, string(b))
			if nfix < 150 {
				emit(string(b), "fixture "+filepath.Base(p))
				nfix++
			}
		}
	}
	for k := 0; total < *ntext && len(lineLists) > 0; k++ {
		switch k % 8 {
		case 6: // random character changes
			emit(mutateText(r, texts[r.Intn(len(texts))]), "random characters")
		case 7: // byte noise
			b := []byte(texts[r.Intn(len(texts))])
			for j := 0; j < 1+r.Intn(4) && len(b) > 0; j++ {
				b[r.Intn(len(b))] = byte(r.Intn(256))
			}
			emit(string(b), "byte noise")
		default:
			ls, what := directed(r, lineLists[r.Intn(len(lineLists))], r.Intn(14))
			emit(strings.Join(ls, "\n")+"\n", what)
		}
	}
	enc(sum)
	cases.Close()
	impl.Close()
	desc.Close()
	res.Close()
	b, _ := json.Marshal(map[string]any{"cases": total, "distribution": sum.Dist})
	fmt.Println(string(b))
}

func replay(args []string) {
	if len(args) < 1 {
		os.Exit(2)
	}
	b, err := os.ReadFile(args[0])
	if err != nil {
		fmt.Fprintln(os.Stderr, err)
		os.Exit(2)
	}
	var rp struct {
		Input map[string]any `json:"input"`
	}
	if json.Unmarshal(b, &rp) != nil || rp.Input == nil {
		fmt.Println("replay file carries no input: nothing to run")
		return
	}
	t, _ := rp.Input["text"].(string)
	if t == "" {
		fmt.Println("replay file carries no text")
		return
	}
	sniffed, _ := rp.Input["sniffed"].(bool)
	o := observe(hx.Dec(t), sniffed || utf8.ValidString(hx.Dec(t)))
	switch o.tag {
	case "W":
		if key, what := physical(o.lines); key != "" {
			fmt.Println(key, what)
			os.Exit(1)
		}
		fmt.Printf("accepted and written: %d records, all 94 characters; no failure on this input\n", len(o.lines))
	case "LINGER":
		if o.werr == "" {
			fmt.Println("c02:reader-domain:unclosed-batch-written")
			os.Exit(1)
		}
		fmt.Println("accepted with an unclosed batch; the Writer refuses it:", o.werr)
	case "PANIC":
		fmt.Println("c02:reader-domain:panic", o.werr)
		os.Exit(1)
	default:
		fmt.Println(o.tag, o.werr)
	}
}

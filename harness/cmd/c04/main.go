// Command c04: direct oracle for property C04 (tampered or truncated files are never
// accepted as something else).  For every sampled valid file, written with
// ach.NewWriter: EVERY digit position of every integrity-protected column x the 9
// other digits, and EVERY truncation offset, through ach.NewReader(...).Read() and
// File.Validate().
package main

import (
	"encoding/json"
	"flag"
	"fmt"
	"os"
	"path/filepath"
	"sort"
	"strings"

	"github.com/moov-io/ach"

	"verifharness/internal/arith"
	"verifharness/internal/gen"
	"verifharness/internal/hx"
	"verifharness/internal/rng"
)

func main() {
	if len(os.Args) < 2 {
		fmt.Fprintln(os.Stderr, "usage: c04 oracle|replay ...")
		os.Exit(2)
	}
	switch os.Args[1] {
	case "oracle":
		oracle(os.Args[2:])
	case "replay":
		replay(os.Args[2:])
	default:
		fmt.Fprintln(os.Stderr, "unknown mode")
		os.Exit(2)
	}
}

type field struct {
	name   string
	lo, hi int
}

var (
	hdrFields      = []field{{"batch-header:odfi", 79, 87}, {"batch-header:batch-number", 87, 94}}
	entryFields    = []field{{"entry:rdfi", 3, 11}, {"entry:check-digit", 11, 12}, {"entry:amount", 29, 39}}
	advEntryFields = []field{{"adv-entry:rdfi", 3, 11}, {"adv-entry:check-digit", 11, 12}, {"adv-entry:amount", 27, 39}}
	bctlFields     = []field{{"batch-control:service-class", 1, 4}, {"batch-control:entry-count", 4, 10}, {"batch-control:hash", 10, 20},
		{"batch-control:debit", 20, 32}, {"batch-control:credit", 32, 44}, {"batch-control:odfi", 79, 87}, {"batch-control:batch-number", 87, 94}}
	advBctlFields = []field{{"adv-batch-control:service-class", 1, 4}, {"adv-batch-control:entry-count", 4, 10}, {"adv-batch-control:hash", 10, 20},
		{"adv-batch-control:debit", 20, 40}, {"adv-batch-control:credit", 40, 60}, {"adv-batch-control:odfi", 79, 87}, {"adv-batch-control:batch-number", 87, 94}}
	fctlFields    = []field{{"file-control:batch-count", 1, 7}, {"file-control:entry-count", 13, 21}, {"file-control:hash", 21, 31}, {"file-control:debit", 31, 43}, {"file-control:credit", 43, 55}}
	advFctlFields = []field{{"adv-file-control:batch-count", 1, 7}, {"adv-file-control:entry-count", 13, 21}, {"adv-file-control:hash", 21, 31}, {"adv-file-control:debit", 31, 51}, {"adv-file-control:credit", 51, 71}}
)

// protected lists, per line of the text, the protected columns.
func protected(lines []string) map[int][]field {
	out := map[int][]field{}
	sec := ""
	adv := false
	seenCtl := false
	for i, l := range lines {
		if len(l) < 94 {
			continue
		}
		switch l[0] {
		case '5':
			sec = l[50:53]
			if sec == "ADV" {
				adv = true
			}
			out[i] = hdrFields
		case '6':
			if sec == "ADV" {
				out[i] = advEntryFields
			} else {
				out[i] = entryFields
			}
		case '8':
			if sec == "ADV" {
				out[i] = advBctlFields
			} else {
				out[i] = bctlFields
			}
		case '9':
			if !seenCtl && l != strings.Repeat("9", 94) {
				seenCtl = true
				if adv {
					out[i] = advFctlFields
				} else {
					out[i] = fctlFields
				}
			}
		}
	}
	return out
}

// accepted reports whether text reads and validates; f is the parsed file.
func accepted(text string) (f *ach.File, ok bool) {
	var perr error
	err := arith.Safe(func() error {
		f, perr = gen.Parse(text)
		return nil
	})
	if err != nil || perr != nil || f == nil {
		return nil, false
	}
	if arith.Safe(f.Validate) != nil {
		return f, false
	}
	return f, true
}

type tcase struct {
	Seed    uint64 `json:"seed"`
	File    int    `json:"file"`
	Fixture string `json:"fixture,omitempty"`
	Mode    string `json:"mode"` // "tamper" / "truncate"
	Line    int    `json:"line,omitempty"`
	Col     int    `json:"col,omitempty"`
	Digit   string `json:"digit,omitempty"`
	Offset  int    `json:"offset,omitempty"`
	Field   string `json:"field,omitempty"`
	Source  string `json:"source,omitempty"`
}

type failRec struct {
	Kind string `json:"kind"`
	Key  string `json:"key"`
	What string `json:"what"`
	Case tcase  `json:"case"`
}

type summary struct {
	Kind        string         `json:"kind"`
	Evaluations int            `json:"evaluations"`
	Distinct    int            `json:"distinct_nontrivial"`
	Rule        string         `json:"rule"`
	Dist        map[string]int `json:"distribution"`
	Samples     []any          `json:"samples"`
	Exhaustive  bool           `json:"exhaustive_per_file"`
}

func repoDir() string {
	if v := os.Getenv("VERIF_REPO"); v != "" {
		return v
	}
	return "/repo"
}

// source returns the canonical text of a case's file ("" = not usable).
func source(c tcase) (string, string) {
	if c.Fixture != "" {
		bs, err := os.ReadFile(filepath.Join(repoDir(), c.Fixture))
		if err != nil {
			return "", "fixture missing"
		}
		f, ok := accepted(string(bs))
		if !ok {
			return "", "fixture not valid"
		}
		t, err := gen.Text(f, false)
		if err != nil {
			return "", "fixture not writable"
		}
		if g, ok := accepted(t); !ok || g == nil {
			return "", "fixture's written form not valid"
		}
		return t, "fixture"
	}
	f, what := arith.GenFile(c.Seed, c.File, true)
	if f == nil {
		return "", what
	}
	t, err := gen.Text(f, false)
	if err != nil {
		return "", "generated file not writable: " + err.Error()
	}
	if _, ok := accepted(t); !ok {
		return "", "generated file's text not accepted"
	}
	return t, what
}

func ascii(s string) bool {
	for i := 0; i < len(s); i++ {
		if s[i] >= 0x80 {
			return false
		}
	}
	return true
}

func tamperAt(lines []string, line, col int, d byte) string {
	cp := append([]string{}, lines...)
	bs := []byte(cp[line])
	bs[col] = d
	cp[line] = string(bs)
	return strings.Join(cp, "\n")
}

// checkTruncation: rejected, or parses to exactly the original.
func checkTruncation(text string, k int) (bool, string) {
	f, ok := accepted(text[:k])
	if !ok {
		return true, ""
	}
	t, err := gen.Text(f, false)
	if err == nil && t == text {
		return true, "same"
	}
	return false, fmt.Sprintf("first %d of %d bytes read and validate as a different file (%d batches, %d IAT batches)", k, len(text), len(f.Batches), len(f.IATBatches))
}

func oracle(args []string) {
	fs := flag.NewFlagSet("oracle", flag.ExitOnError)
	out := fs.String("out", "", "output directory")
	nfiles := fs.Int("files", 12, "generated files")
	nfix := fs.Int("fixtures", 0, "valid fixture files of the repository to add")
	first := fs.Int("first", 0, "index of the first generated file")
	corpus := fs.String("corpus", "", "corpus directory (cases replayed first)")
	fs.Parse(args)
	w := hx.Create(filepath.Join(*out, "oracle.jsonl"))
	sum := summary{Kind: "summary", Dist: map[string]int{}, Exhaustive: true,
		Rule: "per sampled valid file (generator: every SEC code, IAT, ADV, mixed; plus valid repository fixtures), written with ach.NewWriter: every digit position of every protected column (entry RDFI/check digit/amount; batch control class/count/hash/totals/ODFI/number; batch header ODFI/number; file control batch count/entry count/hash/totals; ADV layouts) x 9 replacement digits, and every truncation offset 0..len-1, through NewReader.Read + Validate. non-trivial = the tampered text differs from the original in a digit of a protected column / the prefix is proper; all cases are distinct by construction (file, line, column, digit) / (file, offset)"}
	emit := func(c tcase, key, what string) {
		b, _ := json.Marshal(failRec{"fail", key, what, c})
		w.Printf("%s\n", b)
	}
	runFile := func(base tcase) {
		text, what := source(base)
		if text == "" {
			sum.Dist["skipped: "+what]++
			return
		}
		if !ascii(text) {
			sum.Dist["skipped: non-ASCII"]++
			return
		}
		sum.Dist["files "+what]++
		lines := strings.Split(text, "\n")
		prot := protected(lines)
		var idx []int
		for i := range prot {
			idx = append(idx, i)
		}
		sort.Ints(idx)
		for _, li := range idx {
			for _, fd := range prot[li] {
				for col := fd.lo; col < fd.hi; col++ {
					orig := lines[li][col]
					if orig < '0' || orig > '9' {
						sum.Dist["non-digit in "+fd.name]++
						continue
					}
					for d := byte('0'); d <= '9'; d++ {
						if d == orig {
							continue
						}
						sum.Evaluations++
						sum.Distinct++
						sum.Dist["tamper "+fd.name]++
						if _, ok := accepted(tamperAt(lines, li, col, d)); ok {
							c := base
							c.Mode, c.Line, c.Col, c.Digit, c.Field = "tamper", li, col, string(d), fd.name
							emit(c, "tamper:"+fd.name, fmt.Sprintf("line %d column %d: digit %c replaced by %c is accepted by Read+Validate (line %q)", li+1, col+1, orig, d, lines[li]))
						} else if len(sum.Samples) < 3 && sum.Evaluations%977 == 1 {
							c := base
							c.Mode, c.Line, c.Col, c.Digit, c.Field = "tamper", li, col, string(d), fd.name
							sum.Samples = append(sum.Samples, c)
						}
					}
				}
			}
		}
		for k := 0; k < len(text); k++ {
			sum.Evaluations++
			sum.Distinct++
			ok, how := checkTruncation(text, k)
			if how == "same" {
				sum.Dist["truncate same-file"]++
			} else if ok {
				sum.Dist["truncate rejected"]++
			}
			if !ok {
				c := base
				c.Mode, c.Offset = "truncate", k
				emit(c, "truncate:accepted-as-different-file", how)
			} else if len(sum.Samples) < 6 && k%1511 == 700 {
				c := base
				c.Mode, c.Offset = "truncate", k
				sum.Samples = append(sum.Samples, c)
			}
		}
	}
	runCase := func(c tcase) {
		text, what := source(c)
		if text == "" {
			sum.Dist["skipped corpus: "+what]++
			return
		}
		key, what2, bad := evalCase(c, text)
		sum.Evaluations++
		if bad {
			emit(c, key, what2)
		}
	}
	if *corpus != "" {
		ents, _ := filepath.Glob(filepath.Join(*corpus, "*.json"))
		sort.Strings(ents)
		for _, p := range ents {
			bs, err := os.ReadFile(p)
			if err != nil {
				continue
			}
			var c tcase
			if json.Unmarshal(bs, &c) == nil {
				c.Source = filepath.Base(p)
				runCase(c)
			}
		}
	}
	seed := rng.Seed()
	for i := 0; i < *nfiles; i++ {
		runFile(tcase{Seed: seed, File: *first + i})
	}
	if *nfix > 0 {
		achs, _ := gen.Fixtures(repoDir())
		r := rng.New(seed*77 + 1)
		// deterministic shuffle
		for i := len(achs) - 1; i > 0; i-- {
			j := r.Intn(i + 1)
			achs[i], achs[j] = achs[j], achs[i]
		}
		used := 0
		for _, p := range achs {
			if used >= *nfix {
				break
			}
			rel, err := filepath.Rel(repoDir(), p)
			if err != nil {
				continue
			}
			if st, err := os.Stat(p); err != nil || st.Size() > 6000 {
				continue
			}
			before := sum.Evaluations
			runFile(tcase{Fixture: rel})
			if sum.Evaluations > before {
				used++
			}
		}
	}
	if len(sum.Samples) == 0 {
		sum.Samples = append(sum.Samples, tcase{Seed: seed, File: *first, Mode: "truncate", Offset: 0})
	}
	b, _ := json.Marshal(sum)
	w.Printf("%s\n", b)
	w.Close()
}

func evalCase(c tcase, text string) (key, what string, bad bool) {
	switch c.Mode {
	case "tamper":
		lines := strings.Split(text, "\n")
		if c.Line >= len(lines) || c.Col >= len(lines[c.Line]) || len(c.Digit) != 1 || lines[c.Line][c.Col] == c.Digit[0] {
			return "", "not applicable", false
		}
		// a recorded case names a line of a generated file by number: when the generator has changed since, that
		// line may be another record; the case applies only if the column still belongs to the protected field it names
		if c.Field != "" {
			in := false
			for _, fd := range protected(lines)[c.Line] {
				if fd.name == c.Field && c.Col >= fd.lo && c.Col < fd.hi {
					in = true
				}
			}
			if !in {
				return "", "not applicable", false
			}
		}
		if _, ok := accepted(tamperAt(lines, c.Line, c.Col, c.Digit[0])); ok {
			return "tamper:" + c.Field, fmt.Sprintf("line %d column %d replaced by %s is accepted (line %q)", c.Line+1, c.Col+1, c.Digit, lines[c.Line]), true
		}
	case "truncate":
		if c.Offset >= len(text) {
			return "", "not applicable", false
		}
		if ok, how := checkTruncation(text, c.Offset); !ok {
			return "truncate:accepted-as-different-file", how, true
		}
	}
	return "", "", false
}

func replay(args []string) {
	if len(args) < 1 {
		fmt.Fprintln(os.Stderr, "usage: c04 replay <file>")
		os.Exit(2)
	}
	bs, err := os.ReadFile(args[0])
	if err != nil {
		fmt.Fprintln(os.Stderr, err)
		os.Exit(2)
	}
	var doc struct {
		Input *tcase `json:"input"`
	}
	var c tcase
	if json.Unmarshal(bs, &doc) == nil && doc.Input != nil {
		c = *doc.Input
	} else if err := json.Unmarshal(bs, &c); err != nil {
		fmt.Fprintln(os.Stderr, "cannot parse case:", err)
		os.Exit(2)
	}
	text, what := source(c)
	if text == "" {
		fmt.Println("case not applicable:", what)
		return
	}
	fmt.Printf("case: %+v\noriginal text (%d bytes, %s):\n%s\n", c, len(text), what, text)
	key, w, bad := evalCase(c, text)
	if bad {
		fmt.Printf("FAIL %s: %s\n", key, w)
		os.Exit(1)
	}
	fmt.Println("property holds on this case")
}

package main

// Shapes: the nil-structure of an ach.File (which optional sub-records are present,
// which list elements are nil) together with the few data values the library's
// control flow around optional dereferences depends on (SEC code of the header,
// dynamic Go type of the Batcher, service class code, entry category, credit/debit
// direction of the transaction code).  The same structure is the input of the Coq
// model (coq/Model/TotalOps.v); Encode writes the token stream the OCaml driver parses.

import (
	"fmt"
	"reflect"
	"strings"

	"github.com/moov-io/ach"
)

// SEC codes in the order of the Coq inductive `sec` (TotalOps.v).
var secNames = []string{"ACK", "ADV", "ARC", "ATX", "BOC", "CCD", "CIE", "COR", "CTX", "DNE", "ENR", "IAT",
	"MTE", "POP", "POS", "PPD", "RCK", "SHR", "TEL", "TRC", "TRX", "WEB", "XCK"}

const secUnknown = 23

func secIndex(s string) int {
	for i, n := range secNames {
		if n == s {
			return i
		}
	}
	return secUnknown
}

// dynamic Go type of a Batcher: index of the SEC code for *BatchXXX, kindBase for *ach.Batch
const kindBase = 24

func kindOf(b ach.Batcher) int {
	t := reflect.TypeOf(b)
	if t.Kind() == reflect.Ptr {
		n := t.Elem().Name()
		if n == "Batch" {
			return kindBase
		}
		if strings.HasPrefix(n, "Batch") {
			if i := secIndex(strings.TrimPrefix(n, "Batch")); i != secUnknown {
				return i
			}
		}
	}
	return -1
}

// service class codes: 0 mixed(200) 1 credits(220) 2 debits(225) 3 advices(280) 4 other
func sccIndex(c int) int {
	switch c {
	case ach.MixedDebitsAndCredits:
		return 0
	case ach.CreditsOnly:
		return 1
	case ach.DebitsOnly:
		return 2
	case ach.AutomatedAccountingAdvices:
		return 3
	}
	return 4
}

// categories: 0 Forward 1 NOC 2 Return 3 DishonoredReturn 4 DishonoredReturnContested 5 other
func catIndex(c string) int {
	switch c {
	case ach.CategoryForward:
		return 0
	case ach.CategoryNOC:
		return 1
	case ach.CategoryReturn:
		return 2
	case ach.CategoryDishonoredReturn:
		return 3
	case ach.CategoryDishonoredReturnContested:
		return 4
	}
	return 5
}

// transaction codes travel as they are (the model holds the credit / debit code lists); anything
// outside 0..99 is not a code of either list
func codeOf(c int) int {
	if c < 0 || c > 99 {
		return 0
	}
	return c
}

func bit(b bool) string {
	if b {
		return "1"
	}
	return "0"
}

func bits(bs []bool) string {
	if len(bs) == 0 {
		return "."
	}
	var sb strings.Builder
	for _, b := range bs {
		sb.WriteString(bit(b))
	}
	return sb.String()
}

func ptrList[T any](xs []*T) []bool {
	out := make([]bool, len(xs))
	for i, x := range xs {
		out[i] = x != nil
	}
	return out
}

// encodeFile renders the shape of f as a token stream:
//
//	F <nb> batch* <ni> iatbatch*
//	batch    := N | B <kind> hdr <ctl> <adv> <off> <ne> entry* <na> adventry*
//	hdr      := N | H <sec> <scc>
//	entry    := N | E <cat> <transaction code> <a02 a98 a98r a99 a99d a99c offset-named> <a05 bits>
//	adventry := N | A <cat> <transaction code> <a99>
//	iatbatch := I ihdr <ctl> <ne> ientry*
//	ihdr     := N | H <scc> <iatcor: IATIndicator == "IATCOR" && SEC == COR>
//	ientry   := N | J <cat> <transaction code> <a10..a16 a98 a99> <a17 bits> <a18 bits>
func encodeFile(f *ach.File) string { return encodeFileOpt(f, false) }

// encodeFileOpt with skipOffsets leaves the entries named "OFFSET" out (whether balancing adds a debit or a
// credit offset entry depends on amounts, which shapes do not carry)
func encodeFileOpt(f *ach.File, skipOffsets bool) string {
	var t []string
	add := func(s ...string) { t = append(t, s...) }
	add("F", fmt.Sprint(len(f.Batches)))
	for _, b := range f.Batches {
		if b == nil || reflect.ValueOf(b).IsNil() {
			add("N")
			continue
		}
		add("B", fmt.Sprint(kindOf(b)))
		if h := b.GetHeader(); h == nil {
			add("N")
		} else {
			add("H", fmt.Sprint(secIndex(h.StandardEntryClassCode)), fmt.Sprint(sccIndex(h.ServiceClassCode)))
		}
		add(bit(b.GetControl() != nil), bit(b.GetADVControl() != nil), bit(hasOffset(b)))
		es := b.GetEntries()
		if skipOffsets {
			var kept []*ach.EntryDetail
			for _, e := range es {
				if e == nil || !strings.EqualFold(e.IndividualName, "OFFSET") {
					kept = append(kept, e)
				}
			}
			es = kept
		}
		add(fmt.Sprint(len(es)))
		for _, e := range es {
			if e == nil {
				add("N")
				continue
			}
			add("E", fmt.Sprint(catIndex(e.Category)), fmt.Sprint(codeOf(e.TransactionCode)),
				bit(e.Addenda02 != nil)+bit(e.Addenda98 != nil)+bit(e.Addenda98Refused != nil)+bit(e.Addenda99 != nil)+bit(e.Addenda99Dishonored != nil)+bit(e.Addenda99Contested != nil)+bit(strings.EqualFold(e.IndividualName, "OFFSET")),
				bits(ptrList(e.Addenda05)))
		}
		as := b.GetADVEntries()
		add(fmt.Sprint(len(as)))
		for _, e := range as {
			if e == nil {
				add("N")
				continue
			}
			add("A", fmt.Sprint(catIndex(e.Category)), fmt.Sprint(codeOf(e.TransactionCode)), bit(e.Addenda99 != nil))
		}
	}
	add(fmt.Sprint(len(f.IATBatches)))
	for i := range f.IATBatches {
		b := &f.IATBatches[i]
		add("I")
		if h := b.Header; h == nil {
			add("N")
		} else {
			add("H", fmt.Sprint(sccIndex(h.ServiceClassCode)), bit(h.IATIndicator == ach.IATCOR && h.StandardEntryClassCode == ach.COR))
		}
		add(bit(b.Control != nil))
		add(fmt.Sprint(len(b.Entries)))
		for _, e := range b.Entries {
			if e == nil {
				add("N")
				continue
			}
			add("J", fmt.Sprint(catIndex(e.Category)), fmt.Sprint(codeOf(e.TransactionCode)),
				bit(e.Addenda10 != nil)+bit(e.Addenda11 != nil)+bit(e.Addenda12 != nil)+bit(e.Addenda13 != nil)+bit(e.Addenda14 != nil)+bit(e.Addenda15 != nil)+bit(e.Addenda16 != nil)+bit(e.Addenda98 != nil)+bit(e.Addenda99 != nil),
				bits(ptrList(e.Addenda17)), bits(ptrList(e.Addenda18)))
		}
	}
	return strings.Join(t, " ")
}

// the offset configuration is unexported: read it through reflection (read-only)
func hasOffset(b ach.Batcher) bool {
	bb := baseOf(b)
	if bb == nil {
		return false
	}
	return !reflect.ValueOf(bb).Elem().FieldByName("offset").IsNil()
}

// baseOf returns the embedded *ach.Batch of any Batcher implementation of package ach.
func baseOf(b ach.Batcher) *ach.Batch {
	if b == nil {
		return nil
	}
	if bb, ok := b.(*ach.Batch); ok {
		return bb
	}
	v := reflect.ValueOf(b)
	if v.Kind() != reflect.Ptr || v.IsNil() {
		return nil
	}
	f := v.Elem().FieldByName("Batch")
	if !f.IsValid() || !f.CanAddr() {
		return nil
	}
	if bb, ok := f.Addr().Interface().(*ach.Batch); ok {
		return bb
	}
	return nil
}

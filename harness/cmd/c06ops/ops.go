package main

import (
	"io"
	"reflect"
	"runtime/debug"
	"strings"
	"time"

	"github.com/moov-io/ach"

	"verifharness/internal/gen"
	"verifharness/internal/rng"
)

// the operations of the statement, in the order of the Coq inductive `op`
var opNames = []string{"Validate", "Create", "Write", "WriteBypass", "MarshalJSON", "SegmentFile", "FlattenBatches", "MergeFiles", "Reversal", "BatchCreate", "BatchValidate"}

// seedKinds: what kind of valid file a case starts from
var seedKinds = []string{"mixed", "sec", "adv", "iat", "returns", "noc", "addenda", "offset"}

func buildSeed(seed uint64, kind string) *ach.File {
	r := rng.New(seed*0x9E3779B97F4A7C15 + 77)
	switch kind {
	case "adv":
		return gen.ADVFile(r)
	case "iat":
		return gen.File(r, gen.Opts{IAT: true, Addenda: true, MaxBatches: 2, MaxEntries: 3})
	case "returns":
		return gen.File(r, gen.Opts{Returns: true, IAT: r.Bool(), MaxBatches: 3, MaxEntries: 3})
	case "noc":
		return gen.File(r, gen.Opts{NOC: true, IAT: r.Bool(), MaxBatches: 3, MaxEntries: 3})
	case "addenda":
		return gen.File(r, gen.Opts{Addenda: true, ForwardOnly: true, MaxBatches: 3, MaxEntries: 3})
	case "offset":
		return gen.File(r, gen.Opts{Offset: true, ForwardOnly: true, SECs: []string{ach.PPD, ach.CCD, ach.WEB, ach.CTX}, MaxBatches: 2, MaxEntries: 3})
	case "sec":
		secs := gen.AllSECs()
		return gen.FileOfSEC(r, secs[r.Intn(len(secs))], gen.Opts{MaxBatches: 2, MaxEntries: 3, Addenda: true})
	}
	return gen.File(r, gen.Opts{MaxBatches: 3, MaxEntries: 3})
}

var fixedTime = time.Date(2024, time.March, 14, 10, 30, 0, 0, time.UTC)

type verdict struct {
	res   string // OK | ERR | PANIC
	frame string
	what  string
}

// runOp applies one operation to f under recover().
func runOp(f *ach.File, op string) (v verdict) {
	defer func() {
		if r := recover(); r != nil {
			v = verdict{res: "PANIC", frame: topFrame(string(debug.Stack())), what: strings.SplitN(toString(r), "\n", 2)[0]}
		}
	}()
	var err error
	switch op {
	case "Validate":
		err = f.Validate()
	case "Create":
		err = f.Create()
	case "Write":
		err = ach.NewWriter(io.Discard).Write(f)
	case "WriteBypass":
		w := ach.NewWriter(io.Discard)
		w.BypassValidation = true
		err = w.Write(f)
	case "MarshalJSON":
		_, err = f.MarshalJSON()
	case "SegmentFile":
		_, _, err = f.SegmentFile(ach.NewSegmentFileConfiguration())
	case "FlattenBatches":
		_, err = f.FlattenBatches()
	case "MergeFiles":
		_, err = ach.MergeFiles([]*ach.File{f})
	case "Reversal":
		err = f.Reversal(fixedTime)
	case "BatchCreate":
		// every batch is created (as a caller tabulating a file does); errors are dropped
		for _, b := range f.Batches {
			if present(b) {
				_ = b.Create()
			}
		}
		for i := range f.IATBatches {
			_ = f.IATBatches[i].Create()
		}
	case "BatchValidate":
		for _, b := range f.Batches {
			if present(b) {
				_ = b.Validate()
			}
		}
		for i := range f.IATBatches {
			_ = f.IATBatches[i].Validate()
		}
	}
	if err != nil {
		return verdict{res: "ERR", what: err.Error()}
	}
	return verdict{res: "OK"}
}

// present: neither a nil interface nor a nil pointer inside the interface
func present(b ach.Batcher) bool { return b != nil && !reflect.ValueOf(b).IsNil() }

func toString(r any) string {
	switch x := r.(type) {
	case error:
		return x.Error()
	case string:
		return x
	}
	return "panic"
}

func topFrame(stack string) string {
	for _, line := range strings.Split(stack, "\n") {
		if !strings.HasPrefix(line, "github.com/moov-io/ach") {
			continue
		}
		fn := line
		if i := strings.LastIndex(fn, "("); i > 0 {
			fn = fn[:i]
		}
		fn = strings.TrimPrefix(fn, "github.com/moov-io/")
		fn = strings.TrimSuffix(fn, "(...)")
		return fn
	}
	return "outside-ach"
}

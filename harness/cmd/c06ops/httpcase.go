package main

// HTTP cases: request lists against the real handler (server.MakeHTTPHandler over an in-memory
// repository, through httptest) under recover(), compared with the model's `serve`: PANIC or not,
// and the multiset of shapes of the files the repository holds afterwards.

import (
	"bytes"
	"encoding/json"
	"fmt"
	"net/http"
	"net/http/httptest"
	"runtime/debug"
	"sort"
	"strings"

	kitlog "github.com/go-kit/log"
	"github.com/moov-io/ach"
	"github.com/moov-io/ach/server"

	"verifharness/internal/gen"
	"verifharness/internal/rng"
)

// HTTPBody: what a request carries.
type HTTPBody struct {
	Kind  string     `json:"kind"`            // json | text | none | batch
	Seed  uint64     `json:"seed,omitempty"`  // generated valid file
	File  string     `json:"file,omitempty"`  // seed kind
	Edits []jsonEdit `json:"edits,omitempty"` // nulls put into the JSON document
}

// HTTPReq: one route; ID is the number of the stored file the route works on.
type HTTPReq struct {
	Route string   `json:"route"`
	ID    int      `json:"id"`
	Body  HTTPBody `json:"body"`
}

type httpCase struct {
	Reqs []HTTPReq `json:"reqs"`
}

var routeNames = []string{"GS", "GF", "BU", "CO", "VG", "VP", "DF", "CB", "GB", "G1", "DB", "BA", "SI", "SE", "FL", "PI", "CF"}

// the shim document of server.decodeCreateBatchRequest (only "batches" matters for the shape)
const batchShim = `{"fileHeader": {"immediateOriginName": "Test Sender", "immediateDestinationName": "Test Dest", "fileIDModifier": "1", "fileCreationTime": "0437", "fileCreationDate": "200217", "immediateOrigin": "123456780", "immediateDestination": "987654320", "id": ""}, "batches":[%s] }`

func (b HTTPBody) jsonDoc() []byte {
	c := jsonCase{Seed: b.Seed, Kind: b.File, Edits: b.Edits}
	doc, err := c.document()
	if err != nil {
		return []byte("{}")
	}
	return doc
}

// firstBatchJSON: the first standard batch of the (edited) document, "null" when there is none
func (b HTTPBody) firstBatchJSON() []byte {
	var doc map[string]json.RawMessage
	if json.Unmarshal(b.jsonDoc(), &doc) != nil {
		return []byte("null")
	}
	var bs []json.RawMessage
	if json.Unmarshal(doc["batches"], &bs) != nil || len(bs) == 0 {
		return []byte("null")
	}
	return bs[0]
}

func (b HTTPBody) text() string {
	f := buildSeed(b.Seed, b.File)
	s, err := gen.Text(f, false)
	if err != nil {
		return ""
	}
	return s
}

// bodyTokens: the body as the model sees it
func (b HTTPBody) tokens() string {
	switch b.Kind {
	case "json":
		sh, err := decodedShape(b.jsonDoc())
		if err != nil {
			return "X"
		}
		return "J " + sh
	case "text":
		f, _ := ach.NewReader(strings.NewReader(b.text())).Read()
		return "T " + encodeFile(&f)
	}
	return "X"
}

func fileID(n int) string { return fmt.Sprintf("file%d", n) }

// encodeReqs: token stream for the driver; ids of the files segment / flatten create are fresh numbers
func encodeReqs(reqs []HTTPReq) string {
	var t []string
	fresh := 1000
	t = append(t, "R", fmt.Sprint(len(reqs)))
	for _, q := range reqs {
		switch q.Route {
		case "CF":
			t = append(t, "CF", fmt.Sprint(q.ID), q.Body.tokens())
		case "CB":
			sh, err := decodedShape([]byte(fmt.Sprintf(batchShim, q.Body.firstBatchJSON())))
			if err != nil {
				sh = "F 0 0"
			}
			t = append(t, "CB", fmt.Sprint(q.ID), sh)
		case "BA":
			t = append(t, "BA", fmt.Sprint(q.ID), "1", fmt.Sprint(fresh))
			fresh++
		case "SI":
			t = append(t, "SI", fmt.Sprint(q.ID), fmt.Sprint(fresh), fmt.Sprint(fresh+1))
			fresh += 2
		case "SE":
			t = append(t, "SE", q.Body.tokens(), fmt.Sprint(fresh), fmt.Sprint(fresh+1))
			fresh += 2
		case "FL":
			t = append(t, "FL", fmt.Sprint(q.ID), fmt.Sprint(fresh))
			fresh++
		case "GS", "PI":
			t = append(t, q.Route)
		default:
			t = append(t, q.Route, fmt.Sprint(q.ID))
		}
	}
	return strings.Join(t, " ")
}

// runHTTP performs the requests; the observation is PANIC or OK plus the sorted shapes of the stored files.
func runHTTP(reqs []HTTPReq) (v verdict, shapes string) {
	repo := server.NewRepositoryInMemory(0, nil)
	svc := server.NewService(repo)
	h := server.MakeHTTPHandler(svc, repo, kitlog.NewNopLogger())
	defer func() {
		if r := recover(); r != nil {
			v = verdict{res: "PANIC", frame: topFrame(string(debug.Stack())), what: strings.SplitN(toString(r), "\n", 2)[0]}
			shapes = "-"
		}
	}()
	do := func(method, path, ct string, body []byte) {
		req, err := http.NewRequest(method, "http://ach.test"+path, bytes.NewReader(body))
		if err != nil {
			return
		}
		if ct != "" {
			req.Header.Set("Content-Type", ct)
		}
		req.Header.Set("Origin", "https://moov.io")
		h.ServeHTTP(httptest.NewRecorder(), req)
	}
	for _, q := range reqs {
		id := fileID(q.ID)
		switch q.Route {
		case "CF":
			switch q.Body.Kind {
			case "json":
				do("POST", "/files/"+id, "application/json", q.Body.jsonDoc())
			case "text":
				do("POST", "/files/"+id, "text/plain", []byte(q.Body.text()))
			default:
				do("POST", "/files/"+id, "application/json", []byte("{"))
			}
		case "GS":
			do("GET", "/files", "", nil)
		case "GF":
			do("GET", "/files/"+id, "", nil)
		case "BU":
			do("GET", "/files/"+id+"/build", "", nil)
		case "CO":
			do("GET", "/files/"+id+"/contents", "", nil)
		case "VG":
			do("GET", "/files/"+id+"/validate", "", nil)
		case "VP":
			do("POST", "/files/"+id+"/validate", "application/json", []byte("{}"))
		case "DF":
			do("DELETE", "/files/"+id, "", nil)
		case "CB":
			do("POST", "/files/"+id+"/batches", "application/json", q.Body.firstBatchJSON())
		case "GB":
			do("GET", "/files/"+id+"/batches", "", nil)
		case "G1":
			do("GET", "/files/"+id+"/batches/no-such-batch", "", nil)
		case "DB":
			do("DELETE", "/files/"+id+"/batches/no-such-batch", "", nil)
		case "BA":
			do("POST", "/files/"+id+"/balance", "application/json", []byte(`{"routingNumber":"121042882","accountNumber":"123456789","accountType":"checking","description":"OFFSET"}`))
		case "SI":
			do("POST", "/files/"+id+"/segment", "application/json", []byte("{}"))
		case "SE":
			switch q.Body.Kind {
			case "json":
				do("POST", "/segment", "application/json", []byte(`{"file":`+string(q.Body.jsonDoc())+`}`))
			case "text":
				do("POST", "/segment", "text/plain", []byte(q.Body.text()))
			default:
				do("POST", "/segment", "application/json", []byte(`{"opts":{}}`))
			}
		case "FL":
			do("POST", "/files/"+id+"/flatten", "", nil)
		case "PI":
			do("GET", "/ping", "", nil)
		}
	}
	// entries named OFFSET are left out: which offset entries balancing (or a stored offset configuration)
	// produces depends on amounts, and a request passes several such stages
	var out []string
	for _, f := range repo.FindAllFiles() {
		if f != nil {
			out = append(out, encodeFileOpt(f, true))
		}
	}
	sort.Strings(out)
	return verdict{res: "OK"}, strings.Join(out, " | ")
}

func randomHTTPCase(r *rng.R) httpCase {
	body := func() HTTPBody {
		b := HTTPBody{Seed: uint64(1 + r.Intn(60)), File: rng.Pick(r, seedKinds)}
		switch r.Intn(6) {
		case 0:
			b.Kind = "text"
		case 1:
			b.Kind = "none"
		default:
			b.Kind = "json"
			for k := r.Intn(3); k > 0; k-- {
				b.Edits = append(b.Edits, randomJSONEdit(r))
			}
		}
		return b
	}
	c := httpCase{}
	c.Reqs = append(c.Reqs, HTTPReq{Route: "CF", ID: 1, Body: body()})
	// one route after the upload: the stored shapes are compared exactly and every further route multiplies
	// the data-dependent outcomes the oracle search has to reproduce (longer lists are the c06 oracle's business)
	for i := 0; i < 1; i++ {
		q := HTTPReq{Route: rng.Pick(r, routeNames), ID: 1}
		if r.Chance(1, 8) {
			q.ID = 2
		}
		switch q.Route {
		case "CF":
			q.ID = 2
			q.Body = body()
		case "SE":
			q.Body = body()
		case "CB":
			q.Body = body()
			q.Body.Kind = "json"
		}
		c.Reqs = append(c.Reqs, q)
	}
	return c
}

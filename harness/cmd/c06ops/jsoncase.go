package main

// JSON cases: a generated valid file is rendered with json.Marshal, the document is
// edited (pointers replaced by null, null elements put into arrays, keys removed), then
//
//   - the SHAPE of the decoded document is computed with the struct decoding the library
//     itself uses for its post-processing (`[]*ach.Batch` under "batches", `[]ach.IATBatch`
//     under "iatBatches": Batch.UnmarshalJSON / IATBatch.UnmarshalJSON pre-populate header and
//     controls, a JSON null resets them) — the input of the model's file_from_json;
//   - ach.FileFromJSON runs on the document under recover(): PANIC / ERR (nil file) / OKE (file and
//     error) / OK (file, no error) and, for a returned file, its shape — compared with what
//     the model returns.

import (
	"encoding/json"
	"fmt"
	"runtime/debug"
	"strings"

	"github.com/moov-io/ach"

	"verifharness/internal/rng"
)

// jsonEdit: one structural edit of the document; Path selects the array / object, see applyJSONEdit
type jsonEdit struct {
	Op string `json:"op"` // null | insnull | delete
	B  int    `json:"b"`  // batch index (standard or IAT)
	E  int    `json:"e"`  // entry index
	K  string `json:"k"`  // key
}

var batchKeys = []string{"batchHeader", "batchControl", "advBatchControl", "entryDetails", "advEntryDetails", "offset"}
var entryKeys = []string{"addenda02", "addenda05", "addenda98", "addenda98Refused", "addenda99", "dishonoredReturn", "contestedDishonoredReturn"}
var iatKeys = []string{"IATBatchHeader", "batchControl", "IATEntryDetails"}
var iatEntryKeys = []string{"addenda10", "addenda11", "addenda12", "addenda13", "addenda14", "addenda15", "addenda16", "addenda17", "addenda18", "addenda98", "addenda99"}

func randomJSONEdit(r *rng.R) jsonEdit {
	e := jsonEdit{B: r.Intn(3), E: r.Intn(3)}
	switch r.Intn(10) {
	case 0:
		e.Op, e.K = "nullbatch", ""
	case 1:
		e.Op, e.K = "insnullbatch", ""
	case 2, 3:
		e.Op, e.K = "batchkey", rng.Pick(r, batchKeys)
	case 4:
		e.Op, e.K = "nullentry", "entryDetails"
	case 5:
		e.Op, e.K = "entrykey", rng.Pick(r, entryKeys)
	case 6:
		e.Op, e.K = "nulladdenda05", ""
	case 7:
		e.Op, e.K = "iatkey", rng.Pick(r, iatKeys)
	case 8:
		e.Op, e.K = "iatentrykey", rng.Pick(r, iatEntryKeys)
	default:
		e.Op, e.K = "nulliatentry", ""
	}
	return e
}

func arr(m map[string]any, k string) []any {
	a, _ := m[k].([]any)
	return a
}

func obj(a []any, i int) map[string]any {
	if i < 0 || i >= len(a) {
		return nil
	}
	m, _ := a[i].(map[string]any)
	return m
}

// applyJSONEdit edits the decoded document in place.
func applyJSONEdit(doc map[string]any, e jsonEdit) bool {
	bs := arr(doc, "batches")
	is := arr(doc, "IATBatches")
	switch e.Op {
	case "nullbatch":
		if e.B < len(bs) {
			bs[e.B] = nil
			return true
		}
	case "insnullbatch":
		doc["batches"] = append([]any{nil}, bs...)
		return true
	case "batchkey":
		if b := obj(bs, e.B); b != nil {
			b[e.K] = nil
			return true
		}
	case "nullentry":
		if b := obj(bs, e.B); b != nil {
			if es := arr(b, "entryDetails"); e.E < len(es) {
				es[e.E] = nil
				return true
			}
			if es := arr(b, "advEntryDetails"); e.E < len(es) {
				es[e.E] = nil
				return true
			}
		}
	case "entrykey":
		if b := obj(bs, e.B); b != nil {
			if en := obj(arr(b, "entryDetails"), e.E); en != nil {
				en[e.K] = nil
				return true
			}
		}
	case "nulladdenda05":
		if b := obj(bs, e.B); b != nil {
			if en := obj(arr(b, "entryDetails"), e.E); en != nil {
				en["addenda05"] = append([]any{nil}, arr(en, "addenda05")...)
				return true
			}
		}
	case "iatkey":
		if b := obj(is, e.B); b != nil {
			b[e.K] = nil
			return true
		}
	case "iatentrykey":
		if b := obj(is, e.B); b != nil {
			if en := obj(arr(b, "IATEntryDetails"), e.E); en != nil {
				if e.K == "addenda17" || e.K == "addenda18" {
					en[e.K] = append([]any{nil}, arr(en, e.K)...)
				} else {
					en[e.K] = nil
				}
				return true
			}
		}
	case "nulliatentry":
		if b := obj(is, e.B); b != nil {
			if es := arr(b, "IATEntryDetails"); e.E < len(es) {
				es[e.E] = nil
				return true
			}
		}
	}
	return false
}

// decodedShape: the shape of the document as the library's post-processing sees it.
func decodedShape(bs []byte) (string, error) {
	var b struct {
		Batches []*ach.Batch `json:"batches"`
	}
	var i struct {
		IATBatches []ach.IATBatch `json:"iatBatches"`
	}
	if err := json.Unmarshal(bs, &b); err != nil {
		return "", err
	}
	if err := json.Unmarshal(bs, &i); err != nil {
		return "", err
	}
	f := &ach.File{IATBatches: i.IATBatches}
	for _, x := range b.Batches {
		if x == nil {
			f.Batches = append(f.Batches, nil)
		} else {
			f.Batches = append(f.Batches, x)
		}
	}
	return encodeFile(f), nil
}

type jsonCase struct {
	Seed  uint64     `json:"seed"`
	Kind  string     `json:"kind"`
	Edits []jsonEdit `json:"edits"`
}

func (c jsonCase) document() ([]byte, error) {
	f := buildSeed(c.Seed, c.Kind)
	bs, err := json.Marshal(f)
	if err != nil {
		return nil, err
	}
	var doc map[string]any
	if err := json.Unmarshal(bs, &doc); err != nil {
		return nil, err
	}
	for _, e := range c.Edits {
		applyJSONEdit(doc, e)
	}
	return json.Marshal(doc)
}

// runJSON: verdict and shape of the returned file ("-" when none)
func runJSON(doc []byte) (v verdict, shape string) {
	shape = "-"
	defer func() {
		if r := recover(); r != nil {
			v = verdict{res: "PANIC", frame: topFrame(string(debug.Stack())), what: strings.SplitN(toString(r), "\n", 2)[0]}
			shape = "-"
		}
	}()
	f, err := ach.FileFromJSON(doc)
	switch {
	case f == nil:
		return verdict{res: "ERR", what: fmt.Sprint(err)}, "-"
	case err != nil:
		return verdict{res: "OKE", what: err.Error()}, encodeFile(f)
	}
	return verdict{res: "OK"}, encodeFile(f)
}

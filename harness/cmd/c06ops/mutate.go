package main

// Mutations that change the nil-structure of a generated valid file: optional
// sub-records removed or installed, nil elements put into lists, lists emptied,
// the Batcher replaced by its plain *ach.Batch, categories changed.

import (
	"fmt"
	"reflect"
	"strings"

	"github.com/moov-io/ach"

	"verifharness/internal/rng"
)

// Mut is one structural edit; B = batch (or IAT batch) index, E = entry index, K = extra argument.
type Mut struct {
	Op string `json:"op"`
	B  int    `json:"b"`
	E  int    `json:"e"`
	K  int    `json:"k"`
}

func (m Mut) String() string { return fmt.Sprintf("%s:%d:%d:%d", m.Op, m.B, m.E, m.K) }

func parseMut(s string) (Mut, bool) {
	p := strings.Split(s, ":")
	if len(p) != 4 {
		return Mut{}, false
	}
	var m Mut
	m.Op = p[0]
	if _, err := fmt.Sscanf(p[1]+" "+p[2]+" "+p[3], "%d %d %d", &m.B, &m.E, &m.K); err != nil {
		return Mut{}, false
	}
	return m, true
}

var fileMuts = []string{"nilbatch", "insnilbatch", "nobatches", "noiat", "base", "typednil"}
var batchMuts = []string{"nohdr", "noctl", "noadv", "setadv", "setctl", "offset", "nooffset", "noentries", "nilentry", "insnil", "noadventries", "niladv", "sec", "scc"}
var entryMuts = []string{"noa02", "seta02", "noa98", "seta98", "seta98r", "noa99", "seta99", "seta99d", "seta99c", "nila05", "seta05", "noa05", "cat", "dir"}
var iatMuts = []string{"inohdr", "inoctl", "inoentries", "inilentry", "inoadd", "isetadd", "inil17", "inil18", "iset17", "icat", "iscc"}

var catNames = []string{ach.CategoryForward, ach.CategoryNOC, ach.CategoryReturn, ach.CategoryDishonoredReturn, ach.CategoryDishonoredReturnContested, "Other"}

func randomMut(r *rng.R, f *ach.File) Mut {
	var pool []string
	pool = append(pool, fileMuts...)
	if len(f.Batches) > 0 {
		pool = append(pool, batchMuts...)
		pool = append(pool, batchMuts...)
		pool = append(pool, entryMuts...)
		pool = append(pool, entryMuts...)
	}
	if len(f.IATBatches) > 0 {
		pool = append(pool, iatMuts...)
		pool = append(pool, iatMuts...)
	}
	m := Mut{Op: rng.Pick(r, pool)}
	n := len(f.Batches)
	if strings.HasPrefix(m.Op, "i") && m.Op != "insnil" && m.Op != "insnilbatch" {
		n = len(f.IATBatches)
	}
	m.B = r.Intn(n + 1)
	if n > 0 && r.Chance(9, 10) {
		m.B = r.Intn(n)
	}
	m.E = r.Intn(4)
	m.K = r.Intn(24)
	return m
}

// setBase gives write access to the embedded Batch of a Batcher.
func entriesOf(b ach.Batcher) *[]*ach.EntryDetail {
	if bb := baseOf(b); bb != nil {
		return &bb.Entries
	}
	return nil
}

func advEntriesOf(b ach.Batcher) *[]*ach.ADVEntryDetail {
	if bb := baseOf(b); bb != nil {
		return &bb.ADVEntries
	}
	return nil
}

// applyMut edits f in place; it never panics (out-of-range indexes are ignored) and
// reports whether it changed anything.
func applyMut(f *ach.File, m Mut) bool {
	batch := func() ach.Batcher {
		if m.B < 0 || m.B >= len(f.Batches) || f.Batches[m.B] == nil || reflect.ValueOf(f.Batches[m.B]).IsNil() {
			return nil
		}
		return f.Batches[m.B]
	}
	entry := func() *ach.EntryDetail {
		b := batch()
		if b == nil {
			return nil
		}
		es := b.GetEntries()
		if m.E < 0 || m.E >= len(es) {
			return nil
		}
		return es[m.E]
	}
	iat := func() *ach.IATBatch {
		if m.B < 0 || m.B >= len(f.IATBatches) {
			return nil
		}
		return &f.IATBatches[m.B]
	}
	ientry := func() *ach.IATEntryDetail {
		b := iat()
		if b == nil || m.E < 0 || m.E >= len(b.Entries) {
			return nil
		}
		return b.Entries[m.E]
	}
	switch m.Op {
	case "nilbatch":
		if m.B < len(f.Batches) {
			f.Batches[m.B] = nil
			return true
		}
	case "insnilbatch":
		if m.B <= len(f.Batches) {
			f.Batches = append(f.Batches[:m.B:m.B], append([]ach.Batcher{nil}, f.Batches[m.B:]...)...)
			return true
		}
	case "typednil":
		if m.B < len(f.Batches) {
			f.Batches[m.B] = (*ach.BatchPPD)(nil)
			return true
		}
	case "nobatches":
		f.Batches = nil
		return true
	case "noiat":
		f.IATBatches = nil
		return true
	case "base":
		if bb := baseOf(batch()); bb != nil {
			f.Batches[m.B] = bb
			return true
		}
	case "nohdr":
		if b := batch(); b != nil {
			b.SetHeader(nil)
			return true
		}
	case "noctl":
		if b := batch(); b != nil {
			b.SetControl(nil)
			return true
		}
	case "noadv":
		if b := batch(); b != nil {
			b.SetADVControl(nil)
			return true
		}
	case "setadv":
		if b := batch(); b != nil {
			b.SetADVControl(ach.NewADVBatchControl())
			return true
		}
	case "setctl":
		if b := batch(); b != nil {
			b.SetControl(ach.NewBatchControl())
			return true
		}
	case "offset":
		if b := batch(); b != nil {
			b.WithOffset(&ach.Offset{RoutingNumber: "121042882", AccountNumber: "123456789", AccountType: ach.OffsetChecking, Description: "OFFSET"})
			return true
		}
	case "nooffset":
		if b := batch(); b != nil {
			b.WithOffset(nil)
			return true
		}
	case "sec":
		if b := batch(); b != nil && b.GetHeader() != nil {
			names := append(append([]string{}, secNames...), "ZZZ")
			b.GetHeader().StandardEntryClassCode = names[m.K%len(names)]
			return true
		}
	case "scc":
		if b := batch(); b != nil && b.GetHeader() != nil {
			b.GetHeader().ServiceClassCode = []int{200, 220, 225, 280, 999}[m.K%5]
			return true
		}
	case "noentries":
		if p := entriesOf(batch()); p != nil {
			*p = nil
			return true
		}
	case "nilentry":
		if p := entriesOf(batch()); p != nil && m.E < len(*p) {
			(*p)[m.E] = nil
			return true
		}
	case "insnil":
		if p := entriesOf(batch()); p != nil && m.E <= len(*p) {
			*p = append((*p)[:m.E:m.E], append([]*ach.EntryDetail{nil}, (*p)[m.E:]...)...)
			return true
		}
	case "noadventries":
		if p := advEntriesOf(batch()); p != nil {
			*p = nil
			return true
		}
	case "niladv":
		if p := advEntriesOf(batch()); p != nil && m.E < len(*p) {
			(*p)[m.E] = nil
			return true
		}
	case "noa02":
		if e := entry(); e != nil {
			e.Addenda02 = nil
			return true
		}
	case "seta02":
		if e := entry(); e != nil {
			e.Addenda02 = ach.NewAddenda02()
			return true
		}
	case "noa98":
		if e := entry(); e != nil {
			e.Addenda98, e.Addenda98Refused = nil, nil
			return true
		}
	case "seta98":
		if e := entry(); e != nil {
			e.Addenda98 = ach.NewAddenda98()
			return true
		}
	case "seta98r":
		if e := entry(); e != nil {
			e.Addenda98Refused = ach.NewAddenda98Refused()
			return true
		}
	case "noa99":
		if e := entry(); e != nil {
			e.Addenda99, e.Addenda99Dishonored, e.Addenda99Contested = nil, nil, nil
			return true
		}
	case "seta99":
		if e := entry(); e != nil {
			e.Addenda99 = ach.NewAddenda99()
			return true
		}
	case "seta99d":
		if e := entry(); e != nil {
			e.Addenda99Dishonored = ach.NewAddenda99Dishonored()
			return true
		}
	case "seta99c":
		if e := entry(); e != nil {
			e.Addenda99Contested = ach.NewAddenda99Contested()
			return true
		}
	case "nila05":
		if e := entry(); e != nil {
			if len(e.Addenda05) == 0 {
				e.Addenda05 = []*ach.Addenda05{nil}
			} else {
				e.Addenda05[m.K%len(e.Addenda05)] = nil
			}
			return true
		}
	case "seta05":
		if e := entry(); e != nil {
			a := ach.NewAddenda05()
			a.PaymentRelatedInformation = "x"
			a.SequenceNumber = len(e.Addenda05) + 1
			e.Addenda05 = append(e.Addenda05, a)
			return true
		}
	case "noa05":
		if e := entry(); e != nil {
			e.Addenda05 = nil
			return true
		}
	case "cat":
		if e := entry(); e != nil {
			e.Category = catNames[m.K%len(catNames)]
			return true
		}
	case "dir":
		if e := entry(); e != nil {
			e.TransactionCode = []int{ach.CheckingCredit, ach.CheckingDebit, 99}[m.K%3]
			return true
		}
	case "inohdr":
		if b := iat(); b != nil {
			b.Header = nil
			return true
		}
	case "inoctl":
		if b := iat(); b != nil {
			b.Control = nil
			return true
		}
	case "inoentries":
		if b := iat(); b != nil {
			b.Entries = nil
			return true
		}
	case "inilentry":
		if b := iat(); b != nil && m.E < len(b.Entries) {
			b.Entries[m.E] = nil
			return true
		}
	case "inoadd", "isetadd":
		if e := ientry(); e != nil {
			set := m.Op == "isetadd"
			switch m.K % 9 {
			case 0:
				e.Addenda10 = nil
				if set {
					e.Addenda10 = ach.NewAddenda10()
				}
			case 1:
				e.Addenda11 = nil
				if set {
					e.Addenda11 = ach.NewAddenda11()
				}
			case 2:
				e.Addenda12 = nil
				if set {
					e.Addenda12 = ach.NewAddenda12()
				}
			case 3:
				e.Addenda13 = nil
				if set {
					e.Addenda13 = ach.NewAddenda13()
				}
			case 4:
				e.Addenda14 = nil
				if set {
					e.Addenda14 = ach.NewAddenda14()
				}
			case 5:
				e.Addenda15 = nil
				if set {
					e.Addenda15 = ach.NewAddenda15()
				}
			case 6:
				e.Addenda16 = nil
				if set {
					e.Addenda16 = ach.NewAddenda16()
				}
			case 7:
				e.Addenda98 = nil
				if set {
					e.Addenda98 = ach.NewAddenda98()
				}
			case 8:
				e.Addenda99 = nil
				if set {
					e.Addenda99 = ach.NewAddenda99()
				}
			}
			return true
		}
	case "inil17":
		if e := ientry(); e != nil {
			if len(e.Addenda17) == 0 {
				e.Addenda17 = []*ach.Addenda17{nil}
			} else {
				e.Addenda17[m.K%len(e.Addenda17)] = nil
			}
			return true
		}
	case "inil18":
		if e := ientry(); e != nil {
			if len(e.Addenda18) == 0 {
				e.Addenda18 = []*ach.Addenda18{nil}
			} else {
				e.Addenda18[m.K%len(e.Addenda18)] = nil
			}
			return true
		}
	case "iset17":
		if e := ientry(); e != nil {
			e.Addenda17 = append(e.Addenda17, ach.NewAddenda17())
			return true
		}
	case "icat":
		if e := ientry(); e != nil {
			e.Category = catNames[m.K%len(catNames)]
			return true
		}
	case "iscc":
		if b := iat(); b != nil && b.Header != nil {
			b.Header.ServiceClassCode = []int{200, 220, 225, 280, 999}[m.K%5]
			return true
		}
	}
	return false
}

// Command c06ops: correspondence between the nil-safety shape model of C06
// (coq/Model/TotalOps.v) and the real operations on files built to have exactly
// that shape.
//
//	corr   -out DIR -n N [-corpus DIR]   write cases.txt / impl.txt / cases.jsonl
//	replay FILE                          re-run one case (JSON: seed, kind, muts, ops)
//	explore                              table of verdicts for single mutations (development aid)
package main

import (
	"encoding/json"
	"flag"
	"fmt"
	"os"
	"path/filepath"
	"sort"
	"strings"

	"github.com/moov-io/ach"

	"verifharness/internal/hx"
	"verifharness/internal/rng"
)

// ShapeCase is the replayable unit: a generated valid file (seed, kind), structural
// mutations, and the operations applied (one, or a call sequence).
type ShapeCase struct {
	Seed uint64   `json:"seed"`
	Kind string   `json:"kind"`
	Muts []string `json:"muts"`
	Ops  []string `json:"ops"`
	Note string   `json:"note,omitempty"`
}

func (c ShapeCase) build() *ach.File {
	f := buildSeed(c.Seed, c.Kind)
	for _, s := range c.Muts {
		if m, ok := parseMut(s); ok {
			applyMut(f, m)
		}
	}
	return f
}

func main() {
	if len(os.Args) < 2 {
		fmt.Fprintln(os.Stderr, "usage: c06ops corr|replay|explore ...")
		os.Exit(2)
	}
	switch os.Args[1] {
	case "explore":
		explore()
	case "corr":
		corr(os.Args[2:])
	case "replay":
		replay(os.Args[2:])
	case "witnesses":
		witnesses(os.Args[2:])
	default:
		fmt.Fprintln(os.Stderr, "unknown mode")
		os.Exit(2)
	}
}

// runCase applies the operations in order (continuing after errors) and reports the verdict of every
// operation, comma separated ("ERR,OK,PANIC": the sequence stops at a panic); v is the last one.
func runCase(c ShapeCase) (shape string, v verdict, all string) {
	f := c.build()
	shape = encodeFile(f)
	var vs []string
	for _, op := range c.Ops {
		v = runOp(f, op)
		vs = append(vs, v.res)
		if v.res == "PANIC" {
			break
		}
	}
	return shape, v, strings.Join(vs, ",")
}

func corr(args []string) {
	fs := flag.NewFlagSet("corr", flag.ExitOnError)
	out := fs.String("out", "", "output directory")
	n := fs.Int("n", 400, "random cases per seed kind")
	corpus := fs.String("corpus", "", "corpus directory (cases run first)")
	fs.Parse(args)
	cases := hx.Create(filepath.Join(*out, "cases.txt"))
	impl := hx.Create(filepath.Join(*out, "impl.txt"))
	meta := hx.Create(filepath.Join(*out, "cases.jsonl"))
	id := 0
	dist := map[string]int{}
	emit := func(c ShapeCase) {
		shape, v, all := runCase(c)
		id++
		cases.Printf("%d %s %s %s\n", id, all, strings.Join(c.Ops, ","), shape)
		impl.Printf("%d %s\n", id, all)
		b, _ := json.Marshal(struct {
			ID int `json:"id"`
			ShapeCase
			Impl  string `json:"impl"`
			Frame string `json:"frame,omitempty"`
		}{id, c, v.res, v.frame})
		meta.Printf("%s\n", b)
		dist["impl:"+v.res]++
		dist["op:"+c.Ops[len(c.Ops)-1]]++
		dist["kind:"+c.Kind]++
		dist[fmt.Sprintf("muts:%d", len(c.Muts))]++
	}
	// corpus: committed witnesses (ops-*.json)
	if *corpus != "" {
		files, _ := filepath.Glob(filepath.Join(*corpus, "ops-*.json"))
		sort.Strings(files)
		for _, p := range files {
			b, err := os.ReadFile(p)
			if err != nil {
				continue
			}
			var c ShapeCase
			if json.Unmarshal(b, &c) == nil && len(c.Ops) > 0 {
				emit(c)
			}
		}
	}
	// rng.FromEnv adds seed*γ to the state, so two seeds give shifted copies of one stream (they re-synchronise
	// after a few cases); the start state is passed through the output function once to separate them
	r := rng.New(rng.FromEnv(0xC06095).U64())
	// every seed kind unmutated, every operation
	for _, kind := range seedKinds {
		for s := uint64(1); s <= 3; s++ {
			for _, op := range opNames {
				emit(ShapeCase{Seed: s, Kind: kind, Ops: []string{op}})
			}
		}
	}
	for _, kind := range seedKinds {
		for i := 0; i < *n; i++ {
			c := ShapeCase{Seed: uint64(1 + r.Intn(60)), Kind: kind}
			f := buildSeed(c.Seed, c.Kind)
			nm := 1 + r.Intn(3)
			if r.Chance(1, 10) {
				nm = 0
			}
			for k := 0; k < nm; k++ {
				m := randomMut(r, f)
				if applyMut(f, m) {
					c.Muts = append(c.Muts, m.String())
				}
			}
			c.Ops = []string{rng.Pick(r, opNames)}
			if r.Chance(1, 5) {
				// a call sequence of two or three operations
				c.Ops = append([]string{rng.Pick(r, opNames)}, c.Ops...)
				if r.Bool() {
					c.Ops = append([]string{rng.Pick(r, opNames)}, c.Ops...)
				}
			}
			emit(c)
		}
	}
	// JSON documents: nulls in place of pointers and array elements
	jn := *n / 2
	for _, kind := range seedKinds {
		for i := 0; i < jn; i++ {
			c := jsonCase{Seed: uint64(1 + r.Intn(60)), Kind: kind}
			ne := r.Intn(4)
			for k := 0; k < ne; k++ {
				c.Edits = append(c.Edits, randomJSONEdit(r))
			}
			doc, err := c.document()
			if err != nil {
				continue
			}
			shape, err := decodedShape(doc)
			if err != nil {
				continue
			}
			v, result := runJSON(doc)
			id++
			cases.Printf("%d %s FromJSON %s # %s\n", id, v.res, shape, result)
			impl.Printf("%d %s\n", id, v.res)
			b, _ := json.Marshal(struct {
				ID int `json:"id"`
				jsonCase
				Ops   []string `json:"ops"`
				Impl  string   `json:"impl"`
				Frame string   `json:"frame,omitempty"`
			}{id, c, []string{"FromJSON"}, v.res, v.frame})
			meta.Printf("%s\n", b)
			dist["json:"+v.res]++
			dist[fmt.Sprintf("jsonedits:%d", len(c.Edits))]++
		}
	}
	// request lists against the HTTP handler
	for i := 0; i < *n*2; i++ {
		c := randomHTTPCase(r)
		v, shapes := runHTTP(c.Reqs)
		id++
		cases.Printf("%d %s HTTP %s # %s\n", id, v.res, encodeReqs(c.Reqs), shapes)
		impl.Printf("%d %s\n", id, v.res)
		b, _ := json.Marshal(struct {
			ID int `json:"id"`
			httpCase
			Ops   []string `json:"ops"`
			Impl  string   `json:"impl"`
			Frame string   `json:"frame,omitempty"`
		}{id, c, []string{"HTTP"}, v.res, v.frame})
		meta.Printf("%s\n", b)
		dist["http:"+v.res]++
		dist["route:"+c.Reqs[len(c.Reqs)-1].Route]++
	}
	cases.Close()
	impl.Close()
	meta.Close()
	b, _ := json.Marshal(map[string]any{"cases": id, "distribution": dist})
	os.WriteFile(filepath.Join(*out, "summary.json"), b, 0o644)
}

func replay(args []string) {
	if len(args) < 1 {
		fmt.Fprintln(os.Stderr, "usage: c06ops replay FILE")
		os.Exit(2)
	}
	b, err := os.ReadFile(args[0])
	if err != nil {
		fmt.Fprintln(os.Stderr, err)
		os.Exit(2)
	}
	var probe struct {
		Ops   []string   `json:"ops"`
		Edits []jsonEdit `json:"edits"`
		Input *struct {
			Ops []string `json:"ops"`
		} `json:"input"`
	}
	_ = json.Unmarshal(b, &probe)
	isHTTP := (len(probe.Ops) == 1 && probe.Ops[0] == "HTTP") || (probe.Input != nil && len(probe.Input.Ops) == 1 && probe.Input.Ops[0] == "HTTP")
	if isHTTP {
		var hc httpCase
		if probe.Input != nil {
			var w struct {
				Input httpCase `json:"input"`
			}
			_ = json.Unmarshal(b, &w)
			hc = w.Input
		} else {
			_ = json.Unmarshal(b, &hc)
		}
		v, shapes := runHTTP(hc.Reqs)
		fmt.Printf("requests: %s\nverdict : %s %s %s\nstored  : %s\n", encodeReqs(hc.Reqs), v.res, v.frame, v.what, shapes)
		if v.res == "PANIC" {
			os.Exit(1)
		}
		return
	}
	if (len(probe.Ops) == 1 && probe.Ops[0] == "FromJSON") || (probe.Input != nil && len(probe.Input.Ops) == 1 && probe.Input.Ops[0] == "FromJSON") {
		var jc jsonCase
		if probe.Input != nil {
			var w struct {
				Input jsonCase `json:"input"`
			}
			_ = json.Unmarshal(b, &w)
			jc = w.Input
		} else {
			_ = json.Unmarshal(b, &jc)
		}
		doc, err := jc.document()
		if err != nil {
			fmt.Fprintln(os.Stderr, err)
			os.Exit(2)
		}
		shape, _ := decodedShape(doc)
		v, result := runJSON(doc)
		fmt.Printf("case   : seed=%d kind=%s edits=%v\ndecoded: %s\nverdict: %s %s %s\nresult : %s\n", jc.Seed, jc.Kind, jc.Edits, shape, v.res, v.frame, v.what, result)
		if v.res == "PANIC" {
			os.Exit(1)
		}
		return
	}
	var c ShapeCase
	if err := json.Unmarshal(b, &c); err != nil {
		// a replay written by lib/c06.py wraps the case
		var w struct {
			Input ShapeCase `json:"input"`
		}
		if json.Unmarshal(b, &w) != nil {
			fmt.Fprintln(os.Stderr, "not a shape case")
			os.Exit(2)
		}
		c = w.Input
	}
	shape, v, all := runCase(c)
	fmt.Printf("case   : seed=%d kind=%s muts=%v ops=%v\nshape  : %s\nverdict: %s (%s) %s %s\n", c.Seed, c.Kind, c.Muts, c.Ops, shape, v.res, all, v.frame, v.what)
	if v.res == "PANIC" {
		os.Exit(1)
	}
}

// explore: single mutations on every seed kind, every op; prints a table of verdicts.
func explore() {
	r := rng.New(5)
	type key struct{ mut, op, res, frame string }
	count := map[key]int{}
	for seed := uint64(1); seed <= 40; seed++ {
		for _, kind := range seedKinds {
			for trial := 0; trial < 12; trial++ {
				f0 := buildSeed(seed, kind)
				m := randomMut(r, f0)
				if !applyMut(f0, m) {
					continue
				}
				for _, op := range opNames {
					f := buildSeed(seed, kind)
					applyMut(f, m)
					v := runOp(f, op)
					count[key{m.Op, op, v.res, v.frame}]++
				}
			}
		}
	}
	var keys []key
	for k := range count {
		keys = append(keys, k)
	}
	sort.Slice(keys, func(i, j int) bool {
		a, b := keys[i], keys[j]
		if a.mut != b.mut {
			return a.mut < b.mut
		}
		if a.op != b.op {
			return a.op < b.op
		}
		return a.res+a.frame < b.res+b.frame
	})
	for _, k := range keys {
		fmt.Printf("%-12s %-14s %-5s %-50s %d\n", k.mut, k.op, k.res, k.frame, count[k])
	}
}

// witnesses: for every class of ill-formed shape, the first generated file and structural edit on which the
// real code panics; written as corpus files (development aid: the committed corpus/C06/ops-*.json came from it).
func witnesses(args []string) {
	if len(args) < 1 {
		fmt.Fprintln(os.Stderr, "usage: c06ops witnesses DIR")
		os.Exit(2)
	}
	want := []struct {
		name, kind string
		muts       []string
		ops        []string
		note       string
	}{
		{"nil-batcher", "mixed", []string{"insnilbatch:1:0:0"}, []string{"Validate"}, "File.Batches holds a nil Batcher: File.IsADV calls GetHeader() on it"},
		{"nil-batch-header", "mixed", []string{"nohdr:0:0:0"}, []string{"BatchValidate"}, "Batch<SEC>.Validate on a batch without header: verify() reads batch.Header"},
		{"nil-batch-header-after-adv", "adv", []string{"nohdr:1:0:0"}, []string{"Validate"}, "ADV file: File.IsADV stops at the first ADV batch, ValidateWith reads GetHeader() of the next one"},
		{"nil-batch-control", "mixed", []string{"noctl:0:0:0"}, []string{"BatchValidate"}, "Batch<SEC>.Validate on a batch without BatchControl: isFieldInclusion calls batch.Control.Validate()"},
		{"nil-adv-control", "adv", []string{"noadv:0:0:0"}, []string{"Create"}, "ADV batch without ADVBatchControl: createFileADV reads GetADVControl()"},
		{"nil-entry", "mixed", []string{"insnil:0:1:0"}, []string{"Validate"}, "nil *EntryDetail in Batch.Entries: isFieldInclusion calls entry.Validate()"},
		{"nil-addenda05", "addenda", []string{"nila05:0:0:0"}, []string{"Validate"}, "nil *Addenda05 in EntryDetail.Addenda05: isFieldInclusion calls addenda05.Validate()"},
		{"nil-iat-header", "iat", []string{"inohdr:0:0:0", "nobatches:0:0:0"}, []string{"Create"}, "IATBatch without header: File.Create reads GetHeader().BatchNumber"},
		{"nil-iat-control", "iat", []string{"inoctl:0:0:0", "nobatches:0:0:0"}, []string{"Create"}, "IATBatch without control: File.Create reads GetControl().BatchNumber"},
		{"nil-iat-entry", "iat", []string{"inilentry:0:0:0", "nobatches:0:0:0"}, []string{"WriteBypass"}, "nil *IATEntryDetail: writeLine calls entry.String()"},
		{"nil-iat-addenda", "iat", []string{"inil17:0:0:0", "nobatches:0:0:0"}, []string{"BatchCreate"}, "nil *Addenda17: IATBatch.build writes addenda17.SequenceNumber"},
	}
	for _, w := range want {
		found := false
		for seed := uint64(1); seed <= 60 && !found; seed++ {
			c := ShapeCase{Seed: seed, Kind: w.kind, Muts: w.muts, Ops: w.ops, Note: w.note}
			ok := true
			f := buildSeed(seed, w.kind)
			for _, m := range w.muts {
				mm, _ := parseMut(m)
				ok = ok && applyMut(f, mm)
			}
			if !ok {
				continue
			}
			_, v, _ := runCase(c)
			if v.res == "PANIC" {
				b, _ := json.MarshalIndent(c, "", " ")
				os.WriteFile(filepath.Join(args[0], "ops-"+w.name+".json"), append(b, '\n'), 0o644)
				fmt.Printf("%-28s seed %d  %s\n", w.name, seed, v.frame)
				found = true
			}
		}
		if !found {
			fmt.Printf("%-28s NO WITNESS\n", w.name)
		}
	}
}

// Command c03: correspondence cases and direct oracle for property C03
// (files that pass validation satisfy the NACHA control arithmetic).
package main

import (
	"encoding/json"
	"flag"
	"fmt"
	"os"
	"path/filepath"
	"sort"
	"strings"

	"github.com/moov-io/ach"

	"verifharness/internal/arith"
	"verifharness/internal/gen"
	"verifharness/internal/hx"
	"verifharness/internal/rng"
)

func main() {
	if len(os.Args) < 2 {
		fmt.Fprintln(os.Stderr, "usage: c03 corr|oracle|replay ...")
		os.Exit(2)
	}
	switch os.Args[1] {
	case "corr":
		corr(os.Args[2:])
	case "oracle":
		oracle(os.Args[2:])
	case "replay":
		replay(os.Args[2:])
	default:
		fmt.Fprintln(os.Stderr, "unknown mode")
		os.Exit(2)
	}
}

// ---------------------------------------------------------------- file sources

func genFile(seed uint64, idx int) (*ach.File, string) { return arith.GenFile(seed, idx, false) }

func batchOf(f *ach.File, t arith.Target) (arith.Batch, error) {
	if t.IAT {
		b := &f.IATBatches[t.Idx]
		return arith.FromIAT(b), arith.Safe(b.Validate)
	}
	b := f.Batches[t.Idx]
	return arith.FromBatcher(b), arith.Safe(b.Validate)
}

func b2i(b bool) int {
	if b {
		return 1
	}
	return 0
}

// implBatch is the implementation's observation for a "B" case.
func implBatch(f *ach.File, t arith.Target) string {
	sk, err := batchOf(f, t)
	rule := arith.Classify(err, sk.Kind)
	var c, a, m, h, o bool
	var credit, debit, hash int
	perr := arith.Safe(func() error {
		if t.IAT {
			b := &f.IATBatches[t.Idx]
			c, a, m, h, o = ach.VerifIATBatchChecks(b)
			_, credit, debit, hash = ach.VerifIATBatchCalc(b)
		} else {
			b := arith.StdBatch(f.Batches[t.Idx])
			c, a, m, h, o = ach.VerifBatchChecks(b)
			credit, debit, hash = ach.VerifBatchCalc(b)
		}
		return nil
	})
	if perr != nil {
		return "panic " + perr.Error()
	}
	return fmt.Sprintf("%d %d %d %d %d %d %d %d %d", rule, b2i(c), b2i(a), b2i(m), b2i(h), b2i(o), credit, debit, hash)
}

func implFile(f *ach.File) string {
	vf := arith.Classify(arith.Safe(f.Validate), arith.KStd)
	rv := arith.ROk
	for _, b := range f.Batches {
		if err := arith.Safe(b.Validate); err != nil {
			k := arith.KStd
			if b.GetHeader().StandardEntryClassCode == ach.ADV {
				k = arith.KADV
			}
			rv = arith.Classify(err, k)
			break
		}
	}
	if rv == arith.ROk {
		for i := range f.IATBatches {
			if err := arith.Safe(f.IATBatches[i].Validate); err != nil {
				rv = arith.Classify(err, arith.KIAT)
				break
			}
		}
	}
	if rv == arith.ROk {
		rv = vf
	}
	return fmt.Sprintf("%d %d", vf, rv)
}

// ---------------------------------------------------------------- correspondence

func corr(args []string) {
	fs := flag.NewFlagSet("corr", flag.ExitOnError)
	out := fs.String("out", "", "output directory")
	nfiles := fs.Int("files", 60, "generated files")
	nper := fs.Int("perturb", 30, "perturbations per file")
	ncd := fs.Int("cd", 100000, "random check digit cases")
	only := fs.String("only", "", "restrict perturbation kinds (comma separated), for C04: protected single-field changes")
	tamper := fs.Bool("tamper", false, "C04: emit only the perturbed cases (no base files, no primitives) and their descriptions (desc.txt)")
	fs.Parse(args)
	descs := hx.Create(filepath.Join(*out, "desc.txt"))
	cases := hx.Create(filepath.Join(*out, "cases.txt"))
	impl := hx.Create(filepath.Join(*out, "impl.txt"))
	seed := rng.Seed()
	var allowed []int
	for _, s := range strings.Split(*only, ",") {
		if s != "" {
			var k int
			fmt.Sscan(s, &k)
			allowed = append(allowed, k)
		}
	}
	stats := map[string]int{}
	for i := 0; i < *nfiles; i++ {
		f, what := genFile(seed, i)
		if f == nil {
			stats["generator-failed"]++
			continue
		}
		stats["files"]++
		emitFile := func(g *ach.File) {
			cases.Printf("F %s\n", arith.FromFile(g).Enc())
			impl.Printf("%s\n", implFile(g))
		}
		emitBatch := func(g *ach.File, t arith.Target) {
			sk, _ := batchOf(g, t)
			cases.Printf("B %s\n", sk.Enc())
			impl.Printf("%s\n", implBatch(g, t))
		}
		if !*tamper {
			emitFile(f)
			for j := range f.Batches {
				emitBatch(f, arith.Target{IAT: false, Idx: j})
			}
			for j := range f.IATBatches {
				emitBatch(f, arith.Target{IAT: true, Idx: j})
			}
		}
		r := rng.New(seed*31 + uint64(i)*977 + 11)
		for j := 0; j < *nper; j++ {
			g := gen.Clone(f)
			kind := r.Intn(arith.NPerturb)
			if len(allowed) > 0 {
				kind = allowed[r.Intn(len(allowed))]
			}
			var desc string
			var t arith.Target
			var bl, ch bool
			if err := arith.Safe(func() error { desc, t, bl, ch = arith.Perturb(r.Fork(), g, kind); return nil }); err != nil || !ch {
				stats["perturbation-skipped"]++
				continue
			}
			stats["perturbed "+what]++
			if bl && (!t.IAT && t.Idx < len(g.Batches) || t.IAT && t.Idx < len(g.IATBatches)) {
				emitBatch(g, t)
				descs.Printf("%s file %d: %s (batch)\n", what, i, desc)
			}
			emitFile(g)
			descs.Printf("%s file %d: %s (file)\n", what, i, desc)
		}
	}
	descs.Close()
	if *tamper {
		cases.Close()
		impl.Close()
		js, _ := json.Marshal(stats)
		fmt.Println(string(js))
		return
	}
	// primitives
	r := rng.New(seed*131 + 5)
	cd := func(s string) {
		cases.Printf("D %s\n", hx.Enc(s))
		impl.Printf("%d\n", ach.CalculateCheckDigit(s))
	}
	// all routing prefixes over the digits {8,9} and {0,9}: the largest weighted sums
	for m := 0; m < 256; m++ {
		a, b := []byte("00000000"), []byte("00000000")
		for k := 0; k < 8; k++ {
			a[k] = byte('8' + (m>>k)&1)
			if (m>>k)&1 == 1 {
				b[k] = '9'
			}
		}
		cd(string(a))
		cd(string(b))
	}
	for pos := 0; pos < 8; pos++ {
		for d := 0; d < 10; d++ {
			bs := []byte("00000000")
			bs[pos] = byte('0' + d)
			cd(string(bs))
		}
	}
	for _, s := range []string{"", "1", "1234567", "123456789", "1234567890", "12345x78", "x2345678", "1234567x9", "12345678x", "1234567é", "é2345678", " 1234567", "-1234567", "+1234567", "99999999", "\xff2345678"} {
		cd(s)
	}
	for i := 0; i < *ncd; i++ {
		n := 8 + r.Intn(2)
		bs := make([]byte, n)
		for k := range bs {
			bs[k] = byte('0' + r.Intn(10))
		}
		cd(string(bs))
	}
	pool := []string{"0", "1", "2", "9", "5", " ", "x", "-", "+", "é"}
	for i := 0; i < 3000; i++ {
		n := r.Intn(12)
		s := ""
		for k := 0; k < n; k++ {
			if r.Chance(5, 6) {
				s += pool[r.Intn(5)]
			} else {
				s += pool[r.Intn(len(pool))]
			}
		}
		cases.Printf("A %s\n", hx.Enc(s))
		impl.Printf("%s\n", hx.Enc(ach.VerifABA8(s)))
	}
	for i := 0; i < 3000; i++ {
		v := int(r.U64() >> uint(1+r.Intn(62)))
		if r.Chance(1, 5) {
			v = -v
		}
		d := rng.Pick(r, []int{10, 10, 10, 9, 1, 0, 12, 18})
		cases.Printf("L %d %d\n", v, d)
		impl.Printf("%d\n", ach.VerifLeastSignificantDigits(v, uint(d)))
	}
	for c := -5; c <= 130; c++ {
		e := ach.NewEntryDetail()
		e.TransactionCode = c
		v := 0
		switch e.CreditOrDebit() {
		case "C":
			v = 1
		case "D":
			v = 2
		}
		cases.Printf("C %d\n", c)
		impl.Printf("%d\n", v)
	}
	cases.Close()
	impl.Close()
	js, _ := json.Marshal(stats)
	fmt.Println(string(js))
}

// ---------------------------------------------------------------- oracle

type tcase struct {
	Seed    uint64 `json:"seed"`
	File    int    `json:"file"`
	Kind    int    `json:"perturbation"` // -1 = none
	PSeed   uint64 `json:"perturbation_seed"`
	Retab   bool   `json:"retabulated"`
	Desc    string `json:"description,omitempty"`
	Source  string `json:"source,omitempty"`
	Outcome string `json:"outcome,omitempty"`
}

type failRec struct {
	Kind string `json:"kind"`
	Key  string `json:"key"`
	What string `json:"what"`
	Case tcase  `json:"case"`
}

type summary struct {
	Kind        string         `json:"kind"`
	Evaluations int            `json:"evaluations"`
	Distinct    int            `json:"distinct_nontrivial"`
	Rule        string         `json:"rule"`
	Dist        map[string]int `json:"distribution"`
	Samples     []any          `json:"samples"`
}

var kindName = map[int]string{arith.KStd: "std", arith.KIAT: "iat", arith.KADV: "adv"}

// build re-creates the file of a case.
func build(c tcase) (*ach.File, arith.Target, bool, string) {
	f, what := genFile(c.Seed, c.File)
	if f == nil {
		return nil, arith.Target{}, false, what
	}
	if c.Kind < 0 {
		return f, arith.Target{}, false, what
	}
	g := gen.Clone(f)
	var t arith.Target
	var bl, ch bool
	var desc string
	if err := arith.Safe(func() error { desc, t, bl, ch = arith.Perturb(rng.New(c.PSeed), g, c.Kind); return nil }); err != nil || !ch {
		return nil, t, false, "perturbation not applicable"
	}
	if c.Retab {
		if err := arith.Retabulate(g, t); err != nil {
			return nil, t, bl, "retabulation failed: " + err.Error()
		}
	}
	return g, t, bl, desc
}

// evaluate checks the property on one file: returns failures (key, what) and an outcome tag.
func evaluate(f *ach.File, t arith.Target, batchLevel bool) (fails [][2]string, outcome string, evals int) {
	add := func(k, w string) { fails = append(fails, [2]string{k, w}) }
	// every batch that validates on its own must satisfy the arithmetic
	checkBatch := func(t arith.Target, viaFile bool) {
		sk, err := batchOf(f, t)
		evals++
		v := arith.CheckBatch(sk)
		if len(v) == 0 {
			return
		}
		if err != nil {
			if !viaFile {
				return // rejected, fine
			}
			switch sk.Kind {
			case arith.KIAT:
				add("file-validate:iat-batch-not-validated", fmt.Sprintf("File.Validate() accepted a file whose IAT batch #%d fails IATBatch.Validate (%v) and violates %v", sk.Number, err, v))
			case arith.KADV:
				add("file-validate:adv-batch-not-validated", fmt.Sprintf("File.Validate() accepted an ADV file whose batch #%d fails BatchADV.Validate (%v) and violates %v", sk.Number, err, v))
			default:
				add("file:std-batch-rejected-but-file-accepted", fmt.Sprintf("batch #%d: %v", sk.Number, err))
			}
			return
		}
		for _, rule := range v {
			add("batch:"+kindName[sk.Kind]+":"+rule, fmt.Sprintf("batch #%d passes Validate() but violates %s (control %+v)", sk.Number, rule, sk.C))
		}
	}
	ferr := arith.Safe(f.Validate)
	evals++
	if ferr == nil {
		outcome = "accepted"
		for j := range f.Batches {
			checkBatch(arith.Target{IAT: false, Idx: j}, true)
		}
		for j := range f.IATBatches {
			checkBatch(arith.Target{IAT: true, Idx: j}, true)
		}
		for _, rule := range arith.CheckFile(arith.FromFile(f)) {
			add("file:"+rule, "file passes Validate() but violates "+rule)
		}
	} else {
		outcome = "rejected:" + arith.RuleNames[arith.Classify(ferr, arith.KStd)]
		if batchLevel && (!t.IAT && t.Idx < len(f.Batches) || t.IAT && t.Idx < len(f.IATBatches)) {
			checkBatch(t, false)
		}
	}
	return
}

func oracle(args []string) {
	fs := flag.NewFlagSet("oracle", flag.ExitOnError)
	out := fs.String("out", "", "output directory")
	nfiles := fs.Int("files", 60, "generated files")
	nper := fs.Int("perturb", 40, "perturbations per file")
	corpus := fs.String("corpus", "", "corpus directory (cases replayed first)")
	fs.Parse(args)
	w := hx.Create(filepath.Join(*out, "oracle.jsonl"))
	sum := summary{Kind: "summary", Dist: map[string]int{}, Rule: "generated valid files of every SEC code, IAT, ADV, mixed and large (160+ entries) batches; each perturbed in memory (29 kinds: any control field, amount, code, routing number, check digit, trace, addenda list, entry list, batch list), re-validated as is and, for entry level changes, again after re-tabulating with Create(); every accepted file/batch is compared with an independent recomputation of the control arithmetic. non-trivial = perturbed or re-tabulated case that was applicable; distinct by the hex encoding of the resulting skeleton"}
	seen := map[string]bool{}
	emit := func(c tcase, fails [][2]string) {
		for _, f := range fails {
			b, _ := json.Marshal(failRec{"fail", f[0], f[1], c})
			w.Printf("%s\n", b)
		}
	}
	run := func(c tcase) {
		f, t, bl, desc := build(c)
		if f == nil {
			sum.Dist["skipped: "+strings.SplitN(desc, ":", 2)[0]]++
			return
		}
		c.Desc = desc
		fails, outcome, evals := evaluate(f, t, bl)
		c.Outcome = outcome
		sum.Evaluations += evals
		tag := "base"
		if c.Kind >= 0 {
			tag = fmt.Sprintf("p%02d", c.Kind)
			if c.Retab {
				tag += "+create"
			}
			enc := arith.FromFile(f).Enc()
			if !seen[enc] {
				seen[enc] = true
				sum.Distinct++
			}
		}
		sum.Dist[tag+" "+strings.SplitN(outcome, ":", 2)[0]]++
		if len(sum.Samples) < 6 && c.Kind >= 0 && (sum.Evaluations%7 == 0 || len(fails) > 0) {
			sum.Samples = append(sum.Samples, c)
		}
		emit(c, fails)
	}
	if *corpus != "" {
		ents, _ := filepath.Glob(filepath.Join(*corpus, "*.json"))
		sort.Strings(ents)
		for _, p := range ents {
			bs, err := os.ReadFile(p)
			if err != nil {
				continue
			}
			var c tcase
			if json.Unmarshal(bs, &c) == nil {
				c.Source = filepath.Base(p)
				run(c)
			}
		}
	}
	seed := rng.Seed()
	for i := 0; i < *nfiles; i++ {
		run(tcase{Seed: seed, File: i, Kind: -1})
		r := rng.New(seed*31 + uint64(i)*977 + 17)
		for j := 0; j < *nper; j++ {
			kind := r.Intn(arith.NPerturb)
			ps := r.U64()
			run(tcase{Seed: seed, File: i, Kind: kind, PSeed: ps})
			if arith.EntryLevel(kind) {
				run(tcase{Seed: seed, File: i, Kind: kind, PSeed: ps, Retab: true})
			}
		}
	}
	if len(sum.Samples) == 0 {
		sum.Samples = append(sum.Samples, tcase{Seed: seed, File: 0, Kind: -1})
	}
	b, _ := json.Marshal(sum)
	w.Printf("%s\n", b)
	w.Close()
}

func replay(args []string) {
	if len(args) < 1 {
		fmt.Fprintln(os.Stderr, "usage: c03 replay <file>")
		os.Exit(2)
	}
	bs, err := os.ReadFile(args[0])
	if err != nil {
		fmt.Fprintln(os.Stderr, err)
		os.Exit(2)
	}
	var doc struct {
		Input   *tcase `json:"input"`
		Failure struct {
			Case *tcase `json:"case"`
		} `json:"failure"`
	}
	var c tcase
	if json.Unmarshal(bs, &doc) == nil && (doc.Input != nil || doc.Failure.Case != nil) {
		if doc.Input != nil {
			c = *doc.Input
		} else {
			c = *doc.Failure.Case
		}
	} else if err := json.Unmarshal(bs, &c); err != nil {
		fmt.Fprintln(os.Stderr, "cannot parse case:", err)
		os.Exit(2)
	}
	f, t, bl, desc := build(c)
	if f == nil {
		fmt.Println("case not applicable:", desc)
		return
	}
	fmt.Printf("case: file %d of seed %d, perturbation %d (%s), retabulated=%v\n", c.File, c.Seed, c.Kind, desc, c.Retab)
	fmt.Printf("skeleton: F %s\n", arith.FromFile(f).Enc())
	fmt.Printf("File.Validate(): %v\n", arith.Safe(f.Validate))
	fails, outcome, _ := evaluate(f, t, bl)
	fmt.Println("outcome:", outcome)
	for _, x := range fails {
		fmt.Printf("FAIL %s: %s\n", x[0], x[1])
	}
	if len(fails) > 0 {
		os.Exit(1)
	}
	fmt.Println("property holds on this case")
}

// Command c05iat: correspondence cases and direct oracle for the IAT / ADV / whole-file part
// of property C05 (Create makes the control records equal to the recomputation, idempotently,
// over histories).
//
// A case is a seed.  From it a file is assembled through the public constructors — standard
// batches and IAT batches ("mixed"), or ADV batches ("adv", now and then with a standard or
// an IAT batch in it) — from the entries of the shared generator (internal/gen) with trace
// numbers / sequence numbers / batch numbers / validation options varied, and a history of
// operations is drawn while it runs: build a batch, add / remove / amend an entry, File.Create.
//
//	corr    runs every history on the real code with the tabulation step of Create
//	        (Batch.build / IATBatch.build, verif hook) and writes the abstract initial state
//	        + ops for the extracted Coq model (astep of coq/Model/FileCreateAll.v) and the
//	        implementation's abstract state after each op
//	oracle  runs clean histories through the public API (Create = build + Validate) and
//	        evaluates the property on the file the Writer renders
//	replay  runs the oracle on one case file
package main

import (
	"bytes"
	"encoding/json"
	"flag"
	"fmt"
	"os"
	"path/filepath"
	"sort"
	"strconv"
	"strings"
	"time"
	"unicode/utf8"

	"github.com/moov-io/ach"

	"verifharness/internal/gen"
	"verifharness/internal/hx"
	"verifharness/internal/rng"
)

func main() {
	if len(os.Args) < 2 {
		fmt.Fprintln(os.Stderr, "usage: c05iat corr|oracle|replay ...")
		os.Exit(2)
	}
	switch os.Args[1] {
	case "corr":
		corr(os.Args[2:])
	case "oracle":
		oracle(os.Args[2:])
	case "replay":
		replay(os.Args[2:])
	default:
		fmt.Fprintln(os.Stderr, "unknown mode")
		os.Exit(2)
	}
}

// ---------------------------------------------------------------- cases

type caseSpec struct {
	H       string `json:"h"`    // "c05iat" (tells lib/c05.py which harness replays the case)
	Kind    string `json:"kind"` // mixed | adv
	Seed    uint64 `json:"seed"`
	MaxOps  int    `json:"max_ops"`
	Special string `json:"special,omitempty"` // a hand-picked shape (see specials)
	Clean   bool   `json:"clean,omitempty"`   // valid by construction: every Create must succeed (oracle)
}

var specials = []string{
	"adv-seq-9998", "adv-seq-9999", "adv-seq-10000", "adv-hash-overflow", "iat-hash-overflow",
	"numbers-5-0", "numbers-std3-iat0", "numbers-iat-7-2", "adv-with-iat", "adv-with-std-after", "adv-with-std-before",
	"zero-batches", "zero-batches-allowed", "zero-batches-skipall", "hdr-bad-allowed", "adv-numbers-4-0",
}

// specials whose Create / File.Create return an error by design (ADV sequence limit, no batches)
var expectErr = map[string]bool{"adv-seq-9999": true, "adv-seq-10000": true, "zero-batches": true, "adv-with-iat": true}

// ---------------------------------------------------------------- the real objects

type world struct {
	c     caseSpec
	file  *ach.File
	r     *rng.R              // draws the operations
	iopts []*ach.ValidateOpts // validation options given to the IAT batches (IATBatch keeps them private)
}

const odfiDefault = "12104288"

func safely(f func()) (ok bool, detail string) {
	defer func() {
		if p := recover(); p != nil {
			ok, detail = false, fmt.Sprint(p)
		}
	}()
	f()
	return true, ""
}

var stdSECs = []string{ach.PPD, ach.CCD, ach.WEB, ach.CTX, ach.TEL, ach.ARC, ach.BOC, ach.CIE, ach.POP, ach.RCK, ach.POS, ach.MTE, ach.SHR, ach.TRC, ach.XCK}

// The shared generator (internal/gen) calls Create itself and panics when a batch that is valid
// by construction does not get through it (it is written for a working library).  The sources
// below then fall back to plain hand-made records assembled without calling Create, so that the
// correspondence and the oracle still run and name a concrete failing history.
var degraded int
var lastDegraded string

// stdEntries: entries of a created standard batch of the shared generator (copies of the header and the entries)
func stdEntries(r *rng.R, sec string, max int) (hdr *ach.BatchHeader, out []*ach.EntryDetail) {
	seed := r.U64()
	ok, d := safely(func() {
		g := rng.New(seed)
		b := gen.BatchOfKind(g, sec, odfiDefault, 1, gen.KindForward, gen.Opts{MaxEntries: max, Addenda: g.Bool()})
		h := *b.GetHeader()
		hdr = &h
		out = append(out, b.GetEntries()...)
	})
	if ok {
		return hdr, out
	}
	degraded++
	lastDegraded = d
	g := rng.New(seed ^ 0x5bd1e995)
	bh := ach.NewBatchHeader()
	bh.ServiceClassCode = ach.MixedDebitsAndCredits
	bh.StandardEntryClassCode = ach.PPD
	bh.CompanyName = "Payee Co"
	bh.CompanyIdentification = "121042882"
	bh.CompanyEntryDescription = "PAYMENT"
	bh.EffectiveEntryDate = "190816"
	bh.ODFIIdentification = odfiDefault
	var es []*ach.EntryDetail
	for i, n := 0, g.Range(1, max); i < n; i++ {
		e := ach.NewEntryDetail()
		e.TransactionCode = rng.Pick(g, []int{ach.CheckingCredit, ach.CheckingDebit, ach.SavingsCredit, ach.SavingsDebit})
		e.SetRDFI(rng.Pick(g, []string{"231380104", "121042882", "091000019"}))
		e.DFIAccountNumber = strconv.Itoa(g.Range(1000, 99999999))
		e.Amount = g.Range(1, 5000000)
		e.IndividualName = "Receiver " + strconv.Itoa(i)
		e.SetTraceNumber(odfiDefault, i+1)
		es = append(es, e)
	}
	return bh, es
}

func iatSource(r *rng.R, max int, clean bool, forwardOnly ...bool) (out ach.IATBatch) {
	seed := r.U64()
	ok, d := safely(func() {
		g := rng.New(seed)
		o := gen.Opts{MaxEntries: max, Addenda: true, ForwardOnly: true}
		if !clean && g.Chance(1, 4) {
			o = gen.Opts{MaxEntries: max, Addenda: true, Returns: true, NOC: true}
		} else if clean && len(forwardOnly) == 0 && g.Chance(1, 2) {
			// notification-of-change batches (IATCOR): the entries carry an Addenda98 and none of the seven mandatory addenda
			o = gen.Opts{MaxEntries: max, Addenda: true, NOC: true}
		}
		out = gen.IATBatch(g, odfiDefault, 1, o)
	})
	if ok {
		return out
	}
	degraded++
	lastDegraded = d
	return plainIAT(rng.New(seed^0x5bd1e995), max)
}

// plainIAT: a forward IAT batch in the style of the library's own test fixtures, not created.
func plainIAT(g *rng.R, max int) ach.IATBatch {
	bh := ach.NewIATBatchHeader()
	bh.ServiceClassCode = ach.MixedDebitsAndCredits
	bh.ForeignExchangeIndicator = "FF"
	bh.ForeignExchangeReferenceIndicator = 3
	bh.ISODestinationCountryCode = "US"
	bh.OriginatorIdentification = "123456789"
	bh.StandardEntryClassCode = ach.IAT
	bh.CompanyEntryDescription = "TRADEPAYMT"
	bh.ISOOriginatingCurrencyCode = "CAD"
	bh.ISODestinationCurrencyCode = "USD"
	bh.EffectiveEntryDate = "190816"
	bh.ODFIIdentification = odfiDefault
	b := ach.NewIATBatch(bh)
	for i, n := 0, g.Range(1, max); i < n; i++ {
		e := ach.NewIATEntryDetail()
		e.TransactionCode = rng.Pick(g, []int{ach.CheckingCredit, ach.CheckingDebit, ach.SavingsCredit, ach.SavingsDebit})
		e.SetRDFI(rng.Pick(g, []string{"231380104", "121042882", "091000019"}))
		e.AddendaRecords = 7
		e.DFIAccountNumber = strconv.Itoa(g.Range(1000, 99999999))
		e.Amount = g.Range(1, 5000000)
		e.SetTraceNumber(odfiDefault, i+1)
		e.AddendaRecordIndicator = 1
		e.Category = ach.CategoryForward
		a10 := ach.NewAddenda10()
		a10.TransactionTypeCode = "ANN"
		a10.ForeignPaymentAmount = 100000
		a10.ForeignTraceNumber = "928383-23938"
		a10.Name = "BEK Enterprises"
		e.Addenda10 = a10
		a11 := ach.NewAddenda11()
		a11.OriginatorName = "BEK Solutions"
		a11.OriginatorStreetAddress = "15 West Place Street"
		e.Addenda11 = a11
		a12 := ach.NewAddenda12()
		a12.OriginatorCityStateProvince = "JacobsTown*PA\\"
		a12.OriginatorCountryPostalCode = "US*19305\\"
		e.Addenda12 = a12
		a13 := ach.NewAddenda13()
		a13.ODFIName = "Wells Fargo"
		a13.ODFIIDNumberQualifier = "01"
		a13.ODFIIdentification = "121042882"
		a13.ODFIBranchCountryCode = "US"
		e.Addenda13 = a13
		a14 := ach.NewAddenda14()
		a14.RDFIName = "Citadel Bank"
		a14.RDFIIDNumberQualifier = "01"
		a14.RDFIIdentification = "231380104"
		a14.RDFIBranchCountryCode = "US"
		e.Addenda14 = a14
		a15 := ach.NewAddenda15()
		a15.ReceiverIDNumber = "987465493213987"
		a15.ReceiverStreetAddress = "2121 Front Street"
		e.Addenda15 = a15
		a16 := ach.NewAddenda16()
		a16.ReceiverCityStateProvince = "LetterTown*AB\\"
		a16.ReceiverCountryPostalCode = "CA*80014\\"
		e.Addenda16 = a16
		for j, m := 0, g.Range(0, 2); j < m; j++ {
			a := ach.NewAddenda17()
			a.PaymentRelatedInformation = "This is an international payment"
			a.SequenceNumber = j + 1
			e.AddAddenda17(a)
			e.AddendaRecords++
		}
		for j, m := 0, g.Range(0, 5); j < m; j++ {
			a := ach.NewAddenda18()
			a.ForeignCorrespondentBankName = "Bank of Germany"
			a.ForeignCorrespondentBankIDNumberQualifier = "01"
			a.ForeignCorrespondentBankIDNumber = "987987987654654"
			a.ForeignCorrespondentBankBranchCountryCode = "DE"
			a.SequenceNumber = j + 1
			e.AddAddenda18(a)
			e.AddendaRecords++
		}
		b.AddEntry(e)
	}
	return b
}

func advSource(r *rng.R, max int) (out ach.Batcher) {
	seed := r.U64()
	ok, d := safely(func() {
		f := gen.FileOfSEC(rng.New(seed), ach.ADV, gen.Opts{MinBatches: 1, MaxBatches: 1, MaxEntries: max})
		out = f.Batches[0]
	})
	if ok {
		return out
	}
	degraded++
	lastDegraded = d
	g := rng.New(seed ^ 0x5bd1e995)
	bh := ach.NewBatchHeader()
	bh.ServiceClassCode = ach.AutomatedAccountingAdvices
	bh.StandardEntryClassCode = ach.ADV
	bh.CompanyName = "Company Name"
	bh.CompanyIdentification = "121042882"
	bh.CompanyEntryDescription = "Accounting"
	bh.EffectiveEntryDate = "190816"
	bh.ODFIIdentification = odfiDefault
	bh.OriginatorStatusCode = 0
	b := ach.NewBatchADV(bh)
	for i, n := 0, g.Range(1, max); i < n; i++ {
		e := ach.NewADVEntryDetail()
		e.TransactionCode = rng.Pick(g, advCodes)
		e.SetRDFI(rng.Pick(g, []string{"231380104", "121042882", "091000019"}))
		e.DFIAccountNumber = "744-5678-99"
		e.Amount = g.Range(1, 5000000)
		e.AdviceRoutingNumber = "121042882"
		e.FileIdentification = "FILE1"
		e.IndividualName = "Name"
		e.ACHOperatorRoutingNumber = "01100001"
		e.JulianDay = 50
		e.SequenceNumber = i + 1
		e.Category = ach.CategoryForward
		b.AddADVEntry(e)
	}
	return b
}

func pickNumbers(r *rng.R, n int, clean bool) []int {
	out := make([]int, n)
	mode := r.Intn(6)
	if clean {
		mode = r.Intn(3)
	}
	switch mode {
	case 0: // absent
	case 1: // 1 everywhere (still "absent" for File.Create)
		for i := range out {
			out[i] = r.Intn(2)
		}
	case 2: // provided, ascending
		cur := r.Range(2, 50)
		for i := range out {
			out[i] = cur
			cur += r.Range(1, 9)
		}
	case 3: // provided, any order
		for i := range out {
			out[i] = r.Range(2, 12)
		}
	default: // some provided
		for i := range out {
			if r.Bool() {
				out[i] = r.Range(0, 9)
			}
		}
	}
	return out
}

// setTraceMode rewrites the trace number of entry i of a batch about to be assembled.
func traceFor(r *rng.R, mode string, odfi string, i int, old string) string {
	switch mode {
	case "empty":
		return ""
	case "foreign":
		return "99999999" + fmt.Sprintf("%07d", 5+i)
	case "mixed":
		switch r.Intn(3) {
		case 0:
			return ""
		case 1:
			return "99999999" + fmt.Sprintf("%07d", 5+i)
		}
		return old
	case "short":
		return strconv.Itoa(r.Range(1, 99999)) // fewer than 15 digits: zero padded on the left, ODFI 0
	}
	return old // keep
}

func pickTraceMode(r *rng.R, clean bool) string {
	if clean {
		return "empty"
	}
	return rng.Pick(r, []string{"empty", "empty", "keep", "keep", "foreign", "mixed", "short"})
}

func scrambleIAT(r *rng.R, e *ach.IATEntryDetail) {
	g := func() int { return r.Range(0, 9999999) }
	if e.Addenda10 != nil {
		e.Addenda10.EntryDetailSequenceNumber = g()
	}
	if e.Addenda11 != nil {
		e.Addenda11.EntryDetailSequenceNumber = g()
	}
	if e.Addenda12 != nil {
		e.Addenda12.EntryDetailSequenceNumber = g()
	}
	if e.Addenda13 != nil {
		e.Addenda13.EntryDetailSequenceNumber = g()
	}
	if e.Addenda14 != nil {
		e.Addenda14.EntryDetailSequenceNumber = g()
	}
	if e.Addenda15 != nil {
		e.Addenda15.EntryDetailSequenceNumber = g()
	}
	if e.Addenda16 != nil {
		e.Addenda16.EntryDetailSequenceNumber = g()
	}
	for _, a := range e.Addenda17 {
		a.SequenceNumber, a.EntryDetailSequenceNumber = r.Range(0, 9), g()
	}
	for _, a := range e.Addenda18 {
		a.SequenceNumber, a.EntryDetailSequenceNumber = r.Range(0, 9), g()
	}
}

// iatEntryFor prepares an entry taken from the generator for a batch under assembly.
func iatEntryFor(r *rng.R, e *ach.IATEntryDetail, mode string, i int, clean bool) *ach.IATEntryDetail {
	e.TraceNumber = traceFor(r, mode, odfiDefault, i, e.TraceNumber)
	if !clean {
		if r.Chance(1, 40) {
			e.TraceNumber = "X" + fmt.Sprintf("%014d", r.Range(1, 99999999)) // Atoi of the first eight characters fails
		}
		if r.Chance(1, 40) && e.Addenda98 == nil {
			switch r.Intn(3) { // a mandatory addenda record is missing
			case 0:
				e.Addenda10 = nil
			case 1:
				e.Addenda13 = nil
			default:
				e.Addenda16 = nil
			}
		}
		scrambleIAT(r, e)
	}
	return e
}

func newIAT(r *rng.R, num int, max int, clean bool, forwardOnly ...bool) ach.IATBatch {
	src := iatSource(r.Fork(), max, clean, forwardOnly...)
	h := *src.GetHeader()
	h.BatchNumber = num
	nb := ach.NewIATBatch(&h)
	mode := pickTraceMode(r, clean)
	for i, e := range src.GetEntries() {
		nb.AddEntry(iatEntryFor(r, e, mode, i, clean))
	}
	var vo *ach.ValidateOpts
	if !clean && r.Chance(1, 5) {
		vo = &ach.ValidateOpts{BypassOriginValidation: r.Bool(), CustomTraceNumbers: r.Bool()}
		nb.SetValidation(vo)
	}
	if clean && r.Chance(1, 6) {
		// the caller's own trace numbers (any order, foreign ODFI): Create must keep them
		vo = &ach.ValidateOpts{CustomTraceNumbers: true}
		nb.SetValidation(vo)
		for _, e := range nb.Entries {
			e.TraceNumber = fmt.Sprintf("%08d%07d", r.Range(1, 99999999), r.Range(1, 9999999))
		}
	}
	pendingOpts = append(pendingOpts, vo)
	return nb
}

func newStd(r *rng.R, num int, max int, clean bool) ach.Batcher {
	sec := rng.Pick(r, stdSECs)
	h, es := stdEntries(r.Fork(), sec, max)
	h.BatchNumber = num
	nb, err := ach.NewBatch(h)
	if err != nil {
		panic(err)
	}
	mode := pickTraceMode(r, clean)
	if mode == "short" {
		mode = "empty"
	}
	for i, e := range es {
		e.TraceNumber = traceFor(r, mode, odfiDefault, i, e.TraceNumber)
		if e.Addenda02 != nil {
			e.Addenda02.TraceNumber = e.TraceNumber
		}
		nb.AddEntry(e)
	}
	return nb
}

func newADV(r *rng.R, num int, max int, clean bool) ach.Batcher {
	src := advSource(r.Fork(), max)
	h := *src.GetHeader()
	h.BatchNumber = num
	nb := ach.NewBatchADV(&h)
	for _, e := range src.GetADVEntries() {
		ce := *e
		if clean {
			ce.SequenceNumber = 0
		} else {
			ce.SequenceNumber = r.Range(0, 9999)
		}
		nb.AddADVEntry(&ce)
	}
	if !clean && r.Chance(1, 25) {
		nb.WithOffset(&ach.Offset{RoutingNumber: "121042882", AccountNumber: "123456789", AccountType: ach.OffsetChecking, Description: "OFFSET"})
	}
	if !clean && r.Chance(1, 25) {
		_, es := stdEntries(r.Fork(), ach.PPD, 1)
		nb.AddEntry(es[0]) // a standard entry in an ADV batch
	}
	return nb
}

// bigRDFI: entries whose routing numbers sum up beyond ten digits
const bigRDFI = "812345678"

func cloneADVEntries(b ach.Batcher, n int, rdfi string) {
	src := b.GetADVEntries()[0]
	b.DeleteADVEntries(func(*ach.ADVEntryDetail) bool { return true })
	for i := 0; i < n; i++ {
		ce := *src
		if rdfi != "" {
			ce.SetRDFI(rdfi)
		}
		ce.SequenceNumber = 0
		b.AddADVEntry(&ce)
	}
}

func build(c caseSpec) *world {
	r := rng.New(c.Seed)
	w := &world{c: c}
	f := ach.NewFile()
	f.SetHeader(gen.Header(r.Fork(), gen.Opts{}))
	w.file = f
	clean := c.Clean
	max := 4
	switch c.Special {
	case "":
		if !clean && r.Chance(1, 15) {
			f.Header.ImmediateDestination = ""
		}
		if !clean && r.Chance(1, 8) {
			f.SetValidation(&ach.ValidateOpts{SkipAll: r.Chance(1, 3), AllowMissingFileHeader: r.Bool(), AllowZeroBatches: r.Bool()})
		}
		switch c.Kind {
		case "adv":
			n := r.Range(1, 3)
			nums := pickNumbers(r, n+1, clean)
			intruder := -1
			if !clean && r.Chance(1, 10) {
				intruder = r.Intn(n + 1)
			}
			for i := 0; i < n; i++ {
				if i == intruder {
					f.AddBatch(newStd(r, nums[n], max, clean))
				}
				f.AddBatch(newADV(r, nums[i], max, clean))
			}
			if intruder == n {
				f.AddBatch(newStd(r, nums[n], max, clean))
			}
			if !clean && r.Chance(1, 10) {
				f.AddIATBatch(newIAT(r, 0, 2, clean))
			}
		default:
			nStd := rng.Pick(r, []int{0, 0, 1, 1, 2})
			nIat := rng.Pick(r, []int{1, 1, 1, 2, 3})
			if !clean && r.Chance(1, 12) {
				nIat = 0
			}
			nums := pickNumbers(r, nStd+nIat, clean)
			for i := 0; i < nStd; i++ {
				f.AddBatch(newStd(r, nums[i], max, clean))
			}
			for i := 0; i < nIat; i++ {
				f.AddIATBatch(newIAT(r, nums[nStd+i], max, clean))
			}
		}
	case "adv-seq-9998", "adv-seq-9999", "adv-seq-10000":
		n, _ := strconv.Atoi(strings.TrimPrefix(c.Special, "adv-seq-"))
		b := newADV(r, 0, 1, true)
		cloneADVEntries(b, n, "")
		f.AddBatch(b)
	case "adv-hash-overflow":
		for k := 0; k < 2; k++ {
			b := newADV(r, 0, 1, true)
			cloneADVEntries(b, 70+k, bigRDFI)
			f.AddBatch(b)
		}
	case "iat-hash-overflow":
		for k := 0; k < 2; k++ {
			nb := newIAT(r, 0, 1, true, true)
			for len(nb.Entries) < 130 {
				src := iatSource(r.Fork(), 4, true, true)
				for _, e := range src.GetEntries() {
					e.SetRDFI(bigRDFI)
					e.TraceNumber = ""
					nb.AddEntry(e)
				}
			}
			nb.Entries[0].SetRDFI(bigRDFI)
			f.AddIATBatch(nb)
		}
	case "numbers-5-0":
		f.AddBatch(newStd(r, 5, max, true))
		f.AddBatch(newStd(r, 0, max, true))
	case "numbers-std3-iat0":
		f.AddBatch(newStd(r, 3, max, true))
		f.AddIATBatch(newIAT(r, 0, max, true))
	case "numbers-iat-7-2":
		f.AddIATBatch(newIAT(r, 7, max, true))
		f.AddIATBatch(newIAT(r, 2, max, true))
	case "adv-numbers-4-0":
		f.AddBatch(newADV(r, 4, max, true))
		f.AddBatch(newADV(r, 0, max, true))
	case "adv-with-iat":
		f.AddBatch(newADV(r, 0, max, true))
		f.AddIATBatch(newIAT(r, 0, max, true))
	case "adv-with-std-after":
		f.AddBatch(newADV(r, 0, max, true))
		f.AddBatch(newADV(r, 0, max, true))
		f.AddBatch(newStd(r, 0, max, true))
	case "adv-with-std-before":
		f.AddBatch(newStd(r, 0, max, true))
		f.AddBatch(newADV(r, 0, max, true))
	case "zero-batches":
	case "zero-batches-allowed":
		f.SetValidation(&ach.ValidateOpts{AllowZeroBatches: true})
	case "zero-batches-skipall":
		f.SetValidation(&ach.ValidateOpts{SkipAll: true})
	case "hdr-bad-allowed":
		f.SetValidation(&ach.ValidateOpts{AllowMissingFileHeader: true})
		f.Header.ImmediateDestination = ""
		f.AddIATBatch(newIAT(r, 0, max, true))
	}
	w.r = r.Fork()
	return w
}

// ---------------------------------------------------------------- operations

type op struct {
	Code    string // SB SA SR SM | IB IA IR IM | F
	I, K    int
	TC, Amt int
	std     *ach.EntryDetail
	adv     *ach.ADVEntryDetail
	iat     *ach.IATEntryDetail
}

func isADVBatch(b ach.Batcher) bool {
	return b.GetHeader() != nil && b.GetHeader().StandardEntryClassCode == ach.ADV
}

var (
	stdCredit = []int{22, 23, 32, 33, 42, 52}
	stdDebit  = []int{27, 28, 37, 38, 47, 55}
	oddCodes  = []int{20, 25, 30, 57, 59, 60, 99, 0}
	advCodes  = []int{81, 82, 83, 84, 85, 86, 87, 88}
	advOdd    = []int{80, 89, 22, 27, 0}
)

func (w *world) drawOp(k, total int) op {
	r := w.r
	f := w.file
	nS, nI := len(f.Batches), len(f.IATBatches)
	// the last operations tabulate everything so that every history ends in File.Create on built batches
	if k >= total-1 {
		return op{Code: "F"}
	}
	clean := w.c.Clean
	for try := 0; try < 20; try++ {
		switch r.Intn(11) {
		case 0, 1:
			if nI > 0 {
				return op{Code: "IB", I: r.Intn(nI)}
			}
		case 2:
			if nS > 0 {
				return op{Code: "SB", I: r.Intn(nS)}
			}
		case 3:
			return op{Code: "F"}
		case 4:
			if nI > 0 {
				i := r.Intn(nI)
				if clean && f.IATBatches[i].Header.StandardEntryClassCode == ach.COR {
					continue // a forward entry does not belong in a notification-of-change batch
				}
				src := iatSource(r.Fork(), 1, true, true)
				mode := "empty"
				if !clean {
					mode = rng.Pick(r, []string{"empty", "empty", "keep", "foreign", "short"})
				}
				e := iatEntryFor(r, src.GetEntries()[0], mode, len(f.IATBatches[i].Entries), clean)
				if clean {
					e.TransactionCode, e.Amount = sameDirection(r, f.IATBatches[i].Header.ServiceClassCode, e.TransactionCode), r.Range(1, 999999)
					if i < len(w.iopts) && w.iopts[i] != nil && w.iopts[i].CustomTraceNumbers {
						e.TraceNumber = fmt.Sprintf("%08d%07d", r.Range(1, 99999999), r.Range(1, 9999999))
					}
				}
				return op{Code: "IA", I: i, iat: e}
			}
		case 5:
			if nI > 0 {
				i := r.Intn(nI)
				n := len(f.IATBatches[i].Entries)
				if clean {
					if n > 1 {
						return op{Code: "IR", I: i, K: n - 1}
					}
					continue
				}
				return op{Code: "IR", I: i, K: r.Intn(n + 1)}
			}
		case 6:
			if nI > 0 {
				i := r.Intn(nI)
				n := len(f.IATBatches[i].Entries)
				if n == 0 {
					continue
				}
				kk := r.Intn(n + 1)
				if clean {
					kk = r.Intn(n)
					e := f.IATBatches[i].Entries[kk]
					if e.Addenda98 != nil || e.Addenda99 != nil || e.Amount == 0 {
						continue
					}
					return op{Code: "IM", I: i, K: kk, TC: sameDirection(r, f.IATBatches[i].Header.ServiceClassCode, e.TransactionCode), Amt: r.Range(1, 99999999)}
				}
				tc := rng.Pick(r, append(append(append([]int{}, stdCredit...), stdDebit...), oddCodes...))
				return op{Code: "IM", I: i, K: kk, TC: tc, Amt: r.Range(0, 99999999)}
			}
		case 7:
			if nS > 0 {
				i := r.Intn(nS)
				b := f.Batches[i]
				if isADVBatch(b) {
					src := advSource(r.Fork(), 1)
					ce := *src.GetADVEntries()[0]
					ce.SequenceNumber = 0
					if !clean {
						ce.SequenceNumber = r.Range(0, 9999)
					}
					return op{Code: "SA", I: i, adv: &ce}
				}
				if clean {
					continue // standard batches: adding is covered by cmd/c05
				}
				_, es := stdEntries(r.Fork(), b.GetHeader().StandardEntryClassCode, 1)
				e := es[0]
				e.TraceNumber = traceFor(r, rng.Pick(r, []string{"empty", "keep", "foreign"}), odfiDefault, len(b.GetEntries()), e.TraceNumber)
				return op{Code: "SA", I: i, std: e}
			}
		case 8:
			if nS > 0 {
				i := r.Intn(nS)
				b := f.Batches[i]
				n := len(b.GetEntries())
				if isADVBatch(b) {
					n = len(b.GetADVEntries())
				}
				if clean {
					if isADVBatch(b) && n > 1 {
						return op{Code: "SR", I: i, K: n - 1}
					}
					continue
				}
				return op{Code: "SR", I: i, K: r.Intn(n + 1)}
			}
		case 9, 10:
			if nS > 0 {
				i := r.Intn(nS)
				b := f.Batches[i]
				if isADVBatch(b) {
					n := len(b.GetADVEntries())
					if n == 0 {
						continue
					}
					if clean {
						return op{Code: "SM", I: i, K: r.Intn(n), TC: rng.Pick(r, advCodes), Amt: r.Range(1, 999999999)}
					}
					return op{Code: "SM", I: i, K: r.Intn(n + 1), TC: rng.Pick(r, append(append([]int{}, advCodes...), advOdd...)), Amt: r.Range(0, 999999999999)}
				}
				if clean {
					continue
				}
				n := len(b.GetEntries())
				tc := rng.Pick(r, append(append(append([]int{}, stdCredit...), stdDebit...), oddCodes...))
				return op{Code: "SM", I: i, K: r.Intn(n + 1), TC: tc, Amt: r.Range(0, 99999999)}
			}
		}
	}
	return op{Code: "F"}
}

// sameDirection: a forward code allowed under the batch's service class (clean histories)
func sameDirection(r *rng.R, scc int, old int) int {
	credit := old%10 < 5
	switch scc {
	case ach.CreditsOnly:
		credit = true
	case ach.DebitsOnly:
		credit = false
	case ach.MixedDebitsAndCredits:
		credit = r.Bool()
	}
	if credit {
		return rng.Pick(r, []int{22, 32, 42, 52})
	}
	return rng.Pick(r, []int{27, 37, 47, 55})
}

type outcome string

const (
	outOK    outcome = "OK"
	outERR   outcome = "ERR"
	outPANIC outcome = "PANIC"
	outHANG  outcome = "HANG"
)

var hangs int

func guarded(f func() error) (out outcome, detail string) {
	type res struct {
		err error
		p   any
	}
	ch := make(chan res, 1)
	go func() {
		defer func() {
			if p := recover(); p != nil {
				ch <- res{p: p}
			}
		}()
		ch <- res{err: f()}
	}()
	wd := 20 * time.Second
	if hangs > 0 {
		wd = 3 * time.Second
	}
	select {
	case r := <-ch:
		if r.p != nil {
			return outPANIC, fmt.Sprint(r.p)
		}
		if r.err != nil {
			return outERR, r.err.Error()
		}
		return outOK, ""
	case <-time.After(wd):
		hangs++
		return outHANG, "no return within the watchdog time"
	}
}

type builder interface{ VerifBuild() error }

func (w *world) apply(o op, hook bool) (outcome, string) {
	f := w.file
	switch o.Code {
	case "F":
		return guarded(f.Create)
	case "IB":
		b := &f.IATBatches[o.I]
		if hook {
			return guarded(b.VerifBuild)
		}
		return guarded(b.Create)
	case "IA":
		f.IATBatches[o.I].AddEntry(o.iat)
	case "IR":
		i := -1
		f.IATBatches[o.I].DeleteEntries(func(*ach.IATEntryDetail) bool { i++; return i == o.K })
	case "IM":
		if es := f.IATBatches[o.I].Entries; o.K < len(es) {
			es[o.K].TransactionCode, es[o.K].Amount = o.TC, o.Amt
		}
	case "SB":
		b := f.Batches[o.I]
		if hook {
			return guarded(b.(builder).VerifBuild)
		}
		return guarded(b.Create)
	case "SA":
		if o.adv != nil {
			f.Batches[o.I].AddADVEntry(o.adv)
		} else {
			f.Batches[o.I].AddEntry(o.std)
		}
	case "SR":
		i := -1
		if isADVBatch(f.Batches[o.I]) {
			f.Batches[o.I].DeleteADVEntries(func(*ach.ADVEntryDetail) bool { i++; return i == o.K })
		} else {
			f.Batches[o.I].DeleteEntries(func(*ach.EntryDetail) bool { i++; return i == o.K })
		}
	case "SM":
		b := f.Batches[o.I]
		if isADVBatch(b) {
			if es := b.GetADVEntries(); o.K < len(es) {
				es[o.K].TransactionCode, es[o.K].Amount = o.TC, o.Amt
			}
		} else if es := b.GetEntries(); o.K < len(es) {
			es[o.K].TransactionCode, es[o.K].Amount = o.TC, o.Amt
		}
	}
	return outOK, ""
}

// ---------------------------------------------------------------- abstraction (what the Coq model sees)

func b2i(b bool) int {
	if b {
		return 1
	}
	return 0
}

func allDigits(s string) bool {
	for i := 0; i < len(s); i++ {
		if s[i] < '0' || s[i] > '9' {
			return false
		}
	}
	return true
}

// traceInt: the integer the digits of a trace number denote (0 for the empty string; -1 when
// the string is outside the model's domain: not all digits or longer than 16)
func traceInt(s string) int {
	if s == "" {
		return 0
	}
	if !allDigits(s) || len(s) > 16 {
		return -1
	}
	n, _ := strconv.Atoi(s)
	return n
}

// field15 / first8: stringField(s, 15)[:8] for ASCII strings
func first8(s string) string {
	if len(s) > 15 {
		s = s[:15]
	}
	for len(s) < 15 {
		s = "0" + s
	}
	return s[:8]
}

// aba8 as in batch.go
func aba8(rtn string) string {
	n := utf8.RuneCountInString(rtn)
	switch {
	case n > 10:
		return ""
	case n == 10:
		if rtn[0] == '0' || rtn[0] == '1' {
			return rtn[1:9]
		}
		return ""
	case n != 8 && n != 9:
		return ""
	default:
		return rtn[:8]
	}
}

func rdfiOf(s string) int {
	n, err := strconv.Atoi(aba8(s))
	if err != nil {
		return 0
	}
	return n
}

func countAddenda(e *ach.EntryDetail) int {
	n := 0
	if e.Addenda02 != nil {
		n++
	}
	for _, a := range e.Addenda05 {
		if a != nil {
			n++
		}
	}
	if e.Addenda98 != nil {
		n++
	}
	if e.Addenda98Refused != nil {
		n++
	}
	if e.Addenda99 != nil {
		n++
	}
	if e.Addenda99Dishonored != nil {
		n++
	}
	if e.Addenda99Contested != nil {
		n++
	}
	return n
}

func absStd(e *ach.EntryDetail) string {
	t := traceInt(e.TraceNumber)
	if t < 0 {
		t = 0
	}
	return fmt.Sprintf("%d:%d:%d:%d:%d:%d", e.TransactionCode, e.Amount, b2i(strings.EqualFold(e.IndividualName, "OFFSET")),
		t, countAddenda(e), rdfiOf(e.RDFIIdentification))
}

func absADV(e *ach.ADVEntryDetail) string {
	return fmt.Sprintf("%d:%d:%d:%d:%d", e.TransactionCode, e.Amount, rdfiOf(e.RDFIIdentification), b2i(e.Addenda99 != nil), e.SequenceNumber)
}

func seqPairs(n int, get func(i int) (int, int)) string {
	if n == 0 {
		return "-"
	}
	var s []string
	for i := 0; i < n; i++ {
		a, b := get(i)
		s = append(s, fmt.Sprintf("%d/%d", a, b))
	}
	return strings.Join(s, "+")
}

func absIAT(e *ach.IATEntryDetail) string {
	num := allDigits(first8(e.TraceNumber))
	t := traceInt(e.TraceNumber)
	if !num || t < 0 {
		num, t = false, 0
	}
	m := make([]string, 7)
	put := func(i int, present bool, v int) {
		if present {
			m[i] = strconv.Itoa(v)
		} else {
			m[i] = "-"
		}
	}
	g := func(p *int) int {
		if p == nil {
			return 0
		}
		return *p
	}
	var p10, p11, p12, p13, p14, p15, p16 *int
	if e.Addenda10 != nil {
		p10 = &e.Addenda10.EntryDetailSequenceNumber
	}
	if e.Addenda11 != nil {
		p11 = &e.Addenda11.EntryDetailSequenceNumber
	}
	if e.Addenda12 != nil {
		p12 = &e.Addenda12.EntryDetailSequenceNumber
	}
	if e.Addenda13 != nil {
		p13 = &e.Addenda13.EntryDetailSequenceNumber
	}
	if e.Addenda14 != nil {
		p14 = &e.Addenda14.EntryDetailSequenceNumber
	}
	if e.Addenda15 != nil {
		p15 = &e.Addenda15.EntryDetailSequenceNumber
	}
	if e.Addenda16 != nil {
		p16 = &e.Addenda16.EntryDetailSequenceNumber
	}
	for i, p := range []*int{p10, p11, p12, p13, p14, p15, p16} {
		put(i, p != nil, g(p))
	}
	a17 := seqPairs(len(e.Addenda17), func(i int) (int, int) {
		return e.Addenda17[i].SequenceNumber, e.Addenda17[i].EntryDetailSequenceNumber
	})
	a18 := seqPairs(len(e.Addenda18), func(i int) (int, int) {
		return e.Addenda18[i].SequenceNumber, e.Addenda18[i].EntryDetailSequenceNumber
	})
	return fmt.Sprintf("%d:%d:%d:%d:%d:%s:%s:%s:%d:%d", e.TransactionCode, e.Amount, b2i(num), t, rdfiOf(e.RDFIIdentification),
		strings.Join(m, ","), a17, a18, b2i(e.Addenda98 != nil), b2i(e.Addenda99 != nil))
}

func ctl6(svc, num, count, hash, credit, debit int) string {
	return fmt.Sprintf("%d,%d,%d,%d,%d,%d", svc, num, count, hash, credit, debit)
}

func absCtl(c *ach.BatchControl) string {
	if c == nil {
		return ctl6(0, 0, 0, 0, 0, 0)
	}
	return ctl6(c.ServiceClassCode, c.BatchNumber, c.EntryAddendaCount, c.EntryHash, c.TotalCreditEntryDollarAmount, c.TotalDebitEntryDollarAmount)
}

func absADVCtl(c *ach.ADVBatchControl) string {
	if c == nil {
		return ctl6(0, 0, 0, 0, 0, 0)
	}
	return ctl6(c.ServiceClassCode, c.BatchNumber, c.EntryAddendaCount, c.EntryHash, c.TotalCreditEntryDollarAmount, c.TotalDebitEntryDollarAmount)
}

func joinOrDot(es []string) string {
	if len(es) == 0 {
		return "."
	}
	return strings.Join(es, ";")
}

// absBatch: state part of a batch (both sides print it after every operation)
func absBatch(b ach.Batcher) string {
	h := b.GetHeader()
	if isADVBatch(b) {
		var es []string
		for _, e := range b.GetADVEntries() {
			es = append(es, absADV(e))
		}
		return fmt.Sprintf("V:%d,%d|%s|%s", h.ServiceClassCode, h.BatchNumber, absADVCtl(b.GetADVControl()), joinOrDot(es))
	}
	var es []string
	for _, e := range b.GetEntries() {
		es = append(es, absStd(e))
	}
	return fmt.Sprintf("S:%d,%d|%s|%s", h.ServiceClassCode, h.BatchNumber, absCtl(b.GetControl()), joinOrDot(es))
}

func absIATBatch(b *ach.IATBatch) string {
	var es []string
	for _, e := range b.Entries {
		es = append(es, absIAT(e))
	}
	return fmt.Sprintf("I:%d,%d|%s|%s", b.Header.ServiceClassCode, b.Header.BatchNumber, absCtl(b.Control), joinOrDot(es))
}

func absFctl(c *ach.FileControl) string {
	return fmt.Sprintf("%d,%d,%d,%d,%d,%d", c.BatchCount, c.BlockCount, c.EntryAddendaCount, c.EntryHash,
		c.TotalDebitEntryDollarAmountInFile, c.TotalCreditEntryDollarAmountInFile)
}

func absAFctl(c *ach.ADVFileControl) string {
	return fmt.Sprintf("%d,%d,%d,%d,%d,%d", c.BatchCount, c.BlockCount, c.EntryAddendaCount, c.EntryHash,
		c.TotalDebitEntryDollarAmountInFile, c.TotalCreditEntryDollarAmountInFile)
}

func (w *world) abs() string {
	parts := []string{"F:" + absFctl(&w.file.Control), "A:" + absAFctl(&w.file.ADVControl)}
	for _, b := range w.file.Batches {
		parts = append(parts, absBatch(b))
	}
	for i := range w.file.IATBatches {
		parts = append(parts, absIATBatch(&w.file.IATBatches[i]))
	}
	return strings.Join(parts, " ")
}

// in the model's domain: trace numbers are digit strings of at most 16 characters (or flagged
// non-numeric in the first eight characters, IAT), distinct entry pointers
func (w *world) inDomain() bool {
	for _, b := range w.file.Batches {
		for _, e := range b.GetEntries() {
			if traceInt(e.TraceNumber) < 0 {
				return false
			}
		}
	}
	for i := range w.file.IATBatches {
		for _, e := range w.file.IATBatches[i].Entries {
			if allDigits(first8(e.TraceNumber)) && traceInt(e.TraceNumber) < 0 {
				return false
			}
		}
	}
	return true
}

// caseLines: the initial state in the driver's input format
func (w *world) caseLines(id int, out *hx.W) {
	f := w.file
	o := ach.ValidateOpts{}
	if v := f.GetValidation(); v != nil {
		o = *v
	}
	out.Printf("CASE %d %d %d %d %d %s %s\n", id, b2i(f.Header.Validate() == nil), b2i(o.SkipAll), b2i(o.AllowMissingFileHeader),
		b2i(o.AllowZeroBatches), absFctl(&f.Control), absAFctl(&f.ADVControl))
	for _, b := range f.Batches {
		h := b.GetHeader()
		if isADVBatch(b) {
			var es []string
			for _, e := range b.GetADVEntries() {
				es = append(es, absADV(e))
			}
			off := b.(interface{ VerifOffset() *ach.Offset }).VerifOffset() != nil
			out.Printf("V %d %d %d %d %s %d %s\n", b2i(h.Validate() == nil), b2i(len(b.GetEntries()) > 0), h.ServiceClassCode, h.BatchNumber,
				absADVCtl(b.GetADVControl()), b2i(off), joinOrDot(es))
			continue
		}
		var es []string
		for _, e := range b.GetEntries() {
			es = append(es, absStd(e))
		}
		odfi, _ := strconv.Atoi(h.ODFIIdentificationField()[:8])
		out.Printf("S %d %d %d %d %s %s\n", b2i(h.Validate() == nil), odfi, h.ServiceClassCode, h.BatchNumber, absCtl(b.GetControl()), joinOrDot(es))
	}
	for i := range f.IATBatches {
		b := &f.IATBatches[i]
		var es []string
		for _, e := range b.Entries {
			es = append(es, absIAT(e))
		}
		odfi, err := strconv.Atoi(b.Header.ODFIIdentificationField()[:8])
		opts := "nil"
		if v := w.iopts[i]; v != nil {
			opts = fmt.Sprintf("%d,%d", b2i(v.BypassOriginValidation), b2i(v.CustomTraceNumbers))
		}
		out.Printf("I %d %d %d %d %d %s %s %s\n", b2i(b.Header.Validate() == nil), b2i(err == nil), odfi, b.Header.ServiceClassCode,
			b.Header.BatchNumber, opts, absCtl(b.Control), joinOrDot(es))
	}
}

func opLine(o op) string {
	switch o.Code {
	case "F":
		return "O F"
	case "IB", "SB":
		return fmt.Sprintf("O %s %d", o.Code, o.I)
	case "IA":
		return fmt.Sprintf("O IA %d %s", o.I, absIAT(o.iat))
	case "SA":
		if o.adv != nil {
			return fmt.Sprintf("O VA %d %s", o.I, absADV(o.adv))
		}
		return fmt.Sprintf("O SA %d %s", o.I, absStd(o.std))
	case "IR", "SR":
		return fmt.Sprintf("O %s %d %d", o.Code, o.I, o.K)
	default:
		return fmt.Sprintf("O %s %d %d %d %d", o.Code, o.I, o.K, o.TC, o.Amt)
	}
}

// ---------------------------------------------------------------- case lists

func corpusCases(dir string) []caseSpec {
	var out []caseSpec
	if dir == "" {
		return out
	}
	names, _ := filepath.Glob(filepath.Join(dir, "*.json"))
	sort.Strings(names)
	for _, p := range names {
		b, err := os.ReadFile(p)
		if err != nil {
			continue
		}
		var rp struct {
			Input caseSpec `json:"input"`
		}
		if json.Unmarshal(b, &rp) == nil && rp.Input.H == "c05iat" {
			out = append(out, rp.Input)
		}
	}
	return out
}

func allCases(corpus string, n, maxOps int, salt uint64, clean bool) []caseSpec {
	cs := corpusCases(corpus)
	if clean {
		var keep []caseSpec
		for _, c := range cs {
			if c.Clean {
				keep = append(keep, c)
			}
		}
		cs = keep
	}
	for i, s := range specials {
		cs = append(cs, caseSpec{H: "c05iat", Kind: "mixed", Seed: uint64(1000 + i), MaxOps: 3, Special: s, Clean: clean})
	}
	r := rng.FromEnv(salt)
	for i := 0; i < n; i++ {
		kind := "mixed"
		if r.Chance(1, 3) {
			kind = "adv"
		}
		cs = append(cs, caseSpec{H: "c05iat", Kind: kind, Seed: r.U64(), MaxOps: r.Range(2, maxOps), Clean: clean})
	}
	return cs
}

// ---------------------------------------------------------------- correspondence

func corr(args []string) {
	fs := flag.NewFlagSet("corr", flag.ExitOnError)
	out := fs.String("out", "", "output directory")
	n := fs.Int("n", 2500, "generated histories")
	maxOps := fs.Int("maxops", 6, "longest history")
	corpus := fs.String("corpus", "", "corpus directory")
	fs.Parse(args)
	cases := hx.Create(filepath.Join(*out, "cases.txt"))
	impl := hx.Create(filepath.Join(*out, "impl.txt"))
	total, lines, skipped := 0, 0, 0
	dist := map[string]int{}
	for id, c := range allCases(*corpus, *n, *maxOps, 1505, false) {
		if hangs > 1 {
			break
		}
		var w *world
		if ok, d := safely(func() { w = buildTracked(c) }); !ok {
			// the shared generator could not get its batch through Create (library broken): the oracle reports it
			skipped++
			_ = d
			continue
		}
		if !w.inDomain() {
			skipped++
			continue
		}
		total++
		dist["kind:"+c.Kind]++
		w.caseLines(id, cases)
		nops := c.MaxOps
		for k := 0; k < nops; k++ {
			o := w.drawOp(k, nops)
			res, _ := w.apply(o, true)
			dist["op:"+o.Code]++
			dist["outcome:"+string(res)]++
			if !w.inDomain() {
				break
			}
			cases.Printf("%s\n", opLine(o))
			if res == outPANIC || res == outHANG {
				impl.Printf("c%d o%d %s\n", id, k, res)
				lines++
				break
			}
			impl.Printf("c%d o%d %s %s\n", id, k, res, w.abs())
			lines++
		}
		cases.Printf("END\n")
	}
	cases.Close()
	impl.Close()
	j, _ := json.Marshal(map[string]any{"histories": total, "observations": lines, "skipped": skipped, "generator_degraded": degraded, "distribution": dist})
	fmt.Println(string(j))
}

// buildTracked: build + remember the validation options given to the IAT batches (newIAT is
// called once per IAT batch, in the order of f.IATBatches)
func buildTracked(c caseSpec) *world {
	pendingOpts = nil
	w := build(c)
	w.iopts = pendingOpts
	if len(w.iopts) != len(w.file.IATBatches) {
		panic("c05iat: IAT option bookkeeping out of step")
	}
	return w
}

var pendingOpts []*ach.ValidateOpts

// ---------------------------------------------------------------- oracle

type failure struct {
	Kind string   `json:"kind"`
	Key  string   `json:"key"`
	What string   `json:"what"`
	Op   int      `json:"op"`
	Case caseSpec `json:"case"`
}

// rendered file, seen as physical records
type physBatch struct {
	sec                                  string
	adv                                  bool
	number                               int
	entries, addenda                     int
	hashSum                              int
	credit, debit                        int
	cCount, cHash, cCredit, cDebit, cNum int // as printed on the batch control record
}

type phys struct {
	records, padding                                       int
	batches                                                []physBatch
	fBatches, fBlocks, fCount, fHash, fDebit, fCredit      int
	headerLines, controlLines, orphan, badLength, nineLine int
}

func atoi(s string) int {
	n, err := strconv.Atoi(strings.TrimSpace(s))
	if err != nil {
		return -1
	}
	return n
}

// parsePhys reads the writer's output by column position (NACHA layouts), independently of the library's parsers.
func parsePhys(text string) phys {
	var p phys
	lines := strings.Split(strings.TrimRight(text, "\n"), "\n")
	// padding: trailing lines of 94 nines (the file control also starts with 9 but is not all nines)
	nine := strings.Repeat("9", 94)
	end := len(lines)
	for end > 0 && lines[end-1] == nine {
		end--
		p.padding++
	}
	p.records = end
	adv := false
	var cur *physBatch
	for _, l := range lines[:end] {
		if len(l) != 94 {
			p.badLength++
			continue
		}
		switch l[0] {
		case '1':
			p.headerLines++
		case '5':
			p.batches = append(p.batches, physBatch{sec: l[50:53], number: atoi(l[87:94])})
			cur = &p.batches[len(p.batches)-1]
			if l[50:53] == "ADV" { // the SEC code sits at 51-53 in the standard and in the IAT header layout
				cur.adv, adv = true, true
			}
		case '6':
			if cur == nil {
				p.orphan++
				continue
			}
			cur.entries++
			cur.hashSum += atoi(l[3:11])
			code := atoi(l[1:3])
			var amt int
			if cur.adv {
				amt = atoi(l[27:39])
				if code%2 == 1 {
					cur.credit += amt
				} else {
					cur.debit += amt
				}
			} else {
				amt = atoi(l[29:39])
				if d := code % 10; d >= 1 && d <= 4 {
					cur.credit += amt
				} else if d >= 5 {
					cur.debit += amt
				}
			}
		case '7':
			if cur == nil {
				p.orphan++
				continue
			}
			cur.addenda++
		case '8':
			if cur == nil {
				p.orphan++
				continue
			}
			cur.cCount, cur.cHash = atoi(l[4:10]), atoi(l[10:20])
			if cur.adv {
				cur.cDebit, cur.cCredit = atoi(l[20:40]), atoi(l[40:60])
			} else {
				cur.cDebit, cur.cCredit = atoi(l[20:32]), atoi(l[32:44])
			}
			cur.cNum = atoi(l[87:94])
			cur = nil
		case '9':
			p.controlLines++
			p.fBatches, p.fBlocks, p.fCount, p.fHash = atoi(l[1:7]), atoi(l[7:13]), atoi(l[13:21]), atoi(l[21:31])
			if adv {
				p.fDebit, p.fCredit = atoi(l[31:51]), atoi(l[51:71])
			} else {
				p.fDebit, p.fCredit = atoi(l[31:43]), atoi(l[43:55])
			}
		}
	}
	return p
}

func render(f *ach.File, bypass bool) (string, outcome, string) {
	var buf bytes.Buffer
	out, d := guarded(func() error {
		w := ach.NewWriter(&buf)
		w.BypassValidation = bypass
		if err := w.Write(f); err != nil {
			return err
		}
		return w.Flush()
	})
	return buf.String(), out, d
}

const p10 = 10000000000

// checkPhys: the file the writer renders carries, on every control record, the values recomputed from its own records.
func checkPhys(p phys, ascending bool) (string, string) {
	if p.badLength > 0 || p.orphan > 0 || p.headerLines != 1 || p.controlLines != 1 {
		return "phys:structure", fmt.Sprintf("rendered file: %d lines of a length other than 94, %d records outside a batch, %d file headers, %d file controls", p.badLength, p.orphan, p.headerLines, p.controlLines)
	}
	recs := 2
	count, hash, debit, credit := 0, 0, 0, 0
	prev := 0
	for i, b := range p.batches {
		n := b.entries + b.addenda
		recs += 2 + n
		if b.cCount != n {
			return "phys:batch-count", fmt.Sprintf("batch %d (%s): control says %d entry/addenda records, the batch has %d", i, b.sec, b.cCount, n)
		}
		if b.cHash != b.hashSum%p10 {
			return "phys:batch-hash", fmt.Sprintf("batch %d (%s): control hash %d, sum of the entries' RDFI %d", i, b.sec, b.cHash, b.hashSum)
		}
		if b.cCredit != b.credit || b.cDebit != b.debit {
			return "phys:batch-totals", fmt.Sprintf("batch %d (%s): control credit/debit %d/%d, by transaction code %d/%d", i, b.sec, b.cCredit, b.cDebit, b.credit, b.debit)
		}
		if b.cNum != b.number {
			return "phys:batch-number", fmt.Sprintf("batch %d: header number %d, control number %d", i, b.number, b.cNum)
		}
		if ascending && b.number <= prev {
			return "phys:batch-numbers-not-ascending", fmt.Sprintf("batch %d has number %d after %d", i, b.number, prev)
		}
		prev = b.number
		count += n
		hash += b.cHash
		debit += b.debit
		credit += b.credit
	}
	if recs != p.records {
		return "phys:structure", fmt.Sprintf("%d physical records, %d accounted for by batches", p.records, recs)
	}
	if p.fBatches != len(p.batches) {
		return "phys:file-batch-count", fmt.Sprintf("file control says %d batches, the file has %d", p.fBatches, len(p.batches))
	}
	if want := (recs + 9) / 10; p.fBlocks != want || (p.records+p.padding) != 10*want {
		return "phys:file-block-count", fmt.Sprintf("file control says %d blocks; %d physical records + %d padding lines (expected %d blocks)", p.fBlocks, p.records, p.padding, want)
	}
	if p.fCount != count {
		return "phys:file-count", fmt.Sprintf("file control says %d entry/addenda records, the file has %d", p.fCount, count)
	}
	if p.fHash != hash%p10 {
		return "phys:file-hash", fmt.Sprintf("file control hash %d, sum of the batch hashes %d", p.fHash, hash)
	}
	if p.fDebit != debit || p.fCredit != credit {
		return "phys:file-totals", fmt.Sprintf("file control debit/credit %d/%d, sum over the entries %d/%d", p.fDebit, p.fCredit, debit, credit)
	}
	return "", ""
}

func ascendingNumbers(f *ach.File) (bool, string) {
	prev := 0
	var nums []string
	ok := true
	add := func(n int) {
		nums = append(nums, strconv.Itoa(n))
		if n <= prev {
			ok = false
		}
		prev = n
	}
	for _, b := range f.Batches {
		add(b.GetHeader().BatchNumber)
	}
	for i := range f.IATBatches {
		add(f.IATBatches[i].Header.BatchNumber)
	}
	return ok, strings.Join(nums, ",")
}

// runOracle: one history through the public API.
func runOracle(c caseSpec) (fails []failure, nontrivial bool, outs []outcome) {
	fail := func(k int, key, what string) {
		fails = append(fails, failure{Kind: "fail", Key: key, What: what, Op: k, Case: c})
	}
	var w *world
	d0 := degraded
	if ok, d := safely(func() { w = buildTracked(c) }); !ok {
		fail(-1, "harness:build-panic", "assembling the file panicked: "+d)
		return
	}
	if degraded > d0 {
		// reported, and the history goes on with the hand-made fallback records
		fail(-1, "create:unexpected-error", "a batch of the shared generator (valid by construction) did not get through Create: "+lastDegraded)
	}
	f := w.file
	// clean histories: build every batch first
	created := map[string]bool{}
	all := func() bool {
		for i := range f.Batches {
			if !created[fmt.Sprint("S", i)] {
				return false
			}
		}
		for i := range f.IATBatches {
			if !created[fmt.Sprint("I", i)] {
				return false
			}
		}
		return true
	}
	provided := false // some batch number given by the caller (> 1): File.Create keeps it
	for _, b := range f.Batches {
		if b.GetHeader().BatchNumber > 1 {
			provided = true
		}
	}
	for i := range f.IATBatches {
		if f.IATBatches[i].Header.BatchNumber > 1 {
			provided = true
		}
	}
	customTraces := func(i int) []string {
		if i >= len(w.iopts) || w.iopts[i] == nil || !w.iopts[i].CustomTraceNumbers {
			return nil
		}
		var out []string
		for _, e := range f.IATBatches[i].Entries {
			out = append(out, e.TraceNumber)
		}
		return out
	}
	mixedADV := false
	if f.IsADV() {
		for _, b := range f.Batches {
			if !isADVBatch(b) {
				mixedADV = true
			}
		}
	}
	nops := c.MaxOps
	step := func(k int, o op) bool {
		var kept []string
		if o.Code == "IB" {
			kept = customTraces(o.I)
		}
		out, detail := w.apply(o, false)
		outs = append(outs, out)
		if out == outPANIC || out == outHANG {
			fail(k, fmt.Sprintf("%s:%s", map[string]string{"F": "file-create", "IB": "iat-create", "SB": "create"}[o.Code], strings.ToLower(string(out))), detail)
			return false
		}
		switch o.Code {
		case "IB", "SB":
			tag := fmt.Sprint(o.Code[:1], o.I)
			if out != outOK {
				delete(created, tag)
				if c.Clean && !expectErr[c.Special] {
					fail(k, "create:unexpected-error", fmt.Sprintf("%s batch %d, valid by construction: %s", o.Code[:1], o.I, detail))
					return false
				}
				return true
			}
			created[tag] = true
			nontrivial = true
			if kept != nil {
				if now := customTraces(o.I); strings.Join(now, ",") != strings.Join(kept, ",") {
					fail(k, "iat:custom-trace-overwritten", "CustomTraceNumbers is set, Create changed the trace numbers "+strings.Join(kept, ",")+" to "+strings.Join(now, ","))
					return false
				}
			}
			// a second Create changes nothing
			before := w.abs()
			var out2 outcome
			var d2 string
			if o.Code == "IB" {
				out2, d2 = guarded(f.IATBatches[o.I].Create)
			} else {
				out2, d2 = guarded(f.Batches[o.I].Create)
			}
			if out2 != outOK {
				fail(k, "create:second-create-"+strings.ToLower(string(out2)), d2)
				return false
			}
			if after := w.abs(); after != before {
				fail(k, "create:not-idempotent", "state differs after a second Create:\n"+before+"\n"+after)
				return false
			}
		case "IA", "IR", "IM":
			delete(created, fmt.Sprint("I", o.I))
		case "SA", "SR", "SM":
			delete(created, fmt.Sprint("S", o.I))
		case "F":
			if out != outOK {
				if c.Clean && !mixedADV && !expectErr[c.Special] {
					fail(k, "file:unexpected-error", detail)
					return false
				}
				return true
			}
			if !all() {
				return true
			}
			nontrivial = true
			if f.IsADV() && len(f.IATBatches) > 0 {
				text, ro, _ := render(f, true)
				if ro == outOK {
					if key, what := checkPhys(parsePhys(text), false); key != "" {
						fail(k, "file:adv-with-iat-batches", "File.Create returned nil for an ADV file that also holds IAT batches; "+what)
					}
				}
				return true
			}
			asc, nums := ascendingNumbers(f)
			if !asc && provided {
				fail(k, "file:create-keeps-provided-numbers", "File.Create returned nil and left the batch numbers "+nums+" (not ascending)")
			} else if !asc {
				fail(k, "file:batch-numbers-not-ascending", "no batch number was provided (all <= 1); File.Create returned nil and left the batch numbers "+nums)
				return false
			}
			if asc {
				if vo, vd := guarded(f.Validate); vo != outOK {
					fail(k, "file:invalid-after-create", vd)
					return false
				}
			}
			text, ro, rd := render(f, !asc)
			if ro != outOK {
				fail(k, "file:not-writable-after-create", rd)
				return false
			}
			key, what := checkPhys(parsePhys(text), asc)
			if key != "" {
				fail(k, key, what)
				return false
			}
			if out2, d2 := guarded(f.Create); out2 != outOK {
				fail(k, "file:second-create-"+strings.ToLower(string(out2)), d2)
				return false
			}
			if text2, _, _ := render(f, !asc); text2 != text {
				fail(k, "file:not-idempotent", "rendered file differs after a second File.Create")
				return false
			}
		}
		return true
	}
	k := 0
	if c.Clean {
		for i := range f.Batches {
			if !step(k, op{Code: "SB", I: i}) {
				return
			}
			k++
		}
		for i := range f.IATBatches {
			if !step(k, op{Code: "IB", I: i}) {
				return
			}
			k++
		}
		if !step(k, op{Code: "F"}) {
			return
		}
		k++
	}
	for j := 0; j < nops; j++ {
		d1 := degraded
		o := w.drawOp(j, nops+1)
		if degraded > d1 {
			fail(k, "create:unexpected-error", "a batch of the shared generator (valid by construction) did not get through Create: "+lastDegraded)
			return
		}
		if !step(k, o) {
			return
		}
		k++
		if c.Clean && len(o.Code) == 2 && (o.Code[1] == 'A' || o.Code[1] == 'R' || o.Code[1] == 'M') {
			// re-tabulate what was edited, then the file
			if !step(k, op{Code: o.Code[:1] + "B", I: o.I}) {
				return
			}
			k++
			if !step(k, op{Code: "F"}) {
				return
			}
			k++
		}
	}
	return
}

type summary struct {
	Kind        string         `json:"kind"`
	Evaluations int            `json:"evaluations"`
	Distinct    int            `json:"distinct_nontrivial"`
	Rule        string         `json:"rule"`
	Dist        map[string]int `json:"distribution"`
	Samples     []caseSpec     `json:"samples"`
}

func oracle(args []string) {
	fs := flag.NewFlagSet("oracle", flag.ExitOnError)
	out := fs.String("out", "", "output directory")
	n := fs.Int("n", 800, "generated histories")
	maxOps := fs.Int("maxops", 4, "longest random part of a history")
	corpus := fs.String("corpus", "", "corpus directory")
	salt := fs.Uint64("salt", 2505, "stream of the generator")
	fs.Parse(args)
	res := hx.Create(filepath.Join(*out, "oracle_iat.jsonl"))
	enc := func(v any) {
		b, _ := json.Marshal(v)
		res.Printf("%s\n", b)
	}
	sum := summary{Kind: "summary", Dist: map[string]int{}, Rule: "one evaluation = one operation of an IAT / ADV / mixed-file history run through the public API (IATBatch.Create / Batch.Create / entry edits / File.Create) with all checks after it, the file controls being compared with the records of the file the Writer renders; a history is non-trivial when at least one Create in it succeeded; distinct by seed"}
	seen := map[string]bool{}
	for _, c := range allCases(*corpus, *n, *maxOps, *salt, true) {
		if hangs > 1 {
			break
		}
		fails, nontrivial, outs := runOracle(c)
		sum.Evaluations += len(outs)
		sum.Dist["kind:"+c.Kind]++
		if c.Special != "" {
			sum.Dist["special"]++
		}
		for _, o := range outs {
			sum.Dist["outcome:"+string(o)]++
		}
		if nontrivial {
			j, _ := json.Marshal(c)
			if !seen[string(j)] {
				seen[string(j)] = true
				sum.Distinct++
			}
		}
		for _, f := range fails {
			enc(f)
		}
		if len(sum.Samples) < 4 && sum.Dist["kind:"+c.Kind]%97 == 1 {
			sum.Samples = append(sum.Samples, c)
		}
	}
	enc(sum)
	res.Close()
}

func replay(args []string) {
	if len(args) < 1 {
		fmt.Fprintln(os.Stderr, "usage: c05iat replay <file>")
		os.Exit(2)
	}
	b, err := os.ReadFile(args[0])
	if err != nil {
		fmt.Fprintln(os.Stderr, err)
		os.Exit(2)
	}
	var rp struct {
		Input caseSpec `json:"input"`
	}
	if err := json.Unmarshal(b, &rp); err != nil || rp.Input.H != "c05iat" {
		fmt.Println("replay file carries no c05iat input (obligation / correspondence failure): nothing to run")
		os.Exit(0)
	}
	fails, _, outs := runOracle(rp.Input)
	fmt.Println("outcomes:", outs)
	for _, f := range fails {
		j, _ := json.Marshal(f)
		fmt.Println(string(j))
	}
	if len(fails) > 0 {
		os.Exit(1)
	}
	fmt.Println("no failure on this input")
}

// Command c12: correspondence cases and direct oracle for property C12
// (FlattenBatches consolidates batches without changing the entries).
package main

import (
	"bytes"
	"crypto/sha256"
	"encoding/hex"
	"encoding/json"
	"errors"
	"flag"
	"fmt"
	"os"
	"path/filepath"
	"sort"
	"strings"

	"github.com/moov-io/ach"

	"verifharness/internal/gen"
	"verifharness/internal/hx"
	"verifharness/internal/rng"
)

func main() {
	gen.AllowBatchOnly = true // in-memory operations: options may sit on the batches alone
	if len(os.Args) < 2 {
		fmt.Fprintln(os.Stderr, "usage: c12 corr|oracle|replay ...")
		os.Exit(2)
	}
	switch os.Args[1] {
	case "corr":
		corr(os.Args[2:])
	case "oracle":
		oracle(os.Args[2:])
	case "replay":
		replay(os.Args[2:])
	default:
		fmt.Fprintln(os.Stderr, "unknown mode")
		os.Exit(2)
	}
}

// ---------------------------------------------------------------- observation

type obsEntry struct {
	Trace   string
	Core    string // canonical text of the entry and its addenda (trace / sequence columns removed)
	Amount  int
	Debit   bool
	Addenda int
	Cat     int // 0 Forward, 1 Return, 2 NOC, 3 DishonoredReturn, 4 DishonoredReturnContested, 9 other
	// NoTotal: a transaction code outside the library's lists (valid under CheckTransactionCode only):
	// calculateBatchAmounts counts it in neither total (not part of the interchange)
	NoTotal bool
}

func catOf(c string) int {
	switch c {
	case ach.CategoryForward:
		return 0
	case ach.CategoryReturn:
		return 1
	case ach.CategoryNOC:
		return 2
	case ach.CategoryDishonoredReturn:
		return 3
	case ach.CategoryDishonoredReturnContested:
		return 4
	}
	return 9
}

type obsBatch struct {
	Kind    byte // 'S' Batcher, 'I' IATBatch
	Sig     string
	Num     int
	Entries []obsEntry
	Adv     []obsEntry
}

func cut(s string, n int) string {
	if len(s) < n {
		return s
	}
	return s[:n]
}

// cutCols keeps the first n columns (characters) of a rendered record.
func cutCols(s string, n int) string {
	r := []rune(s)
	if len(r) < n {
		return s
	}
	return string(r[:n])
}

func obsStd(e *ach.EntryDetail) obsEntry {
	var b strings.Builder
	b.WriteString(cutCols(e.String(), 79))
	n := 0
	if e.Addenda02 != nil {
		b.WriteString("|" + e.Addenda02.String())
		n++
	}
	for _, a := range e.Addenda05 {
		b.WriteString("|" + cutCols(a.String(), 83))
		n++
	}
	if e.Addenda98 != nil {
		b.WriteString("|" + e.Addenda98.String())
		n++
	}
	if e.Addenda98Refused != nil {
		b.WriteString("|" + e.Addenda98Refused.String())
		n++
	}
	if e.Addenda99 != nil {
		b.WriteString("|" + e.Addenda99.String())
		n++
	}
	if e.Addenda99Contested != nil {
		b.WriteString("|" + e.Addenda99Contested.String())
		n++
	}
	if e.Addenda99Dishonored != nil {
		b.WriteString("|" + e.Addenda99Dishonored.String())
		n++
	}
	noTotal := e.TransactionCode < 21 || e.TransactionCode > 56 || e.TransactionCode%10 == 0 || (e.TransactionCode%10 == 5 && e.TransactionCode != 55)
	return obsEntry{Trace: e.TraceNumber, Core: b.String(), Amount: e.Amount, Debit: e.TransactionCode%10 >= 5, Addenda: n, Cat: catOf(e.Category), NoTotal: noTotal}
}

func obsIAT(e *ach.IATEntryDetail) obsEntry {
	var b strings.Builder
	b.WriteString(cutCols(e.String(), 79))
	n := 0
	add := func(present bool, s func() string, w int) {
		if present {
			b.WriteString("|" + cutCols(s(), w))
			n++
		}
	}
	add(e.Addenda10 != nil, func() string { return e.Addenda10.String() }, 87)
	add(e.Addenda11 != nil, func() string { return e.Addenda11.String() }, 87)
	add(e.Addenda12 != nil, func() string { return e.Addenda12.String() }, 87)
	add(e.Addenda13 != nil, func() string { return e.Addenda13.String() }, 87)
	add(e.Addenda14 != nil, func() string { return e.Addenda14.String() }, 87)
	add(e.Addenda15 != nil, func() string { return e.Addenda15.String() }, 87)
	add(e.Addenda16 != nil, func() string { return e.Addenda16.String() }, 87)
	for _, a := range e.Addenda17 {
		a := a
		add(true, func() string { return a.String() }, 83)
	}
	for _, a := range e.Addenda18 {
		a := a
		add(true, func() string { return a.String() }, 83)
	}
	add(e.Addenda98 != nil, func() string { return e.Addenda98.String() }, 94)
	add(e.Addenda99 != nil, func() string { return e.Addenda99.String() }, 94)
	return obsEntry{Trace: e.TraceNumber, Core: b.String(), Amount: e.Amount, Debit: e.TransactionCode%10 >= 5, Addenda: n, Cat: catOf(e.Category)}
}

func obsADV(e *ach.ADVEntryDetail) obsEntry {
	// the sequence number (last 4 columns) is rewritten by build on purpose
	n := 0
	s := cutCols(e.String(), 90)
	if e.Addenda99 != nil {
		s += "|" + e.Addenda99.String()
		n = 1
	}
	return obsEntry{Trace: "", Core: s, Amount: e.Amount, Debit: e.TransactionCode%2 == 0, Addenda: n, Cat: catOf(e.Category)}
}

// observe takes the snapshot of a file in the order Flatten enumerates it
// (Batches, then IATBatches).
func observe(f *ach.File) []obsBatch {
	var out []obsBatch
	for _, b := range f.Batches {
		ob := obsBatch{Kind: 'S', Sig: cutCols(b.GetHeader().String(), 87), Num: b.GetHeader().BatchNumber}
		for _, e := range b.GetEntries() {
			ob.Entries = append(ob.Entries, obsStd(e))
		}
		for _, e := range b.GetADVEntries() {
			ob.Adv = append(ob.Adv, obsADV(e))
		}
		out = append(out, ob)
	}
	for i := range f.IATBatches {
		b := &f.IATBatches[i]
		ob := obsBatch{Kind: 'I', Sig: cutCols(b.Header.String(), 87), Num: b.Header.BatchNumber}
		for _, e := range b.Entries {
			ob.Entries = append(ob.Entries, obsIAT(e))
		}
		out = append(out, ob)
	}
	return out
}

func digest(s string) string {
	h := sha256.Sum256([]byte(s))
	return hex.EncodeToString(h[:8])
}

func b01(b bool) int {
	if b {
		return 1
	}
	return 0
}

// serialize renders a snapshot in the interchange format read by ocaml/c12/driver.ml.
func serialize(bs []obsBatch) string {
	var b strings.Builder
	fmt.Fprintf(&b, "N %d", len(bs))
	for _, ob := range bs {
		fmt.Fprintf(&b, " B %c %s %d %d %d", ob.Kind, hx.Enc(ob.Sig), ob.Num, len(ob.Entries), len(ob.Adv))
		for _, e := range ob.Entries {
			fmt.Fprintf(&b, " %s %s %d %d %d %d", hx.Enc(e.Trace), digest(e.Core), e.Amount, b01(e.Debit), e.Addenda, e.Cat)
		}
		for _, e := range ob.Adv {
			fmt.Fprintf(&b, " %s %s %d %d %d %d", hx.Enc(e.Trace), digest(e.Core), e.Amount, b01(e.Debit), e.Addenda, e.Cat)
		}
	}
	return b.String()
}

// sortHint replays sort.Slice of Flatten on the entry counts: pdqsort is deterministic in
// the sequence of less() answers, so this is the processing order Flatten takes.
func sortHint(bs []obsBatch) []int {
	idx := make([]int, len(bs))
	for i := range idx {
		idx[i] = i
	}
	sort.Slice(idx, func(i, j int) bool { return len(bs[idx[i]].Entries) < len(bs[idx[j]].Entries) })
	return idx
}

type flatResult struct {
	file  *ach.File
	err   error
	panic string
}

func flatten(f *ach.File) (res flatResult) {
	defer func() {
		if r := recover(); r != nil {
			res = flatResult{panic: fmt.Sprint(r)}
		}
	}()
	g, err := f.FlattenBatches()
	return flatResult{file: g, err: err}
}

func errClass(err error) string {
	switch {
	case err == nil:
		return "none"
	case errors.Is(err, ach.ErrFlattenChangedEntryCount) || strings.Contains(err.Error(), ach.ErrFlattenChangedEntryCount.Error()):
		return "entry-count-changed"
	case strings.Contains(err.Error(), ach.ErrFlattenChangedDebitAmount.Error()):
		return "debit-total-changed"
	case strings.Contains(err.Error(), ach.ErrFlattenChangedCreditAmount.Error()):
		return "credit-total-changed"
	case errors.Is(err, ach.ErrFileNoBatches):
		return "no-batches"
	default:
		return "create-or-validate"
	}
}

// ---------------------------------------------------------------- correspondence

func corr(args []string) {
	fs := flag.NewFlagSet("corr", flag.ExitOnError)
	out := fs.String("out", "", "output directory")
	n := fs.Int("n", 1500, "number of random files")
	nbig := fs.Int("nbig", 200, "number of random files with more than 12 batches")
	naug := fs.Int("naug", 400, "number of files of the shared generator with split / duplicated batches")
	corpus := fs.String("corpus", "", "corpus directory")
	fs.Parse(args)
	cases := hx.Create(filepath.Join(*out, "cases.txt"))
	impl := hx.Create(filepath.Join(*out, "impl.txt"))
	specs := hx.Create(filepath.Join(*out, "specs.jsonl"))
	count, rejected, big := 0, 0, 0
	reasons := map[string]int{}
	emit := func(s fileSpec) {
		if s.Bypass {
			return // valid only under options: Batch.build's trace renumbering is not modelled (known finding, oracle only)
		}
		f, err := buildFile(s)
		if err != nil {
			rejected++
			reasons[cut(err.Error(), 60)]++
			return
		}
		in := observe(f)
		line := serialize(in)
		if len(in) > 12 {
			h := sortHint(in)
			line += fmt.Sprintf(" H %d", len(h))
			for _, i := range h {
				line += fmt.Sprintf(" %d", i)
			}
			big++
		} else {
			line += " H 0"
		}
		res := flatten(f)
		js, _ := json.Marshal(s)
		specs.Printf("%s\n", js)
		cases.Printf("%s\n", line)
		switch {
		case res.panic != "":
			impl.Printf("PANIC\n")
		case res.err != nil:
			impl.Printf("ERR\n")
		default:
			impl.Printf("%s\n", serialize(observe(res.file)))
		}
		count++
	}
	for _, s := range loadCorpus(*corpus) {
		emit(s)
	}
	r := rng.FromEnv(12)
	for i := 0; i < *n; i++ {
		emit(genSpec(r, pickShape(r), false))
	}
	for i := 0; i < *nbig; i++ {
		emit(genSpec(r, pickShape(r), true))
	}
	for i := 0; i < *naug; i++ {
		emit(genAug(r))
	}
	cases.Close()
	impl.Close()
	specs.Close()
	rj, _ := json.Marshal(reasons)
	fmt.Printf("{\"cases\":%d,\"rejected\":%d,\"big\":%d,\"reject_reasons\":%s}\n", count, rejected, big, rj)
}

func loadCorpus(dir string) []fileSpec {
	var out []fileSpec
	if dir == "" {
		return out
	}
	names, _ := filepath.Glob(filepath.Join(dir, "*.json"))
	sort.Strings(names)
	for _, p := range names {
		s, err := loadSpec(p)
		if err == nil {
			out = append(out, s)
		}
	}
	return out
}

// loadSpec reads a corpus case or an evidence replay file (the recipe sits under "input").
func loadSpec(path string) (fileSpec, error) {
	var s fileSpec
	raw, err := os.ReadFile(path)
	if err != nil {
		return s, err
	}
	var wrap struct {
		Input *fileSpec `json:"input"`
		Case  *fileSpec `json:"case"`
	}
	if err := json.Unmarshal(raw, &wrap); err == nil {
		if wrap.Input != nil && (len(wrap.Input.Batches) > 0 || wrap.Input.Aug != nil) {
			return *wrap.Input, nil
		}
		if wrap.Case != nil && (len(wrap.Case.Batches) > 0 || wrap.Case.Aug != nil) {
			return *wrap.Case, nil
		}
	}
	if err := json.Unmarshal(raw, &s); err != nil {
		return s, err
	}
	if len(s.Batches) == 0 && s.Aug == nil {
		return s, fmt.Errorf("no batches in %s", path)
	}
	return s, nil
}

// ---------------------------------------------------------------- oracle

type failure struct {
	Kind string   `json:"kind"`
	Key  string   `json:"key"`
	What string   `json:"what"`
	Case fileSpec `json:"case"`
}

func idMultiset(bs []obsBatch) map[string]int {
	m := map[string]int{}
	for _, b := range bs {
		for _, e := range b.Entries {
			m[b.Sig+"\x00"+e.Trace+"\x00"+e.Core]++
		}
		for _, e := range b.Adv {
			m[b.Sig+"\x00ADV\x00"+e.Core]++
		}
	}
	return m
}

func figures(bs []obsBatch) (count, debit, credit int) {
	for _, b := range bs {
		for _, es := range [][]obsEntry{b.Entries, b.Adv} {
			for _, e := range es {
				count += 1 + e.Addenda
				if e.NoTotal {
					continue
				}
				if e.Debit {
					debit += e.Amount
				} else {
					credit += e.Amount
				}
			}
		}
	}
	return
}

// traceForeign: some entry's trace number does not start with the ODFI of its batch header
// (such a file is valid only under BypassOriginValidation or CustomTraceNumbers).
func traceForeign(bs []obsBatch) bool {
	for _, b := range bs {
		r := []rune(b.Sig)
		if len(r) < 87 {
			continue
		}
		odfi := string(r[79:87])
		for _, e := range b.Entries {
			if len(e.Trace) < 8 || e.Trace[:8] != odfi {
				return true
			}
		}
	}
	return false
}

func isASCII(s string) bool {
	for i := 0; i < len(s); i++ {
		if s[i] >= 0x80 {
			return false
		}
	}
	return true
}

// categoryUniform: batches with equal header signatures hold entries of one category.
func categoryUniform(bs []obsBatch) bool {
	cat := map[string]int{}
	for _, b := range bs {
		for _, es := range [][]obsEntry{b.Entries, b.Adv} {
			for _, e := range es {
				if c, ok := cat[b.Sig]; ok && c != e.Cat {
					return false
				}
				cat[b.Sig] = e.Cat
			}
		}
	}
	return true
}

func render(f *ach.File) (raw string, masked string, err error) {
	var buf bytes.Buffer
	if err := ach.NewWriter(&buf).Write(f); err != nil {
		return "", "", err
	}
	raw = buf.String()
	lines := strings.Split(raw, "\n")
	// file creation date/time are stamped with time.Now by Flatten
	if len(lines) > 0 && len(lines[0]) >= 33 {
		lines[0] = lines[0][:23] + "??????????" + lines[0][33:]
	}
	return raw, strings.Join(lines, "\n"), nil
}

// check evaluates the property directly on the real code for one recipe.
// It returns the failures (possibly several) and a label describing what the case exercised.
func check(s fileSpec) (fails []failure, label string, ok bool) {
	f, err := buildFile(s)
	if err != nil {
		return nil, "rejected", false
	}
	fail := func(key, what string) {
		fails = append(fails, failure{Kind: "fail", Key: key, What: what, Case: s})
	}
	in := observe(f)
	// the reader has its own limits (character set sniffed from the first 1024 bytes, C01):
	// only a pure-ASCII file whose input rendering reads back is required to read back
	// after flattening
	inReadable := false
	if rawIn, _, err := render(f); err == nil {
		_, rerr := ach.NewReader(strings.NewReader(rawIn)).Read()
		inReadable = rerr == nil && isASCII(rawIn)
	}
	res := flatten(f)
	class := s.Tag
	if class == "" {
		class = "file"
	}
	if res.panic != "" {
		fail("flatten:panic:"+class, "FlattenBatches panicked on a valid file: "+res.panic)
		return fails, "panic", true
	}
	if res.err != nil {
		if !categoryUniform(in) {
			fail("flatten:error:mixed-category-same-header", "FlattenBatches failed on a valid file in which batches with equal headers hold entries of different categories: "+res.err.Error())
			return fails, "error:mixed-category", true
		}
		fail("flatten:error:"+errClass(res.err)+":"+class, "FlattenBatches failed on a valid file: "+res.err.Error())
		return fails, "error", true
	}
	g := res.file
	out := observe(g)
	// observation outside the statement of C12: Copy() shares the header pointer with the
	// input batch, so Flatten overwrites batch numbers in its argument
	if f.Validate() != nil {
		inputLeftInvalid++
	}
	// result valid
	if err := g.Validate(); err != nil {
		fail("flatten:result-invalid:"+class, "result of FlattenBatches does not validate: "+err.Error())
	}
	for i := range g.IATBatches {
		if err := g.IATBatches[i].Validate(); err != nil {
			fail("flatten:result-invalid:"+class, "IAT batch of the result does not validate: "+err.Error())
			break
		}
	}
	raw, text, werr := render(g)
	if werr != nil {
		fail("flatten:result-unwritable:"+class, "result cannot be written: "+werr.Error())
	} else if _, rerr := ach.NewReader(strings.NewReader(raw)).Read(); rerr != nil && inReadable {
		fail("flatten:result-unreadable:"+class, "rendered result is rejected by the reader: "+rerr.Error())
	}
	// same multiset of entries
	a, b := idMultiset(in), idMultiset(out)
	same := len(a) == len(b)
	for k, v := range a {
		if b[k] != v {
			same = false
		}
	}
	if !same && traceForeign(in) {
		// known finding: the consolidated batches are created without the validate options of
		// the input, so Batch.build renumbers trace numbers that do not start with the header's ODFI
		fail("flatten:entries-changed:trace-not-prefixed-by-odfi", "trace numbers that are valid only under BypassOriginValidation / CustomTraceNumbers are rewritten by FlattenBatches")
	} else if !same {
		lost, gained := 0, 0
		for k, v := range a {
			if b[k] < v {
				lost += v - b[k]
			}
		}
		for k, v := range b {
			if a[k] < v {
				gained += v - a[k]
			}
		}
		fail("flatten:entries-changed:"+class, fmt.Sprintf("multiset of (header signature, trace, entry) changed: %d lost, %d new", lost, gained))
	}
	c0, d0, k0 := figures(in)
	c1, d1, k1 := figures(out)
	if c0 != c1 {
		fail("flatten:count-changed:"+class, fmt.Sprintf("entry/addenda count %d became %d", c0, c1))
	}
	if d0 != d1 || k0 != k1 {
		fail("flatten:totals-changed:"+class, fmt.Sprintf("debit/credit totals %d/%d became %d/%d", d0, k0, d1, k1))
	}
	if g.IsADV() {
		if g.ADVControl.EntryAddendaCount != c1 || g.ADVControl.TotalDebitEntryDollarAmountInFile != d1 || g.ADVControl.TotalCreditEntryDollarAmountInFile != k1 {
			fail("flatten:control-mismatch:"+class, "ADV file control of the result disagrees with its entries")
		}
	} else if g.Control.EntryAddendaCount != c1 || g.Control.TotalDebitEntryDollarAmountInFile != d1 || g.Control.TotalCreditEntryDollarAmountInFile != k1 {
		fail("flatten:control-mismatch:"+class, "file control of the result disagrees with its entries")
	}
	// maximality and sortedness
	for i := range out {
		for j := i + 1; j < len(out); j++ {
			if out[i].Sig != out[j].Sig {
				continue
			}
			shared := false
			seen := map[string]bool{}
			for _, e := range out[i].Entries {
				seen[e.Trace] = true
			}
			for _, e := range out[j].Entries {
				if seen[e.Trace] {
					shared = true
				}
			}
			if !shared {
				fail("flatten:not-maximal:"+class, fmt.Sprintf("result batches %d and %d have equal headers and no common trace number", i+1, j+1))
			}
		}
		for k := 1; k < len(out[i].Entries); k++ {
			if !(out[i].Entries[k-1].Trace < out[i].Entries[k].Trace) {
				fail("flatten:not-sorted:"+class, fmt.Sprintf("result batch %d: trace %s is followed by %s", i+1, out[i].Entries[k-1].Trace, out[i].Entries[k].Trace))
				break
			}
		}
	}
	// flattening again changes nothing
	if werr == nil {
		res2 := flatten(g)
		switch {
		case res2.panic != "":
			fail("flatten:reflatten-panic:"+class, "flattening the result panicked: "+res2.panic)
		case res2.err != nil:
			fail("flatten:reflatten-error:"+class, "flattening the result failed: "+res2.err.Error())
		default:
			_, text2, err := render(res2.file)
			if err != nil || text2 != text {
				fail("flatten:not-idempotent:"+class, "flattening the result again changes the rendered file")
			}
		}
	}
	// what did the case exercise
	merged := len(out) < len(in)
	collided := false
	for i := range out {
		for j := i + 1; j < len(out); j++ {
			if out[i].Sig == out[j].Sig {
				collided = true
			}
		}
	}
	switch {
	case merged && collided:
		label = "merged+kept-apart"
	case merged:
		label = "merged"
	case collided:
		label = "kept-apart"
	default:
		label = "nothing-to-merge"
	}
	if len(in) > 12 {
		label += ",>12"
	}
	return fails, class + ":" + label, true
}

var inputLeftInvalid int

func oracle(args []string) {
	fs := flag.NewFlagSet("oracle", flag.ExitOnError)
	out := fs.String("out", "", "output directory")
	n := fs.Int("n", 2000, "number of random files")
	corpus := fs.String("corpus", "", "corpus directory")
	fs.Parse(args)
	w := hx.Create(filepath.Join(*out, "oracle.jsonl"))
	dist := map[string]int{}
	evals, nontrivial := 0, 0
	var samples []any
	seen := map[string]bool{}
	run := func(s fileSpec) {
		fails, label, ok := check(s)
		if !ok {
			dist["rejected-by-generator"]++
			return
		}
		evals++
		dist[label]++
		if strings.Contains(label, "merged") || strings.Contains(label, "kept-apart") {
			js, _ := json.Marshal(s)
			if !seen[string(js)] {
				seen[string(js)] = true
				nontrivial++
			}
		}
		if len(samples) < 4 && s.Aug == nil && len(s.Batches) <= 3 && strings.Contains(label, "merged") {
			samples = append(samples, map[string]any{"case": s, "exercised": label, "failures": len(fails)})
		}
		for _, f := range fails {
			js, _ := json.Marshal(f)
			w.Printf("%s\n", js)
		}
	}
	for _, s := range loadCorpus(*corpus) {
		run(s)
	}
	r := rng.FromEnv(112)
	for i := 0; i < *n; i++ {
		if i%4 == 3 {
			run(genAug(r))
		} else {
			s := genSpec(r, pickShape(r), i%8 == 6)
			if i%16 == 5 && s.Tag != "adv" {
				// a file that is valid only under BypassOriginValidation (foreign trace prefix)
				s.Bypass, s.TraceODFI, s.ViaText = true, "99887766", false
				s.Tag += "+bypass"
			}
			run(s)
		}
	}
	summ := map[string]any{
		"kind": "summary", "evaluations": evals, "distinct_nontrivial": nontrivial,
		"rule":         "a case counts as non-trivial when FlattenBatches merged at least two batches or had to keep two equal-header batches apart (distinct recipes only)",
		"distribution": dist, "samples": samples,
		"input_file_no_longer_valid_after_flatten": inputLeftInvalid,
	}
	js, _ := json.Marshal(summ)
	w.Printf("%s\n", js)
	w.Close()
	fmt.Printf("{\"evaluations\":%d}\n", evals)
}

// ---------------------------------------------------------------- replay

func replay(args []string) {
	if len(args) < 1 {
		fmt.Fprintln(os.Stderr, "usage: c12 replay <file>")
		os.Exit(2)
	}
	s, err := loadSpec(args[0])
	if err != nil {
		fmt.Println("cannot load case:", err)
		os.Exit(2)
	}
	fails, label, ok := check(s)
	if !ok {
		_, err := buildFile(s)
		fmt.Println("the recipe does not describe a valid file:", err)
		os.Exit(2)
	}
	fmt.Println("case exercised:", label)
	if len(fails) == 0 {
		fmt.Println("property holds on this input")
		return
	}
	for _, f := range fails {
		fmt.Printf("FAIL %s: %s\n", f.Key, f.What)
	}
	os.Exit(1)
}

package main

// Phase 7: correspondence for the parts of the whole-function model added by
// coq/Model/FlattenFullIAT.v (extracted by coq/Extract/C12IAT.v, driven by ocaml/c12iat/driver.ml):
//
//   W lines  a valid file through the real FlattenBatches: outcome class and, on success, for every
//            IAT batch of the result the Arith skeleton (internal/arith, batch numbers masked) and the
//            verdict of IATBatch.Validate — against iat_views (iat_skeleton + iat_validate) of the model;
//            plus files that MIX ADV batches with standard / IAT batches (assembled without File.Create,
//            which refuses them): outcome class against the model (FErrCreate with survivors = ERRFILE).
//   C lines  IATBatch.Create on one IAT batch, as generated or tampered (entries out of order, duplicate
//            trace number, third Addenda17 / sixth Addenda18 record, missing mandatory addenda record,
//            wrong check digit, foreign trace prefix, ADV service class): success + skeleton, or failure
//            — against create_iat_view (build + the validator) of the model.
//
// Mode "corriat" is dispatched from init(); "replayiat <file>" replays one recipe.

import (
	"encoding/json"
	"flag"
	"fmt"
	"os"
	"path/filepath"
	"strconv"
	"strings"

	"github.com/moov-io/ach"

	"verifharness/internal/arith"
	"verifharness/internal/hx"
	"verifharness/internal/rng"
)

func init() {
	if len(os.Args) >= 2 && os.Args[1] == "corriat" {
		corrIAT(os.Args[2:])
		os.Exit(0)
	}
	if len(os.Args) >= 3 && os.Args[1] == "replayiat" {
		os.Exit(replayIAT(os.Args[2]))
	}
}

// iatSpec: a phase-6 recipe plus the phase-7 variations.
type iatSpec struct {
	Full fullSpec `json:"full"`
	// MixADV: a second recipe (ADV batches only) whose batches are appended to the file of Full
	// without calling File.Create (it would refuse): an ADV batch next to standard / IAT batches
	MixADV *fullSpec `json:"mixAdv,omitempty"`
	// AdvFirst: the ADV batches go in front of the others
	AdvFirst bool `json:"advFirst,omitempty"`
	// Batch >= 0: a C case on IATBatches[Batch] of the file of Full, tampered by Tamper
	Batch  int    `json:"batch"`
	Tamper string `json:"tamper,omitempty"`
}

var tampers = []string{"", "swap", "duptrace", "a17x3", "a18x6", "noa10", "checkdigit", "foreigntrace", "advclass", "reverse", ""}

func serializeIAT(f *ach.File, tag string) string {
	var b strings.Builder
	fmt.Fprintf(&b, "%s F %d %d %d %d", tag, b01(f.Header.Validate() == nil), f.Control.EntryAddendaCount,
		f.Control.TotalDebitEntryDollarAmountInFile, f.Control.TotalCreditEntryDollarAmountInFile)
	obs := observe(f)
	fmt.Fprintf(&b, " N %d", len(obs))
	k := 0
	entry := func(e obsEntry, pay string) {
		fmt.Fprintf(&b, " %s %s %d %d %d %d %s", hx.Enc(e.Trace), digest(e.Core), e.Amount, b01(e.Debit), e.Addenda, e.Cat, pay)
	}
	for _, bt := range f.Batches {
		ob := obs[k]
		k++
		h := bt.GetHeader()
		oz, oerr := strconv.Atoi(first8(h.ODFIIdentificationField()))
		fmt.Fprintf(&b, " B S %s %d %d %s %d %d %d %d %d %d", hx.Enc(ob.Sig), ob.Num, h.ServiceClassCode, hx.Enc(h.ODFIIdentification),
			b01(h.Validate() == nil), b01(h.StandardEntryClassCode == ach.ADV), oz, b01(oerr == nil), len(ob.Entries), len(ob.Adv))
		for i, e := range bt.GetEntries() {
			entry(ob.Entries[i], fmt.Sprintf("%d %s %s %d", e.TransactionCode, hx.Enc(e.RDFIIdentification), hx.Enc(e.CheckDigit),
				b01(strings.EqualFold(e.IndividualName, "OFFSET"))))
		}
		for i, e := range bt.GetADVEntries() {
			entry(ob.Adv[i], fmt.Sprintf("%d %d %d", e.TransactionCode, atoi0(aba8h(e.RDFIIdentification)), b01(e.Addenda99 != nil)))
		}
	}
	for i := range f.IATBatches {
		bt := &f.IATBatches[i]
		ob := obs[k]
		k++
		h := bt.Header
		oz, oerr := strconv.Atoi(first8(h.ODFIIdentificationField()))
		fmt.Fprintf(&b, " B I %s %d %d %s %d 0 %d %d %d 0", hx.Enc(ob.Sig), ob.Num, h.ServiceClassCode, hx.Enc(h.ODFIIdentification),
			b01(h.Validate() == nil), oz, b01(oerr == nil), len(ob.Entries))
		for j, e := range bt.Entries {
			_, terr := strconv.Atoi(first8(e.TraceNumberField()))
			pay := fmt.Sprintf("%d %d %d %d %d %d %d %d %d %d %d %d %d %d %s %s", e.TransactionCode, atoi0(aba8h(e.RDFIIdentification)), b01(terr == nil),
				b01(e.Addenda10 != nil), b01(e.Addenda11 != nil), b01(e.Addenda12 != nil), b01(e.Addenda13 != nil),
				b01(e.Addenda14 != nil), b01(e.Addenda15 != nil), b01(e.Addenda16 != nil),
				len(e.Addenda17), len(e.Addenda18), b01(e.Addenda98 != nil), b01(e.Addenda99 != nil),
				hx.Enc(e.RDFIIdentification), hx.Enc(e.CheckDigit))
			entry(ob.Entries[j], pay)
		}
	}
	if len(obs) > 12 {
		h := sortHint(obs)
		fmt.Fprintf(&b, " H %d", len(h))
		for _, i := range h {
			fmt.Fprintf(&b, " %d", i)
		}
	} else {
		b.WriteString(" H 0")
	}
	return b.String()
}

func maskNumbers(sk arith.Batch) arith.Batch {
	sk.Number = 0
	sk.C.Number = 0
	return sk
}

// observeIAT: outcome class of the whole function and the views of the IAT batches of the result.
func observeIAT(res flatResult) string {
	o := observeFull(res)
	class := strings.SplitN(o, " ", 2)[0]
	if class != "OK" {
		return class
	}
	var b strings.Builder
	fmt.Fprintf(&b, "OK V %d", len(res.file.IATBatches))
	for i := range res.file.IATBatches {
		bt := &res.file.IATBatches[i]
		fmt.Fprintf(&b, " %s %d", maskNumbers(arith.FromIAT(bt)).Enc(), b01(arith.Safe(bt.Validate) == nil))
	}
	return b.String()
}

// tamper edits one IAT batch in place; false = not applicable.
func tamper(b *ach.IATBatch, how string) bool {
	es := b.Entries
	switch how {
	case "":
		return true
	case "swap":
		if len(es) < 2 {
			return false
		}
		es[0], es[1] = es[1], es[0]
	case "reverse":
		if len(es) < 2 {
			return false
		}
		for i, j := 0, len(es)-1; i < j; i, j = i+1, j-1 {
			es[i], es[j] = es[j], es[i]
		}
	case "duptrace":
		if len(es) < 2 {
			return false
		}
		es[1].TraceNumber = es[0].TraceNumber
	case "a17x3":
		e := es[len(es)-1]
		for len(e.Addenda17) < 3 {
			a := ach.NewAddenda17()
			a.PaymentRelatedInformation = "one more"
			a.SequenceNumber = len(e.Addenda17) + 1
			e.AddAddenda17(a)
			e.AddendaRecords++
		}
	case "a18x6":
		e := es[0]
		for len(e.Addenda18) < 6 {
			a := ach.NewAddenda18()
			a.ForeignCorrespondentBankName = "Bank of Somewhere"
			a.ForeignCorrespondentBankIDNumberQualifier = "01"
			a.ForeignCorrespondentBankIDNumber = "456456456987987"
			a.ForeignCorrespondentBankBranchCountryCode = "CA"
			a.SequenceNumber = len(e.Addenda18) + 1
			e.AddAddenda18(a)
			e.AddendaRecords++
		}
	case "noa10":
		if es[0].Addenda98 != nil {
			return false
		}
		es[0].Addenda10 = nil
	case "checkdigit":
		if es[0].CheckDigit == "9" {
			es[0].CheckDigit = "1"
		} else {
			es[0].CheckDigit = "9"
		}
	case "foreigntrace":
		es[len(es)-1].TraceNumber = "99999999" + fmt.Sprintf("%07d", 7000000+len(es))
	case "advclass":
		b.Header.ServiceClassCode = ach.AutomatedAccountingAdvices
	default:
		return false
	}
	return true
}

func buildIATCase(s iatSpec) (f *ach.File, err error) {
	f, err = buildFull(s.Full)
	if err != nil {
		return nil, err
	}
	if s.MixADV != nil {
		g, err := buildFull(*s.MixADV)
		if err != nil {
			return nil, err
		}
		adv := 0
		for _, b := range g.Batches {
			if b.GetHeader().StandardEntryClassCode == ach.ADV {
				adv++
			}
		}
		if adv == 0 || adv != len(g.Batches) || len(g.IATBatches) > 0 || f.IsADV() {
			return nil, fmt.Errorf("not an ADV file next to a non-ADV file")
		}
		if s.AdvFirst {
			f.Batches = append(append([]ach.Batcher(nil), g.Batches...), f.Batches...)
		} else {
			f.Batches = append(f.Batches, g.Batches...)
		}
	}
	return f, nil
}

// partsFlatten: the two parts of a mixed recipe, each alone, are flattened without error.
func partsFlatten(s iatSpec) bool {
	a, err := buildFull(s.Full)
	if err != nil {
		return false
	}
	b, err := buildFull(*s.MixADV)
	if err != nil {
		return false
	}
	ra, rb := flatten(a), flatten(b)
	return ra.err == nil && ra.panic == "" && rb.err == nil && rb.panic == ""
}

func corrIAT(args []string) {
	fs := flag.NewFlagSet("corriat", flag.ExitOnError)
	out := fs.String("out", "", "output directory")
	n := fs.Int("n", 500, "number of random whole-file recipes")
	nmix := fs.Int("nmix", 120, "number of files mixing ADV with other batches")
	nbatch := fs.Int("nbatch", 900, "number of single-batch Create cases")
	corpus := fs.String("corpus", "", "corpus directory (p7-*.json)")
	fs.Parse(args)
	cases := hx.Create(filepath.Join(*out, "cases.txt"))
	impl := hx.Create(filepath.Join(*out, "impl.txt"))
	specs := hx.Create(filepath.Join(*out, "specs.jsonl"))
	orc := hx.Create(filepath.Join(*out, "iat-oracle.jsonl"))
	count, rejected := 0, 0
	dist := map[string]int{}
	distinct := map[string]bool{}
	var samples []string
	emit := func(s iatSpec) {
		f, err := buildIATCase(s)
		if err != nil || hasOpts(f) {
			rejected++
			return
		}
		js, _ := json.Marshal(s)
		var line, o string
		if s.Batch >= 0 {
			if s.Batch >= len(f.IATBatches) {
				rejected++
				return
			}
			b := &f.IATBatches[s.Batch]
			if !tamper(b, s.Tamper) {
				rejected++
				return
			}
			one := ach.NewFile()
			one.Header = f.Header
			one.IATBatches = []ach.IATBatch{*b}
			line = serializeIAT(one, "C")
			if err := arith.Safe(b.Create); err != nil {
				o = "FAIL"
				dist["create_fail:"+s.Tamper]++
			} else {
				o = "OK " + arith.FromIAT(b).Enc()
				dist["create_ok:"+s.Tamper]++
			}
		} else {
			line = serializeIAT(f, "W")
			nIAT := len(f.IATBatches)
			res := flatten(f)
			o = observeIAT(res)
			class := strings.SplitN(o, " ", 2)[0]
			if s.MixADV != nil {
				dist["mixed_adv_"+class]++
				// C12_mixed_adv_error on the real code: when each part alone is flattened without error, a batch
				// of each survives AddToFile, so an ADV batch stands next to another batch and File.Create must refuse
				if class != "ERRFILE" && partsFlatten(s) {
					fj, _ := json.Marshal(map[string]interface{}{"kind": "fail", "key": "flatten:full:mixed-adv-not-refused",
						"what": "FlattenBatches on a file that holds ADV batches next to other batches returns " + class + " instead of File.Create's error", "case": s})
					orc.Printf("%s\n", fj)
				}
			} else {
				dist["whole_"+class]++
				if class == "OK" {
					dist["iat_batches_in"] += nIAT
					dist["iat_batches_out"] += len(res.file.IATBatches)
					// C12_succeeds_iat_valid on the real code: every IAT batch of the result validates
					for i := range res.file.IATBatches {
						if err := arith.Safe(res.file.IATBatches[i].Validate); err != nil {
							fj, _ := json.Marshal(map[string]interface{}{"kind": "fail", "key": "flatten:full:iat-batch-invalid",
								"what": "an IAT batch of the flattened file fails IATBatch.Validate: " + cut(err.Error(), 140), "case": s})
							orc.Printf("%s\n", fj)
							break
						}
					}
				}
			}
		}
		distinct[digest(line)] = true
		if len(samples) < 3 {
			samples = append(samples, cut(string(js), 300))
		}
		specs.Printf("%s\n", js)
		cases.Printf("%s\n", line)
		impl.Printf("%s\n", o)
		count++
	}
	if *corpus != "" {
		paths, _ := filepath.Glob(filepath.Join(*corpus, "p7-*.json"))
		for _, p := range paths {
			raw, err := os.ReadFile(p)
			if err != nil {
				continue
			}
			var s iatSpec
			if json.Unmarshal(raw, &s) == nil {
				emit(s)
			}
		}
	}
	r := rng.FromEnv(1207)
	iatFile := func(big bool) fullSpec {
		s := genFull(r, big)
		if r.Chance(2, 3) {
			s.File = genSpec(r, 1+r.Intn(2), big) // standard + IAT, IAT only
			s.File.Bypass = false
			s.File.TraceODFI = ""
		}
		return s
	}
	for i := 0; i < *n; i++ {
		emit(iatSpec{Full: iatFile(i%12 == 11), Batch: -1})
	}
	for i := 0; i < *nmix; i++ {
		other := genFull(r, false)
		for tries := 0; tries < 20; tries++ {
			isADV := false
			for _, h := range other.File.Hdrs {
				if h.Sec == "ADV" {
					isADV = true
				}
			}
			if !isADV {
				break
			}
			other = genFull(r, false)
		}
		advFile := fullSpec{File: genSpec(r, 3, false)}
		advFile.File.Bypass = false
		advFile.File.TraceODFI = ""
		emit(iatSpec{Full: other, MixADV: &advFile, AdvFirst: r.Chance(1, 2), Batch: -1})
	}
	for i := 0; i < *nbatch; i++ {
		s := fullSpec{File: genSpec(r, 1+r.Intn(2), false)}
		s.File.Bypass = false
		s.File.TraceODFI = ""
		if r.Chance(1, 4) {
			s.IATReturn = []int{0, 1}
		}
		emit(iatSpec{Full: s, Batch: r.Intn(3), Tamper: tampers[r.Intn(len(tampers))]})
	}
	cases.Close()
	impl.Close()
	specs.Close()
	sj, _ := json.Marshal(map[string]interface{}{"kind": "summary", "evaluations": count, "distinct_nontrivial": len(distinct),
		"rule": "distinct rendered case lines (whole files with the stored routing number / check digit of every IAT entry; single IAT batches, tampered)",
		"distribution": dist, "samples": samples})
	orc.Printf("%s\n", sj)
	orc.Close()
	dj, _ := json.Marshal(dist)
	fmt.Printf("{\"cases\":%d,\"rejected\":%d,\"distribution\":%s}\n", count, rejected, dj)
}

func replayIAT(path string) int {
	raw, err := os.ReadFile(path)
	if err != nil {
		fmt.Println(err)
		return 2
	}
	var s iatSpec
	var wrap struct {
		Input *iatSpec `json:"input"`
	}
	if err := json.Unmarshal(raw, &wrap); err == nil && wrap.Input != nil {
		s = *wrap.Input
	} else if err := json.Unmarshal(raw, &s); err != nil {
		fmt.Println(err)
		return 2
	}
	f, err := buildIATCase(s)
	if err != nil {
		fmt.Println("recipe does not build:", err)
		return 2
	}
	if s.Batch >= 0 {
		if s.Batch >= len(f.IATBatches) || !tamper(&f.IATBatches[s.Batch], s.Tamper) {
			fmt.Println("recipe not applicable")
			return 2
		}
		err := arith.Safe(f.IATBatches[s.Batch].Create)
		fmt.Println("IATBatch.Create:", err)
		return 0
	}
	res := flatten(f)
	o := observeIAT(res)
	fmt.Println("impl:", cut(o, 2000))
	class := strings.SplitN(o, " ", 2)[0]
	if s.MixADV != nil {
		if class != "ERRFILE" && partsFlatten(s) {
			fmt.Println("FAIL: a file mixing ADV with other batches is not refused by File.Create inside FlattenBatches")
			return 1
		}
		return 0
	}
	if class == "OK" {
		for i := range res.file.IATBatches {
			if err := arith.Safe(res.file.IATBatches[i].Validate); err != nil {
				fmt.Println("FAIL: an IAT batch of the flattened file does not validate:", err)
				return 1
			}
		}
	}
	return 0
}

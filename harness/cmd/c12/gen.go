package main

import (
	"bytes"
	"fmt"
	"strings"

	"github.com/moov-io/ach"

	"verifharness/internal/rng"
)

// ---------------------------------------------------------------- case description
//
// A case is a recipe (not a rendered file) so that it replays deterministically and
// stays small: a pool of batch headers and, per batch, which header it uses and
// which entries (by trace sequence number) it holds.

type hdrSpec struct {
	Sec      string `json:"sec"`                // PPD CCD WEB TEL IAT ADV
	Svc      int    `json:"svc"`                // 200 / 220 / 225 (ADV: 280)
	Name     string `json:"name,omitempty"`     // CompanyName (IAT: unused)
	Disc     string `json:"disc,omitempty"`     // CompanyDiscretionaryData
	Ident    string `json:"ident,omitempty"`    // CompanyIdentification / OriginatorIdentification
	Desc     string `json:"desc,omitempty"`     // CompanyEntryDescription
	DescDate string `json:"descDate,omitempty"` // CompanyDescriptiveDate
	EffDate  string `json:"effDate,omitempty"`  // EffectiveEntryDate
	ODFI     string `json:"odfi"`               // ODFIIdentification (8 digits)
	Country  string `json:"country,omitempty"`  // IAT ISODestinationCountryCode
	DCur     string `json:"dcur,omitempty"`     // IAT ISODestinationCurrencyCode
	Status   int    `json:"status,omitempty"`   // OriginatorStatusCode override (0 = default of the constructor)
}

type entrySpec struct {
	Seq     int  `json:"seq"`               // trace number = ODFI + 7-digit seq
	Debit   bool `json:"debit,omitempty"`   //
	Amount  int  `json:"amount"`            //
	Addenda int  `json:"addenda,omitempty"` // number of Addenda05 (IAT: Addenda17)
	Tag     int  `json:"tag,omitempty"`     // varies name/account so that entries are distinguishable
}

type batchSpec struct {
	Hdr     int         `json:"hdr"`           // index into Hdrs
	Num     int         `json:"num,omitempty"` // preset batch number (0: numbered by File.Create)
	Return  bool        `json:"return,omitempty"`
	Entries []entrySpec `json:"entries"`
}

type fileSpec struct {
	Tag     string      `json:"tag,omitempty"`
	Hdrs    []hdrSpec   `json:"hdrs"`
	Batches []batchSpec `json:"batches"`
	ViaText bool        `json:"viaText,omitempty"` // write + read back before flattening (parsed file)
	// Bypass: the file is valid only under ValidateOpts{BypassOriginValidation: true} (set on the
	// file and on every batch): trace numbers are prefixed with TraceODFI instead of the header's ODFI
	Bypass    bool     `json:"bypass,omitempty"`
	TraceODFI string   `json:"traceODFI,omitempty"`
	Aug       *augSpec `json:"aug,omitempty"` // second family: file of the shared generator, batches split / duplicated
}

// ---------------------------------------------------------------- building the file

func baseFile() *ach.File {
	f := ach.NewFile()
	f.Header.ImmediateDestination = "231380104"
	f.Header.ImmediateOrigin = "121042882"
	f.Header.FileCreationDate = "190816"
	f.Header.FileCreationTime = "1055"
	f.Header.ImmediateDestinationName = "Federal Reserve Bank"
	f.Header.ImmediateOriginName = "My Bank Name"
	return f
}

func stdHeader(h hdrSpec) *ach.BatchHeader {
	bh := ach.NewBatchHeader()
	bh.ServiceClassCode = h.Svc
	bh.CompanyName = h.Name
	bh.CompanyDiscretionaryData = h.Disc
	bh.CompanyIdentification = h.Ident
	bh.StandardEntryClassCode = h.Sec
	bh.CompanyEntryDescription = h.Desc
	bh.CompanyDescriptiveDate = h.DescDate
	bh.EffectiveEntryDate = h.EffDate
	bh.ODFIIdentification = h.ODFI
	if h.Sec == "ADV" {
		bh.OriginatorStatusCode = 0
	}
	if h.Status != 0 {
		bh.OriginatorStatusCode = h.Status
	}
	return bh
}

func iatHeader(h hdrSpec) *ach.IATBatchHeader {
	bh := ach.NewIATBatchHeader()
	bh.ServiceClassCode = h.Svc
	bh.ForeignExchangeIndicator = "FF"
	bh.ForeignExchangeReferenceIndicator = 3
	bh.ISODestinationCountryCode = h.Country
	bh.OriginatorIdentification = h.Ident
	bh.StandardEntryClassCode = ach.IAT
	bh.CompanyEntryDescription = h.Desc
	bh.ISOOriginatingCurrencyCode = "CAD"
	bh.ISODestinationCurrencyCode = h.DCur
	bh.EffectiveEntryDate = h.EffDate
	bh.ODFIIdentification = h.ODFI
	return bh
}

func code(debit, ret bool) int {
	switch {
	case debit && ret:
		return ach.CheckingReturnNOCDebit
	case debit:
		return ach.CheckingDebit
	case ret:
		return ach.CheckingReturnNOCCredit
	default:
		return ach.CheckingCredit
	}
}

func stdEntry(h hdrSpec, b batchSpec, e entrySpec) *ach.EntryDetail {
	ed := ach.NewEntryDetail()
	ed.TransactionCode = code(e.Debit, b.Return)
	ed.SetRDFI("231380104")
	ed.DFIAccountNumber = fmt.Sprintf("%d", 744000+e.Tag)
	ed.Amount = e.Amount
	ed.IdentificationNumber = fmt.Sprintf("ID%d", e.Tag)
	ed.IndividualName = fmt.Sprintf("Receiver %d", e.Tag)
	if h.Sec == "WEB" || h.Sec == "TEL" {
		ed.SetPaymentType("S")
	}
	ed.SetTraceNumber(h.ODFI, e.Seq)
	if b.Return {
		a := ach.NewAddenda99()
		a.ReturnCode = "R07"
		a.OriginalTrace = fmt.Sprintf("%s%07d", "23138010", e.Seq)
		a.OriginalDFI = "23138010"
		a.AddendaInformation = "Authorization Revoked"
		a.TraceNumber = ed.TraceNumber
		ed.Addenda99 = a
		ed.Category = ach.CategoryReturn
		ed.AddendaRecordIndicator = 1
		return ed
	}
	for i := 0; i < e.Addenda; i++ {
		a := ach.NewAddenda05()
		a.PaymentRelatedInformation = fmt.Sprintf("addenda %d of entry %d", i+1, e.Tag)
		a.SequenceNumber = i + 1
		a.EntryDetailSequenceNumber = e.Seq
		ed.AddAddenda05(a)
		ed.AddendaRecordIndicator = 1
	}
	return ed
}

func iatEntry(h hdrSpec, e entrySpec) *ach.IATEntryDetail {
	ed := ach.NewIATEntryDetail()
	if e.Debit {
		ed.TransactionCode = ach.CheckingDebit
	} else {
		ed.TransactionCode = ach.CheckingCredit
	}
	ed.SetRDFI("121042882")
	ed.AddendaRecords = 7 + e.Addenda
	ed.DFIAccountNumber = fmt.Sprintf("%d", 123000+e.Tag)
	ed.Amount = e.Amount
	ed.SetTraceNumber(h.ODFI, e.Seq)
	ed.Category = ach.CategoryForward
	a10 := ach.NewAddenda10()
	a10.TransactionTypeCode = "ANN"
	a10.ForeignPaymentAmount = e.Amount
	a10.ForeignTraceNumber = "928383-23938"
	a10.Name = fmt.Sprintf("BEK Enterprises %d", e.Tag)
	ed.Addenda10 = a10
	a11 := ach.NewAddenda11()
	a11.OriginatorName = "BEK Solutions"
	a11.OriginatorStreetAddress = "15 West Place Street"
	ed.Addenda11 = a11
	a12 := ach.NewAddenda12()
	a12.OriginatorCityStateProvince = "JacobsTown*PA\\"
	a12.OriginatorCountryPostalCode = "US*19305\\"
	ed.Addenda12 = a12
	a13 := ach.NewAddenda13()
	a13.ODFIName = "Wells Fargo"
	a13.ODFIIDNumberQualifier = "01"
	a13.ODFIIdentification = "121042882"
	a13.ODFIBranchCountryCode = "US"
	ed.Addenda13 = a13
	a14 := ach.NewAddenda14()
	a14.RDFIName = "Citadel Bank"
	a14.RDFIIDNumberQualifier = "01"
	a14.RDFIIdentification = "231380104"
	a14.RDFIBranchCountryCode = "US"
	ed.Addenda14 = a14
	a15 := ach.NewAddenda15()
	a15.ReceiverIDNumber = "987465493213987"
	a15.ReceiverStreetAddress = "2121 Front Street"
	ed.Addenda15 = a15
	a16 := ach.NewAddenda16()
	a16.ReceiverCityStateProvince = "LetterTown*AB\\"
	a16.ReceiverCountryPostalCode = "CA*80014\\"
	ed.Addenda16 = a16
	for i := 0; i < e.Addenda; i++ {
		a := ach.NewAddenda17()
		a.PaymentRelatedInformation = fmt.Sprintf("international payment %d", e.Tag)
		a.SequenceNumber = i + 1
		ed.AddAddenda17(a)
	}
	return ed
}

func advEntry(e entrySpec) *ach.ADVEntryDetail {
	ed := ach.NewADVEntryDetail()
	if e.Debit {
		ed.TransactionCode = ach.DebitForCreditsOriginated
	} else {
		ed.TransactionCode = ach.CreditForDebitsOriginated
	}
	ed.SetRDFI("231380104")
	ed.DFIAccountNumber = fmt.Sprintf("744-%d", e.Tag)
	ed.Amount = e.Amount
	ed.AdviceRoutingNumber = "121042882"
	ed.FileIdentification = "11131"
	ed.IndividualName = fmt.Sprintf("Name %d", e.Tag)
	ed.ACHOperatorRoutingNumber = "01100001"
	ed.JulianDay = 50
	ed.SequenceNumber = e.Seq
	return ed
}

// buildFile constructs the file of a case through the public constructors and Create.
// An error means the recipe does not describe a valid file (the generator then drops it).
func buildFile(s fileSpec) (f *ach.File, err error) {
	defer func() {
		if r := recover(); r != nil {
			f, err = nil, fmt.Errorf("panic while building: %v", r)
		}
	}()
	if s.Aug != nil {
		f, err = buildAug(*s.Aug)
		if err != nil {
			return nil, err
		}
		return finishFile(f, s.ViaText)
	}
	f = baseFile()
	var opts *ach.ValidateOpts
	if s.Bypass {
		opts = &ach.ValidateOpts{BypassOriginValidation: true}
		f.SetValidation(opts)
	}
	for _, b := range s.Batches {
		if b.Hdr < 0 || b.Hdr >= len(s.Hdrs) {
			return nil, fmt.Errorf("bad header index")
		}
		h := s.Hdrs[b.Hdr]
		th := h // header data used for the trace numbers
		if s.Bypass && s.TraceODFI != "" {
			th.ODFI = s.TraceODFI
		}
		switch h.Sec {
		case "IAT":
			bh := iatHeader(h)
			bh.BatchNumber = b.Num
			ib := ach.NewIATBatch(bh)
			if opts != nil {
				ib.SetValidation(opts)
			}
			for _, e := range b.Entries {
				ib.AddEntry(iatEntry(th, e))
			}
			if err := ib.Create(); err != nil {
				return nil, fmt.Errorf("iat batch: %v", err)
			}
			f.AddIATBatch(ib)
		case "ADV":
			bh := stdHeader(h)
			bh.BatchNumber = b.Num
			bt, err := ach.NewBatch(bh)
			if err != nil {
				return nil, err
			}
			for _, e := range b.Entries {
				bt.AddADVEntry(advEntry(e))
			}
			if err := bt.Create(); err != nil {
				return nil, fmt.Errorf("adv batch: %v", err)
			}
			f.AddBatch(bt)
		default:
			bh := stdHeader(h)
			bh.BatchNumber = b.Num
			bt, err := ach.NewBatch(bh)
			if err != nil {
				return nil, err
			}
			if opts != nil {
				bt.SetValidation(opts)
			}
			for _, e := range b.Entries {
				bt.AddEntry(stdEntry(th, b, e))
			}
			if err := bt.Create(); err != nil {
				return nil, fmt.Errorf("batch: %v", err)
			}
			f.AddBatch(bt)
		}
	}
	return finishFile(f, s.ViaText)
}

func finishFile(f *ach.File, viaText bool) (*ach.File, error) {
	if err := f.Create(); err != nil {
		return nil, fmt.Errorf("file create: %v", err)
	}
	if err := f.Validate(); err != nil {
		return nil, fmt.Errorf("file validate: %v", err)
	}
	for i := range f.IATBatches {
		if err := f.IATBatches[i].Validate(); err != nil {
			return nil, fmt.Errorf("iat validate: %v", err)
		}
	}
	if viaText {
		var buf bytes.Buffer
		if err := ach.NewWriter(&buf).Write(f); err != nil {
			return nil, fmt.Errorf("write: %v", err)
		}
		g, err := ach.NewReader(strings.NewReader(buf.String())).Read()
		if err != nil {
			return nil, fmt.Errorf("read back: %v", err)
		}
		if err := g.Validate(); err != nil {
			return nil, fmt.Errorf("parsed validate: %v", err)
		}
		f = &g
	}
	return f, nil
}

// ---------------------------------------------------------------- generators

var names = []string{"Payee Co", "Payee Co.", "PAYEE CO", "Other Company", "Name That Is Longer Than 16", "Café Co", "Ünïted Çô"}
var discs = []string{"", "DISC DATA", "disc data 2"}
var idents = []string{"121042882", "121042883", "1210428820"}
var descs = []string{"PAYROLL", "PAYROLL2", "VENDOR PAY"}
var descDates = []string{"", "190815", "SD1300"}
var effDates = []string{"190816", "190817", "190901"}
var odfis = []string{"12104288", "12104289", "23138010", "12104280"}
var secs = []string{"PPD", "PPD", "CCD", "WEB", "TEL"}
var countries = []string{"US", "CA", "MX"}
var dcurs = []string{"USD", "CAD"}

func randHeader(r *rng.R, sec string) hdrSpec {
	h := hdrSpec{Sec: sec, Svc: 200, Name: names[0], Ident: idents[0], Desc: descs[0], EffDate: effDates[0], ODFI: odfis[0]}
	if sec == "IAT" {
		h.Country, h.DCur, h.ODFI, h.Ident, h.Desc = countries[0], dcurs[0], "23138010", "123456789", "TRADEPAYMT"
	}
	if sec == "ADV" {
		h.Svc = 280
		h.Desc = "Accounting"
	}
	return h
}

// mutateHeader changes exactly one field of the signature (so that two headers of a
// pool differ in one place only — the case that matters for the signature width).
func mutateHeader(r *rng.R, h hdrSpec) hdrSpec {
	for tries := 0; tries < 10; tries++ {
		g := h
		switch r.Intn(9) {
		case 0:
			if h.Sec != "IAT" {
				g.Name = rng.Pick(r, names)
			}
		case 1:
			if h.Sec != "IAT" {
				g.Disc = rng.Pick(r, discs)
			}
		case 2:
			if h.Sec != "IAT" {
				g.Ident = rng.Pick(r, idents)
			}
		case 3:
			g.Desc = rng.Pick(r, descs)
		case 4:
			if h.Sec != "IAT" {
				g.DescDate = rng.Pick(r, descDates)
			}
		case 5:
			g.EffDate = rng.Pick(r, effDates)
		case 6, 7:
			g.ODFI = rng.Pick(r, odfis)
		case 8:
			switch h.Sec {
			case "IAT":
				if r.Bool() {
					g.Country = rng.Pick(r, countries)
				} else {
					g.DCur = rng.Pick(r, dcurs)
				}
			case "ADV":
			default:
				if r.Bool() {
					g.Sec = rng.Pick(r, secs)
				} else {
					g.Svc = rng.Pick(r, []int{200, 220, 225})
				}
			}
		}
		if g != h {
			return g
		}
	}
	return h
}

// genSpec draws one recipe.  shape selects the family:
//
//	0 standard SEC codes only     1 standard + IAT     2 IAT only     3 ADV only
//	4 standard with a return batch sharing a header
func genSpec(r *rng.R, shape int, big bool) fileSpec {
	var s fileSpec
	// header pool
	var pool []hdrSpec
	add := func(sec string, n int) {
		base := randHeader(r, sec)
		if sec != "IAT" && sec != "ADV" {
			base.Sec = rng.Pick(r, secs)
		}
		pool = append(pool, base)
		for i := 1; i < n; i++ {
			pool = append(pool, mutateHeader(r, pool[len(pool)-1-r.Intn(min(i, 2))]))
		}
	}
	switch shape {
	case 0, 4:
		s.Tag = "std"
		add("PPD", r.Range(1, 4))
	case 1:
		s.Tag = "std+iat"
		add("PPD", r.Range(1, 3))
		add("IAT", r.Range(1, 2))
	case 2:
		s.Tag = "iat"
		add("IAT", r.Range(1, 3))
	case 3:
		s.Tag = "adv"
		add("ADV", r.Range(1, 2))
	}
	for i := range pool {
		if pool[i].Sec == "TEL" && pool[i].Svc == 220 {
			pool[i].Svc = 225 // TEL carries debits only
		}
	}
	s.Hdrs = pool
	nb := r.Range(1, 8)
	if big {
		nb = r.Range(13, 40)
	}
	// trace pattern: 0 all distinct (global counter per ODFI), 1 every batch restarts at 1
	// (maximal collisions), 2 random from a small range, 3 mixture
	pattern := r.Intn(4)
	counter := map[string]int{}
	tag := 0
	maxEntries := rng.Pick(r, []int{1, 2, 3, 3, 5, 8, 14, 20})
	// ADV advices carry twelve-digit amounts and the ADV batch control twenty-digit totals: one time in three an ADV
	// file holds single-advice batches of several hundred billion cents, so that the consolidated total of two
	// batches needs more than twelve digits while each batch alone does not
	bigADV := shape == 3 && r.Chance(1, 3)
	if bigADV {
		maxEntries = 1
	}
	presetNums := r.Chance(1, 4)
	num := 0
	for i := 0; i < nb; i++ {
		hi := r.Intn(len(pool))
		h := pool[hi]
		b := batchSpec{Hdr: hi}
		if presetNums {
			num += r.Range(1, 5)
			if num == 1 {
				num = 2
			}
			b.Num = num
		}
		ne := r.Range(1, maxEntries)
		if r.Chance(1, 3) {
			ne = r.Range(1, 2) // many equal sizes: ties in the sort by entry count
		}
		p := pattern
		if p == 3 {
			p = r.Intn(3)
		}
		seq := 0
		switch p {
		case 0:
			seq = counter[h.ODFI]
		case 2:
			seq = r.Intn(3 * maxEntries)
		}
		for j := 0; j < ne; j++ {
			switch p {
			case 2:
				seq += r.Range(1, 3)
			default:
				seq++
			}
			tag++
			e := entrySpec{Seq: seq, Amount: r.Range(1, 99999), Tag: tag}
			if bigADV {
				e.Amount = 300000000000 + r.Intn(600000000000)
			}
			switch h.Svc {
			case 225:
				e.Debit = true
			case 220:
				e.Debit = false
			default:
				e.Debit = r.Bool()
			}
			if h.Sec == "TEL" {
				e.Debit = true
			} else if h.Sec == "IAT" {
				if r.Chance(1, 4) {
					e.Addenda = r.Range(1, 2)
				}
			} else if h.Sec != "ADV" && r.Chance(1, 3) {
				e.Addenda = 1
			}
			b.Entries = append(b.Entries, e)
		}
		if p == 0 {
			counter[h.ODFI] = seq
		}
		if shape == 4 && h.Sec != "IAT" && r.Chance(1, 3) {
			b.Return = true
		}
		s.Batches = append(s.Batches, b)
	}
	if shape == 4 {
		s.Tag = "std+return"
	}
	// IAT batches are appended after the standard ones by AddIATBatch; keep preset numbers
	// ascending in that final order
	if presetNums {
		n := 0
		for pass := 0; pass < 2; pass++ {
			for i := range s.Batches {
				isIAT := pool[s.Batches[i].Hdr].Sec == "IAT"
				if (pass == 1) == isIAT {
					n += r.Range(1, 5)
					if n == 1 {
						n = 2
					}
					s.Batches[i].Num = n
				}
			}
		}
	}
	s.ViaText = r.Chance(1, 3)
	return s
}

func pickShape(r *rng.R) int {
	switch x := r.Intn(20); {
	case x < 10:
		return 0
	case x < 14:
		return 1
	case x < 16:
		return 2
	case x < 18:
		return 3
	default:
		return 4
	}
}

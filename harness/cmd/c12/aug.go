package main

import (
	"bytes"
	"fmt"
	"strconv"
	"strings"

	"github.com/moov-io/ach"

	"verifharness/internal/gen"
	"verifharness/internal/rng"
)

// Second family of cases: a valid file of the shared generator (all 21 standard SEC
// codes, IAT, ADV, returns, NOC, non-ASCII fields) whose batches are split into several
// batches with the same header (disjoint trace numbers) and/or duplicated (identical
// trace numbers), so that headers repeat in files the library accepts for every SEC code.
type augSpec struct {
	Seed       uint64 `json:"seed"`
	SEC        string `json:"sec,omitempty"` // "" = mixed file, otherwise gen.FileOfSEC (also IAT, ADV)
	IAT        bool   `json:"iat,omitempty"`
	Returns    bool   `json:"returns,omitempty"`
	NOC        bool   `json:"noc,omitempty"`
	NonASCII   bool   `json:"nonascii,omitempty"`
	Addenda    bool   `json:"addenda,omitempty"`
	MaxBatches int    `json:"maxBatches,omitempty"`
	MaxEntries int    `json:"maxEntries,omitempty"`
	// per source batch (Batches, then IATBatches): 5 (short trace numbers only) two single-entry batches "9" / "10", 0 keep, 1 duplicate, 2 split in two,
	// 3 split in three, 4 split in two and duplicate the first part
	Plan []int `json:"plan"`
	// non-zero: the source file is made valid only under an option set stored on it (gen.NeedsOpts)
	NeedsOpts uint64 `json:"needsOpts,omitempty"`
	// with NeedsOpts: the variant to use ("" = whatever gen.NeedsOpts draws); the trace-number variants matter
	// most to Flatten, which orders and compares trace numbers
	OptVariant string `json:"optVariant,omitempty"`
	// the file is written, the first 8 digits of every entry's trace number are replaced in the TEXT and the
	// text is read back under CustomTraceNumbers: a file with foreign trace numbers that no Create has touched
	// (its batches are then used as they are: plan ignored)
	TextTraces bool `json:"textTraces,omitempty"`
	// the generator may balance PPD/CCD/WEB/CTX batches with an Offset (Batch.WithOffset); plan 6 cuts such a
	// batch in two balanced parts with disjoint trace numbers, each carrying the Offset configuration
	Offset bool `json:"offset,omitempty"`
}

func (a augSpec) opts() gen.Opts {
	return gen.Opts{IAT: a.IAT, Returns: a.Returns, NOC: a.NOC, NonASCII: a.NonASCII, Addenda: a.Addenda,
		MaxBatches: a.MaxBatches, MaxEntries: a.MaxEntries, Offset: a.Offset}
}

func (a augSpec) source() (f *ach.File, err error) {
	defer func() {
		if r := recover(); r != nil {
			f, err = nil, fmt.Errorf("generator: %v", r)
		}
	}()
	r := rng.New(a.Seed)
	if a.SEC != "" {
		f = gen.FileOfSEC(r, a.SEC, a.opts())
	} else {
		f = gen.File(r, a.opts())
	}
	if a.NeedsOpts != 0 && f != nil {
		if v := gen.OptVariantByName(a.OptVariant); v != nil {
			if g := gen.NeedsOptsVariant(rng.New(a.NeedsOpts), f, v); g != nil {
				f = g
			}
		} else if g, _ := gen.NeedsOpts(rng.New(a.NeedsOpts), f); g != nil {
			f = g
		}
	}
	return f, nil
}

// textTraces: see augSpec.TextTraces; nil when the file does not lend itself (ADV, returns, reader refuses).
func textTraces(f *ach.File) *ach.File {
	if f == nil || f.IsADV() {
		return nil
	}
	var buf bytes.Buffer
	if err := ach.NewWriter(&buf).Write(f); err != nil {
		return nil
	}
	lines := strings.Split(buf.String(), "\n")
	for i, l := range lines {
		if len(l) == 94 && l[0] == '6' {
			lines[i] = l[:79] + "99887766" + l[87:]
		}
		if len(l) == 94 && l[0] == '7' && (l[1:3] == "98" || l[1:3] == "99") {
			return nil // returns and NOCs carry trace numbers of their own
		}
	}
	rd := ach.NewReader(strings.NewReader(strings.Join(lines, "\n")))
	rd.SetValidation(&ach.ValidateOpts{CustomTraceNumbers: true})
	g, err := rd.Read()
	if err != nil {
		return nil
	}
	if g.Validate() != nil {
		return nil
	}
	return &g
}

func resetNumber(b ach.Batcher) {
	b.GetHeader().BatchNumber = 0
	if c := b.GetControl(); c != nil {
		c.BatchNumber = 0
	}
	if c := b.GetADVControl(); c != nil {
		c.BatchNumber = 0
	}
}

// part j of k of a batch (entries i with i%k == j); nil when empty or not creatable
func stdPart(b ach.Batcher, j, k int) ach.Batcher {
	keep := map[*ach.EntryDetail]bool{}
	for i, e := range b.GetEntries() {
		if i%k == j {
			keep[e] = true
		}
	}
	keepADV := map[*ach.ADVEntryDetail]bool{}
	for i, e := range b.GetADVEntries() {
		if i%k == j {
			keepADV[e] = true
		}
	}
	if len(keep)+len(keepADV) == 0 {
		return nil
	}
	b.DeleteEntries(func(e *ach.EntryDetail) bool { return !keep[e] })
	b.DeleteADVEntries(func(e *ach.ADVEntryDetail) bool { return !keepADV[e] })
	resetNumber(b)
	if err := b.Create(); err != nil {
		return nil
	}
	return b
}

func iatPart(b ach.IATBatch, j, k int) *ach.IATBatch {
	keep := map[*ach.IATEntryDetail]bool{}
	for i, e := range b.Entries {
		if i%k == j {
			keep[e] = true
		}
	}
	if len(keep) == 0 {
		return nil
	}
	b.DeleteEntries(func(e *ach.IATEntryDetail) bool { return !keep[e] })
	b.Header.BatchNumber = 0
	if err := b.Create(); err != nil {
		return nil
	}
	return &b
}

func buildAug(a augSpec) (*ach.File, error) {
	f, err := a.source()
	if err != nil {
		return nil, err
	}
	if a.TextTraces {
		if g := textTraces(f); g != nil {
			return g, nil
		}
	}
	// independent structural copies to cut the parts from
	var c [5]*ach.File
	for i := range c {
		c[i] = gen.Clone(f)
	}
	nf := ach.NewFile()
	nf.Header = f.Header
	nf.SetValidation(f.GetValidation())
	plan := func(i int) int {
		if i < len(a.Plan) {
			return a.Plan[i]
		}
		return 0
	}
	for i := range f.Batches {
		var parts []ach.Batcher
		switch p := plan(i); p {
		case 1:
			parts = []ach.Batcher{stdPart(c[0].Batches[i], 0, 1), stdPart(c[1].Batches[i], 0, 1)}
		case 2, 3:
			for j := 0; j < p; j++ {
				parts = append(parts, stdPart(c[j].Batches[i], j, p))
			}
		case 4:
			parts = []ach.Batcher{stdPart(c[0].Batches[i], 0, 2), stdPart(c[1].Batches[i], 1, 2), stdPart(c[2].Batches[i], 0, 2)}
		case 6:
			// two parts with the same header and disjoint trace numbers (the second part's sequence numbers are
			// moved far away, so that the OFFSET entries Create appends to each part collide with nothing); a part of a
			// batch configured with an Offset is balanced again by its own Create and keeps the configuration
			for j := 0; j < 2; j++ {
				pb := c[j].Batches[i]
				if j == 1 && pb.Category() == ach.CategoryForward && pb.GetHeader().StandardEntryClassCode != ach.ADV {
					for _, e := range pb.GetEntries() {
						if n, err := strconv.Atoi(e.TraceNumberField()[8:]); err == nil && len(e.TraceNumber) == 15 {
							e.TraceNumber = e.TraceNumber[:8] + fmt.Sprintf("%07d", (n+5000)%10000000)
						}
					}
				}
				parts = append(parts, stdPart(pb, j, 2))
			}
		case 5:
			// short trace numbers only: two single-entry batches with the same header whose trace numbers have
			// different lengths ("9" and "10"): each is valid alone, their raw order and their padded order differ
			if a.OptVariant == "short-trace-numbers" && len(f.Batches[i].GetEntries()) >= 2 {
				for j, tr := range []string{"9", "10"} {
					pb := stdPart(c[j].Batches[i], j, len(f.Batches[i].GetEntries()))
					if pb == nil || len(pb.GetEntries()) != 1 {
						parts = nil
						break
					}
					e := pb.GetEntries()[0]
					if _, err := strconv.Atoi(e.TraceNumber); err != nil || len(e.TraceNumber) > 6 {
						parts = nil // the variant did not apply to this source
						break
					}
					e.TraceNumber = tr
					n, _ := strconv.Atoi(tr)
					for _, ad := range e.Addenda05 {
						ad.EntryDetailSequenceNumber = n
					}
					if e.Addenda02 != nil {
						e.Addenda02.TraceNumber = tr
					}
					if pb.Create() != nil {
						parts = nil
						break
					}
					parts = append(parts, pb)
				}
			}
		}
		n := 0
		for _, b := range parts {
			if b != nil {
				nf.AddBatch(b)
				n++
			}
		}
		if n == 0 {
			nf.AddBatch(stdPart(c[4].Batches[i], 0, 1))
		}
	}
	off := len(f.Batches)
	for i := range f.IATBatches {
		var parts []*ach.IATBatch
		switch p := plan(off + i); p {
		case 1:
			parts = []*ach.IATBatch{iatPart(c[0].IATBatches[i], 0, 1), iatPart(c[1].IATBatches[i], 0, 1)}
		case 2, 3:
			for j := 0; j < p; j++ {
				parts = append(parts, iatPart(c[j].IATBatches[i], j, p))
			}
		case 4:
			parts = []*ach.IATBatch{iatPart(c[0].IATBatches[i], 0, 2), iatPart(c[1].IATBatches[i], 1, 2), iatPart(c[2].IATBatches[i], 0, 2)}
		}
		n := 0
		for _, b := range parts {
			if b != nil {
				nf.AddIATBatch(*b)
				n++
			}
		}
		if n == 0 {
			if b := iatPart(c[4].IATBatches[i], 0, 1); b != nil {
				nf.AddIATBatch(*b)
			}
		}
	}
	return nf, nil
}

func genAug(r *rng.R) fileSpec {
	a := augSpec{Seed: r.U64(), MaxBatches: r.Range(1, 5), MaxEntries: r.Range(1, 6)}
	switch r.Intn(10) {
	case 0:
		a.SEC = "ADV"
	case 1:
		a.SEC = "IAT"
	case 2, 3, 4:
		a.SEC = rng.Pick(r, gen.AllSECs())
	}
	a.IAT = r.Chance(1, 3)
	a.Returns = r.Chance(1, 4)
	a.NOC = r.Chance(1, 5)
	a.NonASCII = r.Chance(1, 4)
	a.Addenda = r.Chance(1, 2)
	for i := 0; i < 12; i++ {
		a.Plan = append(a.Plan, rng.Pick(r, []int{0, 1, 1, 2, 2, 3, 4}))
	}
	if r.Chance(1, 4) {
		a.NeedsOpts = r.U64() | 1
		if r.Chance(1, 2) {
			a.OptVariant = rng.Pick(r, []string{"short-trace-numbers", "short-trace-numbers", "custom-trace-numbers", "bypass-origin-traces"})
			if a.OptVariant == "short-trace-numbers" {
				// the variant applies to standard forward batches
				a.SEC, a.IAT, a.Returns, a.NOC = rng.Pick(r, []string{"PPD", "CCD", "WEB", "CTX"}), false, false, false
				if a.MaxEntries < 3 {
					a.MaxEntries = 4
				}
				for i := range a.Plan {
					if r.Chance(1, 2) {
						a.Plan[i] = 5
					}
				}
			}
		}
	}
	if a.NeedsOpts == 0 && r.Chance(1, 6) {
		a.TextTraces = true
	}
	if a.NeedsOpts == 0 && !a.TextTraces && r.Chance(1, 5) {
		a.Offset = true
		a.Returns, a.NOC = false, false
		if a.SEC == "" || r.Chance(1, 2) {
			a.SEC = rng.Pick(r, []string{"PPD", "CCD", "WEB", "CTX"})
		}
		for i := range a.Plan {
			if r.Chance(2, 3) {
				a.Plan[i] = 6
			}
		}
	}
	return fileSpec{Tag: "gen", Aug: &a}
}

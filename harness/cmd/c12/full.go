package main

// Phase 6: correspondence of the WHOLE Flatten function (coq/Model/FlattenFull.v, extracted by
// coq/Extract/C12FULL.v, driven by ocaml/c12full/driver.ml) with the real FlattenBatches:
// outcome class (which error return), and on success every batch control as Create tabulated
// it (standard, IAT, ADV), the trace numbers in file order, header / control batch numbers, the
// file control of File.Create and Batch.Category() of every standard result batch.
//
// Mode "corrfull" is dispatched from init() so that main.go stays untouched.

import (
	"encoding/json"
	"flag"
	"fmt"
	"os"
	"path/filepath"
	"strconv"
	"strings"
	"unicode/utf8"

	"github.com/moov-io/ach"

	"verifharness/internal/gen"
	"verifharness/internal/hx"
	"verifharness/internal/rng"
)

func init() {
	if len(os.Args) >= 2 && os.Args[1] == "corrfull" {
		gen.AllowBatchOnly = true
		corrFull(os.Args[2:])
		os.Exit(0)
	}
	if len(os.Args) >= 3 && os.Args[1] == "replayfull" {
		os.Exit(replayFull(os.Args[2]))
	}
}

// fullSpec: a recipe of the existing families plus the phase-6 variations.
type fullSpec struct {
	File fileSpec `json:"file"`
	// IATReturn: indices (into IATBatches of the built file) of batches whose entries are turned
	// into return entries (Addenda99, Category Return): a return batch next to forward batches
	// with the same IAT header
	IATReturn []int `json:"iatReturn,omitempty"`
	// Fill: per batch of File.Batches, a number of synthesized entries replacing the listed ones
	// (keeps the recipe of a batch with thousands of entries small)
	Fill []int `json:"fill,omitempty"`
}

func aba8h(rtn string) string {
	n := utf8.RuneCountInString(rtn)
	switch {
	case n > 10:
		return ""
	case n == 10:
		if rtn[0] == '0' || rtn[0] == '1' {
			return rtn[1:9]
		}
		return ""
	case n != 8 && n != 9:
		return ""
	default:
		return rtn[:8]
	}
}

func atoi0(s string) int {
	n, err := strconv.Atoi(s)
	if err != nil {
		return 0
	}
	return n
}

func first8(s string) string {
	if len(s) < 8 {
		return s
	}
	return s[:8]
}

func buildFull(s fullSpec) (f *ach.File, err error) {
	defer func() {
		if r := recover(); r != nil {
			f, err = nil, fmt.Errorf("panic while building: %v", r)
		}
	}()
	if len(s.Fill) > 0 {
		fs := s.File
		fs.Batches = append([]batchSpec(nil), fs.Batches...)
		base := 0
		for i := range fs.Batches {
			if i < len(s.Fill) && s.Fill[i] > 0 {
				var es []entrySpec
				for j := 0; j < s.Fill[i]; j++ {
					es = append(es, entrySpec{Seq: j%9998 + 1, Amount: 100 + j%1000, Tag: base + j, Debit: j%2 == 0})
				}
				fs.Batches[i].Entries = es
				base += s.Fill[i]
			}
		}
		s.File = fs
	}
	f, err = buildFile(s.File)
	if err != nil {
		return nil, err
	}
	changed := false
	for _, i := range s.IATReturn {
		if i < 0 || i >= len(f.IATBatches) {
			continue
		}
		b := &f.IATBatches[i]
		ok := true
		for _, e := range b.Entries {
			if e.Category != ach.CategoryForward || e.Addenda99 != nil || e.Addenda98 != nil {
				ok = false
			}
		}
		if !ok {
			continue
		}
		for _, e := range b.Entries {
			a := ach.NewAddenda99()
			a.ReturnCode = "R07"
			a.OriginalTrace = "231380100000001"
			a.OriginalDFI = "23138010"
			a.IATPaymentAmount(fmt.Sprintf("%010d", e.Amount))
			a.IATAddendaInformation("Authorization Revoked")
			e.Addenda99 = a
			e.AddendaRecords++
			e.Category = ach.CategoryReturn
		}
		if err := b.Create(); err != nil {
			return nil, fmt.Errorf("iat return batch: %v", err)
		}
		changed = true
	}
	if changed {
		if err := f.Create(); err != nil {
			return nil, fmt.Errorf("file create: %v", err)
		}
		if err := f.Validate(); err != nil {
			return nil, fmt.Errorf("file validate: %v", err)
		}
		for i := range f.IATBatches {
			if err := f.IATBatches[i].Validate(); err != nil {
				return nil, fmt.Errorf("iat validate: %v", err)
			}
		}
	}
	return f, nil
}

// hasOpts: the whole-function model is the code under default validation (Offsets.build is
// Batch.build with validateOpts == nil); files that carry options stay with the other families.
func hasOpts(f *ach.File) bool {
	if f.GetValidation() != nil {
		return true
	}
	for _, b := range f.Batches {
		if ach.VerifBatchValidation(b) != nil {
			return true
		}
	}
	for i := range f.IATBatches {
		if ach.VerifIATBatchValidation(&f.IATBatches[i]) != nil {
			return true
		}
	}
	return false
}

func serializeFull(f *ach.File) string {
	var b strings.Builder
	fmt.Fprintf(&b, "F %d %d %d %d", b01(f.Header.Validate() == nil), f.Control.EntryAddendaCount,
		f.Control.TotalDebitEntryDollarAmountInFile, f.Control.TotalCreditEntryDollarAmountInFile)
	obs := observe(f)
	fmt.Fprintf(&b, " N %d", len(obs))
	k := 0
	entry := func(e obsEntry, pay string) {
		fmt.Fprintf(&b, " %s %s %d %d %d %d %s", hx.Enc(e.Trace), digest(e.Core), e.Amount, b01(e.Debit), e.Addenda, e.Cat, pay)
	}
	for _, bt := range f.Batches {
		ob := obs[k]
		k++
		h := bt.GetHeader()
		oz, oerr := strconv.Atoi(first8(h.ODFIIdentificationField()))
		fmt.Fprintf(&b, " B S %s %d %d %s %d %d %d %d %d %d", hx.Enc(ob.Sig), ob.Num, h.ServiceClassCode, hx.Enc(h.ODFIIdentification),
			b01(h.Validate() == nil), b01(h.StandardEntryClassCode == ach.ADV), oz, b01(oerr == nil), len(ob.Entries), len(ob.Adv))
		for i, e := range bt.GetEntries() {
			entry(ob.Entries[i], fmt.Sprintf("%d %s %s %d", e.TransactionCode, hx.Enc(e.RDFIIdentification), hx.Enc(e.CheckDigit),
				b01(strings.EqualFold(e.IndividualName, "OFFSET"))))
		}
		for i, e := range bt.GetADVEntries() {
			entry(ob.Adv[i], fmt.Sprintf("%d %d %d", e.TransactionCode, atoi0(aba8h(e.RDFIIdentification)), b01(e.Addenda99 != nil)))
		}
	}
	for i := range f.IATBatches {
		bt := &f.IATBatches[i]
		ob := obs[k]
		k++
		h := bt.Header
		oz, oerr := strconv.Atoi(first8(h.ODFIIdentificationField()))
		fmt.Fprintf(&b, " B I %s %d %d %s %d 0 %d %d %d 0", hx.Enc(ob.Sig), ob.Num, h.ServiceClassCode, hx.Enc(h.ODFIIdentification),
			b01(h.Validate() == nil), oz, b01(oerr == nil), len(ob.Entries))
		for j, e := range bt.Entries {
			_, terr := strconv.Atoi(first8(e.TraceNumberField()))
			pay := fmt.Sprintf("%d %d %d %d %d %d %d %d %d %d %d %d %d %d", e.TransactionCode, atoi0(aba8h(e.RDFIIdentification)), b01(terr == nil),
				b01(e.Addenda10 != nil), b01(e.Addenda11 != nil), b01(e.Addenda12 != nil), b01(e.Addenda13 != nil),
				b01(e.Addenda14 != nil), b01(e.Addenda15 != nil), b01(e.Addenda16 != nil),
				len(e.Addenda17), len(e.Addenda18), b01(e.Addenda98 != nil), b01(e.Addenda99 != nil))
			entry(ob.Entries[j], pay)
		}
	}
	if len(obs) > 12 {
		h := sortHint(obs)
		fmt.Fprintf(&b, " H %d", len(h))
		for _, i := range h {
			fmt.Fprintf(&b, " %d", i)
		}
	} else {
		b.WriteString(" H 0")
	}
	return b.String()
}

func observeFull(res flatResult) string {
	switch {
	case res.panic != "":
		return "PANIC"
	case res.err != nil:
		switch errClass(res.err) {
		case "entry-count-changed":
			return "COUNT"
		case "debit-total-changed":
			return "DEBIT"
		case "credit-total-changed":
			return "CREDIT"
		case "no-batches":
			return "NOBATCHES"
		default:
			return "ERRFILE"
		}
	}
	f := res.file
	var b strings.Builder
	var cats []int
	adv := false
	fmt.Fprintf(&b, "OK S %d", len(f.Batches))
	for _, bt := range f.Batches {
		h := bt.GetHeader()
		if h.StandardEntryClassCode == ach.ADV {
			adv = true
			c := bt.GetADVControl()
			fmt.Fprintf(&b, " A %d %d %d %d %d %d %d %d", c.ServiceClassCode, h.BatchNumber, c.BatchNumber, c.EntryAddendaCount, c.EntryHash,
				c.TotalCreditEntryDollarAmount, c.TotalDebitEntryDollarAmount, len(bt.GetADVEntries()))
			for _, e := range bt.GetADVEntries() {
				fmt.Fprintf(&b, " %d", e.SequenceNumber)
			}
		} else {
			c := bt.GetControl()
			fmt.Fprintf(&b, " S %d %d %d %d %d %d %d %d", c.ServiceClassCode, h.BatchNumber, c.BatchNumber, c.EntryAddendaCount, c.EntryHash,
				c.TotalCreditEntryDollarAmount, c.TotalDebitEntryDollarAmount, len(bt.GetEntries()))
			for _, e := range bt.GetEntries() {
				fmt.Fprintf(&b, " %d", atoi0(e.TraceNumber))
			}
		}
		if len(bt.GetEntries()) > 0 {
			cats = append(cats, catOf(bt.Category()))
		}
	}
	fmt.Fprintf(&b, " I %d", len(f.IATBatches))
	for i := range f.IATBatches {
		bt := &f.IATBatches[i]
		c := bt.Control
		fmt.Fprintf(&b, " I %d %d %d %d %d %d %d %d", c.ServiceClassCode, bt.Header.BatchNumber, c.BatchNumber, c.EntryAddendaCount, c.EntryHash,
			c.TotalCreditEntryDollarAmount, c.TotalDebitEntryDollarAmount, len(bt.Entries))
		for _, e := range bt.Entries {
			fmt.Fprintf(&b, " %d", atoi0(e.TraceNumber))
		}
	}
	if adv {
		c := f.ADVControl
		fmt.Fprintf(&b, " FC %d %d %d %d %d %d", c.BatchCount, c.BlockCount, c.EntryAddendaCount, c.EntryHash, c.TotalDebitEntryDollarAmountInFile, c.TotalCreditEntryDollarAmountInFile)
	} else {
		c := f.Control
		fmt.Fprintf(&b, " FC %d %d %d %d %d %d", c.BatchCount, c.BlockCount, c.EntryAddendaCount, c.EntryHash, c.TotalDebitEntryDollarAmountInFile, c.TotalCreditEntryDollarAmountInFile)
	}
	b.WriteString(" CAT")
	for _, c := range cats {
		fmt.Fprintf(&b, " %d", c)
	}
	return b.String()
}

// genFull draws one phase-6 recipe.
func genFull(r *rng.R, big bool) fullSpec {
	var s fullSpec
	switch x := r.Intn(20); {
	case x < 6: // forward + return batches sharing a header
		s.File = genSpec(r, 4, big)
	case x < 9: // standard + IAT
		s.File = genSpec(r, 1, big)
	case x < 12: // IAT only
		s.File = genSpec(r, 2, big)
	case x < 15: // ADV
		s.File = genSpec(r, 3, big)
	default:
		s.File = genSpec(r, 0, big)
	}
	s.File.Bypass = false
	s.File.TraceODFI = ""
	hasIAT := false
	for _, h := range s.File.Hdrs {
		if h.Sec == "IAT" {
			hasIAT = true
		}
	}
	if hasIAT && r.Chance(1, 2) {
		for i := 0; i < 8; i++ {
			if r.Chance(1, 3) {
				s.IATReturn = append(s.IATReturn, i)
			}
		}
	}
	return s
}

func genFullAug(r *rng.R) fullSpec {
	fs := genAug(r)
	fs.Aug.NeedsOpts = 0
	fs.Aug.OptVariant = ""
	fs.Aug.TextTraces = false
	for i := range fs.Aug.Plan {
		if fs.Aug.Plan[i] == 5 {
			fs.Aug.Plan[i] = 2
		}
	}
	return fullSpec{File: fs}
}

func corrFull(args []string) {
	fs := flag.NewFlagSet("corrfull", flag.ExitOnError)
	out := fs.String("out", "", "output directory")
	n := fs.Int("n", 1600, "number of random recipes")
	nbig := fs.Int("nbig", 150, "number of recipes with more than 12 batches")
	naug := fs.Int("naug", 500, "number of files of the shared generator with split / duplicated batches")
	corpus := fs.String("corpus", "", "corpus directory (full-*.json)")
	fs.Parse(args)
	cases := hx.Create(filepath.Join(*out, "cases.txt"))
	impl := hx.Create(filepath.Join(*out, "impl.txt"))
	specs := hx.Create(filepath.Join(*out, "specs.jsonl"))
	orc := hx.Create(filepath.Join(*out, "full-oracle.jsonl"))
	count, rejected, withOpts := 0, 0, 0
	distinct := map[string]bool{}
	var samples []string
	dist := map[string]int{}
	emit := func(s fullSpec) {
		f, err := buildFull(s)
		if err != nil {
			rejected++
			return
		}
		if hasOpts(f) {
			withOpts++
			return
		}
		line := serializeFull(f)
		// shape counters, measured on the built file
		sigCats := map[string]map[int]bool{}
		sigAdv := map[string]int{}
		mixed, advOver := false, false
		for _, ob := range observe(f) {
			sigAdv[ob.Sig] += len(ob.Adv)
			if sigAdv[ob.Sig] >= 9999 {
				advOver = true
			}
			m := sigCats[ob.Sig]
			if m == nil {
				m = map[int]bool{}
				sigCats[ob.Sig] = m
			}
			for _, e := range ob.Entries {
				m[e.Cat] = true
			}
			switch {
			case ob.Kind == 'I':
				dist["iat_batches"]++
			case len(ob.Adv) > 0:
				dist["adv_batches"]++
			default:
				dist["std_batches"]++
			}
		}
		for _, m := range sigCats {
			if len(m) > 1 {
				dist["files_mixed_category_same_signature"]++
				mixed = true
				break
			}
		}
		res := flatten(f)
		o := observeFull(res)
		class := strings.SplitN(o, " ", 2)[0]
		dist["outcome_"+class]++
		js, _ := json.Marshal(s)
		// direct oracle on the whole function: a valid file must be flattened (C12_succeeds); the
		// failures with a known cause carry the key of their known finding
		if class != "OK" {
			key := "flatten:full:error:" + strings.ToLower(class)
			switch {
			case mixed:
				key = "flatten:error:mixed-category-same-header"
			case advOver:
				key = "flatten:error:adv-sequence-limit"
			}
			what := "FlattenBatches fails (" + class + ") on a valid file"
			if res.err != nil {
				what += ": " + cut(res.err.Error(), 160)
			}
			fj, _ := json.Marshal(map[string]interface{}{"kind": "fail", "key": key, "what": what, "case": s})
			orc.Printf("%s\n", fj)
		}
		if class == "OK" && res.file != nil {
			// C12_valid on the real result: File.Validate and (File.Validate does not descend into them) every IAT batch
			bad := ""
			if err := res.file.Validate(); err != nil {
				bad = "file: " + cut(err.Error(), 140)
			}
			for i := range res.file.IATBatches {
				if err := res.file.IATBatches[i].Validate(); err != nil && bad == "" {
					bad = "iat batch: " + cut(err.Error(), 140)
				}
			}
			if bad != "" {
				fj, _ := json.Marshal(map[string]interface{}{"kind": "fail", "key": "flatten:full:result-invalid", "what": "FlattenBatches returns a file that does not validate: " + bad, "case": s})
				orc.Printf("%s\n", fj)
			}
		}
		distinct[digest(line)] = true
		if len(samples) < 3 {
			samples = append(samples, cut(string(js), 300))
		}
		specs.Printf("%s\n", js)
		cases.Printf("%s\n", line)
		impl.Printf("%s\n", o)
		count++
	}
	if *corpus != "" {
		paths, _ := filepath.Glob(filepath.Join(*corpus, "full-*.json"))
		for _, p := range paths {
			raw, err := os.ReadFile(p)
			if err != nil {
				continue
			}
			var s fullSpec
			if json.Unmarshal(raw, &s) == nil {
				emit(s)
			}
		}
	}
	r := rng.FromEnv(1206)
	for i := 0; i < *n; i++ {
		emit(genFull(r, false))
	}
	for i := 0; i < *nbig; i++ {
		emit(genFull(r, true))
	}
	for i := 0; i < *naug; i++ {
		emit(genFullAug(r))
	}
	cases.Close()
	impl.Close()
	specs.Close()
	sj, _ := json.Marshal(map[string]interface{}{"kind": "summary", "evaluations": count, "distinct_nontrivial": len(distinct),
		"rule": "distinct rendered case lines (file control, every batch header and entry with payload)", "distribution": dist, "samples": samples})
	orc.Printf("%s\n", sj)
	orc.Close()
	dj, _ := json.Marshal(dist)
	fmt.Printf("{\"cases\":%d,\"rejected\":%d,\"skipped_with_options\":%d,\"distribution\":%s}\n", count, rejected, withOpts, dj)
}

// replayFull prints the case line and the implementation's observation of one recipe.
func replayFull(path string) int {
	raw, err := os.ReadFile(path)
	if err != nil {
		fmt.Println(err)
		return 2
	}
	var s fullSpec
	var wrap struct {
		Input *fullSpec `json:"input"`
	}
	if err := json.Unmarshal(raw, &wrap); err == nil && wrap.Input != nil && (len(wrap.Input.File.Batches) > 0 || wrap.Input.File.Aug != nil) {
		s = *wrap.Input
	} else if err := json.Unmarshal(raw, &s); err != nil {
		fmt.Println(err)
		return 2
	}
	f, err := buildFull(s)
	if err != nil {
		fmt.Println("recipe does not build:", err)
		return 2
	}
	f2, _ := buildFull(s)
	line := serializeFull(f)
	if len(line) > 2000 {
		line = line[:2000] + " ..."
	}
	fmt.Println("case:", line)
	o := observeFull(flatten(f))
	if len(o) > 2000 {
		o = o[:2000] + " ..."
	}
	fmt.Println("impl:", o)
	if !strings.HasPrefix(o, "OK") {
		fmt.Println("FAIL: FlattenBatches does not succeed on this valid file")
		return 1
	}
	if res := flatten(f2); res.file != nil {
		if err := res.file.Validate(); err != nil {
			fmt.Println("FAIL: the flattened file does not validate:", err)
			return 1
		}
		for i := range res.file.IATBatches {
			if err := res.file.IATBatches[i].Validate(); err != nil {
				fmt.Println("FAIL: an IAT batch of the flattened file does not validate:", err)
				return 1
			}
		}
	}
	return 0
}

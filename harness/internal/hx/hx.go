// Package hx holds the line-oriented interchange helpers shared by the
// harness commands: byte strings are hex encoded ("-" = empty string).
package hx

import (
	"bufio"
	"encoding/hex"
	"fmt"
	"os"
)

func Enc(s string) string {
	if s == "" {
		return "-"
	}
	return hex.EncodeToString([]byte(s))
}

func Dec(s string) string {
	if s == "-" {
		return ""
	}
	b, err := hex.DecodeString(s)
	if err != nil {
		panic(fmt.Sprintf("hx.Dec(%q): %v", s, err))
	}
	return string(b)
}

type W struct {
	f *os.File
	w *bufio.Writer
}

func Create(path string) *W {
	f, err := os.Create(path)
	if err != nil {
		panic(err)
	}
	return &W{f: f, w: bufio.NewWriterSize(f, 1<<20)}
}

func (w *W) Printf(format string, a ...any) { fmt.Fprintf(w.w, format, a...) }

func (w *W) Close() {
	if err := w.w.Flush(); err != nil {
		panic(err)
	}
	if err := w.f.Close(); err != nil {
		panic(err)
	}
}

// Package rng is the single deterministic PRNG (splitmix64) from which every
// random choice of the harness is derived, so a run replays from VERIF_SEED.
package rng

import (
	"os"
	"strconv"
)

type R struct{ s uint64 }

func New(seed uint64) *R { return &R{s: seed} }

// FromEnv seeds from VERIF_SEED (default 1), mixed with a per-stream salt.
func FromEnv(salt uint64) *R {
	s := Seed()
	if s == 1 {
		return New(0x9E3779B97F4A7C15 + salt) // the default stream
	}
	// any other seed: an unrelated stream (s*gamma + salt would be the default stream shifted by s-1 draws)
	m := New(s ^ 0xD1B54A32D192ED03)
	m.U64()
	return New(m.U64() + salt)
}

func Seed() uint64 {
	if v := os.Getenv("VERIF_SEED"); v != "" {
		if n, err := strconv.ParseInt(v, 10, 64); err == nil {
			return uint64(n)
		}
	}
	return 1
}

func (r *R) U64() uint64 {
	r.s += 0x9E3779B97F4A7C15
	z := r.s
	z = (z ^ (z >> 30)) * 0xBF58476D1CE4E5B9
	z = (z ^ (z >> 27)) * 0x94D049BB133111EB
	return z ^ (z >> 31)
}

// Intn returns a value in [0,n).
func (r *R) Intn(n int) int {
	if n <= 0 {
		return 0
	}
	return int(r.U64() % uint64(n))
}

// Range returns a value in [lo,hi].
func (r *R) Range(lo, hi int) int { return lo + r.Intn(hi-lo+1) }

func (r *R) Bool() bool { return r.U64()&1 == 1 }

// Chance is true with probability num/den.
func (r *R) Chance(num, den int) bool { return r.Intn(den) < num }

func Pick[T any](r *R, xs []T) T { return xs[r.Intn(len(xs))] }

// Fork derives an independent stream.
func (r *R) Fork() *R { return New(r.U64()) }

// Package fdump renders an ach.File as a list of records (in writer order), each
// with its string/int fields, for comparing files "modulo blank padding".
package fdump

import (
	"reflect"
	"sort"
	"strconv"
	"strings"

	"github.com/moov-io/ach"
)

type Rec struct {
	Kind   string            // Go type name of the record
	Fields map[string]string // field -> value (strings trimmed of blanks, ints in decimal)
	Line   string            // String() rendering
	Lead   []string          // string fields whose value starts with a blank
}

func rec(v any) Rec {
	rv := reflect.ValueOf(v)
	for rv.Kind() == reflect.Ptr {
		rv = rv.Elem()
	}
	t := rv.Type()
	r := Rec{Kind: t.Name(), Fields: map[string]string{}}
	for i := 0; i < t.NumField(); i++ {
		f := t.Field(i)
		if f.Name == "ID" || f.Name == "LineNumber" {
			continue
		}
		switch f.Type.Kind() {
		case reflect.String:
			raw := rv.Field(i).String()
			r.Fields[f.Name] = strings.Trim(raw, " ")
			if strings.HasPrefix(raw, " ") && strings.Trim(raw, " ") != "" {
				r.Lead = append(r.Lead, f.Name)
			}
		case reflect.Int:
			r.Fields[f.Name] = strconv.FormatInt(rv.Field(i).Int(), 10)
		}
	}
	if s, ok := v.(interface{ String() string }); ok {
		func() {
			defer func() { recover() }()
			r.Line = s.String()
		}()
	}
	return r
}

func isNil(v any) bool {
	rv := reflect.ValueOf(v)
	return !rv.IsValid() || (rv.Kind() == reflect.Ptr && rv.IsNil())
}

// Records lists the records of f in the order the writer emits them.
func Records(f *ach.File) []Rec {
	var out []Rec
	add := func(v any) {
		if !isNil(v) {
			out = append(out, rec(v))
		}
	}
	add(&f.Header)
	isADV := f.IsADV()
	for _, b := range f.Batches {
		add(b.GetHeader())
		if !isADV {
			for _, e := range b.GetEntries() {
				add(e)
				add(e.Addenda02)
				for _, a := range e.Addenda05 {
					add(a)
				}
				add(e.Addenda98)
				add(e.Addenda98Refused)
				add(e.Addenda99)
				add(e.Addenda99Dishonored)
				add(e.Addenda99Contested)
			}
		} else {
			for _, e := range b.GetADVEntries() {
				add(e)
				add(e.Addenda99)
			}
		}
		if b.GetHeader() != nil && b.GetHeader().StandardEntryClassCode == ach.ADV {
			add(b.GetADVControl())
		} else {
			add(b.GetControl())
		}
	}
	for _, b := range f.IATBatches {
		add(b.GetHeader())
		for _, e := range b.GetEntries() {
			add(e)
			add(e.Addenda10)
			add(e.Addenda11)
			add(e.Addenda12)
			add(e.Addenda13)
			add(e.Addenda14)
			add(e.Addenda15)
			add(e.Addenda16)
			for _, a := range e.Addenda17 {
				add(a)
			}
			for _, a := range e.Addenda18 {
				add(a)
			}
			add(e.Addenda98)
			add(e.Addenda99)
		}
		add(b.GetControl())
	}
	if isADV {
		add(&f.ADVControl)
	} else {
		add(&f.Control)
	}
	return out
}

// Diff returns the first difference between two record lists as "Kind.Field" (or a structural note), "" if equal.
func Diff(a, b []Rec) string {
	d, _ := DiffAt(a, b)
	return d
}

// DiffAt is Diff that also returns the index of the differing record (-1 if none / structural).
func DiffAt(a, b []Rec) (string, int) {
	n := len(a)
	if len(b) < n {
		n = len(b)
	}
	for i := 0; i < n; i++ {
		if a[i].Kind != b[i].Kind {
			return "structure:" + a[i].Kind + "/" + b[i].Kind, i
		}
		var keys []string
		for k := range a[i].Fields {
			keys = append(keys, k)
		}
		sort.Strings(keys)
		for _, k := range keys {
			if a[i].Fields[k] != b[i].Fields[k] {
				return a[i].Kind + "." + k, i
			}
		}
	}
	if len(a) != len(b) {
		return "structure:record-count", -1
	}
	return "", -1
}

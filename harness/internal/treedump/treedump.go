// Package treedump renders an ach.File as the tree the typed reader models of
// coq/Codec/Dispatch.v and ReaderValid.v build (same canonical form as
// cmd/c01file): per record its role, Go type and every string/int field except
// ID / LineNumber / Category, raw (not trimmed); per batch the entries of the
// batch's own sort, addenda in the writer's slot order.  It also lists the
// records of a file as pointers in writer order (for reflective edits).
package treedump

import (
	"fmt"
	"reflect"
	"sort"
	"strconv"
	"strings"

	"github.com/moov-io/ach"

	"verifharness/internal/hx"
	"verifharness/internal/recs"
)

// fields the reader sets outside Parse (line numbers, the entry category) or that no codec touches
var SkipField = map[string]bool{"ID": true, "LineNumber": true, "Category": true}

// Rec renders the string/int fields as name=s:<hex> / name=i:<n>, sorted by name.
func Rec(v any) string {
	rv := reflect.ValueOf(v)
	for rv.Kind() == reflect.Ptr {
		rv = rv.Elem()
	}
	t := rv.Type()
	var parts []string
	for i := 0; i < t.NumField(); i++ {
		f := t.Field(i)
		if SkipField[f.Name] {
			continue
		}
		switch f.Type.Kind() {
		case reflect.String:
			parts = append(parts, f.Name+"=s:"+hx.Enc(rv.Field(i).String()))
		case reflect.Int:
			parts = append(parts, f.Name+"=i:"+strconv.FormatInt(rv.Field(i).Int(), 10))
		}
	}
	sort.Strings(parts)
	return strings.Join(parts, ",")
}

func KindOf(v any) string {
	rv := reflect.ValueOf(v)
	for rv.Kind() == reflect.Ptr {
		rv = rv.Elem()
	}
	return rv.Type().Name()
}

func IsNil(v any) bool {
	rv := reflect.ValueOf(v)
	return !rv.IsValid() || (rv.Kind() == reflect.Ptr && rv.IsNil())
}

type visitor struct {
	rec         func(role string, v any)
	open, close func(tag string)
}

func walk(f *ach.File, vis visitor) {
	vis.rec("H", &f.Header)
	for _, b := range f.Batches {
		vis.open("B{")
		vis.rec("h", b.GetHeader())
		adv := b.GetHeader() != nil && b.GetHeader().StandardEntryClassCode == ach.ADV
		if adv {
			for _, e := range b.GetADVEntries() {
				vis.open("E{")
				vis.rec("e", e)
				vis.rec("a", e.Addenda99)
				vis.close("}")
			}
			vis.rec("c", b.GetADVControl())
		} else {
			for _, e := range b.GetEntries() {
				vis.open("E{")
				vis.rec("e", e)
				vis.rec("a", e.Addenda02)
				for _, a := range e.Addenda05 {
					vis.rec("a", a)
				}
				vis.rec("a", e.Addenda98)
				vis.rec("a", e.Addenda98Refused)
				vis.rec("a", e.Addenda99)
				vis.rec("a", e.Addenda99Dishonored)
				vis.rec("a", e.Addenda99Contested)
				vis.close("}")
			}
			vis.rec("c", b.GetControl())
		}
		vis.close("}")
	}
	for i := range f.IATBatches {
		b := &f.IATBatches[i]
		vis.open("I{")
		vis.rec("h", b.GetHeader())
		for _, e := range b.GetEntries() {
			vis.open("E{")
			vis.rec("e", e)
			vis.rec("a", e.Addenda10)
			vis.rec("a", e.Addenda11)
			vis.rec("a", e.Addenda12)
			vis.rec("a", e.Addenda13)
			vis.rec("a", e.Addenda14)
			vis.rec("a", e.Addenda15)
			vis.rec("a", e.Addenda16)
			for _, a := range e.Addenda17 {
				vis.rec("a", a)
			}
			for _, a := range e.Addenda18 {
				vis.rec("a", a)
			}
			vis.rec("a", e.Addenda98)
			vis.rec("a", e.Addenda99)
			vis.close("}")
		}
		vis.rec("c", b.GetControl())
		vis.close("}")
	}
	if f.IsADV() {
		vis.rec("F", &f.ADVControl)
	} else {
		vis.rec("F", &f.Control)
	}
}

// File renders the tree.
func File(f *ach.File) string {
	var sb strings.Builder
	walk(f, visitor{
		rec: func(role string, v any) {
			if !IsNil(v) {
				fmt.Fprintf(&sb, " %s/%s[%s]", role, KindOf(v), Rec(v))
			}
		},
		open:  func(tag string) { sb.WriteString(" " + tag) },
		close: func(tag string) { sb.WriteString(" " + tag) },
	})
	return strings.TrimSpace(sb.String())
}

// Records lists pointers to the records of the file in the order of the tree
// (= the order the writer emits them for a file that is not a mix of ADV and other batches).
func Records(f *ach.File) []any {
	var out []any
	walk(f, visitor{
		rec: func(role string, v any) {
			if !IsNil(v) {
				out = append(out, v)
			}
		},
		open:  func(string) {},
		close: func(string) {},
	})
	return out
}

// Defaults: what each record type holds before Parse runs in the reader
// (File.Header / File.Control / File.ADVControl are zero values, everything else comes from NewX()).
func Defaults() []string {
	var out []string
	for _, name := range recs.Names {
		var v any
		switch name {
		case "FileHeader":
			v = &ach.FileHeader{}
		case "FileControl":
			v = &ach.FileControl{}
		case "ADVFileControl":
			v = &ach.ADVFileControl{}
		default:
			v = recs.New(name)
		}
		out = append(out, fmt.Sprintf("D %s %s", name, Rec(v)))
	}
	return out
}

// Package arith is shared by the C03 and C04 harness commands: the numeric
// "skeleton" of a file (the integrity-protected fields), its encoding for the
// extracted Coq model, the classification of validation errors into the model's
// rule enum, in-memory perturbations and the independent recomputation of the
// NACHA control arithmetic (the oracle's specification).
package arith

import (
	"errors"
	"fmt"
	"reflect"
	"strings"

	"github.com/moov-io/ach"

	"verifharness/internal/hx"
)

const (
	KStd = 0
	KIAT = 1
	KADV = 2
)

type Entry struct {
	Code, Amount       int
	RDFI, Check, Trace string
	Addenda            int
}

type Ctl struct {
	Class, Count, Hash, Debit, Credit int
	ODFI                              string
	Number                            int
}

type Batch struct {
	Kind, Class int
	ODFI        string
	Number      int
	C           Ctl
	Entries     []Entry
}

type File struct {
	BCount, Count, Hash, Debit, Credit int
	Batches, IAT                       []Batch
}

// StdBatch returns the embedded *ach.Batch of any Batcher implementation.
func StdBatch(b ach.Batcher) *ach.Batch {
	if p, ok := b.(*ach.Batch); ok {
		return p
	}
	v := reflect.ValueOf(b)
	if v.Kind() == reflect.Ptr {
		v = v.Elem()
	}
	if v.Kind() != reflect.Struct {
		return nil
	}
	f := v.FieldByName("Batch")
	if !f.IsValid() || !f.CanAddr() {
		return nil
	}
	p, _ := f.Addr().Interface().(*ach.Batch)
	return p
}

func addendaCount(e *ach.EntryDetail) int {
	n := 0
	if e.Addenda02 != nil {
		n++
	}
	for _, a := range e.Addenda05 {
		if a != nil {
			n++
		}
	}
	if e.Addenda98 != nil {
		n++
	}
	if e.Addenda98Refused != nil {
		n++
	}
	if e.Addenda99 != nil {
		n++
	}
	if e.Addenda99Dishonored != nil {
		n++
	}
	if e.Addenda99Contested != nil {
		n++
	}
	return n
}

func iatAddendaCount(e *ach.IATEntryDetail) int {
	n := 0
	for _, p := range []bool{e.Addenda10 != nil, e.Addenda11 != nil, e.Addenda12 != nil, e.Addenda13 != nil,
		e.Addenda14 != nil, e.Addenda15 != nil, e.Addenda16 != nil, e.Addenda98 != nil, e.Addenda99 != nil} {
		if p {
			n++
		}
	}
	return n + len(e.Addenda17) + len(e.Addenda18)
}

func FromBatcher(b ach.Batcher) Batch {
	h := b.GetHeader()
	out := Batch{Kind: KStd, Class: h.ServiceClassCode, ODFI: h.ODFIIdentification, Number: h.BatchNumber}
	if h.StandardEntryClassCode == ach.ADV {
		out.Kind = KADV
		if c := b.GetADVControl(); c != nil {
			out.C = Ctl{c.ServiceClassCode, c.EntryAddendaCount, c.EntryHash, c.TotalDebitEntryDollarAmount, c.TotalCreditEntryDollarAmount, c.ODFIIdentification, c.BatchNumber}
		}
		for _, e := range b.GetADVEntries() {
			n := 0
			if e.Addenda99 != nil {
				n = 1
			}
			out.Entries = append(out.Entries, Entry{e.TransactionCode, e.Amount, e.RDFIIdentification, e.CheckDigit, "", n})
		}
		return out
	}
	if c := b.GetControl(); c != nil {
		out.C = Ctl{c.ServiceClassCode, c.EntryAddendaCount, c.EntryHash, c.TotalDebitEntryDollarAmount, c.TotalCreditEntryDollarAmount, c.ODFIIdentification, c.BatchNumber}
	}
	for _, e := range b.GetEntries() {
		out.Entries = append(out.Entries, Entry{e.TransactionCode, e.Amount, e.RDFIIdentification, e.CheckDigit, e.TraceNumber, addendaCount(e)})
	}
	return out
}

func FromIAT(b *ach.IATBatch) Batch {
	h := b.Header
	out := Batch{Kind: KIAT, Class: h.ServiceClassCode, ODFI: h.ODFIIdentification, Number: h.BatchNumber}
	c := b.Control
	out.C = Ctl{c.ServiceClassCode, c.EntryAddendaCount, c.EntryHash, c.TotalDebitEntryDollarAmount, c.TotalCreditEntryDollarAmount, c.ODFIIdentification, c.BatchNumber}
	for _, e := range b.Entries {
		out.Entries = append(out.Entries, Entry{e.TransactionCode, e.Amount, e.RDFIIdentification, e.CheckDigit, e.TraceNumber, iatAddendaCount(e)})
	}
	return out
}

func FromFile(f *ach.File) File {
	var out File
	if f.IsADV() {
		c := f.ADVControl
		out = File{BCount: c.BatchCount, Count: c.EntryAddendaCount, Hash: c.EntryHash, Debit: c.TotalDebitEntryDollarAmountInFile, Credit: c.TotalCreditEntryDollarAmountInFile}
	} else {
		c := f.Control
		out = File{BCount: c.BatchCount, Count: c.EntryAddendaCount, Hash: c.EntryHash, Debit: c.TotalDebitEntryDollarAmountInFile, Credit: c.TotalCreditEntryDollarAmountInFile}
	}
	for _, b := range f.Batches {
		out.Batches = append(out.Batches, FromBatcher(b))
	}
	for i := range f.IATBatches {
		out.IAT = append(out.IAT, FromIAT(&f.IATBatches[i]))
	}
	return out
}

func (b Batch) Enc() string {
	var sb strings.Builder
	fmt.Fprintf(&sb, "%d %d %s %d %d %d %d %d %d %s %d %d", b.Kind, b.Class, hx.Enc(b.ODFI), b.Number,
		b.C.Class, b.C.Count, b.C.Hash, b.C.Debit, b.C.Credit, hx.Enc(b.C.ODFI), b.C.Number, len(b.Entries))
	for _, e := range b.Entries {
		fmt.Fprintf(&sb, " %d %d %s %s %s %d", e.Code, e.Amount, hx.Enc(e.RDFI), hx.Enc(e.Check), hx.Enc(e.Trace), e.Addenda)
	}
	return sb.String()
}

func (f File) Enc() string {
	var sb strings.Builder
	fmt.Fprintf(&sb, "%d %d %d %d %d %d", f.BCount, f.Count, f.Hash, f.Debit, f.Credit, len(f.Batches))
	for _, b := range f.Batches {
		sb.WriteString(" " + b.Enc())
	}
	fmt.Fprintf(&sb, " %d", len(f.IAT))
	for _, b := range f.IAT {
		sb.WriteString(" " + b.Enc())
	}
	return sb.String()
}

// Rule codes of the model (Arith.rule_code); Other = a check the model does not cover.
const (
	ROk = iota
	RNoEntries
	RCode
	RAmount
	RCheckDigit
	RClass
	ROdfi
	RNumber
	RCount
	RAscending
	RDebit
	RCredit
	RHash
	RTraceOdfi
	RAdvCode
	RDirection
	RFBatchCount
	RFCount
	RFDebit
	RFCredit
	RFAscending
	RFHash
	Other = 99
)

var RuleNames = map[int]string{ROk: "ok", RNoEntries: "no-entries", RCode: "transaction-code", RAmount: "amount", RCheckDigit: "check-digit",
	RClass: "service-class", ROdfi: "odfi", RNumber: "batch-number", RCount: "entry-count", RAscending: "trace-ascending", RDebit: "debit-total",
	RCredit: "credit-total", RHash: "entry-hash", RTraceOdfi: "trace-odfi", RAdvCode: "adv-code", RDirection: "class-direction",
	RFBatchCount: "file-batch-count", RFCount: "file-entry-count", RFDebit: "file-debit", RFCredit: "file-credit", RFAscending: "file-batch-ascending",
	RFHash: "file-hash", Other: "other"}

func classifyField(fe *ach.FieldError, inBatch bool) int {
	if !inBatch {
		// outside a BatchError only FileControl.Validate reports modelled fields; an unwrapped
		// "Amount"/"TransactionCode" field error comes from SEC specific rules (ValidAmountForCodes ...)
		switch fe.FieldName {
		case "BatchCount", "EntryAddendaCount", "EntryHash", "TotalDebitEntryDollarAmount", "TotalCreditEntryDollarAmount":
		default:
			return Other
		}
	}
	switch fe.FieldName {
	case "TransactionCode":
		return RCode
	case "Amount":
		return RAmount
	case "RDFIIdentification", "CheckDigit":
		return RCheckDigit
	case "ServiceClassCode":
		return RClass
	case "ODFIIdentification":
		return ROdfi
	case "TotalDebitEntryDollarAmount":
		if inBatch {
			return RDebit
		}
		return RFDebit
	case "TotalCreditEntryDollarAmount":
		if inBatch {
			return RCredit
		}
		return RFCredit
	case "BatchCount":
		if !inBatch {
			return RFBatchCount
		}
	case "EntryAddendaCount":
		if !inBatch {
			return RFCount
		}
	case "EntryHash":
		if !inBatch {
			return RFHash
		}
	}
	return Other
}

// Classify maps a validation error to the model's rule enum.  kind is the kind of
// the batch the error may come from (KStd when unknown).
func Classify(err error, kind int) int {
	if err == nil {
		return ROk
	}
	var be *ach.BatchError
	if errors.As(err, &be) {
		var fe *ach.FieldError
		if be.FieldName == "FieldError" && errors.As(be.Err, &fe) {
			return classifyField(fe, true)
		}
		switch be.FieldName {
		case "entries":
			if errors.Is(be.Err, ach.ErrBatchNoEntries) {
				return RNoEntries
			}
		case "ServiceClassCode":
			var eq ach.ErrBatchHeaderControlEquality
			if errors.As(be.Err, &eq) || errors.Is(be.Err, ach.ErrBatchServiceClassCode) {
				return RClass
			}
		case "ODFIIdentification":
			return ROdfi
		case "BatchNumber":
			return RNumber
		case "EntryAddendaCount":
			return RCount
		case "TraceNumber":
			var asc ach.ErrBatchAscending
			if errors.As(be.Err, &asc) {
				_, a := asc.PreviousTrace.(string)
				_, b := asc.CurrentTrace.(string)
				if a && b {
					return RAscending
				}
			}
		case "TotalDebitEntryDollarAmount":
			var eq ach.ErrBatchCalculatedControlEquality
			if errors.As(be.Err, &eq) {
				return RDebit
			}
		case "TotalCreditEntryDollarAmount":
			var eq ach.ErrBatchCalculatedControlEquality
			if errors.As(be.Err, &eq) {
				return RCredit
			}
		case "EntryHash":
			return RHash
		case "ODFIIdentificationField":
			return RTraceOdfi
		case "TransactionCode":
			var sc ach.ErrBatchServiceClassTranCode
			if errors.As(be.Err, &sc) {
				return RDirection
			}
			// ErrBatchTransactionCode is also used by SEC specific code rules; the ADV
			// code refusal of ValidTranCodeForServiceClassCode reports a code 81..88
			if c, ok := be.FieldValue.(int); ok && kind == KStd && isADVCode(c) && errors.Is(be.Err, ach.ErrBatchTransactionCode) {
				return RAdvCode
			}
		}
		return Other
	}
	var fe *ach.FieldError
	if errors.As(err, &fe) {
		return classifyField(fe, false)
	}
	var fc ach.ErrFileCalculatedControlEquality
	if errors.As(err, &fc) {
		switch fc.Field {
		case "BatchCount":
			return RFBatchCount
		case "EntryAddendaCount":
			return RFCount
		case "TotalDebitEntryDollarAmountInFile":
			return RFDebit
		case "TotalCreditEntryDollarAmountInFile":
			return RFCredit
		case "EntryHash":
			return RFHash
		}
	}
	var fa ach.ErrFileBatchNumberAscending
	if errors.As(err, &fa) {
		return RFAscending
	}
	return Other
}

// Safe runs f and converts a panic into an error.
func Safe(f func() error) (err error) {
	defer func() {
		if r := recover(); r != nil {
			err = fmt.Errorf("panic: %v", r)
		}
	}()
	return f()
}

package arith

import (
	"fmt"

	"github.com/moov-io/ach"

	"verifharness/internal/gen"
	"verifharness/internal/rng"
)

var kinds = append(append([]string{}, gen.AllSECs()...), "IAT", "ADV", "MIX", "MIX", "BIG", "BIGADV")

// GenFile builds the idx-th file of a run deterministically from seed: one file per
// standard SEC code, IAT, ADV, two mixed files and one with large batches, round robin.
// small keeps the files short (for the exhaustive per-position sweeps of C04).
func GenFile(seed uint64, idx int, small bool) (f *ach.File, what string) {
	r := rng.New(seed*0x9E3779B97F4A7C15 + uint64(idx)*0xD1B54A32D192ED03 + 3)
	k := kinds[idx%len(kinds)]
	defer func() {
		if p := recover(); p != nil {
			f, what = nil, fmt.Sprintf("%s: generator panic %v", k, p)
		}
	}()
	maxB, maxE := 3, 0
	if small {
		maxB, maxE = 2, 3
	}
	switch k {
	case "MIX":
		return gen.File(r, gen.Opts{IAT: true, Returns: true, NOC: true, Addenda: true, MaxBatches: maxB + 1, MaxEntries: maxE}), k
	case "BIG":
		n := 160 + r.Intn(60)
		if small {
			n = 12
		}
		return gen.FileOfSEC(r, rng.Pick(r, []string{ach.PPD, ach.CCD, ach.WEB}), gen.Opts{MinBatches: 1, MaxBatches: 2, MaxEntries: n, ForwardOnly: true}), k
	case "IAT":
		return gen.FileOfSEC(r, "IAT", gen.Opts{IAT: true, Addenda: r.Bool(), MaxBatches: maxB, MaxEntries: maxE}), k
	case "ADV":
		return gen.ADVFile(r), k
	case "BIGADV":
		// an ADV file whose batch entry hashes add up to eleven digits (the file control holds the sum modulo 10^10):
		// two batches of 52..90 advices for a receiving DFI near the top of the routing number range
		f := gen.FileOfSEC(r, "ADV", gen.Opts{MinBatches: 2, MaxBatches: 2, MaxEntries: 2})
		if small {
			return f, k
		}
		for _, b := range f.Batches {
			es := b.GetADVEntries()
			n := 52 + r.Intn(39)
			for i := len(es); i < n; i++ {
				c := *es[i%len(es)]
				c.Addenda99 = nil
				c.Category = ach.CategoryForward
				c.AddendaRecordIndicator = 0
				c.Amount = 1 + r.Intn(99999)
				b.AddADVEntry(&c)
			}
			for _, e := range b.GetADVEntries() {
				e.SetRDFI("987654320")
			}
			if err := b.Create(); err != nil {
				return nil, k + ": " + err.Error()
			}
		}
		if err := f.Create(); err != nil {
			return nil, k + ": " + err.Error()
		}
		return f, k
	default:
		return gen.FileOfSEC(r, k, gen.Opts{Addenda: r.Bool(), Returns: r.Chance(1, 4), MaxBatches: maxB, MaxEntries: maxE}), k
	}
}

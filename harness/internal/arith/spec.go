package arith

import (
	"strconv"
	"unicode/utf8"
)

// field8 is the text written in an 8 column zero-filled field (stringField): the
// first 8 characters, or zeros on the left.
func field8(s string, w int) string {
	n := utf8.RuneCountInString(s)
	if n > w {
		return string([]rune(s)[:w])
	}
	for ; n < w; n++ {
		s = "0" + s
	}
	return s
}

func allDigits(s string) bool {
	if s == "" {
		return false
	}
	for i := 0; i < len(s); i++ {
		if s[i] < '0' || s[i] > '9' {
			return false
		}
	}
	return true
}

const mod10 = 10000000000

func isADVCode(c int) bool { return c >= 81 && c <= 88 }

// CheckBatch recomputes the NACHA control arithmetic of one batch from its entries
// only and returns the names of the violated rules (empty = the arithmetic holds).
func CheckBatch(b Batch) []string {
	var v []string
	add := func(s string) { v = append(v, s) }
	count, debit, credit := 0, 0, 0
	var hash uint64
	short := false
	advInNonADV := false
	nonADVInADV := false
	for _, e := range b.Entries {
		count += 1 + e.Addenda
		f := field8(e.RDFI, 8)
		if utf8.RuneCountInString(e.RDFI) != 8 {
			short = true
		}
		if allDigits(f) {
			n, _ := strconv.ParseUint(f, 10, 64)
			hash = (hash + n) % mod10
			// check digit, closed form
			w := []int{3, 7, 1, 3, 7, 1, 3, 7}
			s := 0
			for i := 0; i < 8; i++ {
				s += w[i] * int(f[i]-'0')
			}
			cd := (10 - s%10) % 10
			got, err := strconv.Atoi(e.Check)
			if b.Kind == KADV && err != nil {
				got = 0
				err = nil
			}
			if err != nil || got != cd {
				add("check-digit")
			}
		} else {
			add("rdfi-not-numeric")
		}
		u := e.Code % 10
		switch b.Kind {
		case KADV:
			if !isADVCode(e.Code) {
				nonADVInADV = true
			} else if e.Code%2 == 1 {
				credit += e.Amount
			} else {
				debit += e.Amount
			}
		default:
			if isADVCode(e.Code) {
				advInNonADV = true
			}
			if e.Code >= 10 && e.Code <= 99 && u >= 1 && u <= 4 {
				credit += e.Amount
			} else if e.Code >= 10 && e.Code <= 99 && u >= 5 {
				debit += e.Amount
			} else {
				add("code-without-direction")
			}
		}
		if b.Kind == KStd {
			if e.Amount < 0 || e.Amount > 9999999999 {
				add("amount-range")
			}
			if b.Class == 220 && !(u >= 1 && u <= 4) {
				add("credits-only")
			}
			if b.Class == 225 && !(u >= 5) {
				add("debits-only")
			}
		}
	}
	if count != b.C.Count {
		add("entry-count")
	}
	if int(hash) != b.C.Hash {
		if short {
			add("entry-hash:rdfi-not-8-chars")
		} else {
			add("entry-hash")
		}
	}
	if debit != b.C.Debit || credit != b.C.Credit {
		switch {
		case advInNonADV:
			add("totals:adv-code-in-non-adv-batch")
		case nonADVInADV:
			add("totals:non-adv-code-in-adv-batch")
		default:
			add("totals")
		}
	}
	if b.Class != b.C.Class {
		add("service-class")
	}
	if b.ODFI != b.C.ODFI {
		add("odfi")
	}
	if b.Number != b.C.Number {
		add("batch-number")
	}
	if b.Kind != KADV {
		last := ""
		for i, e := range b.Entries {
			if i > 0 && !(last < e.Trace) {
				add("trace-ascending")
				break
			}
			last = e.Trace
		}
		want := field8(b.ODFI, 8)
		for _, e := range b.Entries {
			got := ""
			if b.Kind == KIAT {
				got = field8(e.Trace, 15)[:8]
			} else if len(e.Trace) >= 8 {
				got = e.Trace[:8]
			}
			if got != want {
				add("trace-odfi")
				break
			}
		}
	}
	return dedup(v)
}

func dedup(v []string) []string {
	seen := map[string]bool{}
	var out []string
	for _, s := range v {
		if !seen[s] {
			seen[s] = true
			out = append(out, s)
		}
	}
	return out
}

// CheckFile recomputes the file control from the batch controls.
func CheckFile(f File) []string {
	var v []string
	all := append(append([]Batch{}, f.Batches...), f.IAT...)
	count, debit, credit := 0, 0, 0
	var hash int64
	for _, b := range all {
		count += b.C.Count
		debit += b.C.Debit
		credit += b.C.Credit
		hash = (hash + int64(b.C.Hash)) % mod10
	}
	if f.BCount != len(all) {
		v = append(v, "file-batch-count")
	}
	if f.Count != count {
		v = append(v, "file-entry-count")
	}
	if f.Debit != debit || f.Credit != credit {
		v = append(v, "file-totals")
	}
	if int64(f.Hash) != hash {
		v = append(v, "file-hash")
	}
	return v
}

package arith

import (
	"fmt"
	"strconv"
	"strings"

	"github.com/moov-io/ach"

	"verifharness/internal/gen"
	"verifharness/internal/rng"
)

// Target addresses one batch of a file.
type Target struct {
	IAT bool
	Idx int
}

func pickBatch(r *rng.R, f *ach.File) (Target, bool) {
	n := len(f.Batches) + len(f.IATBatches)
	if n == 0 {
		return Target{}, false
	}
	i := r.Intn(n)
	if i < len(f.Batches) {
		return Target{false, i}, true
	}
	return Target{true, i - len(f.Batches)}, true
}

func changeDigit(r *rng.R, s string) string {
	if s == "" {
		return "1"
	}
	bs := []byte(s)
	for tries := 0; tries < 20; tries++ {
		i := r.Intn(len(bs))
		if bs[i] >= '0' && bs[i] <= '9' {
			d := byte('0' + r.Intn(10))
			if d != bs[i] {
				bs[i] = d
				return string(bs)
			}
		}
	}
	return s + "1"
}

func otherClass(r *rng.R, c int) int {
	for {
		n := rng.Pick(r, []int{200, 220, 225, 280, 201, 0})
		if n != c {
			return n
		}
	}
}

var codePool = []int{21, 22, 23, 24, 26, 27, 28, 29, 31, 32, 33, 34, 36, 37, 38, 39, 41, 42, 43, 44, 46, 47, 48, 49, 51, 52, 53, 54, 55, 56,
	81, 82, 83, 84, 85, 86, 87, 88, 25, 30, 20, 57, 0, 99, 122, -22}

// ctlRef gives uniform access to BatchControl / ADVBatchControl fields.
type ctlRef struct {
	class, count, hash, debit, credit, number *int
	odfi                                      *string
}

func batchCtl(f *ach.File, t Target) (ctlRef, *ach.BatchHeader, *ach.IATBatchHeader) {
	if t.IAT {
		b := &f.IATBatches[t.Idx]
		c := b.Control
		return ctlRef{&c.ServiceClassCode, &c.EntryAddendaCount, &c.EntryHash, &c.TotalDebitEntryDollarAmount, &c.TotalCreditEntryDollarAmount, &c.BatchNumber, &c.ODFIIdentification}, nil, b.Header
	}
	b := f.Batches[t.Idx]
	if b.GetHeader().StandardEntryClassCode == ach.ADV {
		c := b.GetADVControl()
		return ctlRef{&c.ServiceClassCode, &c.EntryAddendaCount, &c.EntryHash, &c.TotalDebitEntryDollarAmount, &c.TotalCreditEntryDollarAmount, &c.BatchNumber, &c.ODFIIdentification}, b.GetHeader(), nil
	}
	c := b.GetControl()
	return ctlRef{&c.ServiceClassCode, &c.EntryAddendaCount, &c.EntryHash, &c.TotalDebitEntryDollarAmount, &c.TotalCreditEntryDollarAmount, &c.BatchNumber, &c.ODFIIdentification}, b.GetHeader(), nil
}

// entryRef gives uniform access to the protected fields of the three entry types.
type entryRef struct {
	code, amount       *int
	rdfi, check, trace *string
}

func entries(f *ach.File, t Target) []entryRef {
	var out []entryRef
	if t.IAT {
		for _, e := range f.IATBatches[t.Idx].Entries {
			out = append(out, entryRef{&e.TransactionCode, &e.Amount, &e.RDFIIdentification, &e.CheckDigit, &e.TraceNumber})
		}
		return out
	}
	b := f.Batches[t.Idx]
	for _, e := range b.GetEntries() {
		out = append(out, entryRef{&e.TransactionCode, &e.Amount, &e.RDFIIdentification, &e.CheckDigit, &e.TraceNumber})
	}
	for _, e := range b.GetADVEntries() {
		out = append(out, entryRef{&e.TransactionCode, &e.Amount, &e.RDFIIdentification, &e.CheckDigit, nil})
	}
	return out
}

func closedCheckDigit(rdfi string) string {
	f := field8(rdfi, 8)
	if !allDigits(f) {
		return "0"
	}
	w := []int{3, 7, 1, 3, 7, 1, 3, 7}
	s := 0
	for i := 0; i < 8; i++ {
		s += w[i] * int(f[i]-'0')
	}
	return strconv.Itoa((10 - s%10) % 10)
}

// NPerturb is the number of perturbation kinds.
const NPerturb = 29

// Perturb changes f in place (f must be a private clone).  It returns a description,
// the batch it touched (ok=false: a file level change) and whether anything changed.
func Perturb(r *rng.R, f *ach.File, kind int) (desc string, t Target, batchLevel bool, changed bool) {
	t, ok := pickBatch(r, f)
	if !ok {
		return "no batches", t, false, false
	}
	pm := func(p *int) { // +-1, never negative by accident
		if r.Bool() || *p == 0 {
			*p++
		} else {
			*p--
		}
	}
	c, hdr, ihdr := batchCtl(f, t)
	es := entries(f, t)
	if len(es) == 0 {
		return "empty batch", t, false, false
	}
	e := es[r.Intn(len(es))]
	batchLevel = true
	changed = true
	switch kind {
	case 0:
		pm(c.count)
		desc = "control entry/addenda count +-1"
	case 1:
		if r.Chance(1, 4) {
			*c.hash += mod10
			desc = "control hash + 10^10"
		} else {
			pm(c.hash)
			desc = "control hash +-1"
		}
	case 2:
		pm(c.debit)
		desc = "control debit total +-1"
	case 3:
		pm(c.credit)
		desc = "control credit total +-1"
	case 4:
		*c.class = otherClass(r, *c.class)
		desc = "control service class changed"
	case 5:
		*c.odfi = changeDigit(r, *c.odfi)
		desc = "control ODFI digit changed"
	case 6:
		pm(c.number)
		desc = "control batch number +-1"
	case 7:
		if hdr != nil {
			hdr.ServiceClassCode = otherClass(r, hdr.ServiceClassCode)
		} else {
			ihdr.ServiceClassCode = otherClass(r, ihdr.ServiceClassCode)
		}
		desc = "header service class changed"
	case 8:
		if hdr != nil {
			hdr.ODFIIdentification = changeDigit(r, hdr.ODFIIdentification)
		} else {
			ihdr.ODFIIdentification = changeDigit(r, ihdr.ODFIIdentification)
		}
		desc = "header ODFI digit changed"
	case 9:
		if hdr != nil {
			hdr.BatchNumber++
		} else {
			ihdr.BatchNumber++
		}
		desc = "header batch number +1"
	case 10:
		switch r.Intn(4) {
		case 0:
			*e.amount++
		case 1:
			*e.amount = 10000000000 + r.Intn(5)
		case 2:
			*e.amount = -1 - r.Intn(100)
		default:
			*e.amount += 1 + r.Intn(100000)
		}
		desc = "entry amount changed"
	case 11:
		old := *e.code
		for *e.code == old {
			*e.code = rng.Pick(r, codePool)
		}
		desc = fmt.Sprintf("entry transaction code %d -> %d", old, *e.code)
	case 12:
		*e.rdfi = changeDigit(r, *e.rdfi)
		desc = "entry RDFI digit changed"
	case 13:
		*e.check = changeDigit(r, *e.check)
		desc = "entry check digit changed"
	case 14:
		*e.rdfi = changeDigit(r, *e.rdfi)
		*e.check = closedCheckDigit(*e.rdfi)
		desc = "entry RDFI digit changed, check digit recomputed"
	case 15:
		if e.trace == nil {
			return "ADV entry has no trace", t, true, false
		}
		switch r.Intn(4) {
		case 3:
			// the trace number without its leading zeros (or with an extra one): the 15 column field
			// is unchanged or shifted, the string the checks compare is not
			tr := *e.trace
			if strings.HasPrefix(tr, "0") && r.Bool() {
				*e.trace = strings.TrimLeft(tr, "0")
				desc = "trace number without its leading zeros"
			} else if len(tr) > 1 && r.Bool() {
				*e.trace = tr[1:]
				desc = "trace number without its first digit"
			} else {
				*e.trace = "0" + tr
				desc = "trace number with an extra leading zero"
			}
		case 0:
			if len(es) < 2 {
				return "single entry", t, true, false
			}
			o := es[r.Intn(len(es))]
			if o.trace == e.trace {
				return "same entry", t, true, false
			}
			*e.trace, *o.trace = *o.trace, *e.trace
			desc = "two trace numbers swapped"
		case 1:
			bs := []byte(*e.trace)
			if len(bs) < 8 {
				return "short trace", t, true, false
			}
			i := r.Intn(8)
			bs[i] = byte('0' + (int(bs[i]-'0')+1+r.Intn(9))%10)
			*e.trace = string(bs)
			desc = "trace number ODFI prefix digit changed"
		default:
			*e.trace = *es[0].trace
			if e.trace == es[0].trace {
				*e.trace = "0"
			}
			desc = "trace number repeated"
		}
	case 16:
		if t.IAT {
			b := &f.IATBatches[t.Idx]
			c := *b.Entries[len(b.Entries)-1]
			b.Entries = append(b.Entries, &c)
		} else if b := StdBatch(f.Batches[t.Idx]); b != nil && len(b.Entries) > 0 {
			c := *b.Entries[len(b.Entries)-1]
			b.Entries = append(b.Entries, &c)
		} else if b != nil && len(b.ADVEntries) > 0 {
			c := *b.ADVEntries[len(b.ADVEntries)-1]
			b.ADVEntries = append(b.ADVEntries, &c)
		}
		desc = "last entry duplicated"
	case 17:
		if len(es) < 2 {
			return "single entry", t, true, false
		}
		if t.IAT {
			b := &f.IATBatches[t.Idx]
			b.Entries = b.Entries[:len(b.Entries)-1]
		} else if b := StdBatch(f.Batches[t.Idx]); b != nil && len(b.Entries) > 0 {
			b.Entries = b.Entries[:len(b.Entries)-1]
		} else if b != nil {
			b.ADVEntries = b.ADVEntries[:len(b.ADVEntries)-1]
		}
		desc = "last entry removed"
	case 18:
		// addenda list
		if r.Chance(1, 2) {
			// an addenda record of another type (second NOC record, return addenda on a forward entry, ...)
			var d string
			var ok bool
			if t.IAT {
				d, ok = gen.OddAddendaIn(r, nil, []*ach.IATBatch{&f.IATBatches[t.Idx]})
			} else {
				d, ok = gen.OddAddendaIn(r, []ach.Batcher{f.Batches[t.Idx]}, nil)
			}
			if !ok {
				return "no addenda variation applicable", t, true, false
			}
			desc = d
		} else if t.IAT {
			en := f.IATBatches[t.Idx].Entries[r.Intn(len(es))]
			if len(en.Addenda17) > 0 && r.Bool() {
				en.Addenda17 = en.Addenda17[:len(en.Addenda17)-1]
				desc = "IAT Addenda17 removed"
			} else {
				a := ach.NewAddenda17()
				a.PaymentRelatedInformation = "extra"
				a.SequenceNumber = len(en.Addenda17) + 1
				a.EntryDetailSequenceNumber = 1
				en.Addenda17 = append(en.Addenda17, a)
				desc = "IAT Addenda17 added"
			}
		} else if b := StdBatch(f.Batches[t.Idx]); b != nil && len(b.Entries) > 0 {
			en := b.Entries[r.Intn(len(b.Entries))]
			if len(en.Addenda05) > 0 && r.Bool() {
				en.Addenda05 = en.Addenda05[:len(en.Addenda05)-1]
				desc = "Addenda05 removed"
			} else {
				a := ach.NewAddenda05()
				a.PaymentRelatedInformation = "extra"
				a.SequenceNumber = len(en.Addenda05) + 1
				a.EntryDetailSequenceNumber = 1
				en.Addenda05 = append(en.Addenda05, a)
				en.AddendaRecordIndicator = 1
				desc = "Addenda05 added"
			}
		} else if b != nil && len(b.ADVEntries) > 0 {
			en := b.ADVEntries[r.Intn(len(b.ADVEntries))]
			if en.Addenda99 != nil {
				en.Addenda99 = nil
				desc = "ADV Addenda99 removed"
			} else {
				en.Addenda99 = ach.NewAddenda99()
				en.Addenda99.ReturnCode = "R07"
				desc = "ADV Addenda99 added"
			}
		}
	case 19:
		// short routing number with a matching check digit (hash treats it as 0)
		s := *e.rdfi
		if len(s) != 8 {
			return "rdfi not 8 chars", t, true, false
		}
		*e.rdfi = s[1:]
		*e.check = closedCheckDigit(*e.rdfi)
		desc = "RDFI shortened to 7 characters, check digit recomputed"
	default:
		batchLevel = false
		var fc struct{ bc, cnt, hash, deb, cred *int }
		if f.IsADV() {
			x := &f.ADVControl
			fc.bc, fc.cnt, fc.hash, fc.deb, fc.cred = &x.BatchCount, &x.EntryAddendaCount, &x.EntryHash, &x.TotalDebitEntryDollarAmountInFile, &x.TotalCreditEntryDollarAmountInFile
		} else {
			x := &f.Control
			fc.bc, fc.cnt, fc.hash, fc.deb, fc.cred = &x.BatchCount, &x.EntryAddendaCount, &x.EntryHash, &x.TotalDebitEntryDollarAmountInFile, &x.TotalCreditEntryDollarAmountInFile
		}
		switch kind {
		case 20:
			pm(fc.bc)
			desc = "file control batch count +-1"
		case 21:
			pm(fc.cnt)
			desc = "file control entry/addenda count +-1"
		case 22:
			if r.Chance(1, 4) {
				*fc.hash += mod10
				desc = "file control hash + 10^10"
			} else {
				pm(fc.hash)
				desc = "file control hash +-1"
			}
		case 23:
			pm(fc.deb)
			desc = "file control debit total +-1"
		case 24:
			pm(fc.cred)
			desc = "file control credit total +-1"
		case 28:
			// an entry of the other family inside a batch: an ADVEntryDetail in a standard batch (it is neither
			// tabulated nor written)
			if len(f.Batches) == 0 {
				return "no standard batches", t, false, false
			}
			i := r.Intn(len(f.Batches))
			b := f.Batches[i]
			if b.GetHeader().StandardEntryClassCode == ach.ADV {
				// (a standard entry in an ADV batch is refused by rules outside the arithmetic model)
				return "ADV batch", t, false, false
			}
			src := gen.ADVFile(r).Batches[0].GetADVEntries()[0]
			b.AddADVEntry(src)
			desc = "ADV entry added to a standard batch"
			t = Target{Idx: i}
			batchLevel = true
		case 27:
			// a batch of the other family: an ADV batch behind the batches of a non-ADV file, or a
			// standard batch behind those of an ADV file (an ADV file may hold ADV batches only)
			if len(f.Batches) == 0 {
				return "no standard batches", t, false, false
			}
			var nb ach.Batcher
			if f.IsADV() {
				nb = gen.FileOfSEC(r, ach.PPD, gen.Opts{ForwardOnly: true, MinBatches: 1, MaxBatches: 1, MaxEntries: 2}).Batches[0]
				desc = "PPD batch appended to an ADV file"
			} else {
				nb = gen.ADVFile(r).Batches[0]
				desc = "ADV batch appended to a non-ADV file"
			}
			n := len(f.Batches) + len(f.IATBatches) + 1
			nb.GetHeader().BatchNumber = n
			if c := nb.GetControl(); c != nil {
				c.BatchNumber = n
			}
			if c := nb.GetADVControl(); c != nil {
				c.BatchNumber = n
			}
			f.Batches = append(f.Batches, nb)
		case 25:
			if len(f.Batches) < 2 {
				return "single batch", t, false, false
			}
			i := r.Intn(len(f.Batches) - 1)
			f.Batches[i], f.Batches[i+1] = f.Batches[i+1], f.Batches[i]
			desc = "two batches swapped"
		default:
			if len(f.Batches) >= 1 && (len(f.Batches)+len(f.IATBatches)) >= 2 {
				f.Batches = f.Batches[:len(f.Batches)-1]
				desc = "last batch removed"
			} else if len(f.IATBatches) >= 2 {
				f.IATBatches = f.IATBatches[:len(f.IATBatches)-1]
				desc = "last IAT batch removed"
			} else {
				return "single batch", t, false, false
			}
		}
	}
	return desc, t, batchLevel, changed
}

// EntryLevel reports whether a perturbation kind changes entries (so that
// re-tabulating with Create() gives a consistent file again).
func EntryLevel(kind int) bool {
	switch kind {
	case 10, 11, 14, 16, 17, 18, 19, 27, 28:
		return true
	}
	return false
}

// Retabulate rebuilds the controls of the touched batch and of the file.
func Retabulate(f *ach.File, t Target) error {
	return Safe(func() error {
		if t.IAT {
			if err := f.IATBatches[t.Idx].Create(); err != nil {
				return err
			}
		} else if err := f.Batches[t.Idx].Create(); err != nil {
			return err
		}
		return f.Create()
	})
}

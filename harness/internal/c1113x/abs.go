// Package c1113x abstracts arbitrary real ach.File values (as produced by internal/gen:
// every SEC code, returns, NOCs, offsets, PRENOTE descriptions) to the inputs of the
// phase-3 models of C11 (SegmentGen: SegmentFile with the AddBatch bookkeeping) and
// C13 (ReversalGen: Reversal with the amount rule by addenda kind and OFFSET entries),
// and renders the implementation's observations in the shape the OCaml drivers print.
package c1113x

import (
	"fmt"
	"strconv"
	"strings"

	"github.com/moov-io/ach"

	"verifharness/internal/hx"
)

// Interner maps identification strings to small positive integers ("" is 0).
type Interner struct{ m map[string]int }

func NewInterner() *Interner { return &Interner{m: map[string]int{}} }

func (i *Interner) Of(s string) int {
	s = strings.TrimSpace(s)
	if s == "" {
		return 0
	}
	if v, ok := i.m[s]; ok {
		return v
	}
	v := len(i.m) + 1
	i.m[s] = v
	return v
}

func tagAccount(n int) string { return "T" + strconv.Itoa(n) }

// TagOf recovers the tag from an account number ("T<n>"), -1 if there is none.
func TagOf(acct string) int {
	s := strings.TrimSpace(acct)
	if !strings.HasPrefix(s, "T") {
		return -1
	}
	n, err := strconv.Atoi(s[1:])
	if err != nil {
		return -1
	}
	return n
}

// Retag gives every entry of the file (standard, ADV, IAT) a unique tag in
// DFIAccountNumber, which no control total, hash or validation rule depends on.
// Entries that already carry a tag keep it (OFFSET entries are created by Create with
// the offset account number and are tagged here like the others).
func Retag(f *ach.File) int {
	n := 0
	for _, b := range f.Batches {
		for _, e := range b.GetEntries() {
			n++
			e.DFIAccountNumber = tagAccount(n)
		}
		for _, e := range b.GetADVEntries() {
			n++
			e.DFIAccountNumber = tagAccount(n)
		}
	}
	for i := range f.IATBatches {
		for _, e := range f.IATBatches[i].GetEntries() {
			n++
			e.DFIAccountNumber = tagAccount(n)
		}
	}
	return n
}

// CatCode: 0 Forward, 1 Return, 2 NOC, 3 DishonoredReturn, 4 DishonoredReturnContested;
// any other label behaves like Forward for Batch.Category() and is rendered 0.
func CatCode(c string) int {
	switch c {
	case ach.CategoryReturn:
		return 1
	case ach.CategoryNOC:
		return 2
	case ach.CategoryDishonoredReturn:
		return 3
	case ach.CategoryDishonoredReturnContested:
		return 4
	}
	return 0
}

func traceSeq(tn string) int {
	s := strings.TrimSpace(tn)
	if len(s) > 7 {
		s = s[len(s)-7:]
	}
	n, _ := strconv.Atoi(s)
	return n
}

func position(bs []ach.Batcher, b ach.Batcher) int {
	for i := range bs {
		if bs[i] == b {
			return i
		}
	}
	return -1
}

// SegDump renders a file for the SegmentGen driver: origin dest credit debit, the standard /
// ADV batches, the IAT batches (each entry: code amount tag trace category), then the
// positions in f.Batches of the batches in f.ReturnEntries and f.NotificationOfChange
// (pointer identity; -1 if a list holds a batch that is not in f.Batches).
func SegDump(f *ach.File, in *Interner) string {
	var b strings.Builder
	credit, debit := 0, 0
	switch {
	case f.IsADV():
		credit, debit = f.ADVControl.TotalCreditEntryDollarAmountInFile, f.ADVControl.TotalDebitEntryDollarAmountInFile
	default:
		credit, debit = f.Control.TotalCreditEntryDollarAmountInFile, f.Control.TotalDebitEntryDollarAmountInFile
	}
	fmt.Fprintf(&b, "%d %d %d %d %d", in.Of(f.Header.ImmediateOrigin), in.Of(f.Header.ImmediateDestination), credit, debit, len(f.Batches))
	for _, bt := range f.Batches {
		h := bt.GetHeader()
		if h.StandardEntryClassCode == ach.ADV {
			c := bt.GetADVControl()
			fmt.Fprintf(&b, " 1 %d %d %d %d %d %d", h.ServiceClassCode, h.BatchNumber, in.Of(h.CompanyIdentification), c.TotalCreditEntryDollarAmount, c.TotalDebitEntryDollarAmount, len(bt.GetADVEntries()))
			for _, e := range bt.GetADVEntries() {
				fmt.Fprintf(&b, " %d %d %d 0 %d", e.TransactionCode, e.Amount, TagOf(e.DFIAccountNumber), CatCode(e.Category))
			}
			continue
		}
		c := bt.GetControl()
		fmt.Fprintf(&b, " 0 %d %d %d %d %d %d", h.ServiceClassCode, h.BatchNumber, in.Of(h.CompanyIdentification), c.TotalCreditEntryDollarAmount, c.TotalDebitEntryDollarAmount, len(bt.GetEntries()))
		for _, e := range bt.GetEntries() {
			fmt.Fprintf(&b, " %d %d %d %d %d", e.TransactionCode, e.Amount, TagOf(e.DFIAccountNumber), traceSeq(e.TraceNumber), CatCode(e.Category))
		}
	}
	fmt.Fprintf(&b, " %d", len(f.IATBatches))
	for i := range f.IATBatches {
		bt := &f.IATBatches[i]
		h, c := bt.GetHeader(), bt.GetControl()
		fmt.Fprintf(&b, " 0 %d %d %d %d %d %d", h.ServiceClassCode, h.BatchNumber, in.Of(h.OriginatorIdentification), c.TotalCreditEntryDollarAmount, c.TotalDebitEntryDollarAmount, len(bt.GetEntries()))
		for _, e := range bt.GetEntries() {
			fmt.Fprintf(&b, " %d %d %d %d %d", e.TransactionCode, e.Amount, TagOf(e.DFIAccountNumber), traceSeq(e.TraceNumber), CatCode(e.Category))
		}
	}
	b.WriteString(" " + ListsDump(f))
	return b.String()
}

// ListsDump: the positions in f.Batches of the batches in f.ReturnEntries and
// f.NotificationOfChange (pointer identity; -1 for a batch that is not in f.Batches).
func ListsDump(f *ach.File) string {
	var b strings.Builder
	fmt.Fprintf(&b, "R %d", len(f.ReturnEntries))
	for _, x := range f.ReturnEntries {
		fmt.Fprintf(&b, " %d", position(f.Batches, x))
	}
	fmt.Fprintf(&b, " N %d", len(f.NotificationOfChange))
	for _, x := range f.NotificationOfChange {
		fmt.Fprintf(&b, " %d", position(f.Batches, x))
	}
	return b.String()
}

// ---------------------------------------------------------------- Reversal

// AddendaKind as ValidAmountForCodes sees the entry: 1 = Addenda98 / Addenda98Refused (amount
// must be 0), 2 = Addenda99 / ...Dishonored / ...Contested (any amount), 0 = neither.
func AddendaKind(e *ach.EntryDetail) int {
	switch {
	case e.Addenda98 != nil || e.Addenda98Refused != nil:
		return 1
	case e.Addenda99 != nil || e.Addenda99Contested != nil || e.Addenda99Dishonored != nil:
		return 2
	}
	return 0
}

// IsOffset: the entry is one upsertOffsets would recognise as its own.
func IsOffset(e *ach.EntryDetail) bool { return strings.EqualFold(e.IndividualName, "OFFSET") }

func b2i(b bool) int {
	if b {
		return 1
	}
	return 0
}

// RevDump renders the standard batches of a file for the ReversalGen driver: creation date,
// time, file totals, and per batch header class, control class, description, effective date,
// control totals and the entries (code amount tag trace addenda-kind offset-flag).
func RevDump(f *ach.File) string {
	var b strings.Builder
	fmt.Fprintf(&b, "%s %s %d %d %d", hx.Enc(f.Header.FileCreationDate), hx.Enc(f.Header.FileCreationTime),
		f.Control.TotalDebitEntryDollarAmountInFile, f.Control.TotalCreditEntryDollarAmountInFile, len(f.Batches))
	for _, bt := range f.Batches {
		h, c := bt.GetHeader(), bt.GetControl()
		fmt.Fprintf(&b, " %d %d %s %s %d %d %d", h.ServiceClassCode, c.ServiceClassCode, hx.Enc(h.CompanyEntryDescription), hx.Enc(h.EffectiveEntryDate),
			c.TotalDebitEntryDollarAmount, c.TotalCreditEntryDollarAmount, len(bt.GetEntries()))
		for _, e := range bt.GetEntries() {
			fmt.Fprintf(&b, " %d %d %d %d %d %d", e.TransactionCode, e.Amount, TagOf(e.DFIAccountNumber), traceSeq(e.TraceNumber), AddendaKind(e), b2i(IsOffset(e)))
		}
	}
	return b.String()
}

package gen

import (
	"bytes"
	"encoding/json"
	"io/fs"
	"path/filepath"
	"sort"
	"strings"

	"github.com/moov-io/ach"
)

// Text renders the file with ach.NewWriter ("\n") or, with crlf, with
// ach.NewWriterWithOpts(LineEnding "\r\n").  The Writer validates the file first.
func Text(f *ach.File, crlf bool) (string, error) {
	var buf bytes.Buffer
	var w *ach.Writer
	if crlf {
		w = ach.NewWriterWithOpts(&buf, &ach.WriteOpts{LineEnding: "\r\n"})
	} else {
		w = ach.NewWriter(&buf)
	}
	if err := w.Write(f); err != nil {
		return "", err
	}
	return buf.String(), nil
}

// TextMode renders the file with one of the ways a caller can configure the line ending:
// 0 NewWriter ("\n"); 1 NewWriterWithOpts(LineEnding "\r\n"); 2 NewWriter with the exported
// LineEnding field set to "\r\n"; 3 NewWriterWithOpts("\r\n") with the field set back to "\n".
// It returns the text and the line ending that was configured.
func TextMode(f *ach.File, mode int) (string, string, error) {
	var buf bytes.Buffer
	var w *ach.Writer
	le := "\n"
	switch mode {
	case 1:
		w = ach.NewWriterWithOpts(&buf, &ach.WriteOpts{LineEnding: "\r\n"})
		le = "\r\n"
	case 2:
		w = ach.NewWriter(&buf)
		w.LineEnding = "\r\n"
		le = "\r\n"
	case 3:
		w = ach.NewWriterWithOpts(&buf, &ach.WriteOpts{LineEnding: "\r\n"})
		w.LineEnding = "\n"
	default:
		w = ach.NewWriter(&buf)
	}
	if err := w.Write(f); err != nil {
		return "", le, err
	}
	return buf.String(), le, nil
}

// Parse reads text back with ach.NewReader (default options).
func Parse(text string) (*ach.File, error) {
	f, err := ach.NewReader(strings.NewReader(text)).Read()
	return &f, err
}

// Fixtures lists every *.ach and *.json file under repo/test, repo/examples and
// repo/cmd, sorted.  Not every fixture is a valid file (the library's tests keep broken
// ones on purpose) and not every *.json is an ACH file.
func Fixtures(repo string) (achFiles []string, jsonFiles []string) {
	for _, top := range []string{"test", "examples", "cmd"} {
		_ = filepath.WalkDir(filepath.Join(repo, top), func(p string, d fs.DirEntry, err error) error {
			if err != nil || d.IsDir() {
				return nil
			}
			switch strings.ToLower(filepath.Ext(p)) {
			case ".ach":
				achFiles = append(achFiles, p)
			case ".json":
				jsonFiles = append(jsonFiles, p)
			}
			return nil
		})
	}
	sort.Strings(achFiles)
	sort.Strings(jsonFiles)
	return achFiles, jsonFiles
}

// Clone returns a deep copy of f that shares no record with it.
//
// It is a STRUCTURAL copy (every record struct is copied by value, every pointer and
// slice re-allocated), neither a JSON nor a write/read round trip, because both of
// those re-tabulate the file: FileFromJSON calls batch.build() and File.Create() again
// (which trips over existing OFFSET entries and rewrites trace numbers), and write/read
// trims fields, recomputes categories and drops options.  The copy therefore is exactly
// equal to the original, including file ID, batch IDs, controls as they are (even when
// they are stale), entry categories, the WithOffset configuration (recovered from the
// batch's own MarshalJSON) and the validate options: the file level *ValidateOpts
// pointer is shared with the original (the options are read-only to the library) and
// is re-applied to the copied batches with SetValidation when it is non-nil; record
// level option pointers travel with the by-value struct copies.
func Clone(f *ach.File) *ach.File {
	if f == nil {
		return nil
	}
	nf := *f // Header, Control, ADVControl are values; validateOpts travels along
	nf.Batches = nil
	nf.IATBatches = nil
	nf.NotificationOfChange = nil
	nf.ReturnEntries = nil
	opts := f.GetValidation()
	for _, b := range f.Batches {
		if b == nil {
			continue
		}
		nf.AddBatch(cloneBatch(b, opts)) // re-derives NotificationOfChange / ReturnEntries
	}
	for i := range f.IATBatches {
		nf.IATBatches = append(nf.IATBatches, cloneIATBatch(f.IATBatches[i]))
	}
	return &nf
}

func cloneBatch(b ach.Batcher, opts *ach.ValidateOpts) ach.Batcher {
	var nb ach.Batcher
	if h := b.GetHeader(); h != nil {
		hc := *h
		var err error
		if nb, err = ach.NewBatch(&hc); err != nil {
			// unknown SEC code: keep the content in a plain Batch
			pb := &ach.Batch{}
			pb.SetHeader(&hc)
			nb = pb
		}
	} else {
		nb = &ach.Batch{}
	}
	if c := b.GetControl(); c != nil {
		cc := *c
		nb.SetControl(&cc)
	} else {
		nb.SetControl(nil)
	}
	if c := b.GetADVControl(); c != nil {
		cc := *c
		nb.SetADVControl(&cc)
	}
	for _, e := range b.GetEntries() {
		nb.AddEntry(cloneEntry(e))
	}
	for _, e := range b.GetADVEntries() {
		if e == nil {
			continue
		}
		ec := *e
		if e.Addenda99 != nil {
			a := *e.Addenda99
			ec.Addenda99 = &a
		}
		nb.AddADVEntry(&ec)
	}
	nb.SetID(b.ID())
	if opts != nil {
		nb.SetValidation(opts)
	}
	// the offset configuration is unexported; the batch's MarshalJSON exposes it
	if bs, err := json.Marshal(b); err == nil {
		var aux struct {
			Offset *ach.Offset `json:"offset"`
		}
		if json.Unmarshal(bs, &aux) == nil && aux.Offset != nil {
			nb.WithOffset(aux.Offset)
		}
	}
	return nb
}

func cloneEntry(e *ach.EntryDetail) *ach.EntryDetail {
	if e == nil {
		return nil
	}
	ec := *e
	if e.Addenda02 != nil {
		a := *e.Addenda02
		ec.Addenda02 = &a
	}
	if e.Addenda05 != nil {
		ec.Addenda05 = make([]*ach.Addenda05, len(e.Addenda05))
		for i, p := range e.Addenda05 {
			if p != nil {
				a := *p
				ec.Addenda05[i] = &a
			}
		}
	}
	if e.Addenda98 != nil {
		a := *e.Addenda98
		ec.Addenda98 = &a
	}
	if e.Addenda98Refused != nil {
		a := *e.Addenda98Refused
		ec.Addenda98Refused = &a
	}
	if e.Addenda99 != nil {
		a := *e.Addenda99
		ec.Addenda99 = &a
	}
	if e.Addenda99Contested != nil {
		a := *e.Addenda99Contested
		ec.Addenda99Contested = &a
	}
	if e.Addenda99Dishonored != nil {
		a := *e.Addenda99Dishonored
		ec.Addenda99Dishonored = &a
	}
	return &ec
}

func cloneIATBatch(b ach.IATBatch) ach.IATBatch {
	nb := b // ID, unexported category and validateOpts travel along
	if b.Header != nil {
		h := *b.Header
		nb.Header = &h
	}
	if b.Control != nil {
		c := *b.Control
		nb.Control = &c
	}
	nb.Entries = nil
	for _, e := range b.Entries {
		if e == nil {
			nb.Entries = append(nb.Entries, nil)
			continue
		}
		ec := *e
		if e.Addenda10 != nil {
			a := *e.Addenda10
			ec.Addenda10 = &a
		}
		if e.Addenda11 != nil {
			a := *e.Addenda11
			ec.Addenda11 = &a
		}
		if e.Addenda12 != nil {
			a := *e.Addenda12
			ec.Addenda12 = &a
		}
		if e.Addenda13 != nil {
			a := *e.Addenda13
			ec.Addenda13 = &a
		}
		if e.Addenda14 != nil {
			a := *e.Addenda14
			ec.Addenda14 = &a
		}
		if e.Addenda15 != nil {
			a := *e.Addenda15
			ec.Addenda15 = &a
		}
		if e.Addenda16 != nil {
			a := *e.Addenda16
			ec.Addenda16 = &a
		}
		if e.Addenda17 != nil {
			ec.Addenda17 = make([]*ach.Addenda17, len(e.Addenda17))
			for i, p := range e.Addenda17 {
				if p != nil {
					a := *p
					ec.Addenda17[i] = &a
				}
			}
		}
		if e.Addenda18 != nil {
			ec.Addenda18 = make([]*ach.Addenda18, len(e.Addenda18))
			for i, p := range e.Addenda18 {
				if p != nil {
					a := *p
					ec.Addenda18[i] = &a
				}
			}
		}
		if e.Addenda98 != nil {
			a := *e.Addenda98
			ec.Addenda98 = &a
		}
		if e.Addenda99 != nil {
			a := *e.Addenda99
			ec.Addenda99 = &a
		}
		nb.Entries = append(nb.Entries, &ec)
	}
	return nb
}

package gen

import (
	"fmt"

	"github.com/moov-io/ach"
)

var (
	advCredits = []int{ach.CreditForDebitsOriginated, ach.CreditForCreditsReceived, ach.CreditForCreditsRejected, ach.CreditSummary}
	advDebits  = []int{ach.DebitForCreditsOriginated, ach.DebitForDebitsReceived, ach.DebitForDebitsRejectedBatches, ach.DebitSummary}
)

// advFile: 1..MaxBatches ADV batches (service class 280, originator status 0) of
// 1..MaxEntries ADVEntryDetail records.
func (x *g) advFile() (*ach.File, error) {
	f := ach.NewFile()
	f.SetHeader(x.fileHeader())
	n := x.r.Range(x.o.MinBatches, x.o.MaxBatches)
	nums := x.batchNumbers(n)
	for i := 0; i < n; i++ {
		b, err := x.advBatch(x.odfi(), nums[i])
		if err != nil {
			return nil, err
		}
		f.AddBatch(b)
	}
	return finish(f)
}

func (x *g) advBatch(odfi string, batchNumber int) (ach.Batcher, error) {
	bh := ach.NewBatchHeader()
	bh.ServiceClassCode = ach.AutomatedAccountingAdvices
	bh.StandardEntryClassCode = ach.ADV
	bh.CompanyName = x.text(16, aText) // becomes ACHOperatorData of the ADV batch control
	if x.r.Bool() {
		bh.CompanyDiscretionaryData = x.text(20, aText)
	}
	bh.CompanyEntryDescription = x.text(10, aText)
	bh.CompanyDescriptiveDate = x.pickStr("", x.date())
	bh.EffectiveEntryDate = x.date()
	bh.OriginatorStatusCode = 0
	bh.ODFIIdentification = odfi
	bh.BatchNumber = batchNumber
	x.companyIdentification(bh)

	b := ach.NewBatchADV(bh)
	n := x.r.Range(1, x.o.MaxEntries)
	// returned advices: every entry of the batch carries an Addenda99 (BatchADV.Validate refuses one on a
	// forward entry); the addenda records count as records of the batch and of the file
	returned := x.o.ADVReturns && x.r.Chance(1, 2)
	for i := 0; i < n; i++ {
		e := ach.NewADVEntryDetail()
		if x.r.Bool() {
			e.TransactionCode = advCredits[x.r.Intn(len(advCredits))]
		} else {
			e.TransactionCode = advDebits[x.r.Intn(len(advDebits))]
		}
		e.SetRDFI(x.routing())
		e.DFIAccountNumber = x.text(15, aIdent)
		// 12 digit amount field: go beyond the 10 digits of a normal entry now and then
		e.Amount = x.amount(0)
		if x.r.Chance(1, 4) {
			e.Amount = e.Amount*1000 + x.r.Intn(1000)
		}
		e.AdviceRoutingNumber = x.routing()
		if x.r.Bool() {
			e.FileIdentification = x.text(5, aIdent)
		}
		if x.r.Bool() {
			e.ACHOperatorData = string(x.pick(upper + digits))
		}
		e.IndividualName = x.text(22, aText)
		if x.r.Bool() {
			e.DiscretionaryData = x.text(2, aText)
		}
		e.ACHOperatorRoutingNumber = x.routing()[:8]
		e.JulianDay = x.pickInt(1, 50, 59, 60, 228, 365, 366, x.r.Range(1, 366))
		e.SequenceNumber = i + 1 // Create() renumbers
		e.Category = ach.CategoryForward
		if returned {
			a := ach.NewAddenda99()
			a.ReturnCode = rngPickStr(x, returnCodes)
			a.OriginalTrace = x.nonZeroDigits(15)
			a.OriginalDFI = x.routing()[:8]
			if x.r.Chance(3, 4) {
				a.AddendaInformation = x.text(44, aText)
			}
			a.TraceNumber = odfi + fmt.Sprintf("%07d", i+1)
			e.Addenda99 = a
			e.AddendaRecordIndicator = 1
			e.Category = ach.CategoryReturn
		}
		b.AddADVEntry(e)
	}
	if err := b.Create(); err != nil {
		return nil, fmt.Errorf("ADV batch.Create: %w", err)
	}
	return b, nil
}

// Package gen generates VALID ach.File values of every kind the library supports
// (21 standard SEC codes, IAT, ADV, returns, dishonored / contested returns, NOC and
// refused NOC) from the harness' single deterministic PRNG.
//
// "Valid" means: every batch passed batch.Create(), file.Create() succeeded,
// file.Validate() returns nil under default options, and the file rendered by
// ach.NewWriter parses with ach.NewReader without error.
//
// No clock and no math/rand: every choice is derived from the *rng.R that is passed in
// and all dates are taken from a fixed list.
//
// # Things a caller must know (library behaviour the generator works around)
//
//   - ach.NewReader sniffs the character set from the first 1024 bytes
//     (x/net/html/charset): a file whose first 1024 bytes are pure ASCII is decoded as
//     windows-1252, which breaks every later 2-byte rune.  With Opts.NonASCII the file
//     header (first line) therefore ALWAYS carries at least one À..ÿ rune.  If you build
//     your own file around Batch(…, Opts{NonASCII: true}) use Header(r, o) as well.
//   - BatchControl.Parse and Reader.parseBH slice by byte.  Non-ASCII runes are
//     therefore never put into CompanyIdentification, the IAT header fields in front of
//     column 50, or composite entry fields the library slices by byte (POP/SHR
//     IdentificationNumber, TRC/XCK/CTX/ATX/TRX IndividualName).  A standard batch header
//     whose bytes 50..53 read "IAT" would be parsed as an IAT header; Batch() re-draws
//     CompanyIdentification when that happens (counted in Retries()).
//   - Zero amounts are rejected by default for everything except prenotes and the
//     zero-dollar codes 24/34 of ACK/ATX, so zero-dollar CCD/CTX entries are not generated.
//   - DNE and COR batches cannot carry returns (their own rules contradict the return
//     rules), so return batches are never generated for them.
//   - Batch.Create() / FileFromJSON on a batch that already holds an OFFSET entry hits
//     `b.Entries[i+i:]` in upsertOffsets; Clone() therefore copies structurally instead of
//     going through JSON.
package gen

import (
	"fmt"
	"sync/atomic"

	"github.com/moov-io/ach"

	"verifharness/internal/rng"
)

// Opts selects what a generated file may contain.  The zero value gives 1..3 forward
// batches over all standard SEC codes (COR excluded, see NOC) with 1..4 entries each, no
// optional addenda, ASCII only.
type Opts struct {
	SECs                   []string // allowed SEC codes for standard batches; nil = AllSECs() without COR (COR comes with NOC or when listed explicitly)
	MinBatches, MaxBatches int      // default 1..3
	MaxEntries             int      // per batch, default 4
	IAT                    bool     // may add IAT batches (with Returns also IAT returns, with NOC also IATCOR batches)
	Returns                bool     // may add return batches (Addenda99), dishonored (Addenda99Dishonored), contested (Addenda99Contested)
	NOC                    bool     // may add COR batches with Addenda98 and refused NOC (Addenda98Refused)
	NonASCII               bool     // may put À..ÿ into alphanumeric fields (the file header then always has one)
	Addenda                bool     // optional Addenda05 where the SEC allows (PPD/CCD/WEB/CIE/ACK 0..1, CTX/ATX/TRX 0..4, ENR 1..3), IAT Addenda17/18
	Offset                 bool     // may configure batch.WithOffset (checking/savings) on PPD/CCD/WEB/CTX
	OffsetReturns          bool     // with Offset: return batches may be balanced with an offset too (moov-io/ach issue 1010)
	ADVReturns             bool     // ADV batches may consist of returned advices (every entry with an Addenda99)
	ForwardOnly            bool     // overrides Returns and NOC; COR only if asked for by name
	OFAC                   bool     // may set the two IAT OFAC screening indicators (ach.Reader blanks them on parse, so such files are not write/read/write stable)
}

func (o Opts) norm() Opts {
	if o.MinBatches <= 0 {
		o.MinBatches = 1
	}
	if o.MaxBatches <= 0 {
		o.MaxBatches = 3
	}
	if o.MaxBatches < o.MinBatches {
		o.MaxBatches = o.MinBatches
	}
	if o.MaxEntries <= 0 {
		o.MaxEntries = 4
	}
	if o.ForwardOnly {
		o.Returns = false
		o.NOC = false
	}
	return o
}

// AllSECs lists the 21 standard SEC codes ach.NewBatch accepts besides IAT (rejected) and ADV.
func AllSECs() []string {
	return []string{ach.ACK, ach.ARC, ach.ATX, ach.BOC, ach.CCD, ach.CIE, ach.COR, ach.CTX, ach.DNE, ach.ENR,
		ach.MTE, ach.POP, ach.POS, ach.PPD, ach.RCK, ach.SHR, ach.TEL, ach.TRC, ach.TRX, ach.WEB, ach.XCK}
}

var (
	retries   atomic.Int64
	lastRetry atomic.Value // string
)

func retry(why string) {
	retries.Add(1)
	lastRetry.Store(why)
}

// LastRetry describes the most recent re-draw ("" when there was none).
func LastRetry() string {
	s, _ := lastRetry.Load().(string)
	return s
}

// Retries is the number of times the generator had to re-draw something because the
// first draw was not accepted by the library (0 is the expected value; the self test
// reports it).
func Retries() int64 { return retries.Load() }

const maxAttempts = 4

// Kinds of batch content (see BatchOfKind).
const (
	KindForward    = "forward"
	KindReturn     = "return"
	KindDishonored = "dishonored"
	KindContested  = "contested"
)

// Header builds a valid file header (fixed dates, valid destination routing number).
func Header(r *rng.R, o Opts) ach.FileHeader {
	x := &g{r: r, o: o.norm()}
	return x.fileHeader()
}

func (x *g) fileHeader() ach.FileHeader {
	fh := ach.NewFileHeader()
	fh.ImmediateDestination = x.routing()
	// 9 digits; a 10 character origin would be cut to 9 by ImmediateOriginField
	fh.ImmediateOrigin = x.nonZeroDigits(9)
	fh.FileCreationDate = x.date()
	fh.FileCreationTime = times[x.r.Intn(len(times))]
	fh.FileIDModifier = string(x.pick(upper + digits))
	fh.ImmediateDestinationName = x.text(23, aText)
	fh.ImmediateOriginName = x.text(23, aText)
	if x.o.NonASCII {
		// guarantee a high-bit byte inside the first 1024 bytes (see package comment)
		rs := []rune(fh.ImmediateOriginName)
		rs[x.r.Intn(len(rs))] = latin1[x.r.Intn(len(latin1))]
		fh.ImmediateOriginName = string(rs)
	}
	if x.r.Chance(1, 2) {
		fh.ReferenceCode = x.text(8, aText)
	}
	return fh
}

// File returns a valid, tabulated file with mixed content as allowed by o.
func File(r *rng.R, o Opts) *ach.File {
	x := &g{r: r, o: o.norm()}
	return x.attemptFile(func() (*ach.File, error) { return x.mixedFile() })
}

// FileOfSEC returns a valid file whose batches all have the given SEC code; sec may also
// be "IAT" or "ADV".  With o.Returns some batches may be return batches of that SEC.
func FileOfSEC(r *rng.R, sec string, o Opts) *ach.File {
	x := &g{r: r, o: o.norm()}
	if sec == ach.ADV {
		return x.attemptFile(func() (*ach.File, error) { return x.advFile() })
	}
	return x.attemptFile(func() (*ach.File, error) { return x.secFile(sec) })
}

// ADVFile returns a valid ADV file (ADV batches cannot be mixed with anything else).
func ADVFile(r *rng.R) *ach.File {
	return FileOfSEC(r, ach.ADV, Opts{})
}

func (x *g) attemptFile(build func() (*ach.File, error)) *ach.File {
	var err error
	for i := 0; i < maxAttempts; i++ {
		var f *ach.File
		f, err = build()
		if err == nil {
			return f
		}
		retry("file: " + err.Error())
	}
	panic(fmt.Sprintf("gen: generator bug, could not build a valid file in %d attempts: %v", maxAttempts, err))
}

// finish tabulates and validates.
func finish(f *ach.File) (*ach.File, error) {
	if err := f.Create(); err != nil {
		return nil, fmt.Errorf("file.Create: %w", err)
	}
	if err := f.Validate(); err != nil {
		return nil, fmt.Errorf("file.Validate: %w", err)
	}
	// file.Validate does not look into IAT batches
	for i := range f.IATBatches {
		if err := f.IATBatches[i].Validate(); err != nil {
			return nil, fmt.Errorf("iatBatch.Validate: %w", err)
		}
	}
	return f, nil
}

// batchNumbers returns n strictly ascending batch numbers; File.Create renumbers a
// batch only when its number is <= 1, so position i always gets a number >= i+1.
func (x *g) batchNumbers(n int) []int {
	out := make([]int, n)
	cur := 1
	if x.r.Chance(1, 4) {
		cur = x.r.Range(2, 900)
	}
	for i := range out {
		out[i] = cur
		if x.r.Chance(3, 4) {
			cur++
		} else {
			cur += x.r.Range(2, 40)
		}
	}
	return out
}

// odfi draws an originating DFI: the first 8 digits of a valid routing number.
func (x *g) odfi() string { return x.routing()[:8] }

type slot struct {
	sec  string // standard SEC, or "IAT"
	kind string
	noc  bool // IAT only: IATCOR batch
}

func (x *g) mixedFile() (*ach.File, error) {
	pool := x.o.SECs
	if pool == nil {
		for _, s := range AllSECs() {
			if s != ach.COR {
				pool = append(pool, s)
			}
		}
	}
	n := x.r.Range(x.o.MinBatches, x.o.MaxBatches)
	var std, iat []slot
	for i := 0; i < n; i++ {
		k := x.r.Intn(100)
		switch {
		case x.o.IAT && k < 20:
			s := slot{sec: ach.IAT, kind: KindForward}
			if x.o.Returns && x.r.Chance(1, 4) {
				s.kind = KindReturn
			} else if x.o.NOC && x.r.Chance(1, 4) {
				s.noc = true
			}
			iat = append(iat, s)
		case x.o.NOC && k < 35:
			std = append(std, slot{sec: ach.COR, kind: KindForward})
		case x.o.Returns && k < 60:
			sec := x.returnableSEC(pool)
			if sec == "" {
				std = append(std, slot{sec: rng.Pick(x.r, pool), kind: KindForward})
				break
			}
			std = append(std, slot{sec: sec, kind: x.pickStr(KindReturn, KindReturn, KindDishonored, KindContested)})
		default:
			std = append(std, slot{sec: rng.Pick(x.r, pool), kind: KindForward})
		}
	}
	return x.assemble(std, iat)
}

func (x *g) returnableSEC(pool []string) string {
	var ok []string
	for _, s := range pool {
		if canReturn(s) {
			ok = append(ok, s)
		}
	}
	if len(ok) == 0 {
		return ""
	}
	return rng.Pick(x.r, ok)
}

func (x *g) secFile(sec string) (*ach.File, error) {
	n := x.r.Range(x.o.MinBatches, x.o.MaxBatches)
	var std, iat []slot
	for i := 0; i < n; i++ {
		s := slot{sec: sec, kind: KindForward}
		if sec == ach.IAT {
			if x.o.Returns && x.r.Chance(1, 4) {
				s.kind = KindReturn
			} else if x.o.NOC && x.r.Chance(1, 4) {
				s.noc = true
			}
			iat = append(iat, s)
			continue
		}
		if x.o.Returns && canReturn(sec) && x.r.Chance(1, 3) {
			s.kind = x.pickStr(KindReturn, KindReturn, KindDishonored, KindContested)
		}
		std = append(std, s)
	}
	return x.assemble(std, iat)
}

// assemble builds the batches (standard ones first, IAT batches after them: that is the
// order File.Create numbers them and the Writer emits them) and finishes the file.
func (x *g) assemble(std, iat []slot) (*ach.File, error) {
	f := ach.NewFile()
	f.SetHeader(x.fileHeader())
	nums := x.batchNumbers(len(std) + len(iat))
	// one ODFI per file most of the time (what a real originator sends), else per batch
	fileODFI := x.odfi()
	sameODFI := x.r.Chance(2, 3)
	pickODFI := func() string {
		if sameODFI {
			return fileODFI
		}
		return x.odfi()
	}
	for i, s := range std {
		b, err := x.batch(s.sec, pickODFI(), nums[i], s.kind)
		if err != nil {
			return nil, err
		}
		f.AddBatch(b)
	}
	for i, s := range iat {
		b, err := x.iatBatch(pickODFI(), nums[len(std)+i], s.kind, s.noc)
		if err != nil {
			return nil, err
		}
		f.AddIATBatch(b)
	}
	return finish(f)
}

// Batch returns a created (batch.Create() == nil) batch of a standard SEC code.  It is a
// forward batch (NOC for COR); with o.Returns it is, one time in four, a return /
// dishonored / contested batch when the SEC can carry returns.
func Batch(r *rng.R, sec string, odfi string, batchNumber int, o Opts) ach.Batcher {
	x := &g{r: r, o: o.norm()}
	kind := KindForward
	if x.o.Returns && canReturn(sec) && x.r.Chance(1, 4) {
		kind = x.pickStr(KindReturn, KindReturn, KindDishonored, KindContested)
	}
	return x.attemptBatch(sec, odfi, batchNumber, kind)
}

// BatchOfKind is Batch with the content kind chosen by the caller (KindForward,
// KindReturn, KindDishonored, KindContested).  A kind the SEC cannot carry falls back to
// KindForward.
func BatchOfKind(r *rng.R, sec string, odfi string, batchNumber int, kind string, o Opts) ach.Batcher {
	x := &g{r: r, o: o.norm()}
	if kind != KindForward && !canReturn(sec) {
		kind = KindForward
	}
	return x.attemptBatch(sec, odfi, batchNumber, kind)
}

// normODFI cuts a 9 digit routing number to the 8 digit ODFI and draws one when empty.
func (x *g) normODFI(odfi string) string {
	if odfi == "" {
		return x.odfi()
	}
	if len(odfi) > 8 {
		return odfi[:8]
	}
	return odfi
}

func (x *g) attemptBatch(sec, odfi string, batchNumber int, kind string) ach.Batcher {
	odfi = x.normODFI(odfi)
	var err error
	for i := 0; i < maxAttempts; i++ {
		var b ach.Batcher
		b, err = x.batch(sec, odfi, batchNumber, kind)
		if err == nil {
			return b
		}
		retry("batch: " + err.Error())
	}
	panic(fmt.Sprintf("gen: generator bug, could not build a valid %s batch in %d attempts: %v", sec, maxAttempts, err))
}

// IATBatch returns a created forward IAT batch (with o.Returns sometimes a return batch,
// with o.NOC sometimes an IATCOR batch).
func IATBatch(r *rng.R, odfi string, batchNumber int, o Opts) ach.IATBatch {
	x := &g{r: r, o: o.norm()}
	kind, noc := KindForward, false
	if x.o.Returns && x.r.Chance(1, 4) {
		kind = KindReturn
	} else if x.o.NOC && x.r.Chance(1, 4) {
		noc = true
	}
	odfi = x.normODFI(odfi)
	var err error
	for i := 0; i < maxAttempts; i++ {
		var b ach.IATBatch
		b, err = x.iatBatch(odfi, batchNumber, kind, noc)
		if err == nil {
			return b
		}
		retry("IAT batch: " + err.Error())
	}
	panic(fmt.Sprintf("gen: generator bug, could not build a valid IAT batch in %d attempts: %v", maxAttempts, err))
}

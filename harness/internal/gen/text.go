package gen

import (
	"strings"

	"github.com/moov-io/ach"

	"verifharness/internal/rng"
)

const (
	upper  = "ABCDEFGHIJKLMNOPQRSTUVWXYZ"
	lower  = "abcdefghijklmnopqrstuvwxyz"
	digits = "0123456789"
	// every printable ASCII punctuation character; all of 0x21..0x7E passes isAlphanumeric
	punct = "!\"#$%&'()*+,-./:;<=>?@[\\]^_`{|}~"
	// punctuation that is safe inside '*' / '\' delimited payment information (ENR, DNE, IAT 12/16)
	punctNoDelim = "!#$%&'()+,-./:;=?@_"
)

// latin1 is the range À..ÿ (U+00C0..U+00FF): two bytes in UTF-8, admitted by the
// library's isAlphanumeric.  (U+00A0 is admitted too but is trimmed as white space, so
// it is left out.)
var latin1 = func() []rune {
	var out []rune
	for c := rune(0xC0); c <= 0xFF; c++ {
		out = append(out, c)
	}
	return out
}()

// g is the generator state shared by all helpers of one top level call.
type g struct {
	r *rng.R
	o Opts
}

func (x *g) pick(s string) rune {
	rs := []rune(s)
	return rs[x.r.Intn(len(rs))]
}

func (x *g) pickInt(xs ...int) int { return xs[x.r.Intn(len(xs))] }

func (x *g) pickStr(xs ...string) string { return xs[x.r.Intn(len(xs))] }

// length picks a field length in [1,max]: the full width and width 1 are boundary
// values and are chosen more often than uniformly.
func (x *g) length(max int) int {
	if max <= 1 {
		return 1
	}
	switch x.r.Intn(8) {
	case 0:
		return max
	case 1:
		return 1 + x.r.Intn(2)
	}
	return x.r.Range(1, max)
}

type alpha struct {
	punct    string // punctuation characters allowed ("" = none)
	lower    bool
	blanks   bool
	nonASCII bool // honoured only when Opts.NonASCII is set
}

var (
	// free text: names, descriptions, locations
	aText = alpha{punct: punct, lower: true, blanks: true, nonASCII: true}
	// free text that lives in a position where the library slices by byte
	aTextASCII = alpha{punct: punct, lower: true, blanks: true}
	// identifiers / account numbers: letters, digits, a few separators, blanks inside
	aIdent      = alpha{punct: "-./#", lower: false, blanks: true, nonASCII: true}
	aIdentASCII = alpha{punct: "-./#", lower: false, blanks: true}
	// sub-field of delimited payment information
	aSub = alpha{punct: punctNoDelim, lower: true, blanks: true, nonASCII: true}
	// one token without blanks (needed where the library splits on white space)
	aToken = alpha{punct: "-", lower: false}
)

// str produces n runes over the alphabet; the first and last rune are never blank so the
// value survives the TrimSpace applied when a record is parsed.
func (x *g) str(n int, a alpha) string {
	var b strings.Builder
	for i := 0; i < n; i++ {
		edge := i == 0 || i == n-1
		// cumulative weights out of 100: À..ÿ 12, blank 12, punctuation 12, digit 26, lower 19, upper the rest
		k := x.r.Intn(100)
		if a.nonASCII && x.o.NonASCII {
			if k < 12 {
				b.WriteRune(latin1[x.r.Intn(len(latin1))])
				continue
			}
		}
		k = x.r.Intn(88)
		switch {
		case k < 12:
			if a.blanks && !edge {
				b.WriteByte(' ')
			} else {
				b.WriteRune(x.pick(upper))
			}
		case k < 24:
			if a.punct != "" {
				b.WriteRune(x.pick(a.punct))
			} else {
				b.WriteRune(x.pick(digits))
			}
		case k < 50:
			b.WriteRune(x.pick(digits))
		case a.lower && k < 69:
			b.WriteRune(x.pick(lower))
		default:
			b.WriteRune(x.pick(upper))
		}
	}
	return b.String()
}

// text is a value of 1..max runes.
func (x *g) text(max int, a alpha) string { return x.str(x.length(max), a) }

func (x *g) digitsN(n int) string {
	var b strings.Builder
	for i := 0; i < n; i++ {
		b.WriteRune(x.pick(digits))
	}
	return b.String()
}

// nonZeroDigits is n digits that are not all zero.
func (x *g) nonZeroDigits(n int) string {
	s := []byte(x.digitsN(n))
	s[x.r.Intn(n)] = byte('1' + x.r.Intn(9))
	return string(s)
}

// ValidRouting returns 9 digits whose last digit is the ABA check digit of the first 8.
func ValidRouting(r *rng.R) string {
	x := &g{r: r}
	return x.routing()
}

func (x *g) routing() string {
	p := x.nonZeroDigits(8)
	return p + string(rune('0'+ach.CalculateCheckDigit(p)))
}

// amount draws from 1..max with the boundary values over-represented.
func (x *g) amount(max int) int {
	if max <= 0 || max > 99999999 {
		max = 99999999
	}
	if x.r.Chance(1, 4) {
		b := []int{1, 2, 9, 10, 99, 100, 101, 999, 1000, 99999, 100000, 999999, 1000000,
			max / 2, max - 1, max, max, 12345678, 99999998, 99999999, 25000, 250000, 2500000}
		v := b[x.r.Intn(len(b))]
		if v >= 1 && v <= max {
			return v
		}
		return max
	}
	// uniform in the number of digits, then uniform below that magnitude
	lim := 10
	for d := x.r.Range(1, 8); d > 1; d-- {
		lim *= 10
	}
	if lim > max {
		lim = max + 1
	}
	return 1 + x.r.Intn(lim-1)
}

var states = []string{"AK", "AL", "AR", "AS", "AZ", "CA", "CO", "CT", "DC", "DE", "FL", "GA", "GU", "HI",
	"IA", "ID", "IL", "IN", "KS", "KY", "LA", "MA", "MD", "ME", "MI", "MN", "MO", "MP", "MS", "MT", "NC",
	"ND", "NE", "NH", "NJ", "NM", "NV", "NY", "OH", "OK", "OR", "PA", "PR", "RI", "SC", "SD", "TN", "TX",
	"UT", "VA"}

// fixed calendar: no clock is ever consulted
var (
	dates  = []string{"190816", "190819", "200229", "211231", "220101", "230630", "240229", "250102", "000229", "991231"}
	times  = []string{"1055", "0000", "2359", "0930", "1200", "1745"}
	julian = []string{"001", "059", "228", "229", "365", "366"}
)

func (x *g) date() string { return dates[x.r.Intn(len(dates))] }

// mmdd is a valid month/day pair.
func (x *g) mmdd() string {
	m := x.r.Range(1, 12)
	max := 31
	switch m {
	case 2:
		max = 29
	case 4, 6, 9, 11:
		max = 30
	}
	d := x.r.Range(1, max)
	return two(m) + two(d)
}

func two(n int) string { return string([]byte{byte('0' + n/10), byte('0' + n%10)}) }

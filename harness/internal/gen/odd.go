package gen

import (
	"github.com/moov-io/ach"

	"verifharness/internal/rng"
)

// OddAddenda gives one entry of the file an addenda record of a type it does not carry yet
// (a second NOC record next to the first, an Addenda99 on a forward IAT entry, a return
// addenda of another family, ...) or removes one it has.  The caller re-tabulates (Create)
// and keeps the file only if the library still accepts it: most combinations are refused by
// Validate, the accepted ones are the unusual-but-valid addenda shapes.  ok=false: nothing
// applicable.  The control records are left as they are.
func OddAddenda(r *rng.R, f *ach.File) (desc string, ok bool) {
	var iats []*ach.IATBatch
	for i := range f.IATBatches {
		iats = append(iats, &f.IATBatches[i])
	}
	return OddAddendaIn(r, f.Batches, iats)
}

// OddAddendaIn is OddAddenda restricted to the given batches.
func OddAddendaIn(r *rng.R, batches []ach.Batcher, iats []*ach.IATBatch) (desc string, ok bool) {
	type cand struct {
		desc string
		do   func()
	}
	var cs []cand
	for _, b := range batches {
		for _, e := range b.GetEntries() {
			e := e
			trace := e.TraceNumber
			if e.Addenda98 != nil && e.Addenda98Refused == nil {
				cs = append(cs, cand{"Addenda98Refused added next to Addenda98", func() {
					a := ach.NewAddenda98Refused()
					a.RefusedChangeCode = "C61"
					a.OriginalTrace = e.Addenda98.OriginalTrace
					a.OriginalDFI = e.Addenda98.OriginalDFI
					a.ChangeCode = e.Addenda98.ChangeCode
					a.CorrectedData = e.Addenda98.CorrectedData
					a.TraceSequenceNumber = "0000001"
					a.TraceNumber = trace
					e.Addenda98Refused = a
				}})
			}
			if e.Addenda98Refused != nil && e.Addenda98 == nil {
				cs = append(cs, cand{"Addenda98 added next to Addenda98Refused", func() {
					a := ach.NewAddenda98()
					a.ChangeCode = e.Addenda98Refused.ChangeCode
					a.OriginalTrace = e.Addenda98Refused.OriginalTrace
					a.OriginalDFI = e.Addenda98Refused.OriginalDFI
					a.CorrectedData = e.Addenda98Refused.CorrectedData
					a.TraceNumber = trace
					e.Addenda98 = a
				}})
			}
			if (e.Addenda99Dishonored != nil || e.Addenda99Contested != nil) && e.Category != ach.CategoryForward {
				cs = append(cs, cand{"category of a dishonored / contested return entry left at Forward (the default of NewEntryDetail)", func() {
					e.Category = ach.CategoryForward
				}})
			}
			if e.Addenda99 != nil && e.Addenda99Dishonored == nil {
				cs = append(cs, cand{"Addenda99Dishonored added next to Addenda99", func() {
					a := ach.NewAddenda99Dishonored()
					a.DishonoredReturnReasonCode = "R68"
					a.OriginalEntryTraceNumber = e.Addenda99.OriginalTrace
					a.OriginalReceivingDFIIdentification = e.Addenda99.OriginalDFI
					a.ReturnTraceNumber = trace
					a.ReturnSettlementDate = "001"
					a.ReturnReasonCode = "01"
					a.TraceNumber = trace
					e.Addenda99Dishonored = a
				}})
			}
			if e.Addenda99 != nil && e.Addenda99Contested == nil {
				cs = append(cs, cand{"Addenda99Contested added next to Addenda99", func() {
					a := ach.NewAddenda99Contested()
					a.ContestedReturnCode = "R71"
					a.OriginalEntryTraceNumber = e.Addenda99.OriginalTrace
					a.OriginalReceivingDFIIdentification = e.Addenda99.OriginalDFI
					a.ReturnTraceNumber = trace
					a.ReturnSettlementDate = "001"
					a.ReturnReasonCode = "01"
					a.DishonoredReturnTraceNumber = trace
					a.DishonoredReturnSettlementDate = "001"
					a.DishonoredReturnReasonCode = "68"
					a.TraceNumber = trace
					e.Addenda99Contested = a
				}})
			}
			if e.Addenda99 == nil && e.Addenda98 == nil && e.Addenda98Refused == nil {
				cs = append(cs, cand{"Addenda99 added to a forward entry", func() {
					a := ach.NewAddenda99()
					a.ReturnCode = "R01"
					a.OriginalTrace = trace
					a.OriginalDFI = e.RDFIIdentification
					a.TraceNumber = trace
					e.Addenda99 = a
					e.AddendaRecordIndicator = 1
				}})
			}
			if e.Addenda02 == nil {
				cs = append(cs, cand{"Addenda02 added", func() {
					a := ach.NewAddenda02()
					a.TerminalIdentificationCode = "200509"
					a.TerminalLocation = "321 East Market Street"
					a.TerminalCity = "ANYTOWN"
					a.TerminalState = "VA"
					a.TransactionSerialNumber = "123456"
					a.TransactionDate = "1224"
					a.TraceNumber = trace
					e.Addenda02 = a
					e.AddendaRecordIndicator = 1
				}})
			}
		}
	}
	for _, ib := range iats {
		for _, e := range ib.GetEntries() {
			e := e
			trace := e.TraceNumber
			if e.Addenda99 == nil {
				cs = append(cs, cand{"Addenda99 added to an IAT entry (category unchanged)", func() {
					a := ach.NewAddenda99()
					a.ReturnCode = "R01"
					a.OriginalTrace = trace
					a.OriginalDFI = e.RDFIIdentification
					a.TraceNumber = trace
					e.Addenda99 = a
				}})
			} else {
				cs = append(cs, cand{"IAT entry with Addenda99: category set to Forward", func() { e.Category = ach.CategoryForward }})
				cs = append(cs, cand{"IAT entry with Addenda99: category cleared", func() { e.Category = "" }})
			}
			if e.Addenda98 == nil && e.Addenda10 != nil {
				cs = append(cs, cand{"Addenda98 added to a forward IAT entry", func() {
					a := ach.NewAddenda98()
					a.ChangeCode = "C01"
					a.OriginalTrace = trace
					a.OriginalDFI = e.RDFIIdentification
					a.CorrectedData = "1918171614"
					a.TraceNumber = trace
					e.Addenda98 = a
				}})
			}
			if len(e.Addenda18) < 5 {
				cs = append(cs, cand{"IAT Addenda18 added", func() {
					a := ach.NewAddenda18()
					a.ForeignCorrespondentBankName = "Bank of Extra"
					a.ForeignCorrespondentBankIDNumberQualifier = "01"
					a.ForeignCorrespondentBankIDNumber = "456456456987987"
					a.ForeignCorrespondentBankBranchCountryCode = "DE"
					a.SequenceNumber = len(e.Addenda18) + 1
					a.EntryDetailSequenceNumber = 1
					e.Addenda18 = append(e.Addenda18, a)
				}})
			}
		}
	}
	if len(cs) == 0 {
		return "", false
	}
	c := cs[r.Intn(len(cs))]
	c.do()
	return c.desc, true
}

package gen

import (
	"fmt"

	"github.com/moov-io/ach"
)

var (
	countries  = []string{"US", "CA", "MX", "GB", "DE", "FR", "JP", "AU", "NL", "CH", "BR", "IN"}
	currencies = []string{"USD", "CAD", "MXN", "GBP", "EUR", "JPY", "AUD", "CHF", "BRL", "INR"}
	txnTypes   = []string{"ANN", "BUS", "DEP", "LOA", "MIS", "MOR", "PEN", "REM", "RLS", "SAL", "TAX",
		"ARC", "BOC", "IAT", "MTE", "POP", "POS", "RCK", "SHR", "TEL", "WEB"}
	iatForwardC = []int{ach.CheckingCredit, ach.SavingsCredit, ach.GLCredit, ach.LoanCredit}
	iatForwardD = []int{ach.CheckingDebit, ach.SavingsDebit, ach.GLDebit, ach.LoanDebit}
)

// iatBatch builds and creates one IAT batch: forward, return (Addenda99 behind the
// mandatory addenda) or, with noc, an IATCOR / COR batch whose entries carry only an Addenda98.
func (x *g) iatBatch(odfi string, batchNumber int, kind string, noc bool) (ach.IATBatch, error) {
	dir := "CDM"[x.r.Intn(3)]

	bh := ach.NewIATBatchHeader()
	switch {
	case dir == 'M' || x.r.Chance(1, 4):
		bh.ServiceClassCode = ach.MixedDebitsAndCredits
	case dir == 'C':
		bh.ServiceClassCode = ach.CreditsOnly
	default:
		bh.ServiceClassCode = ach.DebitsOnly
	}
	// everything in front of column 50 stays ASCII: Reader.parseBH looks for "IAT" at bytes 50..53
	bh.ForeignExchangeIndicator = x.pickStr("FV", "VF", "FF")
	bh.ForeignExchangeReferenceIndicator = x.pickInt(1, 2, 3)
	if bh.ForeignExchangeIndicator == "FF" && x.r.Chance(1, 3) {
		// fixed-to-fixed: the indicator may be left at zero (moov-io/ach issue 1462); the reference is still a field of the record
		bh.ForeignExchangeReferenceIndicator = 0
	}
	if bh.ForeignExchangeReferenceIndicator != 3 {
		bh.ForeignExchangeReference = x.text(15, aIdentASCII)
	}
	bh.ISODestinationCountryCode = rngPickStr(x, countries)
	bh.OriginatorIdentification = x.text(10, aIdentASCII)
	bh.StandardEntryClassCode = ach.IAT
	bh.CompanyEntryDescription = x.text(10, aText)
	bh.ISOOriginatingCurrencyCode = rngPickStr(x, currencies)
	bh.ISODestinationCurrencyCode = rngPickStr(x, currencies)
	bh.EffectiveEntryDate = x.date()
	if x.r.Chance(1, 4) {
		bh.SettlementDate = julian[x.r.Intn(len(julian))]
	}
	bh.OriginatorStatusCode = x.pickInt(0, 1, 2)
	bh.ODFIIdentification = odfi
	bh.BatchNumber = batchNumber
	if noc {
		bh.IATIndicator = ach.IATCOR
		bh.StandardEntryClassCode = ach.COR
	}

	b := ach.NewIATBatch(bh)
	n := x.r.Range(1, x.o.MaxEntries)
	seq := 1
	if x.r.Chance(1, 3) {
		seq = x.r.Range(2, 9000000)
	}
	for i := 0; i < n; i++ {
		credit := dir == 'C' || (dir == 'M' && x.r.Bool())
		if dir == 'M' && n > 1 && i < 2 {
			credit = i == 0
		}
		e := x.iatEntry(credit, kind, noc)
		e.SetTraceNumber(odfi, seq)
		if e.Addenda98 != nil {
			e.Addenda98.TraceNumber = e.TraceNumber
		}
		if e.Addenda99 != nil {
			e.Addenda99.TraceNumber = e.TraceNumber
		}
		b.AddEntry(e)
		if x.r.Chance(3, 4) {
			seq++
		} else {
			seq += x.r.Range(2, 97)
		}
	}
	if err := b.Create(); err != nil {
		return b, fmt.Errorf("IAT batch.Create: %w", err)
	}
	return b, nil
}

func (x *g) iatEntry(credit bool, kind string, noc bool) *ach.IATEntryDetail {
	e := ach.NewIATEntryDetail()
	e.SetRDFI(x.routing())
	e.DFIAccountNumber = x.text(35, aIdent)
	if x.o.OFAC {
		e.OFACScreeningIndicator = x.pickStr("", "0", "1")
		e.SecondaryOFACScreeningIndicator = x.pickStr("", "0", "1")
	}
	e.AddendaRecordIndicator = 1
	e.Category = ach.CategoryForward

	if noc {
		e.TransactionCode = x.returnNOCCode(credit)
		e.Amount = 0
		e.AddendaRecords = 1
		e.Category = ach.CategoryNOC
		a := ach.NewAddenda98()
		a.ChangeCode = rngPickStr(x, changeCodes)
		orig := x.nonZeroDigits(15)
		a.OriginalTrace = orig
		a.OriginalDFI = orig[:8]
		a.CorrectedData = x.correctedData(a.ChangeCode)
		e.Addenda98 = a
		return e
	}

	switch {
	case kind == KindReturn:
		e.TransactionCode = x.returnNOCCode(credit)
		e.Amount = x.amount(0)
	case x.r.Chance(1, 10):
		if credit {
			e.TransactionCode = x.pickInt(ach.CheckingPrenoteCredit, ach.SavingsPrenoteCredit)
		} else {
			e.TransactionCode = x.pickInt(ach.CheckingPrenoteDebit, ach.SavingsPrenoteDebit)
		}
		e.Amount = 0
	case credit:
		e.TransactionCode = iatForwardC[x.r.Intn(len(iatForwardC))]
		e.Amount = x.amount(0)
	default:
		e.TransactionCode = iatForwardD[x.r.Intn(len(iatForwardD))]
		e.Amount = x.amount(0)
	}

	// the seven mandatory addenda; Create() fills in EntryDetailSequenceNumber
	a10 := ach.NewAddenda10()
	a10.TransactionTypeCode = rngPickStr(x, txnTypes)
	a10.ForeignPaymentAmount = x.amount(0) * x.pickInt(1, 1, 100, 1000)
	if x.r.Bool() {
		a10.ForeignTraceNumber = x.text(22, aIdent)
	}
	a10.Name = x.text(35, aText)
	a10.EntryDetailSequenceNumber = 1
	e.Addenda10 = a10

	a11 := ach.NewAddenda11()
	a11.OriginatorName = x.text(35, aText)
	a11.OriginatorStreetAddress = x.text(35, aText)
	a11.EntryDetailSequenceNumber = 1
	e.Addenda11 = a11

	a12 := ach.NewAddenda12()
	a12.OriginatorCityStateProvince = x.text(30, aSub) + "*" + x.str(2, aToken) + `\`
	a12.OriginatorCountryPostalCode = rngPickStr(x, countries) + "*" + x.text(9, aToken) + `\`
	a12.EntryDetailSequenceNumber = 1
	e.Addenda12 = a12

	a13 := ach.NewAddenda13()
	a13.ODFIName = x.text(35, aText)
	a13.ODFIIDNumberQualifier = x.pickStr("01", "02", "03")
	a13.ODFIIdentification = x.text(34, aIdent)
	a13.ODFIBranchCountryCode = rngPickStr(x, countries)
	a13.EntryDetailSequenceNumber = 1
	e.Addenda13 = a13

	a14 := ach.NewAddenda14()
	a14.RDFIName = x.text(35, aText)
	a14.RDFIIDNumberQualifier = x.pickStr("01", "02", "03")
	a14.RDFIIdentification = x.text(34, aIdent)
	a14.RDFIBranchCountryCode = rngPickStr(x, countries)
	a14.EntryDetailSequenceNumber = 1
	e.Addenda14 = a14

	a15 := ach.NewAddenda15()
	if x.r.Bool() {
		a15.ReceiverIDNumber = x.text(15, aIdent)
	}
	a15.ReceiverStreetAddress = x.text(35, aText)
	a15.EntryDetailSequenceNumber = 1
	e.Addenda15 = a15

	a16 := ach.NewAddenda16()
	a16.ReceiverCityStateProvince = x.text(30, aSub) + "*" + x.str(2, aToken) + `\`
	a16.ReceiverCountryPostalCode = rngPickStr(x, countries) + "*" + x.text(9, aToken) + `\`
	a16.EntryDetailSequenceNumber = 1
	e.Addenda16 = a16

	e.AddendaRecords = 7
	if x.o.Addenda {
		for i, n := 0, x.r.Range(0, 2); i < n; i++ {
			a := ach.NewAddenda17()
			a.PaymentRelatedInformation = x.text(80, aText)
			a.SequenceNumber = i + 1
			a.EntryDetailSequenceNumber = 1
			e.AddAddenda17(a)
			e.AddendaRecords++
		}
		for i, n := 0, x.r.Range(0, 5); i < n; i++ {
			a := ach.NewAddenda18()
			a.ForeignCorrespondentBankName = x.text(35, aText)
			a.ForeignCorrespondentBankIDNumberQualifier = x.pickStr("01", "02", "03")
			a.ForeignCorrespondentBankIDNumber = x.text(34, aIdent)
			a.ForeignCorrespondentBankBranchCountryCode = rngPickStr(x, countries)
			a.SequenceNumber = i + 1
			a.EntryDetailSequenceNumber = 1
			e.AddAddenda18(a)
			e.AddendaRecords++
		}
	}

	if kind == KindReturn {
		a := ach.NewAddenda99()
		a.ReturnCode = rngPickStr(x, returnCodes)
		orig := x.nonZeroDigits(15)
		a.OriginalTrace = orig
		a.OriginalDFI = orig[:8]
		a.IATPaymentAmount(fmt.Sprintf("%010d", e.Amount))
		a.IATAddendaInformation(x.text(34, aText))
		e.Addenda99 = a
		e.AddendaRecords++
		e.Category = ach.CategoryReturn
	}
	return e
}

package gen

import (
	"fmt"
	"strconv"

	"github.com/moov-io/ach"

	"verifharness/internal/rng"
)

// ApplyOpts stores the option set on the file (and through it on the file header), on every
// batch and on every IAT batch.
func ApplyOpts(f *ach.File, o *ach.ValidateOpts) {
	f.SetValidation(o)
	for _, b := range f.Batches {
		b.SetValidation(o)
	}
	for i := range f.IATBatches {
		f.IATBatches[i].SetValidation(o)
	}
}

// NeedsOpts turns a clone of a generated file into one that is valid ONLY under the option set
// stored on it, and returns the clone (nil if this file does not lend itself to the chosen
// variant).  Variants: a file header whose ImmediateDestination fails the ABA check digit under
// BypassDestinationValidation; trace numbers not prefixed by the ODFI under CustomTraceNumbers;
// wrong entry check digits under AllowInvalidCheckDigit.  The result is re-tabulated with Create
// and validates; without its options it does not.
func NeedsOpts(r *rng.R, f *ach.File) (out *ach.File, variant string) {
	defer func() {
		if recover() != nil {
			out = nil
		}
	}()
	g := Clone(f)
	o := &ach.ValidateOpts{}
	v := r.Intn(3)
	switch v {
	case 0:
		variant = "bypass-destination"
		o.BypassDestinationValidation = true
		d := []byte(g.Header.ImmediateDestination)
		if len(d) < 9 {
			return nil, variant
		}
		last := len(d) - 1
		d[last] = byte('0' + (int(d[last]-'0')+1+r.Intn(8))%10)
		g.Header.ImmediateDestination = string(d)
	case 1:
		variant = "custom-trace-numbers"
		o.CustomTraceNumbers = true
		n := r.Range(1000, 5000)
		for _, b := range g.Batches {
			if b.GetHeader().StandardEntryClassCode == ach.ADV || b.Category() != ach.CategoryForward {
				return nil, variant
			}
			for _, e := range b.GetEntries() {
				n += r.Range(1, 9)
				e.TraceNumber = fmt.Sprintf("99887766%07d", n)
				for _, a := range e.Addenda05 {
					a.EntryDetailSequenceNumber = n % 10000000
				}
				if e.Addenda02 != nil {
					e.Addenda02.TraceNumber = e.TraceNumber
				}
			}
		}
		if len(g.IATBatches) > 0 {
			return nil, variant
		}
	case 2:
		variant = "invalid-check-digit"
		o.AllowInvalidCheckDigit = true
		for _, b := range g.Batches {
			if b.GetHeader().StandardEntryClassCode == ach.ADV || b.Category() != ach.CategoryForward {
				return nil, variant
			}
			for _, e := range b.GetEntries() {
				d, _ := strconv.Atoi(e.CheckDigit)
				e.CheckDigit = strconv.Itoa((d + 1 + r.Intn(8)) % 10)
			}
		}
		if len(g.IATBatches) > 0 {
			return nil, variant
		}
	}
	ApplyOpts(g, o)
	for _, b := range g.Batches {
		if err := b.Create(); err != nil {
			return nil, variant
		}
	}
	for i := range g.IATBatches {
		if err := g.IATBatches[i].Create(); err != nil {
			return nil, variant
		}
	}
	if err := g.Create(); err != nil {
		return nil, variant
	}
	if err := g.Validate(); err != nil {
		return nil, variant
	}
	// only keep it if the options are really needed
	h := Clone(g)
	ApplyOpts(h, nil)
	if h.Create() == nil && h.Validate() == nil {
		return nil, variant
	}
	return g, variant
}

package gen

import (
	"encoding/json"
	"fmt"
	"sort"
	"strconv"
	"strings"

	"github.com/moov-io/ach"

	"verifharness/internal/rng"
)

// ApplyOpts stores the option set on the file (and through it on the file header), on every
// batch and on every IAT batch.  This is what a caller of the public API does who builds a file
// and calls SetValidation on the file and its batches (and what FileFromJSONWith does).
func ApplyOpts(f *ach.File, o *ach.ValidateOpts) {
	f.SetValidation(o)
	for _, b := range f.Batches {
		b.SetValidation(o)
	}
	for i := range f.IATBatches {
		f.IATBatches[i].SetValidation(o)
	}
}

// ApplyOptsDeep is ApplyOpts plus SetValidation on every record that has one (batch headers and
// controls, entries, addenda; IAT headers, entries and addenda; ADV entries and controls): what
// ach.Reader does for a file read under the option set (the Reader leaves out IAT entries, the
// IAT return / NOC addenda and the ADV batch control; the public SetValidation covers them).
// The flags AllowInvalidCheckDigit, CustomReturnCodes, AllowSpecialCharacters and
// CheckTransactionCode are only ever looked up on the record itself, so a stored file can
// depend on them only in this form.
func ApplyOptsDeep(f *ach.File, o *ach.ValidateOpts) {
	ApplyOpts(f, o)
	for _, b := range f.Batches {
		b.GetHeader().SetValidation(o)
		b.GetControl().SetValidation(o)
		b.GetADVControl().SetValidation(o)
		for _, e := range b.GetEntries() {
			e.SetValidation(o)
			e.Addenda02.SetValidation(o)
			for _, a := range e.Addenda05 {
				a.SetValidation(o)
			}
			e.Addenda99.SetValidation(o)
			e.Addenda99Dishonored.SetValidation(o)
			e.Addenda99Contested.SetValidation(o)
		}
		for _, e := range b.GetADVEntries() {
			e.SetValidation(o)
			e.Addenda99.SetValidation(o)
		}
	}
	for i := range f.IATBatches {
		b := &f.IATBatches[i]
		b.Header.SetValidation(o)
		b.Control.SetValidation(o)
		for _, e := range b.Entries {
			e.SetValidation(o)
			e.Addenda10.SetValidation(o)
			e.Addenda11.SetValidation(o)
			e.Addenda12.SetValidation(o)
			e.Addenda13.SetValidation(o)
			e.Addenda14.SetValidation(o)
			e.Addenda15.SetValidation(o)
			e.Addenda16.SetValidation(o)
			for _, a := range e.Addenda17 {
				a.SetValidation(o)
			}
			for _, a := range e.Addenda18 {
				a.SetValidation(o)
			}
			e.Addenda99.SetValidation(o)
		}
	}
}

// ValidAll is File.Validate plus IATBatch.Validate of every IAT batch and Batch.Validate of the
// batches of an ADV file: File.ValidateWith looks into neither.
func ValidAll(f *ach.File) error {
	if err := f.Validate(); err != nil {
		return err
	}
	if f.IsADV() {
		for _, b := range f.Batches {
			if err := b.Validate(); err != nil {
				return err
			}
		}
	}
	for i := range f.IATBatches {
		if err := f.IATBatches[i].Validate(); err != nil {
			return err
		}
	}
	return nil
}

// OptVariant describes one way a file can depend on the ValidateOpts stored on it.
type OptVariant struct {
	Name string
	// Flag is the ValidateOpts field that forgives the damage.
	Flag string
	// Level: where the library looks the flag up — "file" (File / FileHeader), "batch"
	// (Batch / IATBatch) or "record" (the record's own option pointer: only ApplyOptsDeep or
	// the Reader put it there).
	Level string
	// Stale: the damage sits in a batch control record, which Batch.Create recomputes; the
	// file is valid and a fixed point of File.Create, but its batches are not fixed points of
	// Batch.Create (the form a file has after ach.Reader read it under the flag).
	Stale bool
	// NoJSON: the option set cannot be serialised (CheckTransactionCode is a function).
	NoJSON bool
	// Base draws a file the variant applies to with high probability.
	Base func(r *rng.R) *ach.File

	set    func(o *ach.ValidateOpts)
	damage func(r *rng.R, g *ach.File) bool
}

func anyFile(r *rng.R) *ach.File {
	return File(r, Opts{Addenda: true, MaxBatches: 3, IAT: r.Chance(1, 4), Returns: r.Chance(1, 3), NOC: r.Chance(1, 4)})
}

func forwardFile(r *rng.R) *ach.File {
	return File(r, Opts{ForwardOnly: true, Addenda: true, MaxBatches: 3, IAT: r.Chance(1, 3)})
}

func stdForwardFile(r *rng.R) *ach.File {
	return File(r, Opts{ForwardOnly: true, Addenda: true, MinBatches: 2, MaxBatches: 4,
		SECs: []string{ach.PPD, ach.CCD, ach.WEB, ach.CTX, ach.TEL, ach.CIE, ach.ARC}})
}

func returnsFile(r *rng.R) *ach.File {
	secs := []string{ach.PPD, ach.CCD, ach.WEB, ach.CTX, ach.TEL, ach.ARC, ach.POS}
	f := ach.NewFile()
	f.SetHeader(Header(r, Opts{}))
	odfi := ValidRouting(r)[:8]
	n := r.Range(1, 3)
	for i := 0; i < n; i++ {
		kind := []string{KindReturn, KindReturn, KindDishonored, KindContested, KindForward}[r.Intn(5)]
		if i == 0 && kind == KindForward {
			kind = KindReturn
		}
		f.AddBatch(BatchOfKind(r, rng.Pick(r, secs), odfi, i+1, kind, Opts{Addenda: true}))
	}
	if r.Chance(1, 4) {
		f.AddIATBatch(IATBatch(r, odfi, n+1, Opts{Returns: true}))
	}
	if _, err := finish(f); err != nil {
		return nil
	}
	return f
}

func ctxFile(r *rng.R) *ach.File {
	return FileOfSEC(r, ach.CTX, Opts{Addenda: true, MaxBatches: 2, Returns: r.Chance(1, 4)})
}

func advOrAny(r *rng.R) *ach.File {
	if r.Chance(1, 4) {
		return ADVFile(r)
	}
	return anyFile(r)
}

// forwardStd reports whether b is a standard (non-ADV) forward batch.
func forwardStd(b ach.Batcher) bool {
	return b.GetHeader().StandardEntryClassCode != ach.ADV && b.Category() == ach.CategoryForward
}

// foreignTraces gives every forward entry of the file a trace number that does not start with
// its batch's ODFI; ascending keeps them in ascending order within each batch.
func foreignTraces(r *rng.R, g *ach.File, ascending bool) bool {
	n := r.Range(1000, 5000)
	touched := false
	next := func() int {
		if ascending {
			n += r.Range(1, 9)
			return n
		}
		return r.Range(1, 9999999)
	}
	for _, b := range g.Batches {
		if !forwardStd(b) {
			continue
		}
		seen := map[int]bool{}
		for _, e := range b.GetEntries() {
			if e.IndividualName == "OFFSET" {
				return false // Batch.Create removes and re-adds offset entries: a C05 matter
			}
			k := next()
			for seen[k] {
				k = next()
			}
			seen[k] = true
			e.TraceNumber = fmt.Sprintf("99887766%07d", k)
			for _, a := range e.Addenda05 {
				a.EntryDetailSequenceNumber = k
			}
			if e.Addenda02 != nil {
				e.Addenda02.TraceNumber = e.TraceNumber
			}
			touched = true
		}
	}
	for i := range g.IATBatches {
		seen := map[int]bool{}
		for _, e := range g.IATBatches[i].Entries {
			if e.Category != ach.CategoryForward {
				continue
			}
			k := next()
			for seen[k] {
				k = next()
			}
			seen[k] = true
			e.TraceNumber = fmt.Sprintf("99887766%07d", k)
			touched = true
		}
	}
	return touched
}

// shortTraces numbers the entries of every standard forward batch with bare integers, ascending in the raw
// string order Batch.isSequenceAscending uses ("10" < "117" < "9").
func shortTraces(r *rng.R, g *ach.File) bool {
	if len(g.IATBatches) > 0 {
		return false
	}
	touched := false
	used := map[int]bool{}
	for _, b := range g.Batches {
		if !forwardStd(b) {
			return false
		}
		es := b.GetEntries()
		var ks []string
		for len(ks) < len(es) {
			k := r.Range(1, 400)
			if !used[k] {
				used[k] = true
				ks = append(ks, strconv.Itoa(k))
			}
		}
		sort.Strings(ks)
		for i, e := range es {
			if e.IndividualName == "OFFSET" {
				return false
			}
			e.TraceNumber = ks[i]
			n, _ := strconv.Atoi(ks[i])
			for _, a := range e.Addenda05 {
				a.EntryDetailSequenceNumber = n
			}
			if e.Addenda02 != nil {
				e.Addenda02.TraceNumber = e.TraceNumber
			}
			touched = true
		}
	}
	return touched
}

// special holds characters isAlphanumeric refuses: they need AllowSpecialCharacters.
var special = []rune{0xA7, 0xA9, 0xB5, 0x0100, 0x017E, 0x20AC, 0x2022}

func withSpecial(r *rng.R, s string, max int) string {
	rs := []rune(s)
	c := special[r.Intn(len(special))]
	switch {
	case len(rs) == 0:
		return string(c)
	case len(rs) < max && r.Bool():
		// keep the first and the last rune non-blank
		k := r.Intn(len(rs))
		rs = append(rs[:k+1], rs[k:]...)
		rs[k] = c
	default:
		rs[r.Intn(len(rs))] = c
	}
	return string(rs)
}

// hasByteSlicedName: SECs whose IndividualName is a composite the library slices by byte.
func hasByteSlicedName(sec string) bool {
	switch sec {
	case ach.TRC, ach.XCK, ach.CTX, ach.ATX, ach.TRX, ach.POP, ach.SHR:
		return true
	}
	return false
}

var optVariants = []*OptVariant{
	{
		Name: "bypass-origin", Flag: "BypassOriginValidation", Level: "file", Base: anyFile,
		set: func(o *ach.ValidateOpts) { o.BypassOriginValidation = true },
		damage: func(r *rng.R, g *ach.File) bool {
			g.Header.ImmediateOrigin = "000000000"
			return true
		},
	},
	{
		Name: "bypass-origin-traces", Flag: "BypassOriginValidation", Level: "batch", Base: forwardFile,
		set:    func(o *ach.ValidateOpts) { o.BypassOriginValidation = true },
		damage: func(r *rng.R, g *ach.File) bool { return foreignTraces(r, g, true) },
	},
	{
		// trace numbers stored as bare sequence numbers of mixed lengths ("9", "10", "117"): the written field is
		// zero-padded, the strings the library orders, keys and compares are not
		Name: "short-trace-numbers", Flag: "BypassOriginValidation", Level: "batch", Base: stdForwardFile,
		set:    func(o *ach.ValidateOpts) { o.BypassOriginValidation = true },
		damage: shortTraces,
	},
	{
		Name: "bypass-destination", Flag: "BypassDestinationValidation", Level: "file", Base: advOrAny,
		set: func(o *ach.ValidateOpts) { o.BypassDestinationValidation = true },
		damage: func(r *rng.R, g *ach.File) bool {
			d := []byte(g.Header.ImmediateDestination)
			if len(d) < 9 {
				return false
			}
			last := len(d) - 1
			d[last] = byte('0' + (int(d[last]-'0')+1+r.Intn(8))%10)
			g.Header.ImmediateDestination = string(d)
			return true
		},
	},
	{
		Name: "custom-trace-numbers", Flag: "CustomTraceNumbers", Level: "batch", Base: forwardFile,
		set:    func(o *ach.ValidateOpts) { o.CustomTraceNumbers = true },
		damage: func(r *rng.R, g *ach.File) bool { return foreignTraces(r, g, r.Bool()) },
	},
	{
		Name: "allow-zero-batches", Flag: "AllowZeroBatches", Level: "file", Base: anyFile,
		set: func(o *ach.ValidateOpts) { o.AllowZeroBatches = true },
		damage: func(r *rng.R, g *ach.File) bool {
			g.Batches, g.IATBatches, g.ReturnEntries, g.NotificationOfChange = nil, nil, nil, nil
			return true
		},
	},
	{
		Name: "allow-missing-file-header", Flag: "AllowMissingFileHeader", Level: "file", Base: anyFile,
		set: func(o *ach.ValidateOpts) { o.AllowMissingFileHeader = true },
		damage: func(r *rng.R, g *ach.File) bool {
			// what ach.Reader leaves in File.Header when the text has no file header record
			g.Header = ach.NewFileHeader()
			return true
		},
	},
	{
		Name: "unordered-batch-numbers", Flag: "AllowUnorderedBatchNumbers", Level: "file", Base: stdForwardFile,
		set: func(o *ach.ValidateOpts) { o.AllowUnorderedBatchNumbers = true },
		damage: func(r *rng.R, g *ach.File) bool {
			if len(g.Batches) < 2 || g.IsADV() {
				return false
			}
			i := r.Intn(len(g.Batches) - 1)
			a, b := g.Batches[i], g.Batches[i+1]
			na, nb := a.GetHeader().BatchNumber, b.GetHeader().BatchNumber
			if na < 2 { // File.Create renumbers a batch whose number is <= 1
				na, nb = na+1, nb+1
			}
			a.GetHeader().BatchNumber, b.GetHeader().BatchNumber = nb, na
			a.GetControl().BatchNumber, b.GetControl().BatchNumber = nb, na
			return true
		},
	},
	{
		Name: "company-identification-mismatch", Flag: "BypassCompanyIdentificationMatch", Level: "batch", Stale: true, Base: anyFile,
		set: func(o *ach.ValidateOpts) { o.BypassCompanyIdentificationMatch = true },
		damage: func(r *rng.R, g *ach.File) bool {
			ok := false
			for _, b := range g.Batches {
				if c := b.GetControl(); c != nil && !isADV(b) && (!ok || r.Bool()) {
					c.CompanyIdentification = "X" + strconv.Itoa(r.Range(10000000, 99999999))
					ok = true
				}
			}
			return ok
		},
	},
	{
		Name: "unequal-service-class", Flag: "UnequalServiceClassCode", Level: "batch", Stale: true, Base: advOrAny,
		set: func(o *ach.ValidateOpts) { o.UnequalServiceClassCode = true },
		damage: func(r *rng.R, g *ach.File) bool {
			other := func(c int) int {
				for {
					if k := []int{ach.MixedDebitsAndCredits, ach.CreditsOnly, ach.DebitsOnly}[r.Intn(3)]; k != c {
						return k
					}
				}
			}
			ok := false
			for _, b := range g.Batches {
				if ok && r.Bool() {
					continue
				}
				if c := b.GetControl(); c != nil && !isADV(b) {
					c.ServiceClassCode = other(c.ServiceClassCode)
					ok = true
				} else if c := b.GetADVControl(); c != nil {
					c.ServiceClassCode = ach.MixedDebitsAndCredits
					ok = true
				}
			}
			for i := range g.IATBatches {
				if c := g.IATBatches[i].Control; c != nil && (!ok || r.Bool()) {
					c.ServiceClassCode = other(c.ServiceClassCode)
					ok = true
				}
			}
			return ok
		},
	},
	{
		Name: "unequal-addenda-counts-control", Flag: "UnequalAddendaCounts", Level: "batch", Stale: true, Base: advOrAny,
		set: func(o *ach.ValidateOpts) { o.UnequalAddendaCounts = true },
		damage: func(r *rng.R, g *ach.File) bool {
			ok := false
			for _, b := range g.Batches {
				if ok && r.Bool() {
					continue
				}
				if c := b.GetControl(); c != nil && !isADV(b) {
					c.EntryAddendaCount += r.Range(1, 3)
					ok = true
				} else if c := b.GetADVControl(); c != nil {
					c.EntryAddendaCount += r.Range(1, 3)
					ok = true
				}
			}
			for i := range g.IATBatches {
				if c := g.IATBatches[i].Control; c != nil && (!ok || r.Bool()) {
					c.EntryAddendaCount += r.Range(1, 3)
					ok = true
				}
			}
			return ok
		},
	},
	{
		Name: "unequal-addenda-counts-ctx", Flag: "UnequalAddendaCounts", Level: "batch", Base: ctxFile,
		set: func(o *ach.ValidateOpts) { o.UnequalAddendaCounts = true },
		damage: func(r *rng.R, g *ach.File) bool {
			ok := false
			for _, b := range g.Batches {
				if b.GetHeader().StandardEntryClassCode != ach.CTX {
					continue
				}
				for _, e := range b.GetEntries() {
					if e.IndividualName == "OFFSET" {
						return false
					}
					if ok && r.Bool() {
						continue
					}
					n, _ := strconv.Atoi(e.CATXAddendaRecordsField())
					ind := e.AddendaRecordIndicator
					e.SetCATXAddendaRecords(n + r.Range(1, 5)) // also overwrites the indicator
					e.AddendaRecordIndicator = ind
					ok = true
				}
			}
			return ok
		},
	},
	{
		Name: "invalid-amounts", Flag: "AllowInvalidAmounts", Level: "batch", Base: anyFile,
		set: func(o *ach.ValidateOpts) { o.AllowInvalidAmounts = true },
		damage: func(r *rng.R, g *ach.File) bool {
			ok := false
			for _, b := range g.Batches {
				if isADV(b) {
					continue
				}
				for _, e := range b.GetEntries() {
					if e.IndividualName == "OFFSET" {
						return false
					}
					if ok && r.Chance(2, 3) {
						continue
					}
					switch {
					case e.Addenda98 != nil || e.Addenda98Refused != nil:
						continue // BatchCOR.Validate wants zero totals whatever the options
					case e.Amount == 0:
						e.Amount = r.Range(1, 99999) // a prenote / zero-dollar entry with an amount
					case e.Category == ach.CategoryForward:
						e.Amount = 0 // a live entry without one
					default:
						continue
					}
					ok = true
				}
			}
			return ok
		},
	},
	{
		Name: "zero-entry-amount", Flag: "AllowZeroEntryAmount", Level: "batch", Base: forwardFile,
		set: func(o *ach.ValidateOpts) { o.AllowZeroEntryAmount = true },
		damage: func(r *rng.R, g *ach.File) bool {
			ok := false
			for _, b := range g.Batches {
				if !forwardStd(b) {
					continue
				}
				for _, e := range b.GetEntries() {
					if e.IndividualName == "OFFSET" {
						return false
					}
					if e.Amount != 0 && (!ok || r.Chance(1, 3)) {
						e.Amount = 0
						ok = true
					}
				}
			}
			return ok
		},
	},
	{
		Name: "invalid-check-digit", Flag: "AllowInvalidCheckDigit", Level: "record", Base: anyFile,
		set: func(o *ach.ValidateOpts) { o.AllowInvalidCheckDigit = true },
		damage: func(r *rng.R, g *ach.File) bool {
			ok := false
			for _, b := range g.Batches {
				for _, e := range b.GetEntries() {
					if ok && r.Bool() {
						continue
					}
					d, _ := strconv.Atoi(e.CheckDigit)
					e.CheckDigit = strconv.Itoa((d + 1 + r.Intn(8)) % 10)
					ok = true
				}
			}
			return ok
		},
	},
	{
		Name: "custom-return-codes", Flag: "CustomReturnCodes", Level: "record", Base: returnsFile,
		set: func(o *ach.ValidateOpts) { o.CustomReturnCodes = true },
		damage: func(r *rng.R, g *ach.File) bool {
			ok := false
			code := func() string {
				return "R" + []string{"00", "48", "49", "54", "60", "86", "90", "97", "98", "99"}[r.Intn(10)]
			}
			for _, b := range g.Batches {
				for _, e := range b.GetEntries() {
					if ok && r.Bool() {
						continue
					}
					if e.Addenda99 == nil {
						continue
					}
					e.Addenda99.ReturnCode = code()
					ok = true
				}
				for _, e := range b.GetADVEntries() {
					if e.Addenda99 != nil && (!ok || r.Bool()) {
						e.Addenda99.ReturnCode = code()
						ok = true
					}
				}
			}
			for i := range g.IATBatches {
				for _, e := range g.IATBatches[i].Entries {
					if e.Addenda99 != nil && (!ok || r.Bool()) {
						e.Addenda99.ReturnCode = code()
						ok = true
					}
				}
			}
			return ok
		},
	},
	{
		Name: "special-characters", Flag: "AllowSpecialCharacters", Level: "record", Base: advOrAny,
		set: func(o *ach.ValidateOpts) { o.AllowSpecialCharacters = true },
		damage: func(r *rng.R, g *ach.File) bool {
			// the Reader sniffs the character set from the first 1024 bytes: the file header
			// always gets one of the characters (see the package comment on NonASCII)
			g.Header.ImmediateOriginName = withSpecial(r, g.Header.ImmediateOriginName, 23)
			if r.Bool() {
				g.Header.ImmediateDestinationName = withSpecial(r, g.Header.ImmediateDestinationName, 23)
			}
			for _, b := range g.Batches {
				h := b.GetHeader()
				if r.Chance(1, 3) {
					// the ADV batch control repeats the company name as ACHOperatorData (19 columns)
					h.CompanyName = withSpecial(r, h.CompanyName, 16)
				}
				if r.Chance(1, 4) && !equalFold(h.CompanyEntryDescription, "PRENOTE", "REDEPCHECK", "AUTOENROLL") {
					h.CompanyEntryDescription = withSpecial(r, h.CompanyEntryDescription, 10)
				}
				for _, e := range b.GetEntries() {
					if e.IndividualName == "OFFSET" {
						continue
					}
					if r.Chance(1, 2) && !hasByteSlicedName(h.StandardEntryClassCode) {
						e.IndividualName = withSpecial(r, e.IndividualName, 22)
					}
					for _, a := range e.Addenda05 {
						if r.Chance(1, 3) && h.StandardEntryClassCode != ach.ENR && h.StandardEntryClassCode != ach.DNE {
							a.PaymentRelatedInformation = withSpecial(r, a.PaymentRelatedInformation, 80)
						}
					}
					if e.Addenda02 != nil && r.Chance(1, 3) {
						e.Addenda02.TerminalLocation = withSpecial(r, e.Addenda02.TerminalLocation, 27)
					}
				}
				for _, e := range b.GetADVEntries() {
					if r.Chance(1, 2) {
						e.IndividualName = withSpecial(r, e.IndividualName, 22)
					}
				}
			}
			for i := range g.IATBatches {
				b := &g.IATBatches[i]
				if r.Chance(1, 3) {
					// behind column 50 of the IAT batch header (the Reader looks for "IAT" by byte)
					b.Header.CompanyEntryDescription = withSpecial(r, b.Header.CompanyEntryDescription, 10)
				}
				for _, e := range b.Entries {
					if e.Addenda10 != nil && r.Bool() {
						e.Addenda10.Name = withSpecial(r, e.Addenda10.Name, 35)
					}
					if e.Addenda11 != nil && r.Chance(1, 3) {
						e.Addenda11.OriginatorName = withSpecial(r, e.Addenda11.OriginatorName, 35)
					}
					if e.Addenda15 != nil && r.Chance(1, 3) {
						e.Addenda15.ReceiverStreetAddress = withSpecial(r, e.Addenda15.ReceiverStreetAddress, 35)
					}
				}
			}
			return true
		},
	},
	{
		Name: "check-transaction-code", Flag: "CheckTransactionCode", Level: "record", NoJSON: true, Base: stdForwardFile,
		set: func(o *ach.ValidateOpts) { o.CheckTransactionCode = AnyTransactionCode },
		damage: func(r *rng.R, g *ach.File) bool {
			ok := false
			for _, b := range g.Batches {
				if !forwardStd(b) {
					continue
				}
				for _, e := range b.GetEntries() {
					if e.IndividualName == "OFFSET" {
						return false
					}
					if e.Amount == 0 || (ok && r.Bool()) {
						continue
					}
					// codes the library does not know; their direction (credit: 1-4, debit: 5-9 in
					// the last digit) matches the entry they replace
					last := e.TransactionCode % 10
					if last >= 5 {
						e.TransactionCode = []int{65, 66, 75, 76, 95, 96}[r.Intn(6)]
					} else {
						e.TransactionCode = []int{61, 62, 71, 72, 91, 92}[r.Intn(6)]
					}
					ok = true
				}
			}
			return ok
		},
	},
}

func equalFold(s string, xs ...string) bool {
	for _, x := range xs {
		if len(s) == len(x) {
			eq := true
			for i := 0; i < len(s); i++ {
				a, b := s[i], x[i]
				if 'a' <= a && a <= 'z' {
					a -= 32
				}
				if a != b {
					eq = false
					break
				}
			}
			if eq {
				return true
			}
		}
	}
	return false
}

// AnyTransactionCode is the CheckTransactionCode function of the check-transaction-code
// variant: two digit codes are accepted.
func AnyTransactionCode(code int) error {
	if code < 10 || code > 99 {
		return fmt.Errorf("transaction code %d out of range", code)
	}
	return nil
}

// OptVariants lists the variants NeedsOpts can produce.
func OptVariants() []*OptVariant { return optVariants }

// OptVariantByName returns the named variant (nil when unknown).
func OptVariantByName(name string) *OptVariant {
	for _, v := range optVariants {
		if v.Name == name {
			return v
		}
	}
	return nil
}

// NeedsOpts turns a clone of a generated file into one that is valid ONLY under the option set
// stored on it, and returns the clone (nil if this file does not lend itself to the variant
// drawn).  One variant per relaxation flag of ValidateOpts that can matter to a stored file
// (see optVariants; PreserveSpaces only changes what Parse keeps and AllowMissingFileControl is
// looked at by the Reader only — TextNeedsOpts covers the reader side).  The variant is drawn
// among those that did damage to this file; the result validates (ValidAll), is a fixed point
// of File.Create, and without its options it does not validate.
func NeedsOpts(r *rng.R, f *ach.File) (out *ach.File, variant string) {
	// up to three draws: many variants need a particular kind of content
	for i := 0; i < 3; i++ {
		v := optVariants[r.Intn(len(optVariants))]
		if g := NeedsOptsVariant(r, f, v); g != nil {
			return g, v.Name
		}
		variant = v.Name
	}
	return nil, variant
}

// NeedsOptsOf generates a base file suited to the variant and damages it.
func NeedsOptsOf(r *rng.R, v *OptVariant) *ach.File {
	for i := 0; i < 4; i++ {
		var f *ach.File
		func() {
			defer func() {
				if recover() != nil {
					f = nil
				}
			}()
			f = v.Base(r)
		}()
		if f == nil {
			continue
		}
		if g := NeedsOptsVariant(r, f, v); g != nil {
			return g
		}
	}
	return nil
}

// NeedsOptsVariant applies one variant to a clone of f (nil: not applicable / not kept).
// AllowBatchOnly lets batch-level variants store their options on the batches alone (file: none), one time in
// four.  Only for checks of in-memory operations (segment, flatten, merge, reversal, create, purity): neither
// the NACHA text nor the JSON document can carry options that sit on a batch only, so such a file is outside
// the domain of the properties about those representations (C07, C17).
var AllowBatchOnly = false

func NeedsOptsVariant(r *rng.R, f *ach.File, v *OptVariant) (out *ach.File) {
	defer func() {
		if recover() != nil {
			out = nil
		}
	}()
	g := Clone(f)
	o := &ach.ValidateOpts{}
	v.set(o)
	if !v.damage(r, g) {
		reject(v, "not applicable")
		return nil
	}
	deep := v.Level == "record" || r.Chance(1, 3)
	switch {
	case deep:
		ApplyOptsDeep(g, o)
	case AllowBatchOnly && v.Level == "batch" && !v.Stale && r.Chance(1, 4):
		// the options live on the batches only (Batch.SetValidation / what MergeFiles leaves per batch); the
		// file carries none
		for _, b := range g.Batches {
			b.SetValidation(o)
		}
		for i := range g.IATBatches {
			g.IATBatches[i].SetValidation(o)
		}
		if r.Bool() {
			// … or another, unrelated option set (one relaxation the content does not need): operations that combine the
			// file's options with a batch's (SegmentFile, MergeFiles) then merge two different non-nil sets
			other := &ach.ValidateOpts{}
			switch {
			case !o.BypassDestinationValidation:
				other.BypassDestinationValidation = true
			case !o.AllowZeroBatches:
				other.AllowZeroBatches = true
			default:
				other.AllowInvalidAmounts = true
			}
			g.SetValidation(other)
		}
	default:
		ApplyOpts(g, o)
	}
	if err := retabulate(g, v.Stale); err != nil {
		reject(v, "create: "+err.Error())
		return nil
	}
	if err := ValidAll(g); err != nil {
		reject(v, "validate: "+err.Error())
		return nil
	}
	// only keep it if the options are really needed
	h := Clone(g)
	ApplyOptsDeep(h, nil)
	if h.Create() == nil && ValidAll(h) == nil {
		reject(v, "valid without the options")
		return nil
	}
	// and only if it is stable: a second tabulation changes nothing that is written
	if !v.Stale && !fixedPoint(g) {
		reject(v, "not a fixed point of Create")
		return nil
	}
	return g
}

// retabulate runs Batch.Create on every batch (not for stale variants: their damage lives in
// the batch control) and File.Create.
func retabulate(g *ach.File, stale bool) error {
	if !stale {
		for _, b := range g.Batches {
			if err := b.Create(); err != nil {
				return err
			}
		}
		for i := range g.IATBatches {
			if err := g.IATBatches[i].Create(); err != nil {
				return err
			}
		}
	}
	return g.Create()
}

var rejects = map[string]map[string]int{}

// reject counts why a variant was not kept (self test only; not synchronised).
func reject(v *OptVariant, why string) {
	why = strings.Map(func(c rune) rune {
		if c >= '0' && c <= '9' {
			return -1
		}
		return c
	}, why)
	if len(why) > 110 {
		why = why[:110]
	}
	if rejects[v.Name] == nil {
		rejects[v.Name] = map[string]int{}
	}
	rejects[v.Name][why]++
}

// Rejects reports, per variant, why NeedsOptsVariant returned nil so far.
func Rejects() map[string]map[string]int { return rejects }

// fixedPoint: Batch.Create of every batch and File.Create leave the rendered records unchanged.
func fixedPoint(g *ach.File) bool {
	before := renderAll(g)
	h := Clone(g)
	if retabulate(h, false) != nil {
		return false
	}
	return renderAll(h) == before
}

func renderAll(f *ach.File) string {
	bs, err := json.Marshal(f)
	if err != nil {
		return "error: " + err.Error()
	}
	return string(bs)
}

func isADV(b ach.Batcher) bool { return b.GetHeader().StandardEntryClassCode == ach.ADV }

// TextVariants: the reader-side relaxations.  AllowMissingFileHeader / AllowMissingFileControl
// are looked at by ach.Reader (a text without the file header / file control record is accepted);
// no stored, tabulated file depends on AllowMissingFileControl.
var TextVariants = []string{"text:missing-file-header-record", "text:missing-file-control-record"}

// TextNeedsOpts renders a generated valid file and removes the file header record or the file
// control record (the 9-padding is recomputed), so that ach.Reader accepts the text ONLY under
// the returned options (checked: error without them, none with them).  ok=false: not produced.
func TextNeedsOpts(r *rng.R, f *ach.File, variant string) (text string, o *ach.ValidateOpts, ok bool) {
	defer func() {
		if recover() != nil {
			ok = false
		}
	}()
	full, err := Text(f, false)
	if err != nil {
		return "", nil, false
	}
	lines := strings.Split(strings.TrimSuffix(full, "\n"), "\n")
	var kept []string
	for _, l := range lines {
		if strings.HasPrefix(l, "9999999999") && strings.Trim(l, "9") == "" {
			continue // padding
		}
		kept = append(kept, l)
	}
	if len(kept) < 3 {
		return "", nil, false
	}
	o = &ach.ValidateOpts{}
	switch variant {
	case "text:missing-file-header-record":
		o.AllowMissingFileHeader = true
		kept = kept[1:]
	case "text:missing-file-control-record":
		o.AllowMissingFileControl = true
		kept = kept[:len(kept)-1]
	default:
		return "", nil, false
	}
	for len(kept)%10 != 0 {
		kept = append(kept, strings.Repeat("9", 94))
	}
	text = strings.Join(kept, "\n") + "\n"
	if _, err := ach.NewReader(strings.NewReader(text)).Read(); err == nil {
		return "", nil, false
	}
	rd := ach.NewReader(strings.NewReader(text))
	rd.SetValidation(o)
	if _, err := rd.Read(); err != nil {
		reject(&OptVariant{Name: variant}, "read: "+err.Error())
		return "", nil, false
	}
	return text, o, true
}

package gen

import (
	"fmt"
	"strings"

	"github.com/moov-io/ach"
)

// spec is what the library's per-SEC Validate() admits.
type spec struct {
	credits, debits    []int  // forward transaction codes with a non-zero amount
	prenoteC, prenoteD []int  // prenotes (amount 0)
	zeroC              []int  // zero-dollar codes, amount 0 (ACK/ATX only under default options)
	maxAmount          int    // 0 = 99,999,999
	max05              int    // most Addenda05 per entry
	min05              int    // least Addenda05 per entry (DNE, ENR)
	addenda02          bool   // POS / SHR / MTE forward entries carry Addenda02
	desc               string // mandated CompanyEntryDescription
	origStatus         int    // mandated OriginatorStatusCode (DNE)
	noc                bool   // COR
}

var (
	allC  = []int{ach.CheckingCredit, ach.SavingsCredit, ach.GLCredit, ach.LoanCredit}
	allD  = []int{ach.CheckingDebit, ach.SavingsDebit, ach.GLDebit, ach.LoanDebit}
	allPC = []int{ach.CheckingPrenoteCredit, ach.SavingsPrenoteCredit, ach.GLPrenoteCredit, ach.LoanPrenoteCredit}
	allPD = []int{ach.CheckingPrenoteDebit, ach.SavingsPrenoteDebit, ach.GLPrenoteDebit}
	conC  = []int{ach.CheckingCredit, ach.SavingsCredit}
	conD  = []int{ach.CheckingDebit, ach.SavingsDebit}
	conPC = []int{ach.CheckingPrenoteCredit, ach.SavingsPrenoteCredit}
	conPD = []int{ach.CheckingPrenoteDebit, ach.SavingsPrenoteDebit}
	zero  = []int{ach.CheckingZeroDollarRemittanceCredit, ach.SavingsZeroDollarRemittanceCredit}
)

var specs = map[string]spec{
	ach.PPD: {credits: allC, debits: allD, prenoteC: allPC, prenoteD: allPD, max05: 1},
	ach.CCD: {credits: allC, debits: allD, prenoteC: allPC, prenoteD: allPD, max05: 1},
	ach.WEB: {credits: allC, debits: allD, prenoteC: allPC, prenoteD: allPD, max05: 1},
	ach.CTX: {credits: allC, debits: allD, prenoteC: allPC, prenoteD: allPD, max05: 4},
	ach.CIE: {credits: allC, prenoteC: allPC, max05: 1},
	ach.TEL: {debits: allD, prenoteD: allPD},
	ach.ARC: {debits: allD, prenoteD: allPD, maxAmount: 2500000},
	ach.BOC: {debits: allD, prenoteD: allPD, maxAmount: 2500000},
	ach.POP: {debits: allD, prenoteD: allPD, maxAmount: 2500000},
	ach.RCK: {debits: allD, prenoteD: allPD, maxAmount: 250000, desc: "REDEPCHECK"},
	ach.XCK: {debits: allD, prenoteD: allPD, maxAmount: 250000},
	ach.TRC: {debits: allD, prenoteD: allPD},
	ach.TRX: {debits: allD, prenoteD: allPD, max05: 4},
	ach.POS: {credits: conC, debits: conD, prenoteC: conPC, prenoteD: conPD, addenda02: true},
	ach.SHR: {credits: conC, debits: conD, prenoteC: conPC, prenoteD: conPD, addenda02: true},
	ach.MTE: {credits: conC, debits: conD, addenda02: true}, // amount must be > 0: no prenotes
	ach.ACK: {zeroC: zero, max05: 1},
	ach.ATX: {zeroC: zero, max05: 4},
	ach.DNE: {prenoteC: conPC, min05: 1, max05: 1, origStatus: 2},
	ach.ENR: {prenoteC: conPC, min05: 1, max05: 3, desc: "AUTOENROLL"},
	ach.COR: {noc: true},
}

// canReturn reports whether a batch of this SEC can be a return batch: DNE demands
// exactly one Addenda05 which a return must not have, COR demands Addenda98.
func canReturn(sec string) bool {
	_, ok := specs[sec]
	return ok && sec != ach.DNE && sec != ach.COR
}

var offsetSECs = map[string]bool{ach.PPD: true, ach.CCD: true, ach.WEB: true, ach.CTX: true}

// batch builds and creates one standard batch.
func (x *g) batch(sec, odfi string, batchNumber int, kind string) (ach.Batcher, error) {
	sp, ok := specs[sec]
	if !ok {
		return nil, fmt.Errorf("gen: unknown standard SEC code %q", sec)
	}

	// direction: 'C' credits only, 'D' debits only, 'M' mixed
	hasC := len(sp.credits)+len(sp.prenoteC)+len(sp.zeroC) > 0
	hasD := len(sp.debits)+len(sp.prenoteD) > 0
	dir := byte('M')
	switch {
	case sp.noc:
		dir = "CDM"[x.r.Intn(3)]
	case hasC && hasD:
		dir = "CDM"[x.r.Intn(3)]
	case hasC:
		dir = 'C'
	default:
		dir = 'D'
	}

	bh := ach.NewBatchHeader()
	switch {
	case dir == 'M' || x.r.Chance(1, 4):
		bh.ServiceClassCode = ach.MixedDebitsAndCredits
	case dir == 'C':
		bh.ServiceClassCode = ach.CreditsOnly
	default:
		bh.ServiceClassCode = ach.DebitsOnly
	}
	bh.StandardEntryClassCode = sec
	bh.CompanyName = x.text(16, aText)
	if x.r.Chance(1, 2) {
		bh.CompanyDiscretionaryData = x.text(20, aText)
	}
	bh.CompanyEntryDescription = x.text(10, aText)
	prenoteBatch := false
	switch {
	case sp.desc != "":
		bh.CompanyEntryDescription = sp.desc
	case kind == KindForward && !sp.noc && len(sp.prenoteC)+len(sp.prenoteD) > 0 && x.r.Chance(1, 16):
		// a batch described as PRENOTE must have zero amounts only
		bh.CompanyEntryDescription = "PRENOTE"
		prenoteBatch = true
	case strings.EqualFold(bh.CompanyEntryDescription, "PRENOTE"):
		bh.CompanyEntryDescription = "PAYROLL"
	}
	bh.CompanyDescriptiveDate = x.pickStr("", x.date(), "AUG 16", "SD1100", "SD1300")
	bh.EffectiveEntryDate = x.date()
	if x.r.Chance(1, 4) {
		bh.SettlementDate = julian[x.r.Intn(len(julian))]
	}
	bh.OriginatorStatusCode = x.pickInt(1, 1, 2)
	if sp.origStatus != 0 {
		bh.OriginatorStatusCode = sp.origStatus
	}
	bh.ODFIIdentification = odfi
	bh.BatchNumber = batchNumber
	x.companyIdentification(bh)

	b, err := ach.NewBatch(bh)
	if err != nil {
		return nil, err
	}

	n := x.r.Range(1, x.o.MaxEntries)
	seq := 1
	if x.r.Chance(1, 3) {
		seq = x.r.Range(2, 9000000)
	}
	for i := 0; i < n; i++ {
		credit := dir == 'C' || (dir == 'M' && x.r.Bool())
		if dir == 'M' && n > 1 && i < 2 {
			credit = i == 0 // a mixed batch of two or more entries really is mixed
		}
		var e *ach.EntryDetail
		if kind == KindForward {
			e = x.forwardEntry(sec, sp, credit, prenoteBatch)
		} else {
			e = x.returnEntry(sec, sp, credit, kind)
		}
		e.SetTraceNumber(odfi, seq)
		b.AddEntry(e)
		if x.r.Chance(3, 4) {
			seq++
		} else {
			seq += x.r.Range(2, 97)
		}
	}

	if (kind == KindForward || (x.o.OffsetReturns && kind == KindReturn)) && x.o.Offset && offsetSECs[sec] && x.r.Chance(1, 3) {
		b.WithOffset(&ach.Offset{
			RoutingNumber: x.routing(),
			AccountNumber: x.text(17, aIdent),
			AccountType:   ach.OffsetAccountType(x.pickStr(string(ach.OffsetChecking), string(ach.OffsetSavings))),
			Description:   x.text(2, aText),
		})
	}

	if err := b.Create(); err != nil {
		return nil, fmt.Errorf("%s batch.Create: %w", sec, err)
	}
	return b, nil
}

// companyIdentification sets a CompanyIdentification (ASCII: BatchControl.Parse slices
// by byte) such that the rendered header can not be mistaken for an IAT header by
// Reader.parseBH, which looks at bytes 50..53 and 4..20 of the line.
func (x *g) companyIdentification(bh *ach.BatchHeader) {
	for i := 0; ; i++ {
		switch x.r.Intn(3) {
		case 0:
			bh.CompanyIdentification = x.digitsN(9) // EIN / routing number
		case 1:
			bh.CompanyIdentification = string(x.pick("139")) + x.digitsN(9) // ICD + EIN
		default:
			bh.CompanyIdentification = x.text(10, aIdentASCII)
		}
		line := bh.String()
		if len(line) >= 53 && line[50:53] != ach.IAT && strings.TrimSpace(line[4:20]) != ach.IATCOR {
			return
		}
		retry("batch header would be read as an IAT header: " + line)
		if i > 8 {
			bh.CompanyName = "COMPANY " + x.digitsN(4)
			bh.CompanyDiscretionaryData = ""
		}
	}
}

// baseEntry fills the fields every SEC shares.
func (x *g) baseEntry(code, amount int) *ach.EntryDetail {
	e := ach.NewEntryDetail()
	e.TransactionCode = code
	e.SetRDFI(x.routing())
	e.DFIAccountNumber = x.text(17, aIdent)
	e.Amount = amount
	e.IdentificationNumber = x.text(15, aIdent)
	e.IndividualName = x.name(22)
	e.DiscretionaryData = x.text(2, aText)
	e.Category = ach.CategoryForward
	return e
}

// name is free text that is never the reserved offset name.
func (x *g) name(max int) string {
	s := x.text(max, aText)
	if strings.EqualFold(s, "OFFSET") {
		s = "OFFSET CO"
	}
	return s
}

var cardTxnTypes = []string{"01", "02", "03", "11", "12", "13", "21", "99"}

// codeAndAmount chooses a forward transaction code and a matching amount.
func (x *g) codeAndAmount(sp spec, credit, prenoteOnly bool) (int, int) {
	normal, pre := sp.debits, sp.prenoteD
	if credit {
		normal, pre = sp.credits, sp.prenoteC
	}
	if credit && len(sp.zeroC) > 0 {
		return sp.zeroC[x.r.Intn(len(sp.zeroC))], 0
	}
	if len(pre) > 0 && (prenoteOnly || len(normal) == 0 || x.r.Chance(1, 8)) {
		return pre[x.r.Intn(len(pre))], 0
	}
	return normal[x.r.Intn(len(normal))], x.amount(sp.maxAmount)
}

func (x *g) forwardEntry(sec string, sp spec, credit, prenoteOnly bool) *ach.EntryDetail {
	if sp.noc {
		return x.corEntry(credit)
	}
	code, amount := x.codeAndAmount(sp, credit, prenoteOnly)
	e := x.baseEntry(code, amount)
	x.shapeEntry(sec, e)

	n05 := sp.min05
	if x.o.Addenda && sp.max05 > n05 {
		n05 = x.r.Range(sp.min05, sp.max05)
	}
	switch sec {
	case ach.CTX, ach.ATX, ach.TRX:
		x.catx(e, n05)
	}
	for i := 0; i < n05; i++ {
		a := ach.NewAddenda05()
		switch sec {
		case ach.ENR:
			a.PaymentRelatedInformation = x.enrInfo()
		case ach.DNE:
			a.PaymentRelatedInformation = x.dneInfo()
		default:
			a.PaymentRelatedInformation = x.text(80, aText)
			if x.r.Chance(1, 12) {
				a.PaymentRelatedInformation = "" // the field is optional: eighty blanks on the record
			}
		}
		// Create() renumbers both; they only have to be non-zero for Validate
		a.SequenceNumber = i + 1
		a.EntryDetailSequenceNumber = 1
		e.AddAddenda05(a)
	}
	if n05 > 0 {
		e.AddendaRecordIndicator = 1
	}
	if sp.addenda02 {
		e.Addenda02 = x.addenda02()
		e.AddendaRecordIndicator = 1
	}
	return e
}

// shapeEntry overwrites the fields that have a SEC specific layout.  Composite fields
// the library cuts by byte stay ASCII.
func (x *g) shapeEntry(sec string, e *ach.EntryDetail) {
	switch sec {
	case ach.WEB, ach.TEL:
		e.SetPaymentType(x.pickStr("R", "S"))
	case ach.ARC, ach.BOC, ach.RCK:
		e.SetCheckSerialNumber(x.text(15, aIdent))
	case ach.POP:
		e.SetPOPCheckSerialNumber(x.text(9, aIdentASCII))
		e.SetPOPTerminalCity(x.text(4, aIdentASCII))
		e.SetPOPTerminalState(rngPickStr(x, states))
	case ach.TRC, ach.XCK:
		e.SetCheckSerialNumber(x.text(15, aIdent))
		e.SetProcessControlField(x.text(6, aIdentASCII))
		e.SetItemResearchNumber(x.text(16, aIdentASCII))
		if sec == ach.TRC || x.r.Bool() {
			e.SetItemTypeIndicator(x.pickStr("01", "11", "21", "31"))
		} else {
			e.DiscretionaryData = ""
		}
	case ach.POS:
		e.DiscretionaryData = cardTxnTypes[x.r.Intn(len(cardTxnTypes))]
	case ach.SHR:
		e.DiscretionaryData = cardTxnTypes[x.r.Intn(len(cardTxnTypes))]
		e.SetSHRCardExpirationDate(two(x.r.Range(1, 12)) + two(x.r.Range(18, 50)))
		e.SetSHRDocumentReferenceNumber(x.nonZeroDigits(11))
		e.SetSHRIndividualCardAccountNumber(x.nonZeroDigits(x.r.Range(13, 22)))
	case ach.MTE:
		// must not be blank / all zeros
		e.IdentificationNumber = x.nonZeroDigits(x.r.Range(1, 15))
	case ach.ACK, ach.ATX, ach.DNE, ach.ENR:
		e.SetOriginalTraceNumber(x.nonZeroDigits(15))
	case ach.TRX:
		e.SetItemTypeIndicator(x.pickStr("01", "11", "21", "31"))
	}
}

// catx lays out IndividualName of CTX / ATX / TRX: 4 digit addenda count, 16 character
// receiving company, 2 reserved blanks.
func (x *g) catx(e *ach.EntryDetail, addendaRecords int) {
	e.IndividualName = ""
	e.SetCATXAddendaRecords(addendaRecords) // also sets AddendaRecordIndicator to the count
	e.SetCATXReceivingCompany(x.text(16, aTextASCII))
	e.AddendaRecordIndicator = 0
	if addendaRecords > 0 {
		e.AddendaRecordIndicator = 1
	}
}

func rngPickStr(x *g, xs []string) string { return xs[x.r.Intn(len(xs))] }

func (x *g) addenda02() *ach.Addenda02 {
	a := ach.NewAddenda02()
	if x.r.Bool() {
		a.ReferenceInformationOne = x.text(7, aText)
	}
	if x.r.Bool() {
		a.ReferenceInformationTwo = x.text(3, aText)
	}
	a.TerminalIdentificationCode = x.text(6, aIdent)
	a.TransactionSerialNumber = x.text(6, aIdent)
	a.TransactionDate = x.mmdd()
	if x.r.Bool() {
		a.AuthorizationCodeOrExpireDate = x.text(6, aIdent)
	}
	a.TerminalLocation = x.text(27, aText)
	a.TerminalCity = x.text(15, aText)
	a.TerminalState = rngPickStr(x, states)
	return a
}

// enrInfo: TransactionCode*RDFI*CheckDigit*Account*Identification*Surname*FirstName*Class\
func (x *g) enrInfo() string {
	rt := x.routing()
	return fmt.Sprintf(`%d*%s*%s*%s*%s*%s*%s*%s\`,
		x.pickInt(22, 27, 32, 37), rt[:8], rt[8:], x.text(17, aSub), x.text(9, aSub),
		x.text(15, aSub), x.text(7, aSub), x.pickStr("A", "B", "1", "2"))
}

func (x *g) dneInfo() string {
	return fmt.Sprintf(`DATE OF DEATH*%s%s*CUSTOMER SSN*%s*AMOUNT*%s.%s\`,
		x.mmdd(), two(x.r.Range(0, 99)), x.digitsN(9), x.nonZeroDigits(x.r.Range(1, 8)), x.digitsN(2))
}

// ---------------------------------------------------------------- NOC

var changeCodes = []string{"C01", "C02", "C03", "C04", "C05", "C06", "C07", "C08", "C09", "C13", "C14"}
var refusedCodes = []string{"C61", "C62", "C63", "C64", "C65", "C66", "C67", "C68", "C69"}

func (x *g) returnNOCCode(credit bool) int {
	if credit {
		return x.pickInt(ach.CheckingReturnNOCCredit, ach.SavingsReturnNOCCredit, ach.GLReturnNOCCredit, ach.LoanReturnNOCCredit)
	}
	return x.pickInt(ach.CheckingReturnNOCDebit, ach.SavingsReturnNOCDebit, ach.GLReturnNOCDebit, ach.LoanReturnNOCDebit)
}

// correctedData follows the layout Addenda98.ParseCorrectedData expects for the code.
func (x *g) correctedData(code string) string {
	acct := x.text(17, aToken)
	switch code {
	case "C01":
		return acct
	case "C02", "C08":
		return x.routing()
	case "C03":
		return x.routing() + "   " + acct
	case "C04":
		return x.name(22)
	case "C05":
		return fmt.Sprint(x.pickInt(22, 27, 32, 37))
	case "C06":
		return fmt.Sprintf("%-17s   %d", acct, x.pickInt(22, 27, 32, 37))
	case "C07":
		return fmt.Sprintf("%s%-17s %d", x.routing(), acct, x.pickInt(22, 27, 32, 37))
	case "C09":
		return x.text(15, aIdentASCII)
	}
	return x.text(29, aText)
}

func (x *g) corEntry(credit bool) *ach.EntryDetail {
	e := x.baseEntry(x.returnNOCCode(credit), 0)
	e.Category = ach.CategoryNOC
	e.AddendaRecordIndicator = 1
	origTrace := x.nonZeroDigits(15)
	if x.o.NOC && x.r.Chance(1, 3) {
		a := ach.NewAddenda98Refused()
		a.RefusedChangeCode = rngPickStr(x, refusedCodes)
		a.OriginalTrace = origTrace
		a.OriginalDFI = origTrace[:8]
		a.ChangeCode = rngPickStr(x, changeCodes)
		a.CorrectedData = x.correctedData(a.ChangeCode)
		a.TraceSequenceNumber = x.nonZeroDigits(7)
		e.Addenda98Refused = a
	} else {
		a := ach.NewAddenda98()
		a.ChangeCode = rngPickStr(x, changeCodes)
		a.OriginalTrace = origTrace
		a.OriginalDFI = origTrace[:8]
		a.CorrectedData = x.correctedData(a.ChangeCode)
		e.Addenda98 = a
	}
	return e
}

// ---------------------------------------------------------------- returns

// plain return reason codes (the dishonored R61.. and contested R71.. ranges select other record types)
var returnCodes = []string{"R01", "R02", "R03", "R04", "R05", "R06", "R07", "R08", "R09", "R10", "R11", "R12",
	"R13", "R14", "R15", "R16", "R17", "R18", "R19", "R20", "R21", "R22", "R23", "R24", "R25", "R26", "R27",
	"R28", "R29", "R30", "R31", "R32", "R33", "R34", "R35", "R36", "R37", "R38", "R39", "R40", "R41", "R42",
	"R43", "R44", "R45", "R46", "R47", "R50", "R51", "R52", "R53", "R77", "R80", "R81", "R82", "R83", "R84", "R85"}
var dishonoredCodes = []string{"R61", "R62", "R67", "R68", "R69", "R70"}
var contestedCodes = []string{"R71", "R72", "R73", "R74", "R75", "R76"}

// returnEntry is an entry of a return / dishonored / contested batch: the SEC specific
// entry layout without forward addenda, a return transaction code where the SEC admits
// one, and the Addenda99 variant.
func (x *g) returnEntry(sec string, sp spec, credit bool, kind string) *ach.EntryDetail {
	var code, amount int
	switch {
	case len(sp.zeroC) > 0:
		// ACK admits 24/34 only, ATX also 21; amount must be 0
		code = sp.zeroC[x.r.Intn(len(sp.zeroC))]
		if sec == ach.ATX && x.r.Bool() {
			code = ach.CheckingReturnNOCCredit
		}
	case sec == ach.ENR:
		code = sp.prenoteC[x.r.Intn(len(sp.prenoteC))]
	default:
		if len(sp.credits) == 0 {
			credit = false
		}
		if len(sp.debits) == 0 {
			credit = true
		}
		code = x.returnNOCCode(credit)
		if sec == ach.POS || sec == ach.SHR || sec == ach.MTE {
			// card SECs: checking / savings only
			if credit {
				code = x.pickInt(ach.CheckingReturnNOCCredit, ach.SavingsReturnNOCCredit)
			} else {
				code = x.pickInt(ach.CheckingReturnNOCDebit, ach.SavingsReturnNOCDebit)
			}
		}
		amount = x.amount(sp.maxAmount)
		if x.r.Chance(1, 10) && sec != ach.MTE {
			amount = 0 // a returned prenote
		}
	}
	e := x.baseEntry(code, amount)
	x.shapeEntry(sec, e)

	n05 := 0
	if sec == ach.CTX && x.o.Addenda {
		n05 = x.r.Range(0, 3) // CTX is the one SEC whose returns may keep Addenda05
	}
	switch sec {
	case ach.CTX:
		// the count in the entry includes the Addenda99 (but not the dishonored / contested record)
		if kind == KindReturn {
			x.catx(e, n05+1)
		} else {
			x.catx(e, n05)
		}
	case ach.ATX, ach.TRX:
		x.catx(e, 0)
	}
	for i := 0; i < n05; i++ {
		a := ach.NewAddenda05()
		a.PaymentRelatedInformation = x.text(80, aText)
		a.SequenceNumber = i + 1
		a.EntryDetailSequenceNumber = 1
		e.AddAddenda05(a)
	}
	e.AddendaRecordIndicator = 1

	origTrace := x.nonZeroDigits(15)
	switch kind {
	case KindDishonored:
		a := ach.NewAddenda99Dishonored()
		a.DishonoredReturnReasonCode = rngPickStr(x, dishonoredCodes)
		a.OriginalEntryTraceNumber = origTrace
		a.OriginalReceivingDFIIdentification = x.routing()[:8]
		a.ReturnTraceNumber = x.nonZeroDigits(15)
		a.ReturnSettlementDate = julian[x.r.Intn(len(julian))]
		a.ReturnReasonCode = two(x.r.Range(1, 53))
		a.AddendaInformation = x.text(21, aText)
		e.Addenda99Dishonored = a
		e.Category = ach.CategoryDishonoredReturn
	case KindContested:
		a := ach.NewAddenda99Contested()
		a.ContestedReturnCode = rngPickStr(x, contestedCodes)
		a.OriginalEntryTraceNumber = origTrace
		a.DateOriginalEntryReturned = x.date()
		a.OriginalReceivingDFIIdentification = x.routing()[:8]
		a.OriginalSettlementDate = julian[x.r.Intn(len(julian))]
		a.ReturnTraceNumber = x.nonZeroDigits(15)
		a.ReturnSettlementDate = julian[x.r.Intn(len(julian))]
		a.ReturnReasonCode = two(x.r.Range(1, 53))
		a.DishonoredReturnTraceNumber = x.nonZeroDigits(15)
		a.DishonoredReturnSettlementDate = julian[x.r.Intn(len(julian))]
		a.DishonoredReturnReasonCode = x.pickStr("61", "62", "67", "68", "69", "70")
		e.Addenda99Contested = a
		e.Category = ach.CategoryDishonoredReturnContested
	default:
		a := ach.NewAddenda99()
		a.ReturnCode = rngPickStr(x, returnCodes)
		a.OriginalTrace = origTrace
		if x.r.Chance(1, 4) {
			a.DateOfDeath = x.date()
		}
		a.OriginalDFI = x.routing()[:8]
		if x.r.Chance(3, 4) {
			a.AddendaInformation = x.text(44, aText)
		}
		e.Addenda99 = a
		e.Category = ach.CategoryReturn
	}
	return e
}

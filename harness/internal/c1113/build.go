// Package c1113 builds real ach.File values from small JSON-serialisable
// specifications; shared by the C11 (SegmentFile) and C13 (Reversal) harnesses.
package c1113

import (
	"errors"
	"fmt"
	"strconv"
	"strings"

	"github.com/moov-io/ach"
)

// EntrySpec is one entry: transaction code, amount, a unique tag (stored in
// DFIAccountNumber as "T<tag>") and the number of Addenda05 records.
type EntrySpec struct {
	Code    int `json:"code"`
	Amount  int `json:"amount"`
	Tag     int `json:"tag"`
	Addenda int `json:"addenda,omitempty"`
}

// BatchSpec is one batch.  Kind: "std" (a Batcher of the given SEC), "iat", "adv".
type BatchSpec struct {
	Kind    string      `json:"kind"`
	SEC     string      `json:"sec"`
	SCC     int         `json:"scc"`
	Number  int         `json:"number"` // pre-set batch number (0 = let Create number it)
	Company string      `json:"company"`
	Desc    string      `json:"desc,omitempty"` // CompanyEntryDescription (default PAYROLL)
	Trace0  int         `json:"trace0"` // first trace sequence number (ascending from there)
	Entries []EntrySpec `json:"entries"`
}

type FileSpec struct {
	Batches []BatchSpec `json:"batches"`
}

const (
	ODFI     = "12104288"
	RDFI     = "231380104"
	Origin   = "121042882"
	Dest     = "231380104"
	OrigName = "My Bank Name"
	DestName = "Federal Reserve Bank"
	FwdDate  = "190816"
	FwdDesc  = "PAYROLL"
)

func header(b BatchSpec) *ach.BatchHeader {
	bh := ach.NewBatchHeader()
	bh.ServiceClassCode = b.SCC
	bh.CompanyName = "Payee Co"
	bh.CompanyIdentification = b.Company
	bh.StandardEntryClassCode = b.SEC
	bh.CompanyEntryDescription = FwdDesc
	if b.Desc != "" {
		bh.CompanyEntryDescription = b.Desc
	}
	bh.EffectiveEntryDate = FwdDate
	bh.ODFIIdentification = ODFI
	bh.BatchNumber = b.Number
	if b.Kind == "adv" {
		bh.OriginatorStatusCode = 0
	}
	return bh
}

func TagAccount(tag int) string { return "T" + strconv.Itoa(tag) }

// TagOf recovers the tag from an account number field.
func TagOf(acct string) int {
	s := strings.TrimSpace(acct)
	if !strings.HasPrefix(s, "T") {
		return -1
	}
	n, err := strconv.Atoi(s[1:])
	if err != nil {
		return -1
	}
	return n
}

func addenda05(i int) *ach.Addenda05 {
	a := ach.NewAddenda05()
	a.PaymentRelatedInformation = fmt.Sprintf("remittance %d", i)
	a.SequenceNumber = i
	return a
}

func stdEntry(b BatchSpec, e EntrySpec, seq int) *ach.EntryDetail {
	ed := ach.NewEntryDetail()
	ed.TransactionCode = e.Code
	ed.SetRDFI(RDFI)
	ed.DFIAccountNumber = TagAccount(e.Tag)
	ed.Amount = e.Amount
	ed.IdentificationNumber = "ID" + strconv.Itoa(e.Tag)
	ed.SetTraceNumber(ODFI, seq)
	ed.Category = ach.CategoryForward
	switch b.SEC {
	case ach.CTX:
		ed.SetCATXAddendaRecords(e.Addenda)
		ed.SetCATXReceivingCompany("Receiver Co")
	case ach.WEB:
		ed.IndividualName = "Name " + strconv.Itoa(e.Tag)
		ed.SetPaymentType("S")
	case ach.ARC, ach.BOC, ach.POP, ach.RCK:
		ed.IndividualName = "Name " + strconv.Itoa(e.Tag)
		ed.SetCheckSerialNumber("123456")
		if b.SEC == ach.POP {
			ed.SetPOPCheckSerialNumber("123456")
			ed.SetPOPTerminalCity("PHIL")
			ed.SetPOPTerminalState("PA")
		}
	default:
		ed.IndividualName = "Name " + strconv.Itoa(e.Tag)
	}
	for i := 1; i <= e.Addenda; i++ {
		ed.AddAddenda05(addenda05(i))
	}
	if e.Addenda > 0 {
		ed.AddendaRecordIndicator = 1
	}
	return ed
}

func advEntry(e EntrySpec, seq int) *ach.ADVEntryDetail {
	ed := ach.NewADVEntryDetail()
	ed.TransactionCode = e.Code
	ed.SetRDFI(RDFI)
	ed.DFIAccountNumber = TagAccount(e.Tag)
	ed.Amount = e.Amount
	ed.AdviceRoutingNumber = "121042882"
	ed.FileIdentification = "11131"
	ed.IndividualName = "Name"
	ed.ACHOperatorRoutingNumber = "01100001"
	ed.JulianDay = 50
	ed.SequenceNumber = seq
	return ed
}

func iatHeader(b BatchSpec) *ach.IATBatchHeader {
	bh := ach.NewIATBatchHeader()
	bh.ServiceClassCode = b.SCC
	bh.ForeignExchangeIndicator = "FF"
	bh.ForeignExchangeReferenceIndicator = 3
	bh.ISODestinationCountryCode = "US"
	bh.OriginatorIdentification = b.Company
	bh.StandardEntryClassCode = ach.IAT
	bh.CompanyEntryDescription = "TRADEPAYMT"
	bh.ISOOriginatingCurrencyCode = "CAD"
	bh.ISODestinationCurrencyCode = "USD"
	bh.ODFIIdentification = ODFI
	bh.EffectiveEntryDate = FwdDate
	bh.BatchNumber = b.Number
	return bh
}

func iatEntry(e EntrySpec, seq int) *ach.IATEntryDetail {
	ed := ach.NewIATEntryDetail()
	ed.TransactionCode = e.Code
	ed.SetRDFI("121042882")
	ed.AddendaRecords = 7
	ed.DFIAccountNumber = TagAccount(e.Tag)
	ed.Amount = e.Amount
	ed.SetTraceNumber(ODFI, seq)
	ed.Category = ach.CategoryForward

	a10 := ach.NewAddenda10()
	a10.TransactionTypeCode = "ANN"
	a10.ForeignPaymentAmount = 100000
	a10.ForeignTraceNumber = "928383-23938"
	a10.Name = "BEK Enterprises"
	a10.EntryDetailSequenceNumber = seq
	ed.Addenda10 = a10
	a11 := ach.NewAddenda11()
	a11.OriginatorName = "BEK Solutions"
	a11.OriginatorStreetAddress = "15 West Place Street"
	a11.EntryDetailSequenceNumber = seq
	ed.Addenda11 = a11
	a12 := ach.NewAddenda12()
	a12.OriginatorCityStateProvince = "JacobsTown*PA\\"
	a12.OriginatorCountryPostalCode = "US*19305\\"
	a12.EntryDetailSequenceNumber = seq
	ed.Addenda12 = a12
	a13 := ach.NewAddenda13()
	a13.ODFIName = "Wells Fargo"
	a13.ODFIIDNumberQualifier = "01"
	a13.ODFIIdentification = "121042882"
	a13.ODFIBranchCountryCode = "US"
	a13.EntryDetailSequenceNumber = seq
	ed.Addenda13 = a13
	a14 := ach.NewAddenda14()
	a14.RDFIName = "Citadel Bank"
	a14.RDFIIDNumberQualifier = "01"
	a14.RDFIIdentification = "231380104"
	a14.RDFIBranchCountryCode = "CA"
	a14.EntryDetailSequenceNumber = seq
	ed.Addenda14 = a14
	a15 := ach.NewAddenda15()
	a15.ReceiverIDNumber = "987465493213987"
	a15.ReceiverStreetAddress = "2121 Front Street"
	a15.EntryDetailSequenceNumber = seq
	ed.Addenda15 = a15
	a16 := ach.NewAddenda16()
	a16.ReceiverCityStateProvince = "LetterTown*AB\\"
	a16.ReceiverCountryPostalCode = "CA*80014\\"
	a16.EntryDetailSequenceNumber = seq
	ed.Addenda16 = a16
	return ed
}

// NewFile returns an empty file with the fixed header of the generators.
func NewFile() *ach.File {
	f := ach.NewFile()
	f.Header.ImmediateDestination = Dest
	f.Header.ImmediateOrigin = Origin
	f.Header.FileCreationDate = FwdDate
	f.Header.FileCreationTime = "1055"
	f.Header.ImmediateDestinationName = DestName
	f.Header.ImmediateOriginName = OrigName
	f.Header.FileIDModifier = "B"
	return f
}

// Build assembles the file: every batch is created with its own Create (so the
// library's batch validation runs), then File.Create; the caller decides what
// to do when File.Validate rejects the result.
func Build(fs FileSpec) (f *ach.File, err error) {
	defer func() {
		if r := recover(); r != nil {
			err = fmt.Errorf("panic while building: %v", r)
		}
	}()
	f = NewFile()
	for bi, b := range fs.Batches {
		t0 := b.Trace0
		if t0 <= 0 {
			t0 = 1
		}
		switch b.Kind {
		case "iat":
			ib := ach.NewIATBatch(iatHeader(b))
			for i, e := range b.Entries {
				ib.AddEntry(iatEntry(e, t0+i))
			}
			if err := ib.Create(); err != nil {
				return nil, fmt.Errorf("batch %d: %w", bi, err)
			}
			// Create re-derives nothing from the header's number; keep the pre-set one
			f.AddIATBatch(ib)
		case "adv":
			bt, err := ach.NewBatch(header(b))
			if err != nil {
				return nil, err
			}
			for i, e := range b.Entries {
				bt.AddADVEntry(advEntry(e, t0+i))
			}
			if err := bt.Create(); err != nil {
				return nil, fmt.Errorf("batch %d: %w", bi, err)
			}
			f.AddBatch(bt)
		default:
			bt, err := ach.NewBatch(header(b))
			if err != nil {
				return nil, err
			}
			for i, e := range b.Entries {
				bt.AddEntry(stdEntry(b, e, t0+i))
			}
			if err := bt.Create(); err != nil {
				return nil, fmt.Errorf("batch %d: %w", bi, err)
			}
			f.AddBatch(bt)
		}
	}
	if len(fs.Batches) == 0 {
		return nil, errors.New("no batches")
	}
	if err := f.Create(); err != nil {
		return nil, err
	}
	return f, nil
}

// Protect runs fn and converts a panic into an error.
func Protect(fn func() error) (err error, panicked bool) {
	defer func() {
		if r := recover(); r != nil {
			err = fmt.Errorf("panic: %v", r)
			panicked = true
		}
	}()
	return fn(), false
}

// Package optsdom is the domain "files that are valid ONLY under the ValidateOpts stored on
// them" (gen.NeedsOpts) together with what each file operation of the library owes such a file
// under the property that owns the operation.  One function per property; each returns the
// failures of the direct oracle with keys `<operation>:opts:<what>` (the variant is part of the
// case, not of the key, unless the key is a known limitation of one variant).
//
// Common statements (see Derived): the entries incl. trace numbers are conserved, every output
// validates under the options it carries (File.Validate + the IAT batches and, for ADV files,
// the batches themselves), the options are carried to the outputs (file: the same flag set;
// batches: at least the flags of the batch the entries come from and of the file), and the
// input is unchanged where the property says so.
package optsdom

import (
	"encoding/json"
	"fmt"
	"reflect"
	"sort"
	"strings"

	"github.com/moov-io/ach"

	"verifharness/internal/gen"
	"verifharness/internal/rng"
)

// Case identifies one file of the domain.
type Case struct {
	Variant string `json:"optsdom"`
	Seed    uint64 `json:"seed"`
	// Prop: the property whose statement failed (set in failure records; replay dispatches on it).
	Prop string `json:"prop,omitempty"`
}

// Build regenerates the file (nil: the seed does not yield one on this tree).
func (c Case) Build() (*ach.File, *gen.OptVariant) {
	v := gen.OptVariantByName(c.Variant)
	if v == nil {
		return nil, nil
	}
	return gen.NeedsOptsOf(rng.New(c.Seed), v), v
}

// Cases draws n cases round-robin over the variants.
func Cases(r *rng.R, n int) []Case {
	vs := gen.OptVariants()
	out := make([]Case, 0, n)
	for i := 0; i < n; i++ {
		out = append(out, Case{Variant: vs[i%len(vs)].Name, Seed: r.U64() >> 1})
	}
	return out
}

// Fail is one violated statement.
type Fail struct {
	Key  string
	What string
}

// ---------------------------------------------------------------- observations

// Flags lists the flags set in o (nil: none); a non-nil CheckTransactionCode counts as a flag.
func Flags(o *ach.ValidateOpts) []string {
	if o == nil {
		return nil
	}
	var out []string
	v := reflect.ValueOf(*o)
	t := v.Type()
	for i := 0; i < t.NumField(); i++ {
		switch f := v.Field(i); f.Kind() {
		case reflect.Bool:
			if f.Bool() {
				out = append(out, t.Field(i).Name)
			}
		case reflect.Func:
			if !f.IsNil() {
				out = append(out, t.Field(i).Name)
			}
		}
	}
	sort.Strings(out)
	return out
}

// Missing: the flags of want that have does not hold.
func Missing(have, want *ach.ValidateOpts) []string {
	h := map[string]bool{}
	for _, f := range Flags(have) {
		h[f] = true
	}
	var out []string
	for _, f := range Flags(want) {
		if !h[f] {
			out = append(out, f)
		}
	}
	return out
}

func sameFlags(a, b *ach.ValidateOpts) bool {
	return strings.Join(Flags(a), ",") == strings.Join(Flags(b), ",")
}

// BatchOpts / IATOpts: the option set stored on a batch (verif hooks of the repository).
func BatchOpts(b ach.Batcher) *ach.ValidateOpts { return ach.VerifBatchValidation(b) }
func IATOpts(b *ach.IATBatch) *ach.ValidateOpts { return ach.VerifIATBatchValidation(b) }
func stdEntryID(e *ach.EntryDetail) string {
	s := e.String()
	if e.Addenda02 != nil {
		s += "|" + e.Addenda02.String()
	}
	for _, a := range e.Addenda05 {
		s += "|05:" + a.PaymentRelatedInformation
	}
	if e.Addenda98 != nil {
		s += "|" + e.Addenda98.String()
	}
	if e.Addenda98Refused != nil {
		s += "|" + e.Addenda98Refused.String()
	}
	if e.Addenda99 != nil {
		s += "|" + e.Addenda99.String()
	}
	if e.Addenda99Dishonored != nil {
		s += "|" + e.Addenda99Dishonored.String()
	}
	if e.Addenda99Contested != nil {
		s += "|" + e.Addenda99Contested.String()
	}
	return s
}

// EntryIDs: the multiset of entries as sorted strings: everything that is written for the
// entry and its addenda (trace number included) — ADV entries without their sequence number,
// which SegmentFile re-assigns by design, IAT entries with their trace number unless noIATTrace.
func EntryIDs(f *ach.File, noIATTrace bool) []string {
	var out []string
	for _, b := range f.Batches {
		for _, e := range b.GetEntries() {
			out = append(out, stdEntryID(e))
		}
		for _, e := range b.GetADVEntries() {
			c := *e
			c.SequenceNumber = 0
			out = append(out, "ADV:"+c.String())
		}
	}
	for i := range f.IATBatches {
		for _, e := range f.IATBatches[i].Entries {
			s := e.String()
			if noIATTrace && len(s) >= 94 {
				s = s[:79]
			}
			if e.Addenda10 != nil {
				s += "|" + e.Addenda10.Name
			}
			out = append(out, "IAT:"+s)
		}
	}
	sort.Strings(out)
	return out
}

// StdEntryIDs is EntryIDs restricted to the entries of standard batches.
func StdEntryIDs(f *ach.File) []string {
	var out []string
	for _, b := range f.Batches {
		for _, e := range b.GetEntries() {
			out = append(out, stdEntryID(e))
		}
	}
	sort.Strings(out)
	return out
}

func sameIDs(a, b []string) bool { return strings.Join(a, "\n") == strings.Join(b, "\n") }

func diffIDs(a, b []string) string {
	m := map[string]int{}
	for _, x := range a {
		m[x]++
	}
	for _, x := range b {
		m[x]--
	}
	var out []string
	for k, v := range m {
		if v != 0 {
			out = append(out, fmt.Sprintf("%+d %q", -v, k))
		}
	}
	sort.Strings(out)
	if len(out) > 3 {
		out = append(out[:3], fmt.Sprintf("... (%d differences)", len(out)))
	}
	return strings.Join(out, " ; ")
}

// Snapshot: everything observable of a file: its JSON (records, controls, IDs), the flags stored
// on the file and on every batch.
func Snapshot(f *ach.File) string {
	bs, err := json.Marshal(f)
	if err != nil {
		return "marshal error: " + err.Error()
	}
	s := string(bs) + "\nfile:" + strings.Join(Flags(f.GetValidation()), ",")
	for _, b := range f.Batches {
		s += "\nbatch:" + strings.Join(Flags(BatchOpts(b)), ",")
	}
	for i := range f.IATBatches {
		s += "\niat:" + strings.Join(Flags(IATOpts(&f.IATBatches[i])), ",")
	}
	return s
}

func guard(fn func()) (p any) {
	defer func() { p = recover() }()
	fn()
	return nil
}

// mixedIAT: SegmentFile re-sequences the entries of a mixed IAT batch on purpose (unless the
// options keep the trace numbers).
func mixedIAT(g *ach.File) bool {
	for i := range g.IATBatches {
		if g.IATBatches[i].Header.ServiceClassCode == ach.MixedDebitsAndCredits {
			return true
		}
	}
	return false
}

func keepsTraces(o *ach.ValidateOpts) bool {
	return o != nil && (o.BypassOriginValidation || o.CustomTraceNumbers)
}

// CommonBatchFlags: the flags every batch of the file carries (in most domain files that is the file's own set;
// when the options sit on the batches only, or the file carries an unrelated set, it is the batches' set)
func CommonBatchFlags(in *ach.File) []string {
	var sets [][]string
	for _, b := range in.Batches {
		sets = append(sets, Flags(BatchOpts(b)))
	}
	for i := range in.IATBatches {
		sets = append(sets, Flags(IATOpts(&in.IATBatches[i])))
	}
	if len(sets) == 0 {
		return nil
	}
	var out []string
	for _, f := range sets[0] {
		all := true
		for _, s := range sets[1:] {
			found := false
			for _, g := range s {
				if g == f {
					found = true
				}
			}
			if !found {
				all = false
			}
		}
		if all {
			out = append(out, f)
		}
	}
	return out
}

func MissingFlags(have *ach.ValidateOpts, want []string) []string {
	h := map[string]bool{}
	for _, f := range Flags(have) {
		h[f] = true
	}
	var out []string
	for _, f := range want {
		if !h[f] {
			out = append(out, f)
		}
	}
	return out
}

// Derived checks a file an operation derived from `in`: it validates under the options it
// carries, the file carries the same flag set as the input, every batch at least the flags that
// every batch of the input carries (its entries come from one of them).
func Derived(op, what string, in, out *ach.File, add func(key, what string)) {
	if err := gen.ValidAll(out); err != nil {
		add(op+":opts:output-invalid", what+" does not validate under the options it carries: "+err.Error())
	}
	if !sameFlags(out.GetValidation(), in.GetValidation()) {
		add(op+":opts:file-options-not-carried", fmt.Sprintf("%s carries %v, the input carries %v", what, Flags(out.GetValidation()), Flags(in.GetValidation())))
	}
	for _, b := range out.Batches {
		if m := MissingFlags(BatchOpts(b), CommonBatchFlags(in)); len(m) > 0 {
			add(op+":opts:batch-options-not-carried", fmt.Sprintf("a batch of %s lacks %v of the batch its entries come from", what, m))
			break
		}
	}
	for i := range out.IATBatches {
		if m := MissingFlags(IATOpts(&out.IATBatches[i]), CommonBatchFlags(in)); len(m) > 0 {
			add(op+":opts:batch-options-not-carried", fmt.Sprintf("an IAT batch of %s lacks %v of the batch its entries come from", what, m))
			break
		}
	}
}

// Unsegmentable: a MIXED standard batch holds an entry whose transaction code is in neither the
// credit nor the debit list (valid only under CheckTransactionCode).  Credits-only and
// debits-only batches go to their file as they are.
func Unsegmentable(f *ach.File) bool {
	for _, b := range f.Batches {
		if b.GetHeader().ServiceClassCode != ach.MixedDebitsAndCredits {
			continue
		}
		for _, e := range b.GetEntries() {
			if _, ok := direction(e.TransactionCode); !ok {
				return true
			}
		}
	}
	return false
}

package optsdom

import (
	"encoding/json"
	"fmt"
	"reflect"
	"sort"
	"strconv"
	"strings"
	"time"

	"github.com/moov-io/ach"

	"verifharness/internal/gen"
	"verifharness/internal/rng"
)

type adder func(key, what string)

func collect(fs *[]Fail) adder {
	seen := map[string]bool{}
	return func(key, what string) {
		if !seen[key] {
			seen[key] = true
			*fs = append(*fs, Fail{Key: key, What: what})
		}
	}
}

// ---------------------------------------------------------------- C05

// direction of a standard transaction code by its last digit (1-4 credit, 5-9 debit; the
// regenerated tables of C03 prove this for every code the library knows); ok=false for a code
// outside the library's lists (possible under CheckTransactionCode: the library counts such an
// entry in neither total).
func direction(code int) (credit, ok bool) {
	if code < 21 || code > 56 {
		return false, false
	}
	switch code % 10 {
	case 1, 2, 3, 4:
		return true, true
	case 6, 7, 8, 9:
		return false, true
	case 5:
		return false, code == 55
	}
	return false, false
}

func lsd10(n int) int { return n % 10000000000 }

// arithmetic recomputes every control figure from the entries and compares.
func arithmetic(f *ach.File, add adder) {
	var fileCount, fileHash, fileDebit, fileCredit, records int
	records = 2
	for _, b := range f.Batches {
		count, hash, debit, credit := 0, 0, 0, 0
		for _, e := range b.GetEntries() {
			n := 1 + len(e.Addenda05)
			for _, p := range []bool{e.Addenda02 != nil, e.Addenda98 != nil, e.Addenda98Refused != nil, e.Addenda99 != nil, e.Addenda99Dishonored != nil, e.Addenda99Contested != nil} {
				if p {
					n++
				}
			}
			count += n
			r, _ := strconv.Atoi(firstN(e.RDFIIdentification, 8))
			hash += r
			if c, ok := direction(e.TransactionCode); ok && c {
				credit += e.Amount
			} else if ok {
				debit += e.Amount
			}
		}
		for _, e := range b.GetADVEntries() {
			count++
			if e.Addenda99 != nil {
				count++
			}
			r, _ := strconv.Atoi(firstN(e.RDFIIdentification, 8))
			hash += r
			if e.TransactionCode%2 == 1 {
				credit += e.Amount
			} else {
				debit += e.Amount
			}
		}
		var gc, gh, gd, gk int
		if c := b.GetADVControl(); c != nil && b.GetHeader().StandardEntryClassCode == ach.ADV {
			gc, gh, gd, gk = c.EntryAddendaCount, c.EntryHash, c.TotalDebitEntryDollarAmount, c.TotalCreditEntryDollarAmount
		} else if c := b.GetControl(); c != nil {
			gc, gh, gd, gk = c.EntryAddendaCount, c.EntryHash, c.TotalDebitEntryDollarAmount, c.TotalCreditEntryDollarAmount
		}
		if gc != count || gh != lsd10(hash) || gd != debit || gk != credit {
			add("create:opts:batch-control-arithmetic", fmt.Sprintf("batch control %d/%d/%d/%d, recomputed from the entries %d/%d/%d/%d (count/hash/debit/credit)", gc, gh, gd, gk, count, lsd10(hash), debit, credit))
		}
		fileCount += gc
		fileHash += gh
		fileDebit += gd
		fileCredit += gk
		records += 2 + gc
	}
	for i := range f.IATBatches {
		c := f.IATBatches[i].Control
		if c == nil {
			continue
		}
		fileCount += c.EntryAddendaCount
		fileHash += c.EntryHash
		fileDebit += c.TotalDebitEntryDollarAmount
		fileCredit += c.TotalCreditEntryDollarAmount
		records += 2 + c.EntryAddendaCount
	}
	blocks := (records + 9) / 10
	if f.IsADV() {
		c := f.ADVControl
		if c.BatchCount != len(f.Batches) || c.BlockCount != blocks || c.EntryAddendaCount != fileCount || c.EntryHash != lsd10(fileHash) ||
			c.TotalDebitEntryDollarAmountInFile != fileDebit || c.TotalCreditEntryDollarAmountInFile != fileCredit {
			add("create:opts:file-control-arithmetic", "the ADV file control is not the tabulation of the batch controls")
		}
		return
	}
	c := f.Control
	if c.BatchCount != len(f.Batches)+len(f.IATBatches) || c.BlockCount != blocks || c.EntryAddendaCount != fileCount || c.EntryHash != lsd10(fileHash) ||
		c.TotalDebitEntryDollarAmountInFile != fileDebit || c.TotalCreditEntryDollarAmountInFile != fileCredit {
		add("create:opts:file-control-arithmetic", fmt.Sprintf("file control %d/%d/%d/%d/%d/%d is not the tabulation of the batch controls %d/%d/%d/%d/%d/%d",
			c.BatchCount, c.BlockCount, c.EntryAddendaCount, c.EntryHash, c.TotalDebitEntryDollarAmountInFile, c.TotalCreditEntryDollarAmountInFile,
			len(f.Batches)+len(f.IATBatches), blocks, fileCount, lsd10(fileHash), fileDebit, fileCredit))
	}
}

func firstN(s string, n int) string {
	if len(s) > n {
		return s[:n]
	}
	return s
}

// Create (C05): the options are stored before Create.  A history of Batch.Create / File.Create
// calls on the file never fails, leaves it valid under its options, leaves every trace number
// alone, is idempotent from the first round on (a domain file went through Create already; for
// the stale-control variants the first Batch.Create recomputes the damaged control and the
// second round is the fixed point), and the controls are the arithmetic of the entries.
func Create(g *ach.File, v *gen.OptVariant, r *rng.R) (fs []Fail) {
	add := collect(&fs)
	h := gen.Clone(g)
	traces := EntryIDs(h, false)
	round := func(batches bool) error {
		if batches {
			for _, b := range h.Batches {
				if err := b.Create(); err != nil {
					return err
				}
			}
			for i := range h.IATBatches {
				if err := h.IATBatches[i].Create(); err != nil {
					return err
				}
			}
		}
		return h.Create()
	}
	var err error
	// File.Create alone: a fixed point for every variant
	before := Snapshot(h)
	if p := guard(func() { err = round(false) }); p != nil {
		add("create:opts:panic", fmt.Sprint("File.Create panicked: ", p))
		return
	}
	if err != nil {
		add("create:opts:file-create-fails", "File.Create of a tabulated file fails under the options stored on it: "+err.Error())
		return
	}
	if Snapshot(h) != before {
		add("create:opts:file-create-not-idempotent", "File.Create changes a file that File.Create tabulated under the same options")
	}
	// Batch.Create of every batch, then File.Create; a random number of rounds
	var first string
	for k, n := 0, 2+r.Intn(2); k < n; k++ {
		if p := guard(func() { err = round(true) }); p != nil {
			add("create:opts:panic", fmt.Sprint("Create panicked: ", p))
			return
		}
		if err != nil {
			add("create:opts:create-fails", fmt.Sprintf("round %d of Batch.Create / File.Create fails under the options stored on the file: %v", k+1, err))
			return
		}
		s := Snapshot(h)
		if k == 0 {
			first = s
			if !v.Stale && s != before {
				add("create:opts:not-a-fixed-point", "Batch.Create / File.Create change a file they tabulated under the same options")
			}
		} else if s != first {
			add("create:opts:not-idempotent", fmt.Sprintf("round %d of Batch.Create / File.Create changes what round 1 produced", k+1))
		}
	}
	if !sameIDs(EntryIDs(h, false), traces) {
		add("create:opts:entries-changed", "Create changed an entry (trace numbers included): "+diffIDs(traces, EntryIDs(h, false)))
	}
	if v.Stale {
		// the recomputed controls no longer need the option; the file must still validate with it
		if err := gen.ValidAll(h); err != nil {
			add("create:opts:invalid-after-create", "after Batch.Create / File.Create the file fails Validate under its options: "+err.Error())
		}
	} else if err := gen.ValidAll(h); err != nil {
		add("create:opts:invalid-after-create", "after Batch.Create / File.Create the file fails Validate under its options: "+err.Error())
	}
	arithmetic(h, add)
	return fs
}

// ---------------------------------------------------------------- C07

func hasCATX(g *ach.File) bool {
	for _, b := range g.Batches {
		switch b.GetHeader().StandardEntryClassCode {
		case ach.CTX, ach.ATX, ach.TRX:
			return true
		}
	}
	return false
}

// JSON (C07): json.Marshal carries the option set; FileFromJSON of it succeeds, validates,
// carries the same flags on the file and its batches, and holds the same entries (not for files
// with CTX / ATX / TRX batches: the JSON form of their composite name field is C07's own
// subject, known finding json:catx:*).  The text form read back under the same options gives
// the same entries, and its JSON form the same text again (stale-control variants: a valid
// file; FileFromJSON tabulates the batches again).
func JSON(g *ach.File, v *gen.OptVariant) (fs []Fail) {
	add := collect(&fs)
	if v.NoJSON {
		return nil
	}
	c := gen.Clone(g)
	want := EntryIDs(g, false)
	var err error
	if !hasCATX(g) {
		bs, err := json.Marshal(c)
		if err != nil {
			add("json:opts:marshal-error", err.Error())
			return
		}
		var back *ach.File
		if p := guard(func() { back, err = ach.FileFromJSON(bs) }); p != nil {
			add("json:opts:panic", fmt.Sprint("FileFromJSON panicked: ", p))
			return
		}
		if err != nil {
			add("json:opts:from-json-error", "FileFromJSON rejects the JSON form (which carries the options) of a file that validates under them: "+err.Error())
			return
		}
		Derived("json", "the file read back from JSON", g, back, add)
		if !sameIDs(EntryIDs(back, false), want) {
			add("json:opts:entries-differ", "the file read back from JSON holds other entries: "+diffIDs(want, EntryIDs(back, false)))
		}
	}
	// text form
	txt, err := gen.Text(c, false)
	if err != nil {
		add("json:opts:write-error", "the Writer rejects a file that validates: "+err.Error())
		return
	}
	rd := ach.NewReader(strings.NewReader(txt))
	rd.SetValidation(g.GetValidation())
	fromText, err := rd.Read()
	if err != nil {
		if v.Name == "allow-missing-file-header" {
			add("text:opts:blank-file-header-unreadable", "a file without file header (AllowMissingFileHeader) is written with a blank file header record which the Reader rejects under the same option: "+firstLine(err.Error()))
		} else if v.Name == "short-trace-numbers" && strings.Contains(err.Error(), "ascending") {
			add("text:opts:short-trace-numbers:written-order-differs", "trace numbers stored as bare numbers of different lengths (valid under BypassOriginValidation: \"333\" < \"83\" as strings) are written zero-padded, and the Reader, comparing the padded strings, rejects the Writer's output under the same options: "+firstLine(err.Error()))
		} else {
			add("text:opts:read-error", "the Reader (same options) rejects what the Writer wrote: "+firstLine(err.Error()))
		}
		return
	}
	if err := gen.ValidAll(&fromText); err != nil {
		add("text:opts:read-back-invalid", "the file read back from text fails Validate under the options: "+err.Error())
	}
	if !sameIDs(EntryIDs(&fromText, false), want) {
		add("text:opts:entries-differ", "the file read back from text holds other entries: "+diffIDs(want, EntryIDs(&fromText, false)))
	}
	// text -> file -> JSON -> file -> text
	if hasCATX(g) {
		return fs
	}
	bs2, err := json.Marshal(&fromText)
	if err != nil {
		add("json:opts:marshal-error", err.Error())
		return
	}
	var back2 *ach.File
	if p := guard(func() { back2, err = ach.FileFromJSON(bs2) }); p != nil {
		add("json:opts:panic", fmt.Sprint("FileFromJSON panicked: ", p))
		return
	}
	if err != nil {
		add("json:opts:text-json-error", "a file read from text under the options cannot be read back from its own JSON: "+err.Error())
		return
	}
	if !v.Stale { // FileFromJSON tabulates every batch again: a damaged control does not survive it
		txt2, err := gen.Text(back2, false)
		if err != nil {
			add("json:opts:text-json-text-write-error", err.Error())
		} else if txt2 != txt {
			add("json:opts:text-json-text-differs", "text -> file -> JSON -> file -> text changes the text: "+firstDiffLine(txt, txt2))
		}
	}
	return fs
}

func firstLine(s string) string {
	if i := strings.IndexByte(s, '\n'); i >= 0 {
		return s[:i]
	}
	return s
}

func firstDiffLine(a, b string) string {
	la, lb := strings.Split(a, "\n"), strings.Split(b, "\n")
	for i := range la {
		if i >= len(lb) || la[i] != lb[i] {
			o := ""
			if i < len(lb) {
				o = lb[i]
			}
			return fmt.Sprintf("line %d: %q / %q", i+1, la[i], o)
		}
	}
	return fmt.Sprintf("%d / %d lines", len(la), len(lb))
}

// ---------------------------------------------------------------- C08 / C09

func lines(f *ach.File) int {
	n := 2
	for _, b := range f.Batches {
		n += 2
		for _, e := range b.GetEntries() {
			n += 1 + len(e.Addenda05)
			for _, p := range []bool{e.Addenda02 != nil, e.Addenda98 != nil, e.Addenda98Refused != nil, e.Addenda99 != nil, e.Addenda99Dishonored != nil, e.Addenda99Contested != nil} {
				if p {
					n++
				}
			}
		}
	}
	return n
}

func entryCount(f *ach.File) int {
	n := 0
	for _, b := range f.Batches {
		n += len(b.GetEntries())
	}
	return n
}

// Merge (C08 / C09): two domain files of the same variant (the second one given the first
// one's routing pair half of the time) and a plain valid file are merged.  Every output
// validates under the options it carries; an output holds at least the flags of every input
// with its origin / destination; the standard entries (trace numbers included) are conserved;
// an output exceeds MaxLines only when it holds a single entry.  (IAT and ADV batches are not
// merged by MergeFiles; files holding them only contribute their standard batches.)
func Merge(g *ach.File, v *gen.OptVariant, r *rng.R) (fs []Fail) {
	add := collect(&fs)
	if g.IsADV() {
		return nil
	}
	ins := []*ach.File{gen.Clone(g)}
	if h := gen.NeedsOptsOf(r, v); h != nil && !h.IsADV() {
		if r.Bool() {
			h.Header.ImmediateOrigin, h.Header.ImmediateDestination = g.Header.ImmediateOrigin, g.Header.ImmediateDestination
			_ = h.Create()
		}
		if gen.ValidAll(h) == nil {
			ins = append(ins, h)
		}
	}
	if r.Chance(1, 3) {
		p := gen.File(r, gen.Opts{ForwardOnly: true, MaxBatches: 2})
		p.Header.ImmediateOrigin, p.Header.ImmediateDestination = g.Header.ImmediateOrigin, g.Header.ImmediateDestination
		if p.Create() == nil && p.Validate() == nil {
			ins = append(ins, p)
		}
	}
	var want []string
	for _, f := range ins {
		want = append(want, StdEntryIDs(f)...)
	}
	want = sortedCopy(want)
	total := 0
	for _, f := range ins {
		total += lines(f)
	}
	cond := ach.Conditions{}
	switch r.Intn(3) {
	case 0:
		cond.MaxLines = ach.NACHAFileLineLimit
	case 1:
		cond.MaxLines = 6 + r.Intn(total+2)
	}
	type pair struct{ o, d string }
	need := map[pair]*ach.ValidateOpts{}
	for _, f := range ins {
		k := pair{f.Header.ImmediateOrigin, f.Header.ImmediateDestination}
		need[k] = mergeFlags(need[k], f.GetValidation())
	}
	var outs []*ach.File
	var err error
	if p := guard(func() { outs, err = ach.MergeFilesWith(ins, cond) }); p != nil {
		add("merge:opts:panic", fmt.Sprint("MergeFilesWith panicked: ", p))
		return
	}
	if err != nil {
		add("merge:opts:error", fmt.Sprintf("MergeFilesWith (MaxLines %d) fails on files that validate under their options: %v", cond.MaxLines, err))
		return
	}
	var got []string
	for _, o := range outs {
		if o == nil {
			add("merge:opts:nil-output", "a nil file among the outputs")
			continue
		}
		if err := gen.ValidAll(o); err != nil {
			add("merge:opts:output-invalid", "a merged file does not validate under the options it carries: "+err.Error())
		}
		k := pair{o.Header.ImmediateOrigin, o.Header.ImmediateDestination}
		if m := Missing(o.GetValidation(), need[k]); len(m) > 0 {
			add("merge:opts:file-options-not-carried", fmt.Sprintf("a merged file lacks %v of the inputs with its origin / destination", m))
		}
		if cond.MaxLines > 0 && lines(o) > cond.MaxLines && entryCount(o) > 1 {
			add("merge:opts:max-lines", fmt.Sprintf("a merged file has %d lines (MaxLines %d) and %d entries", lines(o), cond.MaxLines, entryCount(o)))
		}
		got = append(got, StdEntryIDs(o)...)
	}
	got = sortedCopy(got)
	if !sameIDs(dedup(got), dedup(want)) {
		add("merge:opts:entries-changed", "the merged files do not hold the standard entries of the inputs (trace numbers included): "+diffIDs(dedup(want), dedup(got)))
	}
	return fs
}

func mergeFlags(a, b *ach.ValidateOpts) *ach.ValidateOpts {
	out := &ach.ValidateOpts{}
	vout := reflect.ValueOf(out).Elem()
	for _, o := range []*ach.ValidateOpts{a, b} {
		if o == nil {
			continue
		}
		vo := reflect.ValueOf(o).Elem()
		for i := 0; i < vo.NumField(); i++ {
			if vo.Field(i).Kind() == reflect.Bool && vo.Field(i).Bool() {
				vout.Field(i).SetBool(true)
			}
		}
		if o.CheckTransactionCode != nil {
			out.CheckTransactionCode = o.CheckTransactionCode
		}
	}
	return out
}

func sortedCopy(xs []string) []string {
	out := append([]string{}, xs...)
	sort.Strings(out)
	return out
}

// dedup: MergeFiles keeps one copy of an entry that arrives twice with the same batch header
// and trace number only when the two are in different batches; identities are compared as sets
// of (identity, multiplicity capped at one) to stay clear of that (C08 owns the exact count).
func dedup(xs []string) []string {
	var out []string
	for i, x := range xs {
		if i == 0 || xs[i-1] != x {
			out = append(out, x)
		}
	}
	return out
}

// ---------------------------------------------------------------- C11

// Segment (C11): SegmentFile succeeds (or, for a file holding a transaction code of the
// originator's own, refuses with an error), both outputs validate under the options they carry
// and carry the input's flags, together they hold the input's entries (trace numbers included;
// the entries of a mixed IAT batch are re-sequenced by design unless the options keep trace
// numbers), and the input file is unchanged (same exception).
func Segment(g *ach.File, v *gen.OptVariant) (fs []Fail) {
	add := collect(&fs)
	c := gen.Clone(g)
	reseq := mixedIAT(g) && !keepsTraces(g.GetValidation())
	before := Snapshot(c)
	want := EntryIDs(c, reseq)
	var cf, df *ach.File
	var err error
	if p := guard(func() { cf, df, err = c.SegmentFile(ach.NewSegmentFileConfiguration()) }); p != nil {
		add("segment:opts:panic", fmt.Sprint("SegmentFile panicked: ", p))
		return
	}
	if Unsegmentable(g) {
		if err == nil {
			add("segment:opts:custom-code-dropped", "SegmentFile succeeds on a file holding a transaction code that is neither a credit nor a debit code")
		}
		return
	}
	if err != nil {
		add("segment:opts:error", "SegmentFile fails on a file that validates under its options: "+err.Error())
		return
	}
	var got []string
	for k, o := range []*ach.File{cf, df} {
		if o == nil || len(o.Batches)+len(o.IATBatches) == 0 {
			continue
		}
		Derived("segment", []string{"the credit file", "the debit file"}[k], g, o, add)
		got = append(got, EntryIDs(o, reseq)...)
	}
	got = sortedCopy(got)
	if !sameIDs(got, want) {
		add("segment:opts:entries-changed", "credit file + debit file do not hold the entries of the input: "+diffIDs(want, got))
	}
	if !reseq && !g.IsADV() && Snapshot(c) != before {
		add("segment:opts:input-changed", "SegmentFile changed the file it segments")
	}
	return fs
}

// ---------------------------------------------------------------- C12

// Flatten (C12): FlattenBatches succeeds, the result validates under the options it carries
// and carries the input's flags (file and batches), holds the input's entries (trace numbers
// included), and the input file is unchanged.  Known limitation, keyed by its variant: a batch
// control count that differs from the entries (UnequalAddendaCounts) makes the sanity check
// of Flatten refuse the file.
func Flatten(g *ach.File, v *gen.OptVariant) (fs []Fail) {
	add := collect(&fs)
	if g.IsADV() {
		return nil // FlattenBatches compares the (absent) FileControl of an ADV file: C12's own domain
	}
	c := gen.Clone(g)
	before := Snapshot(c)
	want := EntryIDs(c, false)
	var o *ach.File
	var err error
	if p := guard(func() { o, err = c.FlattenBatches() }); p != nil {
		add("flatten:opts:panic", fmt.Sprint("FlattenBatches panicked: ", p))
		return
	}
	if err != nil {
		if v.Name == "unequal-addenda-counts-control" {
			add("flatten:opts:error:unequal-addenda-counts-control", "FlattenBatches refuses a file whose batch control count differs from its entries under UnequalAddendaCounts: "+err.Error())
		} else {
			add("flatten:opts:error", "FlattenBatches fails on a file that validates under its options: "+err.Error())
		}
		return
	}
	Derived("flatten", "the flattened file", g, o, add)
	if !sameIDs(EntryIDs(o, false), want) {
		add("flatten:opts:entries-changed", "the flattened file does not hold the entries of the input: "+diffIDs(want, EntryIDs(o, false)))
	}
	if Snapshot(c) != before {
		add("flatten:opts:input-changed", "FlattenBatches changed the file it flattens")
	}
	return fs
}

// ---------------------------------------------------------------- C13

var bothWays = map[string]bool{ach.PPD: true, ach.CCD: true, ach.CTX: true, ach.WEB: true}

// Reversible: forward batches of the both-direction SEC codes whose entries all have a
// positive amount and a code Reversal knows (C13_batch_general: exactly then the result is valid).
func Reversible(g *ach.File) bool {
	if g.IsADV() || len(g.IATBatches) > 0 || len(g.Batches) == 0 {
		return false
	}
	for _, b := range g.Batches {
		if b.Category() != ach.CategoryForward || !bothWays[b.GetHeader().StandardEntryClassCode] {
			return false
		}
		for _, e := range b.GetEntries() {
			// LoanPrenoteCredit / LoanZeroDollarRemittanceCredit have no debit counterpart (C13_reversible_set)
			if _, ok := direction(e.TransactionCode); !ok || e.Amount == 0 || e.IndividualName == "OFFSET" ||
				e.TransactionCode == ach.LoanPrenoteCredit || e.TransactionCode == ach.LoanZeroDollarRemittanceCredit {
				return false
			}
		}
	}
	return true
}

// Reversal (C13): on a reversible file Reversal succeeds, the file validates under the
// options it still carries (same flags on file and batches), every entry keeps trace number,
// amount and account and has the opposite direction, and a second Reversal restores the codes.
func Reversal(g *ach.File, v *gen.OptVariant) (fs []Fail) {
	add := collect(&fs)
	if !Reversible(g) {
		return nil
	}
	c := gen.Clone(g)
	when := time.Date(2024, 3, 4, 10, 30, 0, 0, time.UTC)
	var err error
	if p := guard(func() { err = c.Reversal(when) }); p != nil {
		add("reversal:opts:panic", fmt.Sprint("Reversal panicked: ", p))
		return
	}
	if err != nil {
		add("reversal:opts:error", "Reversal fails on a file that validates under its options: "+err.Error())
		return
	}
	Derived("reversal", "the reversed file", g, c, add)
	for i, b := range g.Batches {
		es, rs := b.GetEntries(), c.Batches[i].GetEntries()
		if len(es) != len(rs) {
			add("reversal:opts:entries-changed", "a batch has another number of entries")
			break
		}
		for j, e := range es {
			x := rs[j]
			if x.TraceNumber != e.TraceNumber || x.Amount != e.Amount || x.DFIAccountNumber != e.DFIAccountNumber || x.RDFIIdentification != e.RDFIIdentification {
				add("reversal:opts:entries-changed", fmt.Sprintf("trace / amount / account of an entry changed: %s %d -> %s %d", e.TraceNumber, e.Amount, x.TraceNumber, x.Amount))
			}
			c0, _ := direction(e.TransactionCode)
			c1, ok := direction(x.TransactionCode)
			if !ok || c0 == c1 {
				add("reversal:opts:not-flipped", fmt.Sprintf("code %d became %d", e.TransactionCode, x.TransactionCode))
			}
		}
	}
	if p := guard(func() { err = c.Reversal(when) }); p != nil || err != nil {
		add("reversal:opts:twice-error", fmt.Sprint("the second Reversal fails: ", p, err))
		return
	}
	for i, b := range g.Batches {
		for j, e := range b.GetEntries() {
			if x := c.Batches[i].GetEntries()[j]; x.TransactionCode != e.TransactionCode || x.TraceNumber != e.TraceNumber {
				add("reversal:opts:twice-differs", "two reversals do not restore code and trace number")
			}
		}
	}
	if err := gen.ValidAll(c); err != nil {
		add("reversal:opts:twice-invalid", "after two reversals the file fails Validate under its options: "+err.Error())
	}
	return fs
}

// ---------------------------------------------------------------- C14

// Pure (C14): a history of read-only operations (Validate, ValidateWith, Batch.Validate,
// String of every record, MarshalJSON, Writer.Write validating and bypassing) leaves the file
// — records, controls and the options stored on file and batches — unchanged, and Validate
// gives the same verdict before and after.
func Pure(g *ach.File, v *gen.OptVariant, r *rng.R) (fs []Fail) {
	add := collect(&fs)
	c := gen.Clone(g)
	before := Snapshot(c)
	v0 := fmt.Sprint(gen.ValidAll(c))
	var trace []string
	for k, n := 0, 1+r.Intn(5); k < n; k++ {
		op := r.Intn(8)
		trace = append(trace, strconv.Itoa(op))
		p := guard(func() {
			switch op {
			case 0:
				_ = c.Validate()
			case 1:
				_ = c.ValidateWith(nil)
			case 2:
				_ = c.ValidateWith(g.GetValidation())
			case 3:
				for _, b := range c.Batches {
					_ = b.Validate()
				}
				for i := range c.IATBatches {
					_ = c.IATBatches[i].Validate()
				}
			case 4:
				_ = c.Header.String()
				for _, b := range c.Batches {
					_ = b.GetHeader().String()
					for _, e := range b.GetEntries() {
						_ = e.String()
					}
					for _, e := range b.GetADVEntries() {
						_ = e.String()
					}
					if ct := b.GetControl(); ct != nil {
						_ = ct.String()
					}
				}
				for i := range c.IATBatches {
					_ = c.IATBatches[i].Header.String()
					for _, e := range c.IATBatches[i].Entries {
						_ = e.String()
					}
				}
				_ = c.Control.String()
			case 5:
				_, _ = json.Marshal(c)
			case 6:
				_, _ = gen.Text(c, r.Bool())
			case 7:
				var sb strings.Builder
				w := ach.NewWriter(&sb)
				w.BypassValidation = true
				_ = w.Write(c)
			}
		})
		if p != nil {
			add("pure:opts:panic", fmt.Sprintf("read-only operation %d panicked: %v", op, p))
			return
		}
		if s := Snapshot(c); s != before {
			add("pure:opts:file-changed", fmt.Sprintf("read-only operation %d (history %s) changed the file", op, strings.Join(trace, ",")))
			return
		}
	}
	if v1 := fmt.Sprint(gen.ValidAll(c)); v1 != v0 {
		add("pure:opts:verdict-changed", "Validate says "+v1+" after the history and said "+v0+" before")
	}
	return fs
}

package optsdom

import (
	"encoding/json"
	"fmt"
	"io"
	"net/http/httptest"
	"net/url"
	"reflect"
	"strings"

	kitlog "github.com/go-kit/log"
	"github.com/moov-io/ach"
	"github.com/moov-io/ach/server"

	"verifharness/internal/gen"
	"verifharness/internal/rng"
)

// Query renders the flags of o as the query string the server's create / validate routes read.
func Query(o *ach.ValidateOpts) string {
	if o == nil {
		return ""
	}
	q := url.Values{}
	v := reflect.ValueOf(*o)
	t := v.Type()
	for i := 0; i < t.NumField(); i++ {
		if v.Field(i).Kind() == reflect.Bool && v.Field(i).Bool() {
			name := strings.Split(t.Field(i).Tag.Get("json"), ",")[0]
			q.Set(name, "true")
		}
	}
	return q.Encode()
}

type httpSrv struct {
	h interface {
		ServeHTTP(*httptest.ResponseRecorder, interface{})
	}
}

// Server (C17): the file is created through POST /files/create — as Nacha text with the flags
// in the query, or as JSON carrying validateOpts — and then read, validated (same flags),
// rendered, built, flattened and segmented through the routes.  The stored file holds the
// entries and the flags it was created with; `contents` renders text the Reader accepts under
// the flags with the same entries; the flattened / segmented files the server stores carry the
// flags, validate under them (their own `contents` route answers 200) and hold the entries;
// and after all of that the stored file still holds its entries and still validates.
func Server(g *ach.File, v *gen.OptVariant, r *rng.R) (fs []Fail) {
	add := collect(&fs)
	if v.NoJSON {
		return nil // a CheckTransactionCode function cannot be sent over HTTP
	}
	repo := server.NewRepositoryInMemory(0, nil)
	svc := server.NewService(repo)
	h := server.MakeHTTPHandler(svc, repo, kitlog.NewNopLogger())
	do := func(method, path, ctype, body string) (code int, out []byte) {
		defer func() {
			if p := recover(); p != nil {
				code, out = 599, []byte(fmt.Sprint("panic: ", p))
			}
		}()
		req := httptest.NewRequest(method, path, strings.NewReader(body))
		if ctype != "" {
			req.Header.Set("Content-Type", ctype)
		}
		w := httptest.NewRecorder()
		h.ServeHTTP(w, req)
		b, _ := io.ReadAll(w.Result().Body)
		return w.Code, b
	}
	q := Query(g.GetValidation())
	want := EntryIDs(g, false)
	reseq := mixedIAT(g) && !keepsTraces(g.GetValidation())
	wantSeg := EntryIDs(g, reseq)

	// create
	viaText := (r.Bool() || hasCATX(g)) && v.Name != "allow-missing-file-header" // the blank header record is unreadable (C07 known finding)
	if hasCATX(g) && !viaText {
		return nil // the JSON form of CTX / ATX / TRX entries is C07's subject
	}
	var code int
	var out []byte
	how := "text + query flags"
	if viaText {
		txt, err := gen.Text(gen.Clone(g), false)
		if err != nil {
			add("server:opts:write-error", err.Error())
			return
		}
		code, out = do("POST", "/files/create?"+q, "text/plain", txt)
	} else {
		// the flags: in the query, as members at the top level of the body, or only as the
		// validateOpts member of the File document (what GET /files/{id} returns)
		bs, _ := json.Marshal(gen.Clone(g))
		path := "/files/create"
		switch r.Intn(3) {
		case 0:
			path += "?" + q
			how = "JSON + query flags"
		case 1:
			var doc map[string]json.RawMessage
			_ = json.Unmarshal(bs, &doc)
			fl, _ := json.Marshal(g.GetValidation())
			var flags map[string]json.RawMessage
			_ = json.Unmarshal(fl, &flags)
			for k, x := range flags {
				doc[k] = x
			}
			bs, _ = json.Marshal(doc)
			how = "JSON + flags at the top level of the body"
		default:
			how = "JSON with validateOpts member"
		}
		code, out = do("POST", path, "application/json", string(bs))
	}
	var created struct {
		ID    string          `json:"id"`
		File  json.RawMessage `json:"file"`
		Error *string         `json:"error"`
	}
	_ = json.Unmarshal(out, &created)
	if code != 200 && code != 201 || created.ID == "" || (created.Error != nil && *created.Error != "") {
		if strings.Contains(how, "text") && strings.Contains(errorOf(out), "ascending") && shortTraceFile(g) {
			// the library's Reader rejects the Writer's output for such a file (same root cause as the C07 finding)
			add("text:opts:short-trace-numbers:written-order-differs", fmt.Sprintf("POST /files/create (%s): %s", how, errorOf(out)))
			return
		}
		add("server:opts:create-rejected", fmt.Sprintf("POST /files/create (%s) of a file that validates under its options answers %d %s", how, code, errorOf(out)))
		return
	}
	id := created.ID

	// fetch: GET /files/{id} -> the stored file as JSON (carries validateOpts)
	fetch := func(id, what string, wantIDs []string, noIATTrace bool) *ach.File {
		code, out := do("GET", "/files/"+id, "", "")
		if code != 200 {
			add("server:opts:get-failed", fmt.Sprintf("GET %s answers %d", what, code))
			return nil
		}
		var wrap struct {
			File json.RawMessage `json:"file"`
		}
		_ = json.Unmarshal(out, &wrap)
		if hasCATX(g) {
			// FileFromJSON on CTX / ATX / TRX entries is C07's subject: the flags only
			var doc struct {
				ValidateOpts *ach.ValidateOpts `json:"validateOpts"`
			}
			_ = json.Unmarshal(wrap.File, &doc)
			if !sameFlags(doc.ValidateOpts, g.GetValidation()) {
				add("server:opts:options-not-stored", fmt.Sprintf("%s carries %v, the file was created with %v", what, Flags(doc.ValidateOpts), Flags(g.GetValidation())))
			}
			return nil
		}
		var f *ach.File
		var err error
		if p := guard(func() { f, err = ach.FileFromJSON(wrap.File) }); p != nil || err != nil || f == nil {
			add("server:opts:stored-file-invalid", fmt.Sprintf("%s as returned by GET is rejected by FileFromJSON: %v %v", what, p, err))
			return nil
		}
		if !sameFlags(f.GetValidation(), g.GetValidation()) {
			add("server:opts:options-not-stored", fmt.Sprintf("%s carries %v, the file was created with %v", what, Flags(f.GetValidation()), Flags(g.GetValidation())))
		}
		if wantIDs != nil && !hasCATX(g) && !sameIDs(EntryIDs(f, noIATTrace), wantIDs) {
			add("server:opts:entries-changed", what+" does not hold the entries the file was created with: "+diffIDs(wantIDs, EntryIDs(f, noIATTrace)))
		}
		return f
	}
	contents := func(id, what string, wantIDs []string, noIATTrace bool) {
		code, out := do("GET", "/files/"+id+"/contents", "", "")
		if code != 200 {
			add("server:opts:contents-failed", fmt.Sprintf("GET contents of %s answers %d %s", what, code, cut(string(out), 160)))
			return
		}
		if v.Name == "allow-missing-file-header" {
			return
		}
		rd := ach.NewReader(strings.NewReader(string(out)))
		rd.SetValidation(g.GetValidation())
		f, err := rd.Read()
		if err != nil {
			add("server:opts:contents-unreadable", fmt.Sprintf("the contents of %s are rejected by the Reader under the same flags: %s", what, firstLine(err.Error())))
			return
		}
		if wantIDs != nil && !sameIDs(EntryIDs(&f, noIATTrace), wantIDs) {
			add("server:opts:entries-changed", "the contents of "+what+" do not hold the entries the file was created with: "+diffIDs(wantIDs, EntryIDs(&f, noIATTrace)))
		}
	}

	fetch(id, "the stored file", want, false)
	if code, out := do("GET", "/files/"+id+"/validate?"+q, "", ""); code != 200 {
		add("server:opts:validate-failed", fmt.Sprintf("GET validate with the file's flags answers %d %s", code, cut(string(out), 160)))
	}
	contents(id, "the stored file", want, false)
	if code, out := do("GET", "/files/"+id+"/build", "", ""); code != 200 {
		add("server:opts:build-failed", fmt.Sprintf("GET build answers %d %s", code, cut(string(out), 160)))
	}

	// flatten
	if !g.IsADV() && v.Name != "unequal-addenda-counts-control" {
		code, out := do("POST", "/files/"+id+"/flatten", "", "")
		var resp struct {
			ID string `json:"id"`
		}
		_ = json.Unmarshal(out, &resp)
		if code != 200 || resp.ID == "" {
			add("server:opts:flatten-failed", fmt.Sprintf("POST flatten answers %d %s", code, cut(string(out), 160)))
		} else {
			fetch(resp.ID, "the flattened file", want, false)
			contents(resp.ID, "the flattened file", want, false)
		}
	}
	// segment
	{
		code, out := do("POST", "/files/"+id+"/segment", "application/json", "{}")
		var resp struct {
			CreditFileID string `json:"creditFileID"`
			DebitFileID  string `json:"debitFileID"`
		}
		_ = json.Unmarshal(out, &resp)
		if code != 200 {
			add("server:opts:segment-failed", fmt.Sprintf("POST segment answers %d %s", code, cut(string(out), 160)))
		} else {
			var got []string
			for _, sid := range []string{resp.CreditFileID, resp.DebitFileID} {
				if sid == "" {
					continue
				}
				if f := fetch(sid, "a segmented file", nil, false); f != nil {
					got = append(got, EntryIDs(f, reseq)...)
				}
				contents(sid, "a segmented file", nil, false)
			}
			if got = sortedCopy(got); !hasCATX(g) && !sameIDs(got, wantSeg) {
				add("server:opts:entries-changed", "the segmented files do not hold the entries the file was created with: "+diffIDs(wantSeg, got))
			}
		}
	}
	// the stored file after all of that
	after := want
	if reseq {
		after = nil
	}
	if f := fetch(id, "the stored file after flatten / segment", after, false); f != nil && !reseq {
		if err := gen.ValidAll(f); err != nil {
			add("server:opts:stored-file-invalid", "the stored file fails Validate after flatten / segment: "+err.Error())
		}
	}
	if code, out := do("GET", "/files/"+id+"/validate?"+q, "", ""); code != 200 {
		add("server:opts:validate-failed", fmt.Sprintf("after flatten / segment GET validate with the file's flags answers %d %s", code, cut(string(out), 160)))
	}
	return fs
}

// errorOf: the "error" member of a JSON response (the whole body, shortened, when there is none).
func errorOf(out []byte) string {
	var e struct {
		Error any `json:"error"`
	}
	if json.Unmarshal(out, &e) == nil && e.Error != nil {
		return cut(fmt.Sprint(e.Error), 240)
	}
	return cut(string(out), 240)
}

func cut(s string, n int) string {
	if len(s) > n {
		return s[:n] + "..."
	}
	return s
}

// ServerText (C17, reader side): a Nacha text without file header record / file control record is
// accepted by POST /files/create only with allowMissingFileHeader / allowMissingFileControl in
// the query (400 without); the stored file carries the flag and holds the entries of the file
// the text was rendered from; `build` (File.Create) answers 200 and, for the text without file
// control, `contents` then renders a complete file the Reader accepts with the same entries.
func ServerText(f *ach.File, variant string, r *rng.R) (fs []Fail) {
	add := collect(&fs)
	text, o, ok := gen.TextNeedsOpts(r, f, variant)
	if !ok {
		return nil
	}
	repo := server.NewRepositoryInMemory(0, nil)
	svc := server.NewService(repo)
	h := server.MakeHTTPHandler(svc, repo, kitlog.NewNopLogger())
	do := func(method, path, ctype, body string) (code int, out []byte) {
		defer func() {
			if p := recover(); p != nil {
				code, out = 599, []byte(fmt.Sprint("panic: ", p))
			}
		}()
		req := httptest.NewRequest(method, path, strings.NewReader(body))
		if ctype != "" {
			req.Header.Set("Content-Type", ctype)
		}
		w := httptest.NewRecorder()
		h.ServeHTTP(w, req)
		b, _ := io.ReadAll(w.Result().Body)
		return w.Code, b
	}
	want := EntryIDs(f, false)
	if code, _ := do("POST", "/files/create", "text/plain", text); code == 200 || code == 201 {
		add("server:opts:text-accepted-without-flag", "POST /files/create accepts a text without "+variant[len("text:missing-"):]+" although the flag is not given")
	}
	code, out := do("POST", "/files/create?"+Query(o), "text/plain", text)
	var created struct {
		ID string `json:"id"`
	}
	_ = json.Unmarshal(out, &created)
	if (code != 200 && code != 201) || created.ID == "" {
		add("server:opts:create-rejected", fmt.Sprintf("POST /files/create?%s of a text the Reader accepts under the flag answers %d %s", Query(o), code, errorOf(out)))
		return
	}
	id := created.ID
	code, out = do("GET", "/files/"+id, "", "")
	var wrap struct {
		File struct {
			ValidateOpts *ach.ValidateOpts `json:"validateOpts"`
		} `json:"file"`
	}
	_ = json.Unmarshal(out, &wrap)
	if code != 200 || !sameFlags(wrap.File.ValidateOpts, o) {
		add("server:opts:options-not-stored", fmt.Sprintf("GET answers %d, the stored file carries %v, created with %v", code, Flags(wrap.File.ValidateOpts), Flags(o)))
	}
	if code, out := do("GET", "/files/"+id+"/build", "", ""); code != 200 {
		add("server:opts:build-failed", fmt.Sprintf("GET build answers %d %s", code, cut(string(out), 160)))
		return
	}
	if variant == "text:missing-file-control-record" {
		code, out := do("GET", "/files/"+id+"/contents", "", "")
		if code != 200 {
			add("server:opts:contents-failed", fmt.Sprintf("GET contents answers %d %s", code, cut(string(out), 160)))
			return
		}
		rd := ach.NewReader(strings.NewReader(string(out)))
		rd.SetValidation(o)
		g, err := rd.Read()
		if err != nil {
			add("server:opts:contents-unreadable", "the contents are rejected by the Reader under the same flag: "+firstLine(err.Error()))
			return
		}
		if !sameIDs(EntryIDs(&g, false), want) {
			add("server:opts:entries-changed", "the contents do not hold the entries of the text: "+diffIDs(want, EntryIDs(&g, false)))
		}
	}
	return fs
}

// shortTraceFile: some standard entry's trace number is stored with fewer than 15 characters.
func shortTraceFile(f *ach.File) bool {
	for _, b := range f.Batches {
		for _, e := range b.GetEntries() {
			if len(e.TraceNumber) < 15 {
				return true
			}
		}
	}
	return false
}

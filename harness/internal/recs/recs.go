// Package recs gives reflective access to the 26 fixed-width record types of
// moov-io/ach: construct, set and dump fields by Go field name, String(), Parse().
package recs

import (
	"fmt"
	"reflect"
	"sort"
	"strconv"
	"strings"

	"github.com/moov-io/ach"

	"verifharness/internal/hx"
)

type Record interface {
	Parse(string)
	String() string
}

// New returns a freshly constructed record of the named type (nil if unknown).
func New(name string) Record {
	switch name {
	case "Addenda02":
		return ach.NewAddenda02()
	case "Addenda05":
		return ach.NewAddenda05()
	case "Addenda10":
		return ach.NewAddenda10()
	case "Addenda11":
		return ach.NewAddenda11()
	case "Addenda12":
		return ach.NewAddenda12()
	case "Addenda13":
		return ach.NewAddenda13()
	case "Addenda14":
		return ach.NewAddenda14()
	case "Addenda15":
		return ach.NewAddenda15()
	case "Addenda16":
		return ach.NewAddenda16()
	case "Addenda17":
		return ach.NewAddenda17()
	case "Addenda18":
		return ach.NewAddenda18()
	case "Addenda98":
		return ach.NewAddenda98()
	case "Addenda98Refused":
		return ach.NewAddenda98Refused()
	case "Addenda99":
		return ach.NewAddenda99()
	case "Addenda99Contested":
		return ach.NewAddenda99Contested()
	case "Addenda99Dishonored":
		return ach.NewAddenda99Dishonored()
	case "ADVBatchControl":
		return ach.NewADVBatchControl()
	case "ADVEntryDetail":
		return ach.NewADVEntryDetail()
	case "ADVFileControl":
		v := ach.NewADVFileControl()
		return &v
	case "BatchControl":
		return ach.NewBatchControl()
	case "BatchHeader":
		return ach.NewBatchHeader()
	case "EntryDetail":
		return ach.NewEntryDetail()
	case "FileControl":
		v := ach.NewFileControl()
		return &v
	case "FileHeader":
		v := ach.NewFileHeader()
		return &v
	case "IATBatchHeader":
		return ach.NewIATBatchHeader()
	case "IATEntryDetail":
		return ach.NewIATEntryDetail()
	}
	return nil
}

var Names = []string{"ADVBatchControl", "ADVEntryDetail", "ADVFileControl", "Addenda02", "Addenda05", "Addenda10", "Addenda11", "Addenda12",
	"Addenda13", "Addenda14", "Addenda15", "Addenda16", "Addenda17", "Addenda18", "Addenda98", "Addenda98Refused", "Addenda99",
	"Addenda99Contested", "Addenda99Dishonored", "BatchControl", "BatchHeader", "EntryDetail", "FileControl", "FileHeader",
	"IATBatchHeader", "IATEntryDetail"}

type Field struct {
	Name     string
	IsInt    bool
	Exported bool
}

// Fields lists the string and int fields of the record (skipping ID, which no codec touches).
func Fields(r Record) []Field {
	v := reflect.ValueOf(r).Elem()
	t := v.Type()
	var out []Field
	for i := 0; i < t.NumField(); i++ {
		f := t.Field(i)
		if f.Name == "ID" {
			continue
		}
		switch f.Type.Kind() {
		case reflect.String:
			out = append(out, Field{f.Name, false, f.IsExported()})
		case reflect.Int:
			out = append(out, Field{f.Name, true, f.IsExported()})
		}
	}
	return out
}

func SetString(r Record, name, val string) bool {
	f := reflect.ValueOf(r).Elem().FieldByName(name)
	if !f.IsValid() || !f.CanSet() || f.Kind() != reflect.String {
		return false
	}
	f.SetString(val)
	return true
}

func SetInt(r Record, name string, val int64) bool {
	f := reflect.ValueOf(r).Elem().FieldByName(name)
	if !f.IsValid() || !f.CanSet() || f.Kind() != reflect.Int {
		return false
	}
	f.SetInt(val)
	return true
}

// Dump renders the string/int fields as "name=s:<hex>" / "name=i:<n>", sorted by name.
func Dump(r Record) string {
	v := reflect.ValueOf(r).Elem()
	var parts []string
	for _, f := range Fields(r) {
		fv := v.FieldByName(f.Name)
		if f.IsInt {
			parts = append(parts, f.Name+"=i:"+strconv.FormatInt(fv.Int(), 10))
		} else {
			parts = append(parts, f.Name+"=s:"+hx.Enc(fv.String()))
		}
	}
	sort.Strings(parts)
	return strings.Join(parts, " ")
}

// SafeString calls String() under recover.
func SafeString(r Record) (s string, ok bool) {
	defer func() {
		if e := recover(); e != nil {
			s, ok = fmt.Sprint(e), false
		}
	}()
	return r.String(), true
}

func SafeParse(r Record, line string) (ok bool) {
	defer func() {
		if e := recover(); e != nil {
			ok = false
		}
	}()
	r.Parse(line)
	return true
}

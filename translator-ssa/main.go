// Command translate-ssa computes the heap-write set ("effects") of the read-only
// entry points of github.com/moov-io/ach (Validate, ValidateWith, String, MarshalJSON,
// Writer.Write) from the SSA form of the current source tree and prints it as the Coq
// table coq/Gen/Effects.v.  Call graph: class hierarchy analysis (over-approximate for
// interface and func-value calls).  Every Store / MapUpdate / mutating builtin / call
// into another package whose address or pointer-bearing argument derives from a
// parameter, receiver, free variable or package-level variable (and not from an
// allocation made in the function itself) is an effect.  Nothing aborts the analysis:
// anything it cannot classify is emitted with kind "Unknown", which the Coq checker
// rejects.
package main

import (
	"flag"
	"fmt"
	"go/types"
	"os"
	"sort"
	"strings"

	"golang.org/x/tools/go/callgraph"
	"golang.org/x/tools/go/callgraph/cha"
	"golang.org/x/tools/go/packages"
	"golang.org/x/tools/go/ssa"
	"golang.org/x/tools/go/ssa/ssautil"
)

const achPath = "github.com/moov-io/ach"

type effect struct{ fn, kind, target string }

func main() {
	repo := flag.String("repo", "/repo", "moov-io/ach working tree")
	out := flag.String("out", "", "output file (Effects.v)")
	dump := flag.String("dump", "", "function name (RelString) whose SSA is dumped to stderr")
	mode := flag.String("mode", "effects", "effects (Effects.v) | alias (EffectsAlias.v, see alias.go)")
	flag.Parse()
	var src string
	var err error
	if *mode == "alias" {
		src, err = runAlias(*repo, *dump)
	} else {
		src, err = run(*repo, *dump)
	}
	if err != nil {
		fmt.Fprintln(os.Stderr, "translate-ssa:", err)
		os.Exit(1)
	}
	if *out == "" {
		fmt.Print(src)
		return
	}
	if err := os.WriteFile(*out, []byte(src), 0o644); err != nil {
		fmt.Fprintln(os.Stderr, err)
		os.Exit(1)
	}
}

func run(repo, dump string) (string, error) {
	cfg := &packages.Config{Mode: packages.LoadAllSyntax, Dir: repo, Tests: false,
		Env: append(os.Environ(), "GOFLAGS=-mod=mod", "GOPROXY=off", "GOSUMDB=off", "GOTOOLCHAIN=local")}
	pkgs, err := packages.Load(cfg, achPath)
	if err != nil {
		return "", err
	}
	if len(pkgs) != 1 {
		return "", fmt.Errorf("expected one package, got %d", len(pkgs))
	}
	if len(pkgs[0].Errors) > 0 {
		return "", fmt.Errorf("package does not type-check: %v", pkgs[0].Errors[0])
	}
	prog, spkgs := ssautil.AllPackages(pkgs, ssa.InstantiateGenerics)
	prog.Build()
	ach := spkgs[0]
	if ach == nil {
		return "", fmt.Errorf("no SSA package")
	}
	a := &analysis{prog: prog, ach: ach}

	// fail closed on packages that allow writes the analysis cannot see
	for _, imp := range ach.Pkg.Imports() {
		switch imp.Path() {
		case "unsafe", "reflect":
			a.add("package", "Unknown", "imports "+imp.Path())
		}
	}

	// ---- roots
	var roots []*ssa.Function
	rootNames := map[string]bool{}
	addRoot := func(f *ssa.Function) {
		if f == nil || rootNames[a.name(f)] {
			return
		}
		rootNames[a.name(f)] = true
		roots = append(roots, f)
	}
	for _, m := range ach.Members {
		t, ok := m.(*ssa.Type)
		if !ok {
			continue
		}
		for _, typ := range []types.Type{t.Type(), types.NewPointer(t.Type())} {
			ms := prog.MethodSets.MethodSet(typ)
			for i := 0; i < ms.Len(); i++ {
				sel := ms.At(i)
				fn := prog.MethodValue(sel)
				if fn == nil {
					continue
				}
				n := sel.Obj().Name()
				tn := t.Name()
				switch {
				case n == "String" || n == "MarshalJSON" || n == "MarshalText" || n == "Error":
					addRoot(fn)
				case (n == "Validate" || n == "ValidateWith") && (tn == "File" || strings.HasPrefix(tn, "Batch") || tn == "IATBatch"):
					addRoot(fn)
				case n == "Write" && tn == "Writer":
					addRoot(fn)
				}
			}
		}
	}
	sort.Slice(roots, func(i, j int) bool { return a.name(roots[i]) < a.name(roots[j]) })

	// ---- closure over the CHA call graph, ach functions only
	cg := cha.CallGraph(prog)
	seen := map[*ssa.Function]bool{}
	var work []*ssa.Function
	push := func(f *ssa.Function) {
		if f == nil || seen[f] || !a.inAch(f) {
			return
		}
		seen[f] = true
		work = append(work, f)
	}
	for _, r := range roots {
		push(r)
	}
	for len(work) > 0 {
		f := work[len(work)-1]
		work = work[:len(work)-1]
		for _, an := range f.AnonFuncs {
			push(an)
		}
		if n := cg.Nodes[f]; n != nil {
			for _, e := range n.Out {
				push(e.Callee.Func)
			}
		}
	}
	var fns []*ssa.Function
	for f := range seen {
		fns = append(fns, f)
	}
	sort.Slice(fns, func(i, j int) bool { return a.name(fns[i]) < a.name(fns[j]) })
	for _, f := range fns {
		if dump != "" && a.name(f) == dump {
			f.WriteTo(os.Stderr)
		}
		a.function(f, cg)
	}

	// ---- callers of the functions that write (one level, looking through synthetic wrappers):
	// the table fixes not only which functions store but also from where they are reached
	writers := map[string]bool{}
	for e := range a.effs {
		switch e.kind {
		case "ExtCall", "CallsWriter":
		default:
			writers[e.fn] = true
		}
	}
	for _, f := range fns {
		if !writers[a.name(f)] {
			continue
		}
		visited := map[*ssa.Function]bool{}
		var up func(g *ssa.Function)
		up = func(g *ssa.Function) {
			if visited[g] {
				return
			}
			visited[g] = true
			n := cg.Nodes[g]
			if n == nil {
				return
			}
			for _, e := range n.In {
				c := e.Caller.Func
				if !seen[c] {
					continue
				}
				if c.Synthetic != "" {
					up(c)
					continue
				}
				a.add(a.name(c), "CallsWriter", a.name(f))
			}
		}
		up(f)
	}

	// ---- emit
	var b strings.Builder
	b.WriteString("(* Generated by translator-ssa from the SSA form of " + achPath + "; do not edit. *)\n")
	b.WriteString("From Coq Require Import String List.\nImport ListNotations.\nFrom ACH Require Import EffectTable.\nOpen Scope string_scope.\n\n")
	b.WriteString("Definition effects_roots : list string :=\n  [")
	for i, r := range roots {
		if i > 0 {
			b.WriteString(";\n   ")
		}
		b.WriteString(coqString(a.name(r)))
	}
	b.WriteString("].\n\n")
	fmt.Fprintf(&b, "Definition effects_closure_size : nat := %d.\n\n", len(fns))
	b.WriteString("Definition effects_closure : list string :=\n  [")
	for i, f := range fns {
		if i > 0 {
			b.WriteString(";\n   ")
		}
		b.WriteString(coqString(a.name(f)))
	}
	b.WriteString("].\n\n")
	effs := a.sorted()
	b.WriteString("Definition effects : list effect :=\n  [")
	for i, e := range effs {
		if i > 0 {
			b.WriteString(";\n   ")
		}
		fmt.Fprintf(&b, "mkeff %s %s %s", coqString(e.fn), coqString(e.kind), coqString(e.target))
	}
	b.WriteString("].\n")
	return b.String(), nil
}

type analysis struct {
	prog *ssa.Program
	ach  *ssa.Package
	effs map[effect]bool
}

func (a *analysis) add(fn, kind, target string) {
	if a.effs == nil {
		a.effs = map[effect]bool{}
	}
	a.effs[effect{fn, kind, target}] = true
}

func (a *analysis) sorted() []effect {
	var out []effect
	for e := range a.effs {
		out = append(out, e)
	}
	sort.Slice(out, func(i, j int) bool {
		if out[i].fn != out[j].fn {
			return out[i].fn < out[j].fn
		}
		if out[i].kind != out[j].kind {
			return out[i].kind < out[j].kind
		}
		return out[i].target < out[j].target
	})
	return out
}

func (a *analysis) name(f *ssa.Function) string {
	return f.RelString(a.ach.Pkg)
}

// inAch: the function's body belongs to package ach (including synthetic wrappers and
// bound-method closures of ach types, anonymous functions and generic instances).
func (a *analysis) inAch(f *ssa.Function) bool {
	for g := f; g != nil; g = g.Parent() {
		if g.Pkg == a.ach {
			return true
		}
		if g.Origin() != nil && g.Origin().Pkg == a.ach {
			return true
		}
		if o := g.Object(); o != nil && o.Pkg() == a.ach.Pkg {
			return true
		}
	}
	return false
}

// ---------------------------------------------------------------- taint

const (
	tP = 1 // derives from a parameter / receiver / free variable
	tG = 2 // derives from a package-level variable
)

type fstate struct {
	val  map[ssa.Value]int // taint of SSA values
	cell map[*ssa.Alloc]int // taint of what has been stored into a local allocation
}

func pointerBearing(t types.Type) bool { return pb(t, map[types.Type]bool{}) }

func pb(t types.Type, seen map[types.Type]bool) bool {
	if seen[t] {
		return false
	}
	seen[t] = true
	switch u := t.Underlying().(type) {
	case *types.Basic:
		return u.Kind() == types.UnsafePointer
	case *types.Pointer, *types.Slice, *types.Map, *types.Chan, *types.Signature, *types.Interface:
		return true
	case *types.Array:
		return pb(u.Elem(), seen)
	case *types.Struct:
		for i := 0; i < u.NumFields(); i++ {
			if pb(u.Field(i).Type(), seen) {
				return true
			}
		}
		return false
	case *types.Tuple:
		for i := 0; i < u.Len(); i++ {
			if pb(u.At(i).Type(), seen) {
				return true
			}
		}
		return false
	}
	return true
}

// root walks an address expression down to what it is based on.
// Returns (alloc, nil) for an address inside a local allocation, else (nil, base value).
func root(v ssa.Value) (*ssa.Alloc, ssa.Value) {
	for {
		switch x := v.(type) {
		case *ssa.FieldAddr:
			v = x.X
		case *ssa.IndexAddr:
			v = x.X
		case *ssa.Alloc:
			return x, nil
		case *ssa.ChangeType:
			v = x.X
		case *ssa.Convert:
			v = x.X
		default:
			return nil, v
		}
	}
}

func (s *fstate) taintOfAddr(addr ssa.Value) int {
	al, base := root(addr)
	if al != nil {
		return 0
	}
	return s.val[base]
}

// loadTaint: taint of the value read through addr.
func (s *fstate) loadTaint(addr ssa.Value) int {
	al, base := root(addr)
	if al != nil {
		return s.cell[al]
	}
	return s.val[base]
}

func (a *analysis) function(f *ssa.Function, cg *callgraph.Graph) {
	if len(f.Blocks) == 0 {
		return
	}
	s := &fstate{val: map[ssa.Value]int{}, cell: map[*ssa.Alloc]int{}}
	for _, p := range f.Params {
		if pointerBearing(p.Type()) {
			s.val[p] = tP
		}
	}
	for _, fv := range f.FreeVars {
		s.val[fv] = tP
	}
	set := func(v ssa.Value, t int) bool {
		if t == 0 || !pointerBearing(v.Type()) {
			return false
		}
		if s.val[v]|t != s.val[v] {
			s.val[v] |= t
			return true
		}
		return false
	}
	op := func(v ssa.Value) int {
		if g, ok := v.(*ssa.Global); ok {
			_ = g
			return tG
		}
		return s.val[v]
	}
	for changed := true; changed; {
		changed = false
		for _, b := range f.Blocks {
			for _, in := range b.Instrs {
				switch x := in.(type) {
				case *ssa.Store:
					if al, _ := root(x.Addr); al != nil {
						t := op(x.Val)
						if pointerBearing(x.Val.Type()) && s.cell[al]|t != s.cell[al] {
							s.cell[al] |= t
							changed = true
						}
					}
				case *ssa.UnOp:
					if x.Op.String() == "*" {
						t := s.loadTaint(x.X)
						if _, base := root(x.X); base != nil {
							t |= op(base)
						}
						changed = set(x, t) || changed
					}
				case *ssa.FieldAddr:
					changed = set(x, op(x.X)) || changed
				case *ssa.IndexAddr:
					changed = set(x, op(x.X)) || changed
				case *ssa.Field:
					changed = set(x, op(x.X)) || changed
				case *ssa.Index:
					changed = set(x, op(x.X)) || changed
				case *ssa.Lookup:
					changed = set(x, op(x.X)) || changed
				case *ssa.Slice:
					t := op(x.X)
					if al, _ := root(x.X); al != nil {
						t = s.cell[al] // slicing a local array: fresh unless tainted pointers were stored
					}
					changed = set(x, t) || changed
				case *ssa.Range:
					changed = set(x, op(x.X)) || changed
				case *ssa.Next:
					changed = set(x, op(x.Iter)) || changed
				case *ssa.Extract:
					changed = set(x, op(x.Tuple)) || changed
				case *ssa.TypeAssert:
					changed = set(x, op(x.X)) || changed
				case *ssa.ChangeType:
					changed = set(x, op(x.X)) || changed
				case *ssa.Convert:
					changed = set(x, op(x.X)) || changed
				case *ssa.ChangeInterface:
					changed = set(x, op(x.X)) || changed
				case *ssa.MakeInterface:
					changed = set(x, op(x.X)) || changed
				case *ssa.SliceToArrayPointer:
					changed = set(x, op(x.X)) || changed
				case *ssa.MultiConvert:
					changed = set(x, op(x.X)) || changed
				case *ssa.Phi:
					t := 0
					for _, e := range x.Edges {
						t |= op(e)
					}
					changed = set(x, t) || changed
				case *ssa.Select:
					t := 0
					for _, st := range x.States {
						t |= op(st.Chan)
					}
					changed = set(x, t) || changed
				case *ssa.MakeClosure:
					t := 0
					for _, bnd := range x.Bindings {
						t |= op(bnd)
						if al, _ := root(bnd); al != nil {
							t |= s.cell[al]
						}
					}
					changed = set(x, t) || changed
				case *ssa.Call:
					t := 0
					for _, arg := range callOperands(&x.Call) {
						t |= op(arg)
						if al, _ := root(arg); al != nil {
							t |= s.cell[al]
						}
					}
					changed = set(x, t) || changed
				}
			}
		}
	}

	fn := a.name(f)
	for _, b := range f.Blocks {
		for _, in := range b.Instrs {
			switch x := in.(type) {
			case *ssa.Store:
				al, base := root(x.Addr)
				if al != nil {
					continue
				}
				t := op(base)
				if t == 0 {
					continue
				}
				kind := "Store"
				if t&tP == 0 {
					kind = "GlobalStore"
				}
				a.add(fn, kind, describeAddr(x.Addr, a.ach.Pkg))
			case *ssa.MapUpdate:
				if t := op(x.Map); t != 0 {
					a.add(fn, "MapUpdate", types.TypeString(x.Map.Type(), types.RelativeTo(a.ach.Pkg)))
				}
			case *ssa.Send:
				if t := op(x.Chan); t != 0 {
					a.add(fn, "Send", types.TypeString(x.Chan.Type(), types.RelativeTo(a.ach.Pkg)))
				}
			case *ssa.Call:
				a.call(fn, s, &x.Call, op)
			case *ssa.Defer:
				a.call(fn, s, &x.Call, op)
			case *ssa.Go:
				a.call(fn, s, &x.Call, op)
			}
		}
	}
}

func callOperands(c *ssa.CallCommon) []ssa.Value {
	var out []ssa.Value
	if c.IsInvoke() {
		out = append(out, c.Value)
	} else if _, ok := c.Value.(*ssa.Function); !ok {
		if _, ok := c.Value.(*ssa.Builtin); !ok {
			out = append(out, c.Value) // closure value
		}
	}
	return append(out, c.Args...)
}

// call records mutating builtins and calls that hand a derived pointer to code outside the package.
func (a *analysis) call(fn string, s *fstate, c *ssa.CallCommon, op func(ssa.Value) int) {
	argT := func(v ssa.Value) int {
		if !pointerBearing(v.Type()) {
			return 0
		}
		t := op(v)
		if al, _ := root(v); al != nil {
			t |= s.cell[al]
		}
		return t
	}
	rel := types.RelativeTo(a.ach.Pkg)
	if b, ok := c.Value.(*ssa.Builtin); ok {
		switch b.Name() {
		case "copy", "delete", "clear":
			if len(c.Args) > 0 && argT(c.Args[0]) != 0 {
				a.add(fn, "Builtin", b.Name()+" "+types.TypeString(c.Args[0].Type(), rel))
			}
		case "append":
			if len(c.Args) > 0 && argT(c.Args[0]) != 0 {
				a.add(fn, "Append", types.TypeString(c.Args[0].Type(), rel))
			}
		case "len", "cap", "print", "println", "panic", "recover", "min", "max", "real", "imag", "complex", "close", "ssa:wrapnilchk":
		default:
			a.add(fn, "Unknown", "builtin "+b.Name())
		}
		return
	}
	if c.IsInvoke() {
		// interface method: in-package implementations are followed through the call graph;
		// what matters here is whether the interface is declared outside the package
		// (then implementations outside the package may receive the arguments)
		recvNamed := namedOf(c.Value.Type())
		if recvNamed != nil && recvNamed.Obj().Pkg() == a.ach.Pkg {
			return
		}
		t := 0
		for _, arg := range c.Args {
			t |= argT(arg)
		}
		if t != 0 {
			a.add(fn, "ExtCall", ifaceName(c, rel))
		}
		return
	}
	if callee := c.StaticCallee(); callee != nil {
		if a.inAch(callee) {
			return
		}
		t := 0
		for _, arg := range c.Args {
			t |= argT(arg)
		}
		if t != 0 {
			a.add(fn, "ExtCall", callee.RelString(a.ach.Pkg))
		}
		return
	}
	// call of a func value: in-package closures are followed through the call graph (CHA);
	// a func value that came from outside cannot be resolved
	t := 0
	for _, arg := range c.Args {
		t |= argT(arg)
	}
	if t != 0 {
		a.add(fn, "DynCall", types.TypeString(c.Value.Type(), rel))
	}
}

func namedOf(t types.Type) *types.Named {
	if p, ok := t.(*types.Pointer); ok {
		t = p.Elem()
	}
	n, _ := t.(*types.Named)
	return n
}

func ifaceName(c *ssa.CallCommon, rel types.Qualifier) string {
	return "(" + types.TypeString(c.Value.Type(), rel) + ")." + c.Method.Name()
}

// describeAddr names the written location: Struct.Field for a field address,
// elem(T) for an element of a slice/array, deref(T) for a plain pointer target.
func describeAddr(addr ssa.Value, pkg *types.Package) string {
	rel := types.RelativeTo(pkg)
	switch x := addr.(type) {
	case *ssa.FieldAddr:
		st := x.X.Type().Underlying().(*types.Pointer).Elem()
		name := types.TypeString(st, rel)
		if u, ok := st.Underlying().(*types.Struct); ok {
			return name + "." + u.Field(x.Field).Name()
		}
		return name + ".?"
	case *ssa.IndexAddr:
		return "elem(" + types.TypeString(x.X.Type(), rel) + ")"
	case *ssa.Global:
		return "var " + x.Name()
	default:
		return "deref(" + types.TypeString(addr.Type(), rel) + ")"
	}
}

func coqString(s string) string {
	var b strings.Builder
	b.WriteByte('"')
	for _, r := range s {
		switch {
		case r == '"':
			b.WriteString(`""`)
		case r < 32 || r > 126:
			b.WriteByte('?')
		default:
			b.WriteRune(r)
		}
	}
	b.WriteByte('"')
	return b.String()
}

// Alias mode of translate-ssa (property C14, phase 5): the table coq/Gen/EffectsAlias.v.
//
// Same SSA program, call graph (CHA) and taint idea as main.go, but
//   - the packages analysed are github.com/moov-io/ach AND github.com/moov-io/ach/server:
//     the roots also hold the server's validate operation ((*service).ValidateFile, the
//     endpoint closure of GET/POST /files/{id}/validate and its request decoder);
//   - every tainted value also carries *origins*: the parameter / receiver it derives from or
//     the struct field it was last loaded from, and a mark "re-sliced with a high bound"
//     (x[:k] keeps the capacity of x, so an append to it overwrites live elements of x);
//   - the entries say how the write reaches memory the caller can see:
//     Store         store to a field of a struct reached from a parameter (target Struct.Field)
//     ElemStore     store by index into a slice / array reached from a parameter (target elem(T))
//     DerefStore    store through a plain pointer reached from a parameter
//     GlobalStore / GlobalElemStore / GlobalDerefStore   the same, reached from a package variable only
//     AppendInPlace append to a re-sliced (x[:k]) slice that shares its backing array with a parameter / field
//     AppendShared  append to a slice that shares its backing array with a parameter / field (writes into spare capacity)
//     Copy          copy(dst, ...) with such a dst;  Builtin  delete / clear on such a map / slice
//     SortCall      call of a function of package sort or slices with such a slice
//     MapUpdate, Send, DynCall, ExtCall, CallsWriter, Unknown  as in Effects.v
//     each with the origin of the destination ("param batch", "EntryDetail.Addenda05", ...).
//
// Also emitted from the same load (go/ast + go/types + SSA dominators): the construction facts
// the purity model uses — the switch of NewBatch, the statements of every NewBatchXXX it
// returns, the classification of every return of (*Reader).Read and (*File).Create with respect
// to the call of (*File).IsADV, and where the batches of a reader file come from.
// Nothing aborts: what is not recognised is emitted as "Unknown", which the Coq checkers reject.
package main

import (
	"fmt"
	"go/ast"
	"go/constant"
	"go/token"
	"go/types"
	"os"
	"sort"
	"strings"

	"golang.org/x/tools/go/callgraph"
	"golang.org/x/tools/go/callgraph/cha"
	"golang.org/x/tools/go/packages"
	"golang.org/x/tools/go/ssa"
	"golang.org/x/tools/go/ssa/ssautil"
)

const serverPath = achPath + "/server"

const tR = 4 // re-sliced with a high bound: spare capacity overlaps live elements of the original

type awrite struct{ fn, kind, target, origin string }

type aval struct {
	t   int
	org map[string]bool
}

func (v *aval) join(o *aval) bool {
	if o == nil {
		return false
	}
	ch := false
	if v.t|o.t != v.t {
		v.t |= o.t
		ch = true
	}
	for k := range o.org {
		if !v.org[k] {
			if v.org == nil {
				v.org = map[string]bool{}
			}
			v.org[k] = true
			ch = true
		}
	}
	return ch
}

func mk(t int, orgs ...string) *aval {
	v := &aval{t: t, org: map[string]bool{}}
	for _, o := range orgs {
		v.org[o] = true
	}
	return v
}

func (v *aval) without(bits int) *aval {
	if v == nil {
		return nil
	}
	return &aval{t: v.t &^ bits, org: v.org}
}

func (v *aval) origins() []string {
	if v == nil || len(v.org) == 0 {
		return []string{"?"}
	}
	var out []string
	for k := range v.org {
		out = append(out, k)
	}
	sort.Strings(out)
	return out
}

type aliasAn struct {
	prog   *ssa.Program
	ach    *ssa.Package
	server *ssa.Package
	out    map[awrite]bool
}

func (a *aliasAn) add(fn, kind, target, origin string) {
	a.out[awrite{fn, kind, target, origin}] = true
}

func (a *aliasAn) short(s string) string {
	return strings.ReplaceAll(s, serverPath+".", "server.")
}

func (a *aliasAn) name(f *ssa.Function) string { return a.short(f.RelString(a.ach.Pkg)) }

func (a *aliasAn) typ(t types.Type) string {
	return a.short(types.TypeString(t, types.RelativeTo(a.ach.Pkg)))
}

func (a *aliasAn) inScope(f *ssa.Function) bool {
	for g := f; g != nil; g = g.Parent() {
		for _, p := range []*ssa.Package{a.ach, a.server} {
			if p == nil {
				continue
			}
			if g.Pkg == p {
				return true
			}
			if g.Origin() != nil && g.Origin().Pkg == p {
				return true
			}
			if o := g.Object(); o != nil && o.Pkg() == p.Pkg {
				return true
			}
		}
	}
	return false
}

func runAlias(repo, dump string) (string, error) {
	cfg := &packages.Config{Mode: packages.LoadAllSyntax, Dir: repo, Tests: false,
		Env: append(os.Environ(), "GOFLAGS=-mod=mod", "GOPROXY=off", "GOSUMDB=off", "GOTOOLCHAIN=local")}
	pkgs, err := packages.Load(cfg, achPath, serverPath)
	if err != nil {
		return "", err
	}
	var achP, srvP *packages.Package
	for _, p := range pkgs {
		switch p.PkgPath {
		case achPath:
			achP = p
		case serverPath:
			srvP = p
		}
	}
	if achP == nil || srvP == nil {
		return "", fmt.Errorf("packages %s and %s not both loaded", achPath, serverPath)
	}
	for _, p := range []*packages.Package{achP, srvP} {
		if len(p.Errors) > 0 {
			return "", fmt.Errorf("package %s does not type-check: %v", p.PkgPath, p.Errors[0])
		}
	}
	prog, _ := ssautil.AllPackages(pkgs, ssa.InstantiateGenerics)
	prog.Build()
	a := &aliasAn{prog: prog, ach: prog.Package(achP.Types), server: prog.Package(srvP.Types), out: map[awrite]bool{}}
	if a.ach == nil || a.server == nil {
		return "", fmt.Errorf("no SSA package")
	}
	for _, sp := range []*ssa.Package{a.ach, a.server} {
		for _, imp := range sp.Pkg.Imports() {
			if imp.Path() == "unsafe" || (imp.Path() == "reflect" && sp == a.ach) {
				a.add("package "+sp.Pkg.Name(), "Unknown", "imports "+imp.Path(), "")
			}
		}
	}

	// ---- roots: those of Effects.v plus the server's validate operation
	var roots []*ssa.Function
	rootNames := map[string]bool{}
	addRoot := func(f *ssa.Function) {
		if f == nil || rootNames[a.name(f)] {
			return
		}
		rootNames[a.name(f)] = true
		roots = append(roots, f)
	}
	for _, m := range a.ach.Members {
		t, ok := m.(*ssa.Type)
		if !ok {
			continue
		}
		for _, typ := range []types.Type{t.Type(), types.NewPointer(t.Type())} {
			ms := prog.MethodSets.MethodSet(typ)
			for i := 0; i < ms.Len(); i++ {
				sel := ms.At(i)
				fn := prog.MethodValue(sel)
				if fn == nil {
					continue
				}
				n, tn := sel.Obj().Name(), t.Name()
				switch {
				case n == "String" || n == "MarshalJSON" || n == "MarshalText" || n == "Error":
					addRoot(fn)
				case (n == "Validate" || n == "ValidateWith") && (tn == "File" || strings.HasPrefix(tn, "Batch") || tn == "IATBatch"):
					addRoot(fn)
				case n == "Write" && tn == "Writer":
					addRoot(fn)
				}
			}
		}
	}
	if t, ok := a.server.Members["service"].(*ssa.Type); ok {
		ms := prog.MethodSets.MethodSet(types.NewPointer(t.Type()))
		for i := 0; i < ms.Len(); i++ {
			if ms.At(i).Obj().Name() == "ValidateFile" {
				addRoot(prog.MethodValue(ms.At(i)))
			}
		}
	}
	for _, n := range []string{"validateFileEndpoint", "decodeValidateFileRequest"} {
		if f := a.server.Func(n); f != nil {
			addRoot(f)
			for _, an := range f.AnonFuncs {
				addRoot(an)
			}
		}
	}
	sort.Slice(roots, func(i, j int) bool { return a.name(roots[i]) < a.name(roots[j]) })

	// ---- closure
	cg := cha.CallGraph(prog)
	seen := map[*ssa.Function]bool{}
	var work []*ssa.Function
	push := func(f *ssa.Function) {
		if f == nil || seen[f] || !a.inScope(f) {
			return
		}
		seen[f] = true
		work = append(work, f)
	}
	for _, r := range roots {
		push(r)
	}
	for len(work) > 0 {
		f := work[len(work)-1]
		work = work[:len(work)-1]
		for _, an := range f.AnonFuncs {
			push(an)
		}
		if n := cg.Nodes[f]; n != nil {
			for _, e := range n.Out {
				push(e.Callee.Func)
			}
		}
	}
	var fns []*ssa.Function
	for f := range seen {
		fns = append(fns, f)
	}
	sort.Slice(fns, func(i, j int) bool { return a.name(fns[i]) < a.name(fns[j]) })
	if dump != "" {
		for f := range a.allFuncs() {
			if a.name(f) == dump {
				f.WriteTo(os.Stderr)
			}
		}
	}
	for _, f := range fns {
		a.function(f)
	}
	a.callers(fns, seen, cg)

	// ---- emit
	var b strings.Builder
	b.WriteString("(* Generated by translator-ssa (-mode alias) from the SSA form of " + achPath + " and " + serverPath + "; do not edit. *)\n")
	b.WriteString("From Coq Require Import String List.\nImport ListNotations.\nFrom ACH Require Import AliasTable.\nOpen Scope string_scope.\n\n")
	strList := func(name string, items []string) {
		b.WriteString("Definition " + name + " : list string :=\n  [")
		for i, s := range items {
			if i > 0 {
				b.WriteString(";\n   ")
			}
			b.WriteString(coqString(s))
		}
		b.WriteString("].\n\n")
	}
	var rn, cn []string
	for _, r := range roots {
		rn = append(rn, a.name(r))
	}
	for _, f := range fns {
		cn = append(cn, a.name(f))
	}
	strList("alias_roots", rn)
	fmt.Fprintf(&b, "Definition alias_closure_size : nat := %d.\n\n", len(fns))
	strList("alias_closure", cn)
	var ws []awrite
	for w := range a.out {
		ws = append(ws, w)
	}
	sort.Slice(ws, func(i, j int) bool {
		x, y := ws[i], ws[j]
		if x.fn != y.fn {
			return x.fn < y.fn
		}
		if x.kind != y.kind {
			return x.kind < y.kind
		}
		if x.target != y.target {
			return x.target < y.target
		}
		return x.origin < y.origin
	})
	b.WriteString("Definition alias_writes : list awrite :=\n  [")
	for i, w := range ws {
		if i > 0 {
			b.WriteString(";\n   ")
		}
		fmt.Fprintf(&b, "mkaw %s %s %s %s", coqString(w.fn), coqString(w.kind), coqString(w.target), coqString(w.origin))
	}
	b.WriteString("].\n\n")
	a.construction(&b, achP, fns, seen, cg)
	return b.String(), nil
}

// ---------------------------------------------------------------- per function: taint with origins

type astate struct {
	val  map[ssa.Value]*aval
	cell map[*ssa.Alloc]*aval
}

func (s *astate) get(v ssa.Value) *aval {
	if g, ok := v.(*ssa.Global); ok {
		return mk(tG, "var "+g.Name())
	}
	return s.val[v]
}

func (s *astate) set(v ssa.Value, x *aval) bool {
	if x == nil || x.t&(tP|tG) == 0 || !pointerBearing(v.Type()) {
		return false
	}
	cur := s.val[v]
	if cur == nil {
		cur = &aval{org: map[string]bool{}}
		s.val[v] = cur
	}
	return cur.join(x)
}

// argVal: value of an operand as an argument (an address inside a local allocation stands for what was stored there)
func (s *astate) argVal(v ssa.Value) *aval {
	if !pointerBearing(v.Type()) {
		return nil
	}
	r := &aval{org: map[string]bool{}}
	r.join(s.get(v))
	if al, _ := root(v); al != nil {
		r.join(s.cell[al])
	}
	if r.t&(tP|tG) == 0 {
		return nil
	}
	return r
}

func structField(x ssa.Value, field int, a *aliasAn) string {
	t := x.Type().Underlying()
	if p, ok := t.(*types.Pointer); ok {
		t = p.Elem()
	}
	name := a.typ(t)
	if p, ok := x.Type().Underlying().(*types.Pointer); ok {
		name = a.typ(p.Elem())
	} else {
		name = a.typ(x.Type())
	}
	if u, ok := t.Underlying().(*types.Struct); ok && field < u.NumFields() {
		return name + "." + u.Field(field).Name()
	}
	return name + ".?"
}

func (a *aliasAn) function(f *ssa.Function) {
	if len(f.Blocks) == 0 {
		return
	}
	s := &astate{val: map[ssa.Value]*aval{}, cell: map[*ssa.Alloc]*aval{}}
	for _, p := range f.Params {
		if pointerBearing(p.Type()) {
			s.val[p] = mk(tP, "param "+p.Name())
		}
	}
	for _, fv := range f.FreeVars {
		s.val[fv] = mk(tP, "free "+fv.Name())
	}
	tainted := func(v *aval) bool { return v != nil && v.t&(tP|tG) != 0 }
	for changed := true; changed; {
		changed = false
		for _, b := range f.Blocks {
			for _, in := range b.Instrs {
				switch x := in.(type) {
				case *ssa.Store:
					if al, _ := root(x.Addr); al != nil && pointerBearing(x.Val.Type()) {
						v := s.get(x.Val)
						if al2, _ := root(x.Val); al2 != nil {
							v = s.cell[al2]
						}
						if tainted(v) {
							c := s.cell[al]
							if c == nil {
								c = &aval{org: map[string]bool{}}
								s.cell[al] = c
							}
							changed = c.join(v) || changed
						}
					}
				case *ssa.UnOp:
					if x.Op == token.MUL {
						if al, _ := root(x.X); al != nil {
							changed = s.set(x, s.cell[al]) || changed
						} else {
							changed = s.set(x, s.get(x.X).without(tR)) || changed
						}
					}
				case *ssa.FieldAddr:
					if v := s.get(x.X); tainted(v) {
						changed = s.set(x, mk(v.t&^tR, structField(x.X, x.Field, a))) || changed
					}
				case *ssa.Field:
					if v := s.get(x.X); tainted(v) {
						changed = s.set(x, mk(v.t&^tR, structField(x.X, x.Field, a))) || changed
					}
				case *ssa.IndexAddr:
					changed = s.set(x, s.get(x.X).without(tR)) || changed
				case *ssa.Index:
					changed = s.set(x, s.get(x.X).without(tR)) || changed
				case *ssa.Lookup:
					changed = s.set(x, s.get(x.X).without(tR)) || changed
				case *ssa.Slice:
					v := s.get(x.X)
					if al, _ := root(x.X); al != nil {
						v = s.cell[al]
					}
					if tainted(v) {
						r := &aval{t: v.t, org: v.org}
						if x.High != nil && x.Max == nil {
							r.t |= tR
						}
						changed = s.set(x, r) || changed
					}
				case *ssa.Range:
					changed = s.set(x, s.get(x.X).without(tR)) || changed
				case *ssa.Next:
					changed = s.set(x, s.get(x.Iter)) || changed
				case *ssa.Extract:
					changed = s.set(x, s.get(x.Tuple)) || changed
				case *ssa.TypeAssert:
					changed = s.set(x, s.get(x.X)) || changed
				case *ssa.ChangeType:
					changed = s.set(x, s.get(x.X)) || changed
				case *ssa.Convert:
					changed = s.set(x, s.get(x.X)) || changed
				case *ssa.ChangeInterface:
					changed = s.set(x, s.get(x.X)) || changed
				case *ssa.MakeInterface:
					changed = s.set(x, s.get(x.X)) || changed
				case *ssa.SliceToArrayPointer:
					changed = s.set(x, s.get(x.X)) || changed
				case *ssa.MultiConvert:
					changed = s.set(x, s.get(x.X)) || changed
				case *ssa.Phi:
					for _, e := range x.Edges {
						changed = s.set(x, s.get(e)) || changed
					}
				case *ssa.Select:
					for _, st := range x.States {
						changed = s.set(x, s.get(st.Chan)) || changed
					}
				case *ssa.MakeClosure:
					for _, bnd := range x.Bindings {
						changed = s.set(x, s.argVal(bnd).without(tR)) || changed
					}
				case *ssa.Call:
					if bi, ok := x.Call.Value.(*ssa.Builtin); ok && bi.Name() == "append" && len(x.Call.Args) > 0 {
						// the result may be the first argument's backing array
						changed = s.set(x, s.argVal(x.Call.Args[0])) || changed
						for _, arg := range x.Call.Args[1:] {
							if v := s.argVal(arg); v != nil {
								changed = s.set(x, &aval{t: v.t &^ tR}) || changed
							}
						}
						continue
					}
					for _, arg := range callOperands(&x.Call) {
						changed = s.set(x, s.argVal(arg).without(tR)) || changed
					}
				}
			}
		}
	}

	fn := a.name(f)
	for _, b := range f.Blocks {
		for _, in := range b.Instrs {
			switch x := in.(type) {
			case *ssa.Store:
				al, base := root(x.Addr)
				if al != nil {
					continue
				}
				bv := s.get(base)
				if !tainted(bv) {
					continue
				}
				g := ""
				if bv.t&tP == 0 {
					g = "Global"
				}
				var kind, target string
				var cont *aval
				switch ad := x.Addr.(type) {
				case *ssa.FieldAddr:
					kind, target, cont = "Store", structField(ad.X, ad.Field, a), s.get(ad.X)
				case *ssa.IndexAddr:
					kind, target, cont = "ElemStore", "elem("+a.typ(ad.X.Type())+")", s.get(ad.X)
				default:
					kind, target, cont = "DerefStore", "deref("+a.typ(x.Addr.Type())+")", s.get(x.Addr)
				}
				if !tainted(cont) {
					cont = bv
				}
				for _, o := range cont.origins() {
					a.add(fn, g+kind, target, o)
				}
			case *ssa.MapUpdate:
				if v := s.get(x.Map); tainted(v) {
					for _, o := range v.origins() {
						a.add(fn, "MapUpdate", a.typ(x.Map.Type()), o)
					}
				}
			case *ssa.Send:
				if v := s.get(x.Chan); tainted(v) {
					for _, o := range v.origins() {
						a.add(fn, "Send", a.typ(x.Chan.Type()), o)
					}
				}
			case *ssa.Call:
				a.call(fn, s, &x.Call)
			case *ssa.Defer:
				a.call(fn, s, &x.Call)
			case *ssa.Go:
				a.call(fn, s, &x.Call)
			}
		}
	}
}

func (a *aliasAn) call(fn string, s *astate, c *ssa.CallCommon) {
	emit := func(kind, target string, v *aval) {
		for _, o := range v.origins() {
			a.add(fn, kind, target, o)
		}
	}
	union := func(args []ssa.Value) *aval {
		r := &aval{org: map[string]bool{}}
		for _, arg := range args {
			r.join(s.argVal(arg))
		}
		if r.t&(tP|tG) == 0 {
			return nil
		}
		return r
	}
	if b, ok := c.Value.(*ssa.Builtin); ok {
		switch b.Name() {
		case "copy":
			if len(c.Args) > 0 {
				if v := s.argVal(c.Args[0]); v != nil {
					emit("Copy", a.typ(c.Args[0].Type()), v)
				}
			}
		case "delete", "clear":
			if len(c.Args) > 0 {
				if v := s.argVal(c.Args[0]); v != nil {
					emit("Builtin", b.Name()+" "+a.typ(c.Args[0].Type()), v)
				}
			}
		case "append":
			if len(c.Args) > 0 {
				if v := s.argVal(c.Args[0]); v != nil {
					kind := "AppendShared"
					if v.t&tR != 0 {
						kind = "AppendInPlace"
					}
					emit(kind, a.typ(c.Args[0].Type()), v)
				}
			}
		case "len", "cap", "print", "println", "panic", "recover", "min", "max", "real", "imag", "complex", "close", "ssa:wrapnilchk":
		default:
			a.add(fn, "Unknown", "builtin "+b.Name(), "")
		}
		return
	}
	if c.IsInvoke() {
		if n := namedOf(c.Value.Type()); n != nil && n.Obj().Pkg() != nil && (n.Obj().Pkg() == a.ach.Pkg || n.Obj().Pkg() == a.server.Pkg) {
			return // implementations inside the analysed packages are followed through the call graph
		}
		if v := union(c.Args); v != nil {
			emit("ExtCall", "("+a.typ(c.Value.Type())+")."+c.Method.Name(), v)
		}
		return
	}
	if callee := c.StaticCallee(); callee != nil {
		if a.inScope(callee) {
			return
		}
		if v := union(c.Args); v != nil {
			kind := "ExtCall"
			if callee.Pkg != nil && (callee.Pkg.Pkg.Path() == "sort" || callee.Pkg.Pkg.Path() == "slices") {
				kind = "SortCall"
			} else if o := callee.Origin(); o != nil && o.Pkg != nil && (o.Pkg.Pkg.Path() == "sort" || o.Pkg.Pkg.Path() == "slices") {
				kind = "SortCall"
			}
			name := callee.RelString(a.ach.Pkg)
			if o := callee.Origin(); o != nil {
				name = o.RelString(a.ach.Pkg) // generic instance: name of the generic function
			}
			emit(kind, a.short(name), v)
		}
		return
	}
	if v := union(c.Args); v != nil {
		emit("DynCall", a.typ(c.Value.Type()), v)
	}
}

// callers: which non-synthetic function of the closure calls a function that writes
func (a *aliasAn) callers(fns []*ssa.Function, seen map[*ssa.Function]bool, cg *callgraph.Graph) {
	writers := map[string]bool{}
	for w := range a.out {
		switch w.kind {
		case "ExtCall", "CallsWriter", "Unknown":
		default:
			writers[w.fn] = true
		}
	}
	for _, f := range fns {
		if !writers[a.name(f)] {
			continue
		}
		visited := map[*ssa.Function]bool{}
		var up func(g *ssa.Function)
		up = func(g *ssa.Function) {
			if visited[g] {
				return
			}
			visited[g] = true
			n := cg.Nodes[g]
			if n == nil {
				return
			}
			for _, e := range n.In {
				c := e.Caller.Func
				if !seen[c] {
					continue
				}
				if c.Synthetic != "" {
					up(c)
					continue
				}
				a.add(a.name(c), "CallsWriter", a.name(f), "")
			}
		}
		up(f)
	}
}

// ---------------------------------------------------------------- construction facts

// construction emits
//
//	newbatch_cases : list (string * string)        SEC code (value of the case constant) -> what NewBatch returns
//	ctor_stmts     : list (string * list string)   constructor -> its statements, in order
//	isadv_returns  : list (string * list string)   function -> class of each of its returns
//	batch_sources  : list (string * string * string)  (function, what, provenance) for the chain NewBatch -> File.Batches in the Reader
func (a *aliasAn) construction(b *strings.Builder, achP *packages.Package, fns []*ssa.Function, seen map[*ssa.Function]bool, cg *callgraph.Graph) {
	info := achP.TypesInfo
	decls := map[string]*ast.FuncDecl{}
	for _, file := range achP.Syntax {
		for _, d := range file.Decls {
			if fd, ok := d.(*ast.FuncDecl); ok && fd.Recv == nil {
				decls[fd.Name.Name] = fd
			}
		}
	}
	type pair struct{ k, v string }
	var cases []pair
	ctors := map[string]bool{}
	if nb := decls["NewBatch"]; nb == nil || nb.Body == nil {
		cases = append(cases, pair{"?", "Unknown: no func NewBatch"})
	} else {
		nsw := 0
		for _, st := range nb.Body.List {
			sw, ok := st.(*ast.SwitchStmt)
			if !ok {
				continue
			}
			nsw++
			tag := "?"
			if sw.Tag != nil {
				tag = exprText(sw.Tag)
			}
			if sw.Init != nil || nsw > 1 || tag != paramName(nb, 0)+".StandardEntryClassCode" {
				cases = append(cases, pair{"?", "Unknown: switch " + tag})
				continue
			}
			for _, cc := range sw.Body.List {
				cl := cc.(*ast.CaseClause)
				res := clauseResult(cl)
				for _, e := range cl.List {
					key := "?" + exprText(e)
					if tv, ok := info.Types[e]; ok && tv.Value != nil && tv.Value.Kind() == constant.String {
						key = constant.StringVal(tv.Value)
					}
					cases = append(cases, pair{key, res})
					if strings.HasPrefix(res, "ctor ") {
						ctors[strings.TrimPrefix(res, "ctor ")] = true
					}
				}
				if cl.List == nil && len(cl.Body) > 0 {
					cases = append(cases, pair{"?default", res})
				}
			}
		}
		if nsw == 0 {
			cases = append(cases, pair{"?", "Unknown: no switch"})
		}
	}
	b.WriteString("Definition newbatch_cases : list (string * string) :=\n  [")
	for i, c := range cases {
		if i > 0 {
			b.WriteString(";\n   ")
		}
		fmt.Fprintf(b, "(%s, %s)", coqString(c.k), coqString(c.v))
	}
	b.WriteString("].\n\n")

	var cn []string
	for c := range ctors {
		cn = append(cn, c)
	}
	sort.Strings(cn)
	b.WriteString("Definition ctor_stmts : list (string * list string) :=\n  [")
	for i, c := range cn {
		if i > 0 {
			b.WriteString(";\n   ")
		}
		var sts []string
		if fd := decls[c]; fd == nil || fd.Body == nil {
			sts = []string{"Unknown: no such function"}
		} else {
			for _, st := range fd.Body.List {
				sts = append(sts, ctorStmt(fd, st, info))
			}
		}
		q := make([]string, len(sts))
		for k, s := range sts {
			q[k] = coqString(s)
		}
		fmt.Fprintf(b, "(%s, [%s])", coqString(c), strings.Join(q, "; "))
	}
	b.WriteString("].\n\n")

	// returns of Reader.Read / File.Create relative to the call of (*File).IsADV
	b.WriteString("Definition isadv_returns : list (string * list string) :=\n  [")
	for i, name := range []string{"(*Reader).Read", "(*File).Create"} {
		if i > 0 {
			b.WriteString(";\n   ")
		}
		var cls []string
		var fn *ssa.Function
		for f := range a.allFuncs() {
			if a.name(f) == name {
				fn = f
			}
		}
		if fn == nil || len(fn.Blocks) == 0 {
			cls = []string{"Unknown: no such function"}
		} else {
			cls = a.returnClasses(fn)
		}
		q := make([]string, len(cls))
		for k, s := range cls {
			q[k] = coqString(s)
		}
		fmt.Fprintf(b, "(%s, [%s])", coqString(name), strings.Join(q, "; "))
	}
	b.WriteString("].\n\n")

	// where the elements of File.Batches of a reader file come from
	type triple struct{ fn, what, prov string }
	var src []triple
	readClosure := a.closureOf("(*Reader).Read", cg)
	var rfns []*ssa.Function
	for f := range readClosure {
		rfns = append(rfns, f)
	}
	sort.Slice(rfns, func(i, j int) bool { return a.name(rfns[i]) < a.name(rfns[j]) })
	for _, f := range rfns {
		for _, blk := range f.Blocks {
			for _, in := range blk.Instrs {
				switch x := in.(type) {
				case *ssa.Store:
					if fa, ok := x.Addr.(*ssa.FieldAddr); ok {
						switch structField(fa.X, fa.Field, a) {
						case "File.Batches":
							src = append(src, triple{a.name(f), "store File.Batches", a.prov(x.Val, 0)})
						case "Reader.currentBatch":
							src = append(src, triple{a.name(f), "store Reader.currentBatch", a.prov(x.Val, 0)})
						}
					}
				case *ssa.Call:
					if callee := x.Call.StaticCallee(); callee != nil && len(x.Call.Args) >= 2 {
						switch a.name(callee) {
						case "(*File).AddBatch":
							src = append(src, triple{a.name(f), "call (*File).AddBatch", a.prov(x.Call.Args[1], 0)})
						case "(*Reader).addCurrentBatch":
							src = append(src, triple{a.name(f), "call (*Reader).addCurrentBatch", a.prov(x.Call.Args[1], 0)})
						}
					}
				}
			}
		}
	}
	if len(readClosure) == 0 {
		src = append(src, triple{"(*Reader).Read", "Unknown", "no such function"})
	}
	// every store to the header / control pointer of a batch or to File.Batches in the closures of Read and Create
	var pw []triple
	for _, rootName := range []string{"(*Reader).Read", "(*File).Create"} {
		cl := a.closureOf(rootName, cg)
		if len(cl) == 0 {
			pw = append(pw, triple{rootName, "Unknown: no such function", ""})
		}
		for f := range cl {
			for _, blk := range f.Blocks {
				for _, in := range blk.Instrs {
					if c, ok := in.(ssa.CallInstruction); ok {
						cc := c.Common()
						callee := ""
						if sc := cc.StaticCallee(); sc != nil {
							callee = a.name(sc)
						} else if cc.IsInvoke() {
							callee = "(Batcher)." + cc.Method.Name()
						}
						switch callee {
						case "(*Batch).SetHeader", "(*Batch).SetControl", "(Batcher).SetHeader", "(Batcher).SetControl":
							if f.Synthetic == "" {
								pw = append(pw, triple{rootName, a.name(f), "calls " + callee})
							}
						}
					}
					st, ok := in.(*ssa.Store)
					if !ok {
						continue
					}
					switch ad := st.Addr.(type) {
					case *ssa.FieldAddr:
						switch tg := structField(ad.X, ad.Field, a); tg {
						case "Batch.Header", "Batch.Control", "File.Batches":
							pw = append(pw, triple{rootName, a.name(f), tg})
						}
					case *ssa.IndexAddr:
						if tg := a.typ(ad.X.Type()); tg == "[]Batcher" {
							pw = append(pw, triple{rootName, a.name(f), "elem([]Batcher)"})
						}
					}
				}
			}
		}
	}
	sort.Slice(pw, func(i, j int) bool {
		if pw[i].fn != pw[j].fn {
			return pw[i].fn < pw[j].fn
		}
		if pw[i].what != pw[j].what {
			return pw[i].what < pw[j].what
		}
		return pw[i].prov < pw[j].prov
	})
	seenP := map[triple]bool{}
	b.WriteString("Definition pointer_writes : list (string * string * string) :=\n  [")
	firstP := true
	for _, t := range pw {
		if seenP[t] {
			continue
		}
		seenP[t] = true
		if !firstP {
			b.WriteString(";\n   ")
		}
		firstP = false
		fmt.Fprintf(b, "(%s, %s, %s)", coqString(t.fn), coqString(t.what), coqString(t.prov))
	}
	b.WriteString("].\n\n")

	seenT := map[triple]bool{}
	b.WriteString("Definition batch_sources : list (string * string * string) :=\n  [")
	first := true
	for _, t := range src {
		if seenT[t] {
			continue
		}
		seenT[t] = true
		if !first {
			b.WriteString(";\n   ")
		}
		first = false
		fmt.Fprintf(b, "(%s, %s, %s)", coqString(t.fn), coqString(t.what), coqString(t.prov))
	}
	b.WriteString("].\n")
}

func (a *aliasAn) allFuncs() map[*ssa.Function]bool { return ssautil.AllFunctions(a.prog) }

// closureOf: functions of the analysed packages reachable from the named function
func (a *aliasAn) closureOf(name string, cg *callgraph.Graph) map[*ssa.Function]bool {
	seen := map[*ssa.Function]bool{}
	var work []*ssa.Function
	for f := range a.allFuncs() {
		if a.name(f) == name && len(f.Blocks) > 0 {
			seen[f] = true
			work = append(work, f)
		}
	}
	for len(work) > 0 {
		f := work[len(work)-1]
		work = work[:len(work)-1]
		next := append([]*ssa.Function{}, f.AnonFuncs...)
		if n := cg.Nodes[f]; n != nil {
			for _, e := range n.Out {
				next = append(next, e.Callee.Func)
			}
		}
		for _, g := range next {
			if g != nil && !seen[g] && a.inScope(g) {
				seen[g] = true
				work = append(work, g)
			}
		}
	}
	return seen
}

// prov describes where an SSA value comes from, looking through interface conversions,
// tuple extraction and phis.
func (a *aliasAn) prov(v ssa.Value, depth int) string {
	if depth > 6 {
		return "Unknown: deep"
	}
	switch x := v.(type) {
	case *ssa.Const:
		if x.IsNil() {
			return "nil"
		}
		return "const"
	case *ssa.Parameter:
		return "param " + x.Name()
	case *ssa.MakeInterface:
		return a.prov(x.X, depth+1)
	case *ssa.ChangeInterface:
		return a.prov(x.X, depth+1)
	case *ssa.ChangeType:
		return a.prov(x.X, depth+1)
	case *ssa.Extract:
		return a.prov(x.Tuple, depth+1)
	case *ssa.Call:
		if b, ok := x.Call.Value.(*ssa.Builtin); ok {
			if b.Name() == "append" && len(x.Call.Args) == 2 {
				return "append(" + a.prov(x.Call.Args[0], depth+1) + ", " + a.prov(x.Call.Args[1], depth+1) + ")"
			}
			return "Unknown: builtin " + b.Name()
		}
		if c := x.Call.StaticCallee(); c != nil {
			return "call " + a.name(c)
		}
		return "Unknown: dynamic call"
	case *ssa.UnOp:
		if x.Op == token.MUL {
			if fa, ok := x.X.(*ssa.FieldAddr); ok {
				return "field " + structField(fa.X, fa.Field, a)
			}
			return "Unknown: load"
		}
	case *ssa.Slice:
		// a variadic argument list: new [1]T, store, slice
		if al, ok := x.X.(*ssa.Alloc); ok {
			var parts []string
			for _, ref := range *al.Referrers() {
				if ia, ok := ref.(*ssa.IndexAddr); ok {
					for _, r2 := range *ia.Referrers() {
						if st, ok := r2.(*ssa.Store); ok && st.Addr == ia {
							parts = append(parts, a.prov(st.Val, depth+1))
						}
					}
				}
			}
			sort.Strings(parts)
			return "[" + strings.Join(parts, ", ") + "]"
		}
	case *ssa.Phi:
		set := map[string]bool{}
		for _, e := range x.Edges {
			set[a.prov(e, depth+1)] = true
		}
		var parts []string
		for p := range set {
			parts = append(parts, p)
		}
		sort.Strings(parts)
		return strings.Join(parts, " | ")
	}
	return fmt.Sprintf("Unknown: %T", v)
}

// returnClasses classifies every return of fn:
//
//	"AfterIsADV"  the return is dominated by a call of (*File).IsADV
//	"ErrNonNil"   not dominated, but the last result is an error that cannot be nil there
//	"Other"       anything else
func (a *aliasAn) returnClasses(fn *ssa.Function) []string {
	type site struct {
		b   *ssa.BasicBlock
		idx int
	}
	var calls []site
	for _, b := range fn.Blocks {
		for i, in := range b.Instrs {
			if c, ok := in.(*ssa.Call); ok {
				if callee := c.Call.StaticCallee(); callee != nil && a.name(callee) == "(*File).IsADV" {
					calls = append(calls, site{b, i})
				}
			}
		}
	}
	var out []string
	for _, b := range fn.Blocks {
		for i, in := range b.Instrs {
			ret, ok := in.(*ssa.Return)
			if !ok {
				continue
			}
			cls := "Other"
			for _, c := range calls {
				if (c.b == b && c.idx < i) || (c.b != b && c.b.Dominates(b)) {
					cls = "AfterIsADV"
				}
			}
			if cls == "Other" && b == fn.Recover && !defersRecover(fn) {
				// the block a recovered panic resumes in; no deferred call of fn recovers
				cls = "RecoverBlockUnreachable"
			}
			if cls == "Other" && len(ret.Results) > 0 {
				v := ret.Results[len(ret.Results)-1]
				// with a defer in the function results travel through a local: *t1 = v; rundefers; t = *t1; return t
				if ld, ok := v.(*ssa.UnOp); ok && ld.Op == token.MUL {
					if al, ok := ld.X.(*ssa.Alloc); ok {
						for k := i - 1; k >= 0; k-- {
							if st, ok := b.Instrs[k].(*ssa.Store); ok && st.Addr == al {
								v = st.Val
								break
							}
						}
					}
				}
				if nonNilErr(v, b) {
					cls = "ErrNonNil"
				}
			}
			out = append(out, cls)
		}
	}
	if len(calls) == 0 {
		out = append(out, "Unknown: no call of (*File).IsADV")
	}
	return out
}

// defersRecover: some statically known deferred callee of fn calls recover (or a deferred callee is not statically known)
func defersRecover(fn *ssa.Function) bool {
	for _, b := range fn.Blocks {
		for _, in := range b.Instrs {
			d, ok := in.(*ssa.Defer)
			if !ok {
				continue
			}
			callee := d.Call.StaticCallee()
			if callee == nil {
				return true
			}
			for _, cb := range callee.Blocks {
				for _, ci := range cb.Instrs {
					if c, ok := ci.(*ssa.Call); ok {
						if bi, ok := c.Call.Value.(*ssa.Builtin); ok && bi.Name() == "recover" {
							return true
						}
					}
				}
			}
		}
	}
	return false
}

// nonNilErr: v (an error) cannot be nil in block b.
func nonNilErr(v ssa.Value, b *ssa.BasicBlock) bool {
	switch x := v.(type) {
	case *ssa.MakeInterface:
		return true // an interface holding a value of a concrete type is never == nil
	case *ssa.Call:
		if c := x.Call.StaticCallee(); c != nil && c.Pkg != nil && c.Pkg.Pkg.Path() == "errors" && c.Name() == "New" {
			return true
		}
	case *ssa.UnOp:
		// a package-level error variable (ErrFileNoBatches ...): initialised with errors.New, never assigned in the closure
		if g, ok := x.X.(*ssa.Global); ok && x.Op == token.MUL && strings.HasPrefix(g.Name(), "Err") {
			return true
		}
	}
	// inside the true branch of "v != nil"
	for d := b; d != nil; d = d.Idom() {
		id := d.Idom()
		if id == nil || len(id.Instrs) == 0 {
			continue
		}
		iff, ok := id.Instrs[len(id.Instrs)-1].(*ssa.If)
		if !ok {
			continue
		}
		bo, ok := iff.Cond.(*ssa.BinOp)
		if !ok || bo.Op != token.NEQ {
			continue
		}
		isNil := func(c ssa.Value) bool { k, ok := c.(*ssa.Const); return ok && k.IsNil() }
		if !((bo.X == v && isNil(bo.Y)) || (bo.Y == v && isNil(bo.X))) {
			continue
		}
		if id.Succs[0] == d && len(d.Preds) == 1 {
			return true
		}
	}
	return false
}

// ---- go/ast helpers for the constructors

func exprText(e ast.Expr) string {
	switch x := e.(type) {
	case *ast.Ident:
		return x.Name
	case *ast.SelectorExpr:
		return exprText(x.X) + "." + x.Sel.Name
	case *ast.CallExpr:
		var args []string
		for _, a := range x.Args {
			args = append(args, exprText(a))
		}
		return exprText(x.Fun) + "(" + strings.Join(args, ", ") + ")"
	case *ast.BasicLit:
		return x.Value
	case *ast.StarExpr:
		return "*" + exprText(x.X)
	case *ast.UnaryExpr:
		return x.Op.String() + exprText(x.X)
	}
	return fmt.Sprintf("<%T>", e)
}

func paramName(fd *ast.FuncDecl, i int) string {
	k := 0
	for _, f := range fd.Type.Params.List {
		for _, n := range f.Names {
			if k == i {
				return n.Name
			}
			k++
		}
	}
	return "?"
}

// clauseResult: "ctor NewBatchXXX" for `return NewBatchXXX(bh), nil`, "error" for `return nil, <err>` or an empty clause
func clauseResult(cl *ast.CaseClause) string {
	if len(cl.Body) == 0 {
		return "error"
	}
	if len(cl.Body) != 1 {
		return "Unknown: clause with several statements"
	}
	ret, ok := cl.Body[0].(*ast.ReturnStmt)
	if !ok || len(ret.Results) != 2 {
		return "Unknown: " + fmt.Sprintf("%T", cl.Body[0])
	}
	if id, ok := ret.Results[0].(*ast.Ident); ok && id.Name == "nil" {
		return "error"
	}
	call, ok := ret.Results[0].(*ast.CallExpr)
	nilErr, ok2 := ret.Results[1].(*ast.Ident)
	if !ok || !ok2 || nilErr.Name != "nil" || len(call.Args) != 1 {
		return "Unknown: " + exprText(ret.Results[0])
	}
	fn, ok := call.Fun.(*ast.Ident)
	if !ok {
		return "Unknown: " + exprText(call.Fun)
	}
	if arg, ok := call.Args[0].(*ast.Ident); !ok || arg.Name == "nil" {
		return "Unknown: argument " + exprText(call.Args[0])
	}
	return "ctor " + fn.Name
}

// ctorStmt renders one statement of a NewBatchXXX constructor:
//
//	"new"                      batch := new(BatchXXX)
//	"<method>(<arg>)"          batch.M(arg) with M resolved to its declaring type, e.g. "(*Batch).SetControl(NewBatchControl())",
//	                           the header parameter rendered as "bh"
//	"return"                   return batch
func ctorStmt(fd *ast.FuncDecl, st ast.Stmt, info *types.Info) string {
	p := paramName(fd, 0)
	switch x := st.(type) {
	case *ast.AssignStmt:
		if len(x.Lhs) == 1 && len(x.Rhs) == 1 && x.Tok == token.DEFINE {
			if c, ok := x.Rhs[0].(*ast.CallExpr); ok {
				if id, ok := c.Fun.(*ast.Ident); ok && id.Name == "new" && len(c.Args) == 1 {
					return "new"
				}
			}
		}
	case *ast.ExprStmt:
		if c, ok := x.X.(*ast.CallExpr); ok {
			if sel, ok := c.Fun.(*ast.SelectorExpr); ok && len(c.Args) == 1 {
				name := sel.Sel.Name
				if s, ok := info.Selections[sel]; ok {
					if f, ok := s.Obj().(*types.Func); ok {
						name = strings.ReplaceAll(f.FullName(), achPath+".", "")
					}
				}
				arg := exprText(c.Args[0])
				if arg == p {
					arg = "bh"
				} else if strings.HasPrefix(arg, p+".") {
					arg = "bh." + strings.TrimPrefix(arg, p+".")
				}
				return name + "(" + arg + ")"
			}
		}
	case *ast.ReturnStmt:
		if len(x.Results) == 1 {
			if _, ok := x.Results[0].(*ast.Ident); ok {
				return "return"
			}
		}
	}
	return "Unknown: " + fmt.Sprintf("%T", st)
}

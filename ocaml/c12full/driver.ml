(* C12 phase 6 driver: runs the extracted whole-function model (FlattenFull.v) on the harness's cases.
   Case line:
     F <hdrok> <count> <debit> <credit> N <n>
       { B <S|I> <sighex> <num> <class> <odfihex> <hdrok> <adv> <odfiz> <odfinum> <ne> <na>
         { <tracehex> <corehex> <amount> <debit> <addenda> <category> <payload> }*(ne+na) }*n  H <k> <i>*k
     payload of a standard entry:  <code> <rdfihex> <checkhex> <offset>
             of an IAT entry:      <code> <rdfiz> <trnum> <mand 7 x 0|1> <n17> <n18> <a98> <a99>
             of an ADV entry:      <code> <rdfiz> <a99>
   Result line:
     OK S <n> { <A|S> <svc> <hdrnum> <ctlnum> <count> <hash> <credit> <debit> <ne> <trace>* }*n
        I <n> { ... }*n  FC <batches> <blocks> <count> <hash> <debit> <credit>  CAT <c>*
     | NOBATCHES | ERRFILE | COUNT | DEBIT | CREDIT | REJECT *)
open Model
open Conv
open Convz

let hdrs : (bytes, hdrp) Hashtbl.t = Hashtbl.create 64
let stds : (bytes, stdp) Hashtbl.t = Hashtbl.create 1024
let iats : (bytes, ipay) Hashtbl.t = Hashtbl.create 1024
let advs : (bytes, apay) Hashtbl.t = Hashtbl.create 1024

let zi s = z_of_int (int_of_string s)
let b1 s = s = "1"

let parse (toks : string array) =
  let pos = ref 0 in
  let next () = let t = toks.(!pos) in incr pos; t in
  let expect s = if next () <> s then failwith ("expected " ^ s) in
  let rec times k f = if k <= 0 then [] else let x = f () in x :: times (k - 1) f in
  expect "F";
  let hok = b1 (next ()) in
  let c = zi (next ()) in let d = zi (next ()) in let cr = zi (next ()) in
  let inf = { i_hdr_ok = hok; i_count = c; i_debit = d; i_credit = cr } in
  expect "N";
  let n = int_of_string (next ()) in
  let batches = times n (fun () ->
    expect "B";
    let kind = if next () = "I" then KIAT else KStd in
    let sg = bytes_of_hex (next ()) in
    let num = zi (next ()) in
    let cls = zi (next ()) in
    let odfi = bytes_of_hex (next ()) in
    let hok = b1 (next ()) in
    let adv = b1 (next ()) in
    let oz = zi (next ()) in
    let onum = b1 (next ()) in
    Hashtbl.replace hdrs sg { hd_class = cls; hd_odfi = odfi; hd_ok = hok; hd_adv = adv; hd_odfi_z = oz; hd_odfi_num = onum };
    let ne = int_of_string (next ()) in
    let na = int_of_string (next ()) in
    let entry which () =
      let tr = bytes_of_hex (next ()) in
      let core = bytes_of_hex (next ()) in
      let amount = zi (next ()) in
      let debit = b1 (next ()) in
      let addenda = n_of_int (int_of_string (next ())) in
      let cat = n_of_int (int_of_string (next ())) in
      (match which with
       | `Std ->
         let code = zi (next ()) in
         let rdfi = bytes_of_hex (next ()) in
         let chk = bytes_of_hex (next ()) in
         let off = b1 (next ()) in
         Hashtbl.replace stds core { sp_code = code; sp_rdfi = rdfi; sp_check = chk; sp_off = off }
       | `Iat ->
         let code = zi (next ()) in
         let rdfi = zi (next ()) in
         let trn = b1 (next ()) in
         let mand = times 7 (fun () -> b1 (next ())) in
         let n17 = nat_of_int (int_of_string (next ())) in
         let n18 = nat_of_int (int_of_string (next ())) in
         let a98 = b1 (next ()) in
         let a99 = b1 (next ()) in
         Hashtbl.replace iats core { ip_code = code; ip_rdfi = rdfi; ip_tr_num = trn; ip_mand = mand; ip_n17 = n17; ip_n18 = n18; ip_a98 = a98; ip_a99 = a99 }
       | `Adv ->
         let code = zi (next ()) in
         let rdfi = zi (next ()) in
         let a99 = b1 (next ()) in
         Hashtbl.replace advs core { ap_code = code; ap_rdfi = rdfi; ap_a99 = a99 });
      { e_trace = tr; e_core = core; e_amount = amount; e_debit = debit; e_addenda = addenda; e_cat = cat } in
    let es = times ne (entry (if kind = KIAT then `Iat else `Std)) in
    let adv = times na (entry `Adv) in
    { b_kind = kind; b_sig = sg; b_num = num; b_entries = es; b_adv = adv }) in
  expect "H";
  let k = int_of_string (next ()) in
  let hint = times k (fun () -> nat_of_int (int_of_string (next ()))) in
  (inf, batches, k, hint)

let z0 = z_of_int 0
let hd s = try Hashtbl.find hdrs s with Not_found -> { hd_class = z0; hd_odfi = []; hd_ok = false; hd_adv = false; hd_odfi_z = z0; hd_odfi_num = false }
let sp c = try Hashtbl.find stds c with Not_found -> { sp_code = z0; sp_rdfi = []; sp_check = []; sp_off = false }
let ip c = try Hashtbl.find iats c with Not_found -> { ip_code = z0; ip_rdfi = z0; ip_tr_num = false; ip_mand = []; ip_n17 = O; ip_n18 = O; ip_a98 = false; ip_a99 = false }
let ap c = try Hashtbl.find advs c with Not_found -> { ap_code = z0; ap_rdfi = z0; ap_a99 = false }

let iz = int_of_z

let show_ctl b (hnum : z) (c : control) =
  Buffer.add_string b (Printf.sprintf " %d %d %d %d %d %d %d" (iz c.c_svc) (iz hnum) (iz c.c_num) (iz c.c_count) (iz c.c_hash) (iz c.c_credit) (iz c.c_debit))

let show (cls, (f : afile)) (flat : batch list) =
  match cls with
  | FErrCreate -> print_endline (if f.af_std = [] && f.af_iat = [] then "NOBATCHES" else "ERRFILE")
  | FErrValidate -> print_endline "ERRFILE"
  | FErrCount -> print_endline "COUNT"
  | FErrDebit -> print_endline "DEBIT"
  | FErrCredit -> print_endline "CREDIT"
  | FOk ->
    let b = Buffer.create 4096 in
    Buffer.add_string b (Printf.sprintf "OK S %d" (List.length f.af_std));
    List.iter (function
      | SStd x ->
        Buffer.add_string b " S"; show_ctl b x.b_num0 x.b_ctl;
        Buffer.add_string b (Printf.sprintf " %d" (List.length x.b_entries0));
        List.iter (fun e -> Buffer.add_string b (Printf.sprintf " %d" (iz e.e_trace0))) x.b_entries0
      | SAdv a ->
        Buffer.add_string b " A"; show_ctl b a.ab_num a.ab_ctl;
        Buffer.add_string b (Printf.sprintf " %d" (List.length a.ab_entries));
        List.iter (fun e -> Buffer.add_string b (Printf.sprintf " %d" (iz e.ae_seq))) a.ab_entries) f.af_std;
    Buffer.add_string b (Printf.sprintf " I %d" (List.length f.af_iat));
    List.iter (fun x ->
      Buffer.add_string b " I"; show_ctl b x.ib_num x.ib_ctl;
      Buffer.add_string b (Printf.sprintf " %d" (List.length x.ib_entries));
      List.iter (fun e -> Buffer.add_string b (Printf.sprintf " %d" (iz e.ie_trace))) x.ib_entries) f.af_iat;
    let adv = List.exists (function SAdv _ -> true | _ -> false) f.af_std in
    let c = if adv then f.af_actl else f.af_ctl in
    Buffer.add_string b (Printf.sprintf " FC %d %d %d %d %d %d" (iz c.fc_batches0) (iz c.fc_blocks) (iz c.fc_count0) (iz c.fc_hash0) (iz c.fc_debit0) (iz c.fc_credit0));
    Buffer.add_string b " CAT";
    List.iter (fun x -> if x.b_kind = KStd && x.b_entries <> [] then Buffer.add_string b (Printf.sprintf " %d" (int_of_n (batch_category x)))) flat;
    print_endline (Buffer.contents b)

let () =
  let path = Sys.argv.(1) in
  iter_lines path (fun line ->
    try
      Hashtbl.reset hdrs; Hashtbl.reset stds; Hashtbl.reset iats; Hashtbl.reset advs;
      let toks = Array.of_list (split_ws line) in
      let (inf, batches, k, hint) = parse toks in
      if k = 0 then show (flatten_full_stable gen_tables offset_table tabulate_table hd sp ip ap inf batches) (flatten_stable batches)
      else match flatten_full_hint gen_tables offset_table tabulate_table hd sp ip ap inf batches hint, flatten_hint batches hint with
        | Some r, Some fl -> show r fl
        | _ -> print_endline "REJECT"
    with e -> print_endline ("? " ^ Printexc.to_string e))

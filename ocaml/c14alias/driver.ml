(* C14 (phase 5) driver: runs the extracted store model on the harness's server cases.
   case line:  <file>;<file>... | <rq> <rq> ...
     file:  <idhex>=<state>/<opts>     state as in the c14 driver ("-" or N:<c> | H<hex>:<c>, comma separated),
                                        opts "n" (nil ValidateOpts) or a string of 0/1 (its bool fields)
     rq:    R<idhex>:<bits>            validate request for that id; bits = skipAll allowMissing hdrOk ok
            L<idhex>:<op>              library operation on the stored file, op token as in the c14 driver
   K <hexsec,...>: the batches NewBatch + AddBatch give for these SEC codes, by the regenerated constructor tables (built_src)
   result line: the store after each request, stores joined by " ; ", then " ok=<0/1>" (store_ok of the initial store) *)
open Model
open Conv

let parse_bat (s : Stdlib.String.t) : bat =
  match String.split_on_char ':' s with
  | [h; c] ->
    let hdr = if h = "N" then None else Some (bytes_of_hex (String.sub h 1 (String.length h - 1))) in
    { b_hdr = hdr; b_ctl = (c = "1") }
  | _ -> failwith ("bad batch " ^ s)

let parse_state (s : Stdlib.String.t) : file =
  if s = "-" then [] else List.map parse_bat (String.split_on_char ',' s)

let parse_opts (s : Stdlib.String.t) : bool list option =
  if s = "n" then None else Some (List.init (String.length s) (fun i -> s.[i] = '1'))

let parse_file (s : Stdlib.String.t) : bytes * xfile =
  match String.index_opt s '=', String.rindex_opt s '/' with
  | Some e, Some sl when sl > e ->
    let id = bytes_of_hex (String.sub s 0 e) in
    let st = parse_state (String.sub s (e + 1) (sl - e - 1)) in
    let o = parse_opts (String.sub s (sl + 1) (String.length s - sl - 1)) in
    (id, { x_bats = st; x_opts = o })
  | _ -> failwith ("bad file " ^ s)

let show_bat (b : bat) : Stdlib.String.t =
  (match b.b_hdr with None -> "N" | Some h -> "H" ^ hex_of_bytes h) ^ ":" ^ (if b.b_ctl then "1" else "0")

let show_state (f : (bytes option * bool) list) : Stdlib.String.t =
  match f with
  | [] -> "-"
  | _ -> String.concat "," (List.map (fun (h, c) -> show_bat { b_hdr = h; b_ctl = c }) f)

let show_opts = function
  | None -> "n"
  | Some l -> String.concat "" (List.map (fun b -> if b then "1" else "0") l)

let show_store (st : store) : Stdlib.String.t =
  String.concat ";" (List.map (fun (id, (bs, o)) -> hex_of_bytes id ^ "=" ^ show_state bs ^ "/" ^ show_opts o) (store_observe st))

let flags (s : Stdlib.String.t) : vflags =
  let b i = s.[i] = '1' in
  { v_skipAll = b 0; v_allowMissing = b 1; v_hdrOk = b 2; v_ok = b 3 }

let parse_op (s : Stdlib.String.t) : op =
  let arg () = nat_of_int (int_of_string (String.sub s 1 (String.length s - 1))) in
  let fl () = flags (String.sub s 1 4) in
  match s.[0] with
  | 'V' -> OValidate (fl ())
  | 'W' -> OValidateWith (fl ())
  | 'B' -> OBatchValidate (arg ())
  | 'S' -> OString (arg ())
  | 'J' -> OMarshalJSON
  | 'P' -> OWriteBypass
  | 'X' -> OWriteValidating (fl ())
  | _ -> failwith ("bad op " ^ s)

let parse_rq (s : Stdlib.String.t) : srq =
  match String.index_opt s ':' with
  | Some c ->
    let id = bytes_of_hex (String.sub s 1 (c - 1)) in
    let rest = String.sub s (c + 1) (String.length s - c - 1) in
    if s.[0] = 'R' then SValidate (id, flags rest) else SLib (id, parse_op rest)
  | None -> failwith ("bad request " ^ s)

let () =
  let path = Sys.argv.(1) in
  iter_lines path (fun line ->
    if String.length line > 2 && line.[0] = 'K' then begin
      match split_ws line with
      | [_; secs] ->
        let secs = List.map bytes_of_hex (String.split_on_char ',' secs) in
        print_endline (show_state (List.map (fun b -> (b.b_hdr, b.b_ctl)) (built_src secs)))
      | _ -> print_endline "?"
    end else
    match String.index_opt line '|' with
    | None -> print_endline "?"
    | Some k ->
      (try
         let st = List.map parse_file (List.filter (fun s -> s <> "") (String.split_on_char ';' (String.trim (String.sub line 0 k)))) in
         let rqs = List.map parse_rq (split_ws (String.sub line (k + 1) (String.length line - k - 1))) in
         let states = run_srqs st rqs in
         print_endline (String.concat " ; " (List.map show_store states) ^ " ok=" ^ (if store_ok st then "1" else "0"))
       with e -> print_endline ("? " ^ Printexc.to_string e)))

(* C10 driver: runs the extracted walk / acceptor / trace-validation model on the harness's cases. *)
open Conv
module M = Model

let code = function M.Accept -> 0 | M.AsJson -> 1 | M.Skip -> 2

(* tree tokens: F <hex> | D <hex> <n> children... *)
let rec parse_nodes (toks : string list) (n : int)  : M.node list * string list =
  if n = 0 then ([], toks)
  else
    match toks with
    | "F" :: h :: rest ->
      let (more, rest') = parse_nodes rest (n - 1) in
      (M.File (bytes_of_hex h) :: more, rest')
    | "D" :: h :: k :: rest ->
      let (kids, rest1) = parse_nodes rest (int_of_string k) in
      let (more, rest2) = parse_nodes rest1 (n - 1) in
      (M.Dir (bytes_of_hex h, kids) :: more, rest2)
    | _ -> failwith "bad tree"

let rec parse_all (toks : string list)  : M.node list =
  match toks with
  | [] -> []
  | _ ->
    let (one, rest) = parse_nodes toks 1 in
    one @ parse_all rest

let render_path (p : M.n list list) : string =
  let comps = List.map (fun c -> String.concat "" (List.map (fun x -> Printf.sprintf "%02x" (int_of_n x)) c)) p in
  (* "/" between components; an empty component has no hex digits *)
  match comps with [] -> "-" | _ -> let s = String.concat "2f" comps in if s = "" then "-" else s

let render_paths (ps : M.n list list list) : string =
  match ps with [] -> "none" | _ -> String.concat " " (List.map render_path ps)

let split_on c s = if s = "-" || s = "" then [] else String.split_on_char c s

let parse_outcomes (s : string) : (M.n * M.outcome) list =
  List.map (fun item ->
      match String.split_on_char ':' item with
      | [i; o] ->
        let id = n_of_int (int_of_string i) in
        let oc =
          if o = "S" then M.PSkip
          else if o = "E" then M.PErr
          else M.POk (n_of_int (int_of_string (String.sub o 1 (String.length o - 1))))
        in
        (id, oc)
      | _ -> failwith "bad outcome")
    (split_on ',' s)

let parse_trace (s : string) : M.event list =
  List.map (fun item ->
      let id = n_of_int (int_of_string (String.sub item 1 (String.length item - 1))) in
      if item.[0] = 'S' then M.EStart id else M.EDone id)
    (split_on ',' s)

let parse_result (s : string) : M.n list option =
  if s = "E" then None
  else
    let body = String.sub s 2 (String.length s - 2) in
    Some (List.map (fun x -> n_of_int (int_of_string x)) (split_on ',' body))

let rec upto i k = if i > k then [] else n_of_int i :: upto (i + 1) k

let () =
  let path = Sys.argv.(1) in
  iter_lines path (fun line ->
    try
      match split_ws line with
      | ["A"; h] ->
        let p = bytes_of_hex h in
        Printf.printf "%d %d\n" (code (M.default_accept p)) (code (M.spec_accept p))
      | "W" :: sub :: toks ->
        print_endline (render_paths (M.walk_as_coded (sub = "1") [] (parse_all toks)))
      | "V" :: sub :: toks ->
        print_endline (render_paths (M.accepted_as_coded (sub = "1") (parse_all toks)))
      | ["T"; n; k; outcomes; trace; res] ->
        let ok = M.accept_trace M.mergedir_sel (nat_of_int (int_of_string n)) (parse_outcomes outcomes)
            (upto 1 (int_of_string k)) (parse_trace trace) (parse_result res) in
        print_endline (if ok then "accept" else "reject")
      | _ -> print_endline "?"
    with e -> print_endline ("driver error: " ^ Printexc.to_string e))

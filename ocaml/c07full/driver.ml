(* C07 (phase 4) driver: runs the extracted file-level model.
   driver <cases> [<stats>]   per line:
     W <val>                         -> hex of write_full (tree_full v)   (the writer model incl. option-dependent header and ADV controls)
     V <val>                         -> hex of write_full (tree_full_view v)   (the generic view with the three fields visible)
     T <hv> <verdict> <val>          -> eq if the hypotheses of C07_roundtrip hold of the file value, else <verdict>
     F <hv> <skip> <passed> <val>    -> observation of from_json (achcli_passed skip passed) (to_json v): TEXT/OPTS/HDR/OFFS | ERR
     C <skip> <vfile> <doc>          -> the options FileFromJSONWith ends up with when achcli passes its value (18 flags or N)
     K <struct>                      -> the regenerated value of the struct's constructor (val tokens) | none
     L                               -> the latent constructor defaults (struct.field ...)
   (<passed>/<vfile>/<doc>: N for nil, or the 18 booleans of a ValidateOpts as 0/1 characters) *)
exception Bad of string
open Model
open Conv

let rec parse_val toks =
  match toks with
  | "S" :: h :: r -> (VStr (bytes_of_hex h), r)
  | "I" :: n :: r -> (VInt (Convz.z_of_string n), r)
  | "B" :: b :: r -> (VBool (b = "1"), r)
  | "N" :: r -> (VNil, r)
  | "F" :: r -> (VOpaque, r)
  | "R" :: n :: r -> let (xs, r') = parse_vals (int_of_string n) r in (VRec xs, r')
  | "A" :: n :: r -> let (xs, r') = parse_vals (int_of_string n) r in (VArr xs, r')
  | t :: _ -> raise (Bad ("val token " ^ t))
  | [] -> raise (Bad "val: end of input")
and parse_vals n toks =
  if n = 0 then ([], toks)
  else
    let (x, r) = parse_val toks in
    let (xs, r') = parse_vals (n - 1) r in
    (x :: xs, r')

let rec print_val b v =
  match v with
  | VStr s -> Buffer.add_string b ("S " ^ hex_of_bytes s ^ " ")
  | VInt z -> Buffer.add_string b ("I " ^ Convz.string_of_z z ^ " ")
  | VBool x -> Buffer.add_string b (if x then "B 1 " else "B 0 ")
  | VNil -> Buffer.add_string b "N "
  | VOpaque -> Buffer.add_string b "F "
  | VRec xs -> Buffer.add_string b (Printf.sprintf "R %d " (List.length xs)); List.iter (print_val b) xs
  | VArr xs -> Buffer.add_string b (Printf.sprintf "A %d " (List.length xs)); List.iter (print_val b) xs

let opts_of s =
  if s = "N" then []
  else begin
    if Stdlib.String.length s <> 18 then raise (Bad "options: 18 flags expected");
    let b i = VBool (s.[i] = '1') in
    let v = VRec ([b 0; b 1; b 2; b 3; VNil] @ List.init 14 (fun i -> b (i + 4))) in
    opts_tree v
  end

(* a *ValidateOpts tree as N or its flags in declaration order *)
let flags_of (o : rtree list) =
  match o with
  | [] -> "N"
  | RT (_, scal, _) :: _ ->
    Stdlib.String.concat "" (List.map (fun (_, v) -> match v with VI z -> if Convz.string_of_z z = "0" then "0" else "1" | VS _ -> "?") scal)

let offset_of (o : rtree list) =
  match o with
  | [] -> "N"
  | RT (_, scal, _) :: _ ->
    Stdlib.String.concat "," (List.map (fun (k, v) -> Convstr.ocaml_string k ^ "=" ^ (match v with VS s -> hex_of_bytes s | VI z -> Convz.string_of_z z)) scal)

let n_hyps = ref 0
let n_hyps_adv = ref 0
let n_asked = ref 0
let n_adv = ref 0
let why = Hashtbl.create 8
let bump k = Hashtbl.replace why k (1 + try Hashtbl.find why k with Not_found -> 0)

let () =
  iter_lines Sys.argv.(1) (fun line ->
      try
        match split_ws line with
        | "W" :: rest ->
          let (v, _) = parse_val rest in
          print_endline (hex_of_bytes (write_full (tree_full v)))
        | "V" :: rest ->
          let (v, _) = parse_val rest in
          print_endline (hex_of_bytes (write_full (tree_full_view v)))
        | "T" :: hv :: verdict :: rest ->
          let (v, _) = parse_val rest in
          incr n_asked;
          let adv = is_adv_value v in
          if adv then incr n_adv;
          let h = hv = "1" in
          let t a b c = (fun _ _ -> a), (fun _ _ -> b), (fun _ -> c) in
          let (x, y, z) = t h true true in
          if roundtrip_hyps h v then begin
            incr n_hyps; if adv then incr n_hyps_adv; print_endline "eq"
          end else begin
            (if not (typed t_File v) then bump "untyped"
             else if not (in_domain v) then bump "not-in-domain"
             else if not (valid x y z v) then bump "not-valid"
             else if not (tabulated x y z v) then bump "not-tabulated"
             else bump "not-json-safe");
            print_endline verdict
          end
        | "F" :: hv :: skip :: passed :: rest ->
          let (v, _) = parse_val rest in
          (match roundtrip_run (hv = "1") (skip = "1") (opts_of passed) v with
           | Some f ->
             let (((text, fo), ho), offs) = observe f in
             print_endline ("TEXT " ^ hex_of_bytes text ^ " OPTS " ^ flags_of fo
                            ^ " HDR " ^ Stdlib.String.concat "/" (List.map flags_of ho)
                            ^ " OFFS " ^ Stdlib.String.concat "/" (List.map offset_of offs))
           | None -> print_endline "ERR")
        | "C" :: skip :: vfile :: doc :: _ ->
          print_endline (flags_of (final_opts opts_merge_fields (achcli_passed (skip = "1") (opts_of vfile)) (opts_of doc)))
        | "K" :: name :: _ ->
          (match List.find_opt (fun ((n, _), _) -> Convstr.ocaml_string n = name) json_ctor_values with
           | Some ((_, _), Some v) -> let b = Buffer.create 256 in print_val b v; print_endline (Stdlib.String.trim (Buffer.contents b))
           | _ -> print_endline "none")
        | "L" :: _ ->
          print_endline (Stdlib.String.concat " " (List.map (fun (a, b) -> Convstr.ocaml_string a ^ "." ^ Convstr.ocaml_string b)
                                                     (latent_defaults json_structs t_File json_ctor_values)))
        | _ -> print_endline "?"
      with Bad m -> print_endline ("bad: " ^ m));
  if Array.length Sys.argv > 2 then begin
    let oc = open_out Sys.argv.(2) in
    let reasons = Hashtbl.fold (fun k n acc -> Printf.sprintf "\"%s\": %d" k n :: acc) why [] in
    Printf.fprintf oc "{\"roundtrip_hypotheses_hold\": %d, \"files\": %d, \"adv_files\": %d, \"adv_files_hypotheses_hold\": %d, \"hypothesis_failing_first\": {%s}}\n"
      !n_hyps !n_asked !n_adv !n_hyps_adv (Stdlib.String.concat ", " (List.sort compare reasons));
    close_out oc
  end

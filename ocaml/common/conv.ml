(* Conversions between OCaml ints/strings and the Coq datatypes kept by the
   extraction (positive, N, Z, nat).  Compiled against whichever model.ml the
   property extracted. *)

let rec pos_of_int n =
  if n <= 1 then Model.XH
  else if n land 1 = 0 then Model.XO (pos_of_int (n lsr 1))
  else Model.XI (pos_of_int (n lsr 1))

let n_of_int n = if n <= 0 then Model.N0 else Model.Npos (pos_of_int n)

let rec int_of_pos = function
  | Model.XH -> 1
  | Model.XO p -> 2 * int_of_pos p
  | Model.XI p -> 2 * int_of_pos p + 1

let int_of_n = function Model.N0 -> 0 | Model.Npos p -> int_of_pos p

let nat_of_int n =
  let rec go acc k = if k <= 0 then acc else go (Model.S acc) (k - 1) in
  go Model.O n

let int_of_nat n =
  let rec go acc = function Model.O -> acc | Model.S m -> go (acc + 1) m in
  go 0 n

let hexval c =
  match c with
  | '0' .. '9' -> Char.code c - 48
  | 'a' .. 'f' -> Char.code c - 87
  | 'A' .. 'F' -> Char.code c - 55
  | _ -> failwith "bad hex"

(* "-" is the empty string *)
let bytes_of_hex (s : string) (* : Model.n list *) =
  if s = "-" then []
  else begin
    let len = String.length s / 2 in
    let rec go i acc =
      if i < 0 then acc
      else go (i - 1) (n_of_int (16 * hexval s.[2 * i] + hexval s.[2 * i + 1]) :: acc)
    in
    go (len - 1) []
  end

let hex_of_bytes (l (* : Model.n list *)) : string =
  match l with
  | [] -> "-"
  | _ ->
    let b = Buffer.create 64 in
    List.iter (fun x -> Buffer.add_string b (Printf.sprintf "%02x" (int_of_n x))) l;
    Buffer.contents b

let split_ws (s : string) : string list =
  List.filter (fun x -> x <> "") (String.split_on_char ' ' s)

let iter_lines (path : string) (f : string -> unit) : unit =
  let ic = open_in path in
  (try
     while true do
       f (input_line ic)
     done
   with End_of_file -> ());
  close_in ic


(* helpers for models that keep Coq's [string] *)
(* Coq [string] (kept as the inductive String/Model.EmptyString over ascii) <-> OCaml string *)
let ascii_of_char (c : char) =
  let n = Char.code c in
  let b i = n land (1 lsl i) <> 0 in
  Model.Ascii (b 0, b 1, b 2, b 3, b 4, b 5, b 6, b 7)

let char_of_ascii = function
  | Model.Ascii (b0, b1, b2, b3, b4, b5, b6, b7) ->
    let v b i = if b then 1 lsl i else 0 in
    Char.chr (v b0 0 + v b1 1 + v b2 2 + v b3 3 + v b4 4 + v b5 5 + v b6 6 + v b7 7)

let coq_string (s : string) =
  let rec go i acc = if i < 0 then acc else go (i - 1) (Model.String (ascii_of_char s.[i], acc)) in
  go (String.length s - 1) Model.EmptyString

let rec ocaml_string = function
  | Model.EmptyString -> ""
  | Model.String (a, rest) -> String.make 1 (char_of_ascii a) ^ ocaml_string rest


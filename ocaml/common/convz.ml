(* Z <-> decimal strings through Int64 (the harness's integers are Go ints, i.e. 64 bit) *)
open Conv

let rec pos_of_int64 (n : int64) =
  if Int64.compare n 1L <= 0 then Model.XH
  else if Int64.logand n 1L = 0L then Model.XO (pos_of_int64 (Int64.shift_right_logical n 1))
  else Model.XI (pos_of_int64 (Int64.shift_right_logical n 1))

let rec int64_of_pos = function
  | Model.XH -> 1L
  | Model.XO p -> Int64.mul 2L (int64_of_pos p)
  | Model.XI p -> Int64.add (Int64.mul 2L (int64_of_pos p)) 1L

let z_of_int64 (n : int64) =
  if n = 0L then Model.Z0
  else if Int64.compare n 0L > 0 then Model.Zpos (pos_of_int64 n)
  else if n = Int64.min_int then Model.Zneg (Model.XO (pos_of_int64 (Int64.shift_right_logical n 1)))
  else Model.Zneg (pos_of_int64 (Int64.neg n))

(* values beyond int64 wrap; the models clamp to int64 wherever Go does *)
let int64_of_z = function
  | Model.Z0 -> 0L
  | Model.Zpos p -> int64_of_pos p
  | Model.Zneg p -> Int64.neg (int64_of_pos p)

let z_of_int (n : int) = z_of_int64 (Int64.of_int n)
let int_of_z z = Int64.to_int (int64_of_z z)
let z_of_string (s : string) = z_of_int64 (Int64.of_string s)
let string_of_z z = Int64.to_string (int64_of_z z)

(* C09 phase-5 driver: the extracted merge model with options (merge_files_o), the validator model
   under options (file_valid_o over the tables of this run) and the validator's view of the outputs
   (xm_ofile = ValidMergeOpts.m_ofile, OptsViewFacts.xm_ofile_is) on the harness's cases
   (harness/cmd/c0913x merge).  OPT = "-" (nil) or bits:ctc.
   Case:   maxLines maxDollar nFiles vis
           { origin dest hid OPT fcBatches fcCount fcHash fcDebit fcCredit nBatches
             { OPT scc name cid sec desc eed odfi rest number cClass cCount cHash cDebit cCredit cOdfi cNumber nEntries
               { trace amount addenda id code rdfi check EOPT } } }
   Result: I { abc }                       validity of every input file: as stored / file+batch options
                                           removed / all removed  (a?? when vis = 0)
           | ERR                           Batch.Create fails on a trace-number rule
           | nFiles { F origin dest hid OPT V<valid>S<valid without any option, or ?> fcBatches fcCount fcHash fcDebit fcCredit nBatches
                      { B number rest OPT cCount cHash cDebit cCredit nEntries { id trace-after-Create } } } *)
open Model
open Conv
open Convz

let opt_of_token (t : string) =
  if t = "-" then None
  else begin
    let i = String.index t ':' in
    let bits = String.sub t 0 i in
    let ctc = int_of_string (String.sub t (i + 1) (String.length t - i - 1)) in
    let fl = List.init (String.length bits) (fun k -> bits.[k] = '1') in
    Some { o_flags = fl; o_ctc = (if ctc = 0 then None else Some (n_of_int ctc)) }
  end

let token_of_opt = function
  | None -> "-"
  | Some o ->
    let b = Buffer.create 32 in
    List.iter (fun x -> Buffer.add_char b (if x then '1' else '0')) o.o_flags;
    Buffer.add_string b (Printf.sprintf ":%d" (match o.o_ctc with None -> 0 | Some n -> int_of_n n));
    Buffer.contents b

(* the CheckTransactionCode functions of the harness, by identity (harness/cmd/c0913x ctcID) *)
let csem (f : n) (c : z) : bool =
  let c = int_of_z c in
  match int_of_n f with
  | 1 -> c <> 91
  | 4 -> c >= 10 && c <= 99
  | _ -> true

let run_case (line : string) : string =
  let toks = Array.of_list (split_ws line) in
  let pos = ref 0 in
  let next () = let t = toks.(!pos) in incr pos; t in
  let nint () = int_of_string (next ()) in
  let nz () = z_of_int (nint ()) in
  let nn () = n_of_int (nint ()) in
  let nb () = bytes_of_hex (next ()) in
  let no () = opt_of_token (next ()) in
  let rec times n f = if n <= 0 then [] else let x = f () in x :: times (n - 1) f in
  let codes = Hashtbl.create 64 and rdfis = Hashtbl.create 64 and chks = Hashtbl.create 64 and eopts = Hashtbl.create 64 in
  let ml = nz () in
  let md = nz () in
  let nf = nint () in
  let vis = nint () in
  (* per input file: the merge model's file and what the validator sees *)
  let inputs = times nf (fun () ->
    let origin = nb () in
    let dest = nb () in
    let hid = nn () in
    let fopts = no () in
    let fcb = nz () in let fcc = nz () in let fch = nz () in let fcd = nz () in let fcr = nz () in
    let nbat = nint () in
    let batches = times nbat (fun () ->
      let bopts = no () in
      let scc = nz () in
      let name = nb () in let cid = nb () in let sec = nb () in let desc = nb () in let eed = nb () in
      let odfi = nb () in
      let rest = nn () in
      let number = nz () in
      let cclass = nz () in let ccount = nz () in let chash = nz () in let cdebit = nz () in let ccredit = nz () in
      let codfi = nb () in let cnumber = nz () in
      let ne = nint () in
      let entries = times ne (fun () ->
        let trace = nb () in
        let amount = nz () in
        let addenda = nz () in
        let id = nint () in
        let code = nz () in let rdfi = nb () in let chk = nb () in let eo = no () in
        Hashtbl.replace codes id code; Hashtbl.replace rdfis id rdfi; Hashtbl.replace chks id chk; Hashtbl.replace eopts id eo;
        ({ e_trace = trace; e_amount = amount; e_addenda = addenda; e_id = n_of_int id },
         { en_code = code; en_amount = amount; en_rdfi = rdfi; en_check = chk; en_trace = trace; en_addenda = addenda }, eo)) in
      let ib = { ibo_batch = { ib_header = { h_scc = scc; h_name = name; h_cid = cid; h_sec = sec; h_desc = desc;
                                             h_eed = eed; h_odfi = odfi; h_rest = rest };
                               ib_entries = List.map (fun (e, _, _) -> e) entries };
                 ibo_opts = bopts } in
      let vbt = { vb_opts = bopts; vb_eopts = List.map (fun (_, _, o) -> o) entries;
                  vb_b = { bt_kind = KStd; bt_class = scc; bt_odfi = odfi; bt_number = number;
                           bt_entries = List.map (fun (_, a, _) -> a) entries;
                           bt_ctl = { bc_class = cclass; bc_count = ccount; bc_hash = chash; bc_debit = cdebit;
                                      bc_credit = ccredit; bc_odfi = codfi; bc_number = cnumber } } } in
      (ib, vbt)) in
    let ifile = { fo_origin = origin; fo_dest = dest; fo_hid = hid; fo_opts = fopts; fo_batches = List.map fst batches } in
    let vf = { vf_opts = fopts; vf_origin = origin; vf_dest = dest; vf_batches = List.map snd batches;
               vf_ctl = { fc_batches = fcb; fc_count = fcc; fc_hash = fch; fc_debit = fcd; fc_credit = fcr } } in
    (ifile, vf)) in
  let b = Buffer.create 512 in
  Buffer.add_string b "I";
  let bit x = if x then '1' else '0' in
  List.iter (fun (_, vf) ->
    let v1 = file_valid_o csem gen_tables vf in
    let nofb = { vf with vf_opts = None; vf_batches = List.map (fun x -> { x with vb_opts = None }) vf.vf_batches } in
    let none = { nofb with vf_batches = List.map (fun x -> { x with vb_eopts = List.map (fun _ -> None) x.vb_eopts }) nofb.vf_batches } in
    Buffer.add_char b ' ';
    Buffer.add_char b (bit v1);
    if vis = 1 then begin
      Buffer.add_char b (bit (file_valid_o csem gen_tables nofb));
      Buffer.add_char b (bit (file_valid_o csem gen_tables none))
    end else Buffer.add_string b "??") inputs;
  let look tbl d id = match Hashtbl.find_opt tbl (int_of_n id) with Some x -> x | None -> d in
  let code id = look codes Z0 id and rdfi id = look rdfis [] id and chk id = look chks [] id and mo id = look eopts None id in
  let out = merge_files_o (List.map fst inputs) { maxLines = ml; maxDollar = md } in
  if not (merge_created_ok out) then (Buffer.add_string b " | ERR"; Buffer.contents b)
  else begin
    Buffer.add_string b (Printf.sprintf " | %d" (List.length out));
    List.iter (fun g ->
      (* the batches as Batch.Create leaves them *)
      let g' = { g with rfo_batches = List.map (fun rb ->
                   { rb with rbo_entries = (match rbo_created rb with Some es -> es | None -> rb.rbo_entries) }) g.rfo_batches } in
      let vf = xm_ofile gen_tables code rdfi chk mo g' in
      let fc = vf.vf_ctl in
      let bare = { vf with vf_opts = None;
                           vf_batches = List.map (fun x -> { x with vb_opts = None; vb_eopts = List.map (fun _ -> None) x.vb_eopts }) vf.vf_batches } in
      Buffer.add_string b (Printf.sprintf " F %s %s %d %s V%cS%c %d %d %d %d %d %d" (hex_of_bytes g.rfo_origin) (hex_of_bytes g.rfo_dest)
        (int_of_n g.rfo_hid) (token_of_opt g.rfo_opts) (bit (file_valid_o csem gen_tables vf))
        (if vis = 1 then bit (file_valid_o csem gen_tables bare) else '?')
        (int_of_z fc.fc_batches) (int_of_z fc.fc_count) (int_of_z fc.fc_hash) (int_of_z fc.fc_debit) (int_of_z fc.fc_credit)
        (List.length g.rfo_batches));
      List.iter2 (fun rb vbt ->
        let c = vbt.vb_b.bt_ctl in
        Buffer.add_string b (Printf.sprintf " B %d %d %s %d %d %d %d %d" (int_of_z rb.rbo_number) (int_of_n rb.rbo_header.h_rest)
          (token_of_opt rb.rbo_opts) (int_of_z c.bc_count) (int_of_z c.bc_hash) (int_of_z c.bc_debit) (int_of_z c.bc_credit)
          (List.length rb.rbo_entries));
        List.iter (fun e -> Buffer.add_string b (Printf.sprintf " %d %s" (int_of_n e.e_id) (hex_of_bytes e.e_trace))) rb.rbo_entries)
        g'.rfo_batches vf.vf_batches) out;
    Buffer.contents b
  end

let () =
  let path = Sys.argv.(1) in
  iter_lines path (fun line ->
    if String.trim line = "" then print_endline "?"
    else print_endline (try run_case line with e -> "MODEL-EXCEPTION " ^ Printexc.to_string e))

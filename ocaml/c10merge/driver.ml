(* C10 phase-2 driver: the MergeDir protocol run over the Merge model (coq/Proto/MergeDirMerge.v).

   Case lines (blank separated tokens, byte strings hex encoded):
     M <n> <k> <outcomes> <trace> <maxLines> <maxDollar> <nFiles> { <fid> <file> }
        a run of the real MergeDir whose arrival order at the merger was forced and observed.
        A schedule is rebuilt from the observed events (MergeDirTrace.build), run through the
        extended transition system (run_dir), and the line printed is
          accept A<arrival file ids> S<seeding file id> <result in the format of ocaml/c08>
        which must equal what the harness observed (arrival order = release order, output structure).
     E <maxLines> <maxDollar> <nFiles> { <fid> <file> } | <observed result in the format of ocaml/c08>
        a free-running MergeDir run: "in" iff the observed result is the model's result for SOME
        seeding file and SOME arrival order of the files (C10_output_exact), else "out".
   <file> = origin dest hid nBatches { scc name cid sec desc eed odfi rest nEntries { trace amount addenda id } } *)
open Model
open Conv

let z_of_int n = if n = 0 then Z0 else if n > 0 then Zpos (pos_of_int n) else Zneg (pos_of_int (-n))
let int_of_z = function Z0 -> 0 | Zpos p -> int_of_pos p | Zneg p -> - (int_of_pos p)

let split_on c s = if s = "-" || s = "" then [] else String.split_on_char c s

let parse_outcomes s : (n * outcome) list =
  List.map (fun item ->
      match String.split_on_char ':' item with
      | [i; o] ->
        let id = n_of_int (int_of_string i) in
        let oc =
          if o = "S" then PSkip
          else if o = "E" then PErr
          else POk (n_of_int (int_of_string (String.sub o 1 (String.length o - 1))))
        in
        (id, oc)
      | _ -> failwith "bad outcome")
    (split_on ',' s)

let parse_trace s : event list =
  List.map (fun item ->
      let id = n_of_int (int_of_string (String.sub item 1 (String.length item - 1))) in
      if item.[0] = 'S' then EStart id else EDone id)
    (split_on ',' s)

let rec upto i k = if i > k then [] else n_of_int i :: upto (i + 1) k

let rec assoc_outcome tbl p = match tbl with [] -> PSkip | (q, o) :: t -> if int_of_n p = int_of_n q then o else assoc_outcome t p

let empty_file = { if_origin = []; if_dest = []; if_hid = N0; if_batches = [] }

(* reads nFiles { fid file } from the token array starting at pos *)
let read_files toks (pos : int ref) : (int * ifile) list =
  let next () = let t = toks.(!pos) in incr pos; t in
  let nint () = int_of_string (next ()) in
  let nz () = z_of_int (nint ()) in
  let nn () = n_of_int (nint ()) in
  let nb () = bytes_of_hex (next ()) in
  let rec times n f = if n <= 0 then [] else let x = f () in x :: times (n - 1) f in
  let nf = nint () in
  times nf (fun () ->
    let fid = nint () in
    let origin = nb () in
    let dest = nb () in
    let hid = nn () in
    let nbat = nint () in
    let batches = times nbat (fun () ->
      let scc = nz () in
      let name = nb () in
      let cid = nb () in
      let sec = nb () in
      let desc = nb () in
      let eed = nb () in
      let odfi = nb () in
      let rest = nn () in
      let ne = nint () in
      let entries = times ne (fun () ->
        let trace = nb () in
        let amount = nz () in
        let addenda = nz () in
        let id = nn () in
        { e_trace = trace; e_amount = amount; e_addenda = addenda; e_id = id }) in
      { ib_header = { h_scc = scc; h_name = name; h_cid = cid; h_sec = sec; h_desc = desc;
                      h_eed = eed; h_odfi = odfi; h_rest = rest };
        ib_entries = entries }) in
    (fid, { if_origin = origin; if_dest = dest; if_hid = hid; if_batches = batches }))

let render (out : rfile list) =
  let b = Buffer.create 256 in
  Buffer.add_string b (string_of_int (List.length out));
  List.iter (fun g ->
    Buffer.add_string b (Printf.sprintf " F %s %s %d %d %d %d" (hex_of_bytes g.rf_origin) (hex_of_bytes g.rf_dest)
      (int_of_n g.rf_hid) (int_of_z (file_lines g)) (int_of_z (file_amount g)) (List.length g.rf_batches));
    List.iter (fun rb ->
      let h = rb.rb_header in
      Buffer.add_string b (Printf.sprintf " B %d %d %s %s %s %s %s %s %d %d" (int_of_z rb.rb_number) (int_of_z h.h_scc)
        (hex_of_bytes h.h_name) (hex_of_bytes h.h_cid) (hex_of_bytes h.h_sec) (hex_of_bytes h.h_desc)
        (hex_of_bytes h.h_eed) (hex_of_bytes h.h_odfi) (int_of_n h.h_rest) (List.length rb.rb_entries));
      List.iter (fun e -> Buffer.add_string b (Printf.sprintf " %d" (int_of_n e.e_id))) rb.rb_entries)
      g.rf_batches) out;
  Buffer.contents b

let ids_string (l : n list) =
  match l with [] -> "-" | _ -> String.concat "," (List.map (fun x -> string_of_int (int_of_n x)) l)

let event_eq a b = match a, b with
  | EStart p, EStart q -> int_of_n p = int_of_n q
  | EDone p, EDone q -> int_of_n p = int_of_n q
  | _, _ -> false

let rec events_eq a b = match a, b with
  | [], [] -> true
  | x :: a', y :: b' -> event_eq x y && events_eq a' b'
  | _, _ -> false

let run_m_case toks =
  let n = nat_of_int (int_of_string toks.(1)) in
  let k = int_of_string toks.(2) in
  let tbl = parse_outcomes toks.(3) in
  let trace = parse_trace toks.(4) in
  let ml = z_of_int (int_of_string toks.(5)) in
  let md = z_of_int (int_of_string toks.(6)) in
  let pos = ref 7 in
  let files = read_files toks pos in
  let parse = assoc_outcome tbl in
  let content f = try List.assoc (int_of_n f) files with Not_found -> empty_file in
  let add_ok _ = true in
  let paths = upto 1 k in
  match build mergedir_sel parse add_ok trace (init n paths) [] with
  | None -> "reject-build"
  | Some (racc, _) ->
    let sched = List.rev racc in
    if not (events_eq (trace_of mergedir_sel parse add_ok sched (init n paths)) trace) then "reject-trace"
    else
      match run_dir mergedir_sel parse content n paths { maxLines = ml; maxDollar = md } sched with
      | None -> "reject-run"
      | Some (((term, res), arr), seed) ->
        if not term then "reject-nonterminal"
        else
          match res with
          | None -> "accept ERR"
          | Some out ->
            Printf.sprintf "accept A%s S%s %s" (ids_string arr)
              (match seed with None -> "-" | Some f -> string_of_int (int_of_n f)) (render out)

(* statistics of the E cases (stderr): how many needed a seeding file other than the first arrival *)
let e_cases = ref 0
let e_other_seed = ref 0

(* all permutations of a list *)
let rec insert_all x = function
  | [] -> [[x]]
  | y :: t as l -> (x :: l) :: List.map (fun r -> y :: r) (insert_all x t)
let rec perms = function
  | [] -> [[]]
  | x :: t -> List.concat_map (insert_all x) (perms t)

let run_e_case line =
  match String.index_opt line '|' with
  | None -> "?"
  | Some bar ->
    let left = String.sub line 0 bar in
    let observed = String.trim (String.sub line (bar + 1) (String.length line - bar - 1)) in
    let toks = Array.of_list (split_ws left) in
    let c = { maxLines = z_of_int (int_of_string toks.(1)); maxDollar = z_of_int (int_of_string toks.(2)) } in
    let pos = ref 3 in
    let files = List.map snd (read_files toks pos) in
    let hit = ref "out" in
    incr e_cases;
    (match files with
     | [] -> if render (merge_files [] c) = observed then hit := "in"
     | _ ->
       let ps = perms files in
       (* first: seeded by the first arrival (a plain MergeFiles result) *)
       List.iter (fun p -> if !hit = "out" && render (merge_files p c) = observed then hit := "in") ps;
       if !hit = "out" then begin
         List.iter (fun seed ->
             List.iter (fun p -> if !hit = "out" && render (merge_files (header_only seed :: p) c) = observed then hit := "in") ps)
           files;
         if !hit = "in" then incr e_other_seed
       end);
    !hit

let () =
  let path = Sys.argv.(1) in
  iter_lines path (fun line ->
    try
      let toks = Array.of_list (split_ws line) in
      if Array.length toks = 0 then print_endline "?"
      else if toks.(0) = "M" then print_endline (run_m_case toks)
      else if toks.(0) = "E" then print_endline (run_e_case line)
      else print_endline "?"
    with e -> print_endline ("driver error: " ^ Printexc.to_string e));
  Printf.eprintf "{\"free_running\": %d, \"explained_only_by_a_seeding_file_other_than_the_first_arrival\": %d}\n" !e_cases !e_other_seed

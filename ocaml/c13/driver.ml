(* C13 driver: runs the extracted Reversal model (over the regenerated tables RT)
   on the harness's cases; one canonical observation line per case. *)
open Model
open Conv
open Convz

let () =
  let path = Sys.argv.(1) in
  iter_lines path (fun line ->
    let toks = ref (split_ws line) in
    let next () = match !toks with [] -> failwith "short line" | t :: r -> toks := r; t in
    let num () = int_of_string (next ()) in
    let rec rep n f = if n <= 0 then [] else let x = f () in x :: rep (n - 1) f in
    try
      let d = bytes_of_hex (next ()) in
      let t = bytes_of_hex (next ()) in
      let nb = num () in
      let batches = rep nb (fun () ->
        let sh = num () in let sc = num () in
        let desc = bytes_of_hex (next ()) in let date = bytes_of_hex (next ()) in
        let deb = num () in let cre = num () in
        let ne = num () in
        let es = rep ne (fun () ->
          let c = num () in let a = num () in let id = num () in let tr = num () in
          { e_code = z_of_int c; e_amount = z_of_int a; e_id = n_of_int id; e_trace = n_of_int tr }) in
        { rb_scc_h = z_of_int sh; rb_scc_c = z_of_int sc; rb_desc = desc; rb_date = date;
          rb_debit = z_of_int deb; rb_credit = z_of_int cre; rb_entries = es }) in
      let f = { rf_date = []; rf_time = []; rf_batches = batches; rf_debit = Z0; rf_credit = Z0 } in
      match reversal_file rT d t f with
      | RErrNoBatches -> print_endline "ERR other"
      | ROk f' ->
        let b = Buffer.create 256 in
        Buffer.add_string b (Printf.sprintf "OK %s %s %d %d %d" (hex_of_bytes f'.rf_date) (hex_of_bytes f'.rf_time)
          (int_of_z f'.rf_debit) (int_of_z f'.rf_credit) (List.length f'.rf_batches));
        List.iter (fun x ->
          Buffer.add_string b (Printf.sprintf " %d %d %s %s %d %d %d" (int_of_z x.rb_scc_h) (int_of_z x.rb_scc_c)
            (hex_of_bytes x.rb_desc) (hex_of_bytes x.rb_date) (int_of_z x.rb_debit) (int_of_z x.rb_credit) (List.length x.rb_entries));
          List.iter (fun e ->
            Buffer.add_string b (Printf.sprintf " %d %d %d %d" (int_of_z e.e_code) (int_of_z e.e_amount) (int_of_n e.e_id) (int_of_n e.e_trace)))
            x.rb_entries) f'.rf_batches;
        print_endline (Buffer.contents b)
    with _ -> print_endline "?")

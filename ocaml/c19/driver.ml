(* C19 driver: runs the extracted pool machine on the harness's programs.
   One line per program: "D<disciplined> <hex of each string read, comma separated>"
   computed with the solo (reference) semantics; in addition every program is run on
   the shared machine interleaved with the previous program of the file, drawing
   buffers from the pool whenever possible, and the line is replaced by MODEL-MISMATCH
   should that differ from the solo result (it cannot, by pool_final_result). *)
open Model
open Conv

type loc = n list list

let instr (tok : string) (k : (loc, unit) prog) : (loc, unit) prog =
  let reg = nat_of_int (Char.code tok.[1] - 48) in
  match tok.[0] with
  | 'G' -> PGet (reg, k)
  | 'W' ->
    let bs = bytes_of_hex (String.sub tok 3 (String.length tok - 3)) in
    PWrite (reg, (fun _ b -> b @ bs), k)
  | 'R' -> PRead (reg, (fun l b -> b :: l), k)
  | 'Z' -> PReset (reg, k)
  | 'P' -> PPut (reg, k)
  | _ -> failwith "bad instruction"

let program (toks : string list) : (loc, unit) prog =
  List.fold_right instr toks PDone

let reads (l : loc) : string = String.concat "," (List.map hex_of_bytes (List.rev l))

let prev : ((loc, unit) prog * int) ref = ref (PDone, 0)

let () =
  let path = Sys.argv.(1) in
  iter_lines path (fun line ->
    let toks = split_ws line in
    let p = program toks in
    let d = disciplined p in
    let solo = (solo_final p [] ()).sloc in
    let (q, qn) = !prev in
    let n = max (List.length toks) qn in
    let sched = List.concat (List.init (n + 1) (fun _ -> [ (O, Some O); (S O, Some O) ])) in
    let progs t = match t with O -> p | S O -> q | _ -> PDone in
    let g = run sched (ginit progs (fun _ -> []) () (S O)) in
    let shared = (g.th O).loc in
    prev := (p, List.length toks);
    if shared <> solo then print_endline "MODEL-MISMATCH"
    else print_endline (Printf.sprintf "D%d %s" (if d then 1 else 0) (reads solo)))

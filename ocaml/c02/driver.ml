(* C02 driver: structural reader model on the writer's line lists. *)
open Model
open Conv

let show_file f =
  String.concat "" (List.map (fun b ->
    "B[" ^ String.concat "" (List.map (fun e -> string_of_int (List.length e.e_addenda) ^ ",") b.b_entries) ^ "]") f.f_batches)

let () =
  iter_lines Sys.argv.(1) (fun line ->
    match split_ws line with
    | "G" :: _ :: hexes ->
      let ls = List.map bytes_of_hex hexes in
      (match read_struct ls with
       | Some f -> print_endline ("OK " ^ show_file f)
       | None -> print_endline "ERR")
    | _ -> print_endline "?")

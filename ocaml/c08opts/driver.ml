(* C08 options driver: runs the extracted model merge_files_o on the harness's cases.
   Case line (blank separated tokens, byte strings hex encoded, OPT = "-" (nil) or bits:ctc):
     maxLines maxDollar nFiles { origin dest hid OPT nBatches { OPT scc name cid sec desc eed odfi rest nEntries { trace amount addenda id } } }
   Result line:
     ERR                                   (Batch.Create fails on a trace-number rule)
     nFiles { F origin dest hid OPT nBatches { B number rest OPT nEntries { id trace-after-Create } } } *)
open Model
open Conv

let z_of_int n = if n = 0 then Z0 else if n > 0 then Zpos (pos_of_int n) else Zneg (pos_of_int (-n))
let int_of_z = function Z0 -> 0 | Zpos p -> int_of_pos p | Zneg p -> - (int_of_pos p)

let opt_of_token (t : string) =
  if t = "-" then None
  else begin
    let i = String.index t ':' in
    let bits = String.sub t 0 i in
    let ctc = int_of_string (String.sub t (i + 1) (String.length t - i - 1)) in
    let fl = List.init (String.length bits) (fun k -> bits.[k] = '1') in
    Some { o_flags = fl; o_ctc = (if ctc = 0 then None else Some (n_of_int ctc)) }
  end

let token_of_opt = function
  | None -> "-"
  | Some o ->
    let b = Buffer.create 32 in
    List.iter (fun x -> Buffer.add_char b (if x then '1' else '0')) o.o_flags;
    Buffer.add_string b (Printf.sprintf ":%d" (match o.o_ctc with None -> 0 | Some n -> int_of_n n));
    Buffer.contents b

let run_case (line : string) : string =
  let toks = Array.of_list (split_ws line) in
  let pos = ref 0 in
  let next () = let t = toks.(!pos) in incr pos; t in
  let nint () = int_of_string (next ()) in
  let nz () = z_of_int (nint ()) in
  let nn () = n_of_int (nint ()) in
  let nb () = bytes_of_hex (next ()) in
  let no () = opt_of_token (next ()) in
  let rec times n f = if n <= 0 then [] else let x = f () in x :: times (n - 1) f in
  let ml = nz () in
  let md = nz () in
  let nf = nint () in
  let files = times nf (fun () ->
    let origin = nb () in
    let dest = nb () in
    let hid = nn () in
    let fopts = no () in
    let nbat = nint () in
    let batches = times nbat (fun () ->
      let bopts = no () in
      let scc = nz () in
      let name = nb () in
      let cid = nb () in
      let sec = nb () in
      let desc = nb () in
      let eed = nb () in
      let odfi = nb () in
      let rest = nn () in
      let ne = nint () in
      let entries = times ne (fun () ->
        let trace = nb () in
        let amount = nz () in
        let addenda = nz () in
        let id = nn () in
        { e_trace = trace; e_amount = amount; e_addenda = addenda; e_id = id }) in
      { ibo_batch = { ib_header = { h_scc = scc; h_name = name; h_cid = cid; h_sec = sec; h_desc = desc;
                                    h_eed = eed; h_odfi = odfi; h_rest = rest };
                      ib_entries = entries };
        ibo_opts = bopts }) in
    { fo_origin = origin; fo_dest = dest; fo_hid = hid; fo_opts = fopts; fo_batches = batches }) in
  let out = merge_files_o files { maxLines = ml; maxDollar = md } in
  if not (merge_created_ok out) then "ERR"
  else begin
    let b = Buffer.create 256 in
    Buffer.add_string b (string_of_int (List.length out));
    List.iter (fun g ->
      Buffer.add_string b (Printf.sprintf " F %s %s %d %s %d" (hex_of_bytes g.rfo_origin) (hex_of_bytes g.rfo_dest)
        (int_of_n g.rfo_hid) (token_of_opt g.rfo_opts) (List.length g.rfo_batches));
      List.iter (fun rb ->
        let es = match rbo_created rb with Some es -> es | None -> [] in
        Buffer.add_string b (Printf.sprintf " B %d %d %s %d" (int_of_z rb.rbo_number) (int_of_n rb.rbo_header.h_rest)
          (token_of_opt rb.rbo_opts) (List.length es));
        List.iter (fun e -> Buffer.add_string b (Printf.sprintf " %d %s" (int_of_n e.e_id) (hex_of_bytes e.e_trace))) es)
        g.rfo_batches) out;
    Buffer.contents b
  end

let () =
  let path = Sys.argv.(1) in
  iter_lines path (fun line ->
    if String.trim line = "" then print_endline "?"
    else print_endline (try run_case line with e -> "MODEL-EXCEPTION " ^ Printexc.to_string e))

(* C04 text driver: runs the extracted text model on the harness's cases.
     V <hex text>                      -> "A <skeleton>" (reads as a file and read_validate = ok) | "R"
                                          skeleton encoded like harness/internal/arith File.Enc
     D <hex line> <col> <digit byte>   -> hex of set_digit line col digit
     T                                  -> "<n> <ok>": rows of protected_columns, all accepted by pcol_ok *)
open Model
open Conv
open Convz

let t = gen_tables

let kind_code = function KStd -> "0" | KIAT -> "1" | KADV -> "2"

let enc_entry e =
  Printf.sprintf " %s %s %s %s %s %s" (string_of_z e.en_code) (string_of_z e.en_amount) (hex_of_bytes e.en_rdfi)
    (hex_of_bytes e.en_check) (hex_of_bytes e.en_trace) (string_of_z e.en_addenda)

let enc_batch b =
  let c = b.bt_ctl in
  Printf.sprintf "%s %s %s %s %s %s %s %s %s %s %s %d%s" (kind_code b.bt_kind) (string_of_z b.bt_class) (hex_of_bytes b.bt_odfi)
    (string_of_z b.bt_number) (string_of_z c.bc_class) (string_of_z c.bc_count) (string_of_z c.bc_hash)
    (string_of_z c.bc_debit) (string_of_z c.bc_credit) (hex_of_bytes c.bc_odfi) (string_of_z c.bc_number)
    (List.length b.bt_entries) (String.concat "" (List.map enc_entry b.bt_entries))

let enc_file f =
  let c = f.fl_ctl in
  Printf.sprintf "%s %s %s %s %s %d%s %d%s" (string_of_z c.fc_batches) (string_of_z c.fc_count) (string_of_z c.fc_hash)
    (string_of_z c.fc_debit) (string_of_z c.fc_credit)
    (List.length f.fl_batches) (String.concat "" (List.map (fun b -> " " ^ enc_batch b) f.fl_batches))
    (List.length f.fl_iat) (String.concat "" (List.map (fun b -> " " ^ enc_batch b) f.fl_iat))

let () =
  iter_lines Sys.argv.(1) (fun line ->
    try
      match split_ws line with
      | ["V"; h] ->
        (match text_verdict t (bytes_of_hex h) with
         | Some (s, ROk) -> print_endline ("A " ^ enc_file s)
         | _ -> print_endline "R")
      | ["D"; h; col; d] ->
        print_endline (hex_of_bytes (set_digit (bytes_of_hex h) (nat_of_int (int_of_string col)) (n_of_int (int_of_string d))))
      | ["T"] ->
        Printf.printf "%d %b\n" (List.length protected_columns) (List.for_all pcol_ok protected_columns)
      | _ -> print_endline "?"
    with _ -> print_endline "!")

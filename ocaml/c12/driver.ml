(* C12 driver: runs the extracted Flatten model on the harness's cases.
   Case line:   N <n> { B <S|I> <sighex> <num> <ne> <na> { <tracehex> <corehex> <amount> <debit> <addenda> <category> }*(ne+na) }*n H <k> <i>*k
   Result line: N <n> { B ... }*n          (same batch syntax)   |   ERR (a consolidated batch fails Create)   |   REJECT (hint not admissible) *)
open Model
open Conv
open Convz

let parse (toks : string array) =
  let pos = ref 0 in
  let next () = let t = toks.(!pos) in incr pos; t in
  let expect s = if next () <> s then failwith ("expected " ^ s) in
  let entry () =
    let tr = bytes_of_hex (next ()) in
    let core = bytes_of_hex (next ()) in
    let amount = z_of_int (int_of_string (next ())) in
    let debit = next () = "1" in
    let addenda = n_of_int (int_of_string (next ())) in
    let cat = n_of_int (int_of_string (next ())) in
    { e_trace = tr; e_core = core; e_amount = amount; e_debit = debit; e_addenda = addenda; e_cat = cat } in
  let rec times k f = if k <= 0 then [] else let x = f () in x :: times (k - 1) f in
  expect "N";
  let n = int_of_string (next ()) in
  let batches = times n (fun () ->
    expect "B";
    let kind = if next () = "I" then KIAT else KStd in
    let sg = bytes_of_hex (next ()) in
    let num = z_of_int (int_of_string (next ())) in
    let ne = int_of_string (next ()) in
    let na = int_of_string (next ()) in
    let es = times ne entry in
    let adv = times na entry in
    { b_kind = kind; b_sig = sg; b_num = num; b_entries = es; b_adv = adv }) in
  expect "H";
  let k = int_of_string (next ()) in
  let hint = times k (fun () -> nat_of_int (int_of_string (next ()))) in
  (batches, k, hint)

let print_result (bs : batch list) =
  let b = Buffer.create 4096 in
  Buffer.add_string b (Printf.sprintf "N %d" (List.length bs));
  let entry e =
    Buffer.add_string b (Printf.sprintf " %s %s %d %d %d %d" (hex_of_bytes e.e_trace) (hex_of_bytes e.e_core)
      (int_of_z e.e_amount) (if e.e_debit then 1 else 0) (int_of_n e.e_addenda) (int_of_n e.e_cat)) in
  List.iter (fun x ->
    Buffer.add_string b (Printf.sprintf " B %s %s %d %d %d" (match x.b_kind with KStd -> "S" | KIAT -> "I")
      (hex_of_bytes x.b_sig) (int_of_z x.b_num) (List.length x.b_entries) (List.length x.b_adv));
    List.iter entry x.b_entries;
    List.iter entry x.b_adv) bs;
  print_endline (Buffer.contents b)

let () =
  let path = Sys.argv.(1) in
  iter_lines path (fun line ->
    try
      let toks = Array.of_list (split_ws line) in
      let (batches, k, hint) = parse toks in
      let show = function Some r -> print_result r | None -> print_endline "ERR" in
      if k = 0 then show (flatten_stable_checked batches)
      else match flatten_hint_checked batches hint with
        | Some r -> show r
        | None -> print_endline "REJECT"
    with e -> print_endline ("? " ^ Printexc.to_string e))

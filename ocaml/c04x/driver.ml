(* C04 UTF-8 truncation driver: runs the extracted text model and the extracted closed
   forms of coq/Model/TruncUtf8.v on the harness's cases.
     V <hex text>        -> "A <skeleton>" (reads as a file and read_validate = ok) | "R"
     P <hex s> <k>       -> "<c1,c2,...> <closed>": the characters (hex) the model's scanner
                            yields for the first k bytes of s; closed = they equal the closed
                            form prefix_chars s k (complete characters, then U+FFFD per byte)
     L <hex line> <k>    -> "<closed>": read_lines of the first k bytes of the line = the
                            closed form prefix_lines (the padded cut line / the spill-over)
     N                   -> numeric_layout of both file control layouts *)
open Model
open Conv
open Convz

let t = gen_tables

let kind_code = function KStd -> "0" | KIAT -> "1" | KADV -> "2"

let enc_entry e =
  Printf.sprintf " %s %s %s %s %s %s" (string_of_z e.en_code) (string_of_z e.en_amount) (hex_of_bytes e.en_rdfi)
    (hex_of_bytes e.en_check) (hex_of_bytes e.en_trace) (string_of_z e.en_addenda)

let enc_batch b =
  let c = b.bt_ctl in
  Printf.sprintf "%s %s %s %s %s %s %s %s %s %s %s %d%s" (kind_code b.bt_kind) (string_of_z b.bt_class) (hex_of_bytes b.bt_odfi)
    (string_of_z b.bt_number) (string_of_z c.bc_class) (string_of_z c.bc_count) (string_of_z c.bc_hash)
    (string_of_z c.bc_debit) (string_of_z c.bc_credit) (hex_of_bytes c.bc_odfi) (string_of_z c.bc_number)
    (List.length b.bt_entries) (String.concat "" (List.map enc_entry b.bt_entries))

let enc_file f =
  let c = f.fl_ctl in
  Printf.sprintf "%s %s %s %s %s %d%s %d%s" (string_of_z c.fc_batches) (string_of_z c.fc_count) (string_of_z c.fc_hash)
    (string_of_z c.fc_debit) (string_of_z c.fc_credit)
    (List.length f.fl_batches) (String.concat "" (List.map (fun b -> " " ^ enc_batch b) f.fl_batches))
    (List.length f.fl_iat) (String.concat "" (List.map (fun b -> " " ^ enc_batch b) f.fl_iat))

let rec firstn n l = if n = 0 then [] else match l with [] -> [] | x :: t -> x :: firstn (n - 1) t

let lines_of ns = List.map (function NLine l -> Some l | NWrongLength -> None) ns

let () =
  iter_lines Sys.argv.(1) (fun line ->
    try
      match split_ws line with
      | ["V"; h] ->
        (match text_verdict t (bytes_of_hex h) with
         | Some (s, ROk) -> print_endline ("A " ^ enc_file s)
         | _ -> print_endline "R")
      | ["P"; h; k] ->
        let s = bytes_of_hex h and k = int_of_string k in
        let cs = chars (firstn k s) in
        Printf.printf "%s %b\n" (String.concat "," (List.map hex_of_bytes cs)) (cs = prefix_chars s (nat_of_int k))
      | ["L"; h; k] ->
        let l = bytes_of_hex h and k = int_of_string k in
        Printf.printf "%b\n" (lines_of (read_lines (firstn k l)) = List.map (fun x -> Some x) (prefix_lines l (nat_of_int k)))
      | ["N"] -> Printf.printf "%b\n" (numeric_layout (fctl_layout false) && numeric_layout (fctl_layout true))
      | _ -> print_endline "?"
    with _ -> print_endline "!")

(* C06 reader-model driver: parses the line descriptors written by harness/cmd/c06reader, runs the
   extracted shape model of ach.Reader (coq/Model/ReaderShape.v) line by line and prints, per case,
   what the harness printed for the implementation:

     <id> <accept> <verdict of every line> | S <current batch> <current IAT batch> <file> | <returned file>

   Per line the harness gives the verdict of the data-dependent checks the real reader made on it
   ("." none failed, "r" a record-level check failed, "b" Batch.Validate / IATBatch.Validate failed):
   "r" becomes a_ok = false, "b" an oracle whose first bit is false (the first data-dependent check
   of the batch validation fails), "." the all-true oracle — and, when the batch validation of the model
   ends in an error under it, an oracle with one false bit (a data-dependent branch of the shape model
   taken the other way).  Errors that follow from the structure (entry outside a batch, addenda without
   entry, consecutive batch headers, unknown SEC code, AddendaRecordIndicator, …) are the model's own.
   A panic of the model prints MODEL=PANIC. *)
open Model
open Conv

exception Bad of string

let sec_of_int = function
  | 0 -> ACK | 1 -> ADV | 2 -> ARC | 3 -> ATX | 4 -> BOC | 5 -> CCD | 6 -> CIE | 7 -> COR | 8 -> CTX
  | 9 -> DNE | 10 -> ENR | 11 -> IAT | 12 -> MTE | 13 -> POP | 14 -> POS | 15 -> PPD | 16 -> RCK
  | 17 -> SHR | 18 -> TEL | 19 -> TRC | 20 -> TRX | 21 -> WEB | 22 -> XCK | _ -> SecUnknown
let scc_of_int = function 0 -> Mixed | 1 -> Credits | 2 -> Debits | 3 -> Advices | _ -> SccOther

let int_of_sec = function
  | ACK -> 0 | ADV -> 1 | ARC -> 2 | ATX -> 3 | BOC -> 4 | CCD -> 5 | CIE -> 6 | COR -> 7 | CTX -> 8
  | DNE -> 9 | ENR -> 10 | IAT -> 11 | MTE -> 12 | POP -> 13 | POS -> 14 | PPD -> 15 | RCK -> 16
  | SHR -> 17 | TEL -> 18 | TRC -> 19 | TRX -> 20 | WEB -> 21 | XCK -> 22 | SecUnknown -> 23
let int_of_kind = function KBase -> 24 | KSec s -> int_of_sec s
let int_of_scc = function Mixed -> 0 | Credits -> 1 | Debits -> 2 | Advices -> 3 | SccOther -> 4
let int_of_cat = function CFwd -> 0 | CNOC -> 1 | CRet -> 2 | CDis -> 3 | CCon -> 4 | COther -> 5
let bit b = if b then "1" else "0"
let bits_s = function [] -> "." | l -> String.concat "" (List.map bit l)
let si = string_of_int

(* the shape printer mirrors harness/cmd/c06reader/shape.go *)
let print_batch add = function
  | None -> add "N"
  | Some b ->
    add "B"; add (si (int_of_kind b.b_kind));
    (match b.b_header with
     | None -> add "N"
     | Some h -> add "H"; add (si (int_of_sec h.h_sec)); add (si (int_of_scc h.h_scc)));
    add (bit b.b_control); add (bit b.b_adv); add (bit b.b_offset);
    add (si (List.length b.b_entries));
    List.iter (function
        | None -> add "N"
        | Some e ->
          add "E"; add (si (int_of_cat e.e_cat)); add (si (int_of_nat e.e_code));
          add (bit e.e_a02 ^ bit e.e_a98 ^ bit e.e_a98r ^ bit e.e_a99 ^ bit e.e_a99d ^ bit e.e_a99c ^ bit e.e_off);
          add (bits_s e.e_a05)) b.b_entries;
    add (si (List.length b.b_adventries));
    List.iter (function
        | None -> add "N"
        | Some e -> add "A"; add (si (int_of_cat e.ae_cat)); add (si (int_of_nat e.ae_code)); add (bit e.ae_a99)) b.b_adventries

let print_iat_entries add es =
  List.iter (function
      | None -> add "N"
      | Some e ->
        add "J"; add (si (int_of_cat e.ie_cat)); add (si (int_of_nat e.ie_code));
        add (bit e.ie_a10 ^ bit e.ie_a11 ^ bit e.ie_a12 ^ bit e.ie_a13 ^ bit e.ie_a14 ^ bit e.ie_a15 ^ bit e.ie_a16 ^ bit e.ie_a98 ^ bit e.ie_a99);
        add (bits_s e.ie_a17); add (bits_s e.ie_a18)) es

let print_iat_header add = function
  | None -> add "N"
  | Some h -> add "H"; add (si (int_of_scc h.ih_scc)); add (bit h.ih_cor)

let print_file_to add (f : file) =
  add "F"; add (si (List.length f.f_batches));
  List.iter (print_batch add) f.f_batches;
  add (si (List.length f.f_iat));
  List.iter (fun b ->
      add "I"; print_iat_header add b.ib_header; add (bit b.ib_control);
      add (si (List.length b.ib_entries)); print_iat_entries add b.ib_entries) f.f_iat

let collect f =
  let t = ref [] in
  f (fun s -> t := s :: !t);
  String.concat " " (List.rev !t)

let print_file f = collect (fun add -> print_file_to add f)

let print_state (s : rstate) =
  collect (fun add ->
      add "S";
      print_batch add s.r_cur;
      print_iat_header add s.r_iat.ic_header;
      add (bit s.r_iat.ic_control);
      (match s.r_iat.ic_entries with
       | None -> add "N"
       | Some l -> add (si (List.length l)); print_iat_entries add l);
      print_file_to add s.r_file)

(* token cursor *)
let toks = ref [||]
let pos = ref 0
let next () = let t = !toks.(!pos) in incr pos; t
let next_int () = int_of_string (next ())
let next_bit () = next () = "1"
let nn () = nat_of_int (next_int ())

let tag_of_string = function
  | "02" -> T02 | "05" -> T05 | "10" -> T10 | "11" -> T11 | "12" -> T12 | "13" -> T13 | "14" -> T14
  | "15" -> T15 | "16" -> T16 | "17" -> T17 | "18" -> T18
  | "98R" -> T98 true | "98" -> T98 false
  | "99D" -> T99 RDishonored | "99C" -> T99 RContested | "99" -> T99 RPlain
  | _ -> TOther

let parse_line () : line =
  match next () with
  | "FH" -> LFileHeader
  | "BH" -> let s = next_int () in let c = next_int () in let ic = next_bit () in
    LBatchHeader ({ h_sec = sec_of_int s; h_scc = scc_of_int c }, ic)
  | "BI" -> let c = next_int () in let cor = next_bit () in LIATHeader { ih_scc = scc_of_int c; ih_cor = cor }
  | "ED" ->
    let code = nn () in let off = next_bit () in let ari = next_bit () in
    let acode = nn () in let aari = next_bit () in
    let icode = nn () in let iari = next_bit () in
    LEntry (code, off, ari, acode, aari, icode, iari)
  | "AD" -> LAddenda (tag_of_string (next ()))
  | "BC" -> LBatchControl
  | "FC" -> LFileControl
  | "PD" -> LPadding
  | "UN" -> LUnknown
  | t -> raise (Bad ("line " ^ t))

let single k = List.init (k + 1) (fun i -> i <> k)
let max_single = 120

exception Model_panic

(* measured: how the verdicts were reproduced *)
let n_lines = ref 0        (* lines run *)
let n_struct = ref 0       (* lines the model rejects on its own (structural errors: no hint consulted) *)
let n_hinted = ref 0       (* lines rejected because the harness reported a failing data-dependent check *)
let n_oracle = ref 0       (* batch controls accepted only under an oracle with one false bit *)

(* one line: the state afterwards and whether the line was accepted *)
let run_line (s : rstate) (l : line) (hint : string) (bv : bool) : rstate * bool =
  let a = { a_ok = (hint <> "r"); a_bv = bv } in
  let x = (l, a) in
  let o0 = if hint = "b" then [false] else [] in
  incr n_lines;
  match step x s o0 with
  | PANIC -> raise Model_panic
  | OK (_, s', _) -> (s', true)
  | ERR (s', _) ->
    if hint <> "." then begin
      (* would the line also be rejected with every check passing? then the error is structural *)
      (match step (l, { a_ok = true; a_bv = false }) s [] with ERR (_, _) -> incr n_struct | _ -> incr n_hinted);
      (s', false)
    end
    else begin
      (* the real reader accepted the line: is there a data-dependent branch of the batch validation that
         the shape model takes the other way under the all-true oracle? *)
      let rec go k =
        if k >= max_single then (s', false)
        else match step x s (single k) with
          | OK (_, s'', _) -> incr n_oracle; (s'', true)
          | PANIC -> raise Model_panic
          | ERR (_, _) -> go (k + 1) in
      (match l with LBatchControl when bv -> go 0 | _ -> incr n_struct; (s', false))
    end

let () =
  iter_lines Sys.argv.(1) (fun line ->
      match split_ws line with
      | id :: rest ->
        toks := Array.of_list rest; pos := 0;
        let out =
          (try
             let skip = next_bit () in
             let bv = next_bit () in
             let finok = next_bit () in
             let n = next_int () in
             let s = ref (init skip) in
             let vs = Buffer.create 16 in
             let all_ok = ref true in
             for _ = 1 to n do
               let l = parse_line () in
               let hint = next () in
               let (s', ok) = run_line !s l hint bv in
               s := s';
               if not ok then all_ok := false;
               Buffer.add_char vs (if ok then '1' else '0')
             done;
             let state = print_state !s in
             (match finish_hinted { a_ok = finok; a_bv = bv } !s with
              | None -> raise Model_panic
              | Some (s', ok) ->
                let v = if n = 0 then "." else Buffer.contents vs in
                Printf.sprintf "%s %s | %s | %s" (bit (!all_ok && ok)) v state (print_file s'.r_file))
           with
           | Model_panic -> "MODEL=PANIC"
           | Bad m -> "MODEL=BAD " ^ m
           | Invalid_argument m -> "MODEL=BAD " ^ m
           | Failure m -> "MODEL=BAD " ^ m) in
        print_string (id ^ " " ^ out ^ "\n")
      | [] -> ());
  if Array.length Sys.argv > 2 then begin
    let oc = open_out Sys.argv.(2) in
    Printf.fprintf oc "lines %d\nrejected_structural %d\nrejected_by_reported_check %d\naccepted_under_one_false_bit %d\n"
      !n_lines !n_struct !n_hinted !n_oracle;
    close_out oc
  end

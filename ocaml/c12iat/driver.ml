(* C12 phase 7 driver: the extracted whole-function model (FlattenFull.v) plus the IAT validator and the
   survivor classification of FlattenFullIAT.v, on the cases of harness/cmd/c12/fulliat.go.
   Case line:  as ocaml/c12full/driver.ml, with the IAT entry payload extended by  <rdfihex> <checkhex>
               (RDFIIdentification / CheckDigit as stored), and a first token
                 W  whole file:  result line =  <class> [SV <nadv> <nstd> <niat> <refuses>] V <n> { <skeleton> <verdict> }*n
                 C  one IAT batch, IATBatch.Create:  result line =  OK <skeleton> | FAIL
   skeleton = the interchange of harness/internal/arith (Batch.Enc); in W lines header / control batch
   numbers are printed as 0 (File.Create renumbers them; compared by the phase-6 correspondence). *)
open Model
open Conv
open Convz

let hdrs : (bytes, hdrp) Hashtbl.t = Hashtbl.create 64
let stds : (bytes, stdp) Hashtbl.t = Hashtbl.create 1024
let iats : (bytes, ipay) Hashtbl.t = Hashtbl.create 1024
let iqs : (bytes, iqpay) Hashtbl.t = Hashtbl.create 1024
let advs : (bytes, apay) Hashtbl.t = Hashtbl.create 1024

let zi s = z_of_int (int_of_string s)
let b1 s = s = "1"

let parse (toks : string array) =
  let pos = ref 0 in
  let next () = let t = toks.(!pos) in incr pos; t in
  let expect s = if next () <> s then failwith ("expected " ^ s) in
  let rec times k f = if k <= 0 then [] else let x = f () in x :: times (k - 1) f in
  expect "F";
  let hok = b1 (next ()) in
  let c = zi (next ()) in let d = zi (next ()) in let cr = zi (next ()) in
  let inf = { i_hdr_ok = hok; i_count = c; i_debit = d; i_credit = cr } in
  expect "N";
  let n = int_of_string (next ()) in
  let batches = times n (fun () ->
    expect "B";
    let kind = if next () = "I" then KIAT else KStd in
    let sg = bytes_of_hex (next ()) in
    let num = zi (next ()) in
    let cls = zi (next ()) in
    let odfi = bytes_of_hex (next ()) in
    let hok = b1 (next ()) in
    let adv = b1 (next ()) in
    let oz = zi (next ()) in
    let onum = b1 (next ()) in
    Hashtbl.replace hdrs sg { hd_class = cls; hd_odfi = odfi; hd_ok = hok; hd_adv = adv; hd_odfi_z = oz; hd_odfi_num = onum };
    let ne = int_of_string (next ()) in
    let na = int_of_string (next ()) in
    let entry which () =
      let tr = bytes_of_hex (next ()) in
      let core = bytes_of_hex (next ()) in
      let amount = zi (next ()) in
      let debit = b1 (next ()) in
      let addenda = n_of_int (int_of_string (next ())) in
      let cat = n_of_int (int_of_string (next ())) in
      (match which with
       | `Std ->
         let code = zi (next ()) in
         let rdfi = bytes_of_hex (next ()) in
         let chk = bytes_of_hex (next ()) in
         let off = b1 (next ()) in
         Hashtbl.replace stds core { sp_code = code; sp_rdfi = rdfi; sp_check = chk; sp_off = off }
       | `Iat ->
         let code = zi (next ()) in
         let rdfi = zi (next ()) in
         let trn = b1 (next ()) in
         let mand = times 7 (fun () -> b1 (next ())) in
         let n17 = nat_of_int (int_of_string (next ())) in
         let n18 = nat_of_int (int_of_string (next ())) in
         let a98 = b1 (next ()) in
         let a99 = b1 (next ()) in
         let rd = bytes_of_hex (next ()) in
         let ck = bytes_of_hex (next ()) in
         Hashtbl.replace iqs core { iq_rdfi = rd; iq_check = ck };
         Hashtbl.replace iats core { ip_code = code; ip_rdfi = rdfi; ip_tr_num = trn; ip_mand = mand; ip_n17 = n17; ip_n18 = n18; ip_a98 = a98; ip_a99 = a99 }
       | `Adv ->
         let code = zi (next ()) in
         let rdfi = zi (next ()) in
         let a99 = b1 (next ()) in
         Hashtbl.replace advs core { ap_code = code; ap_rdfi = rdfi; ap_a99 = a99 });
      { e_trace = tr; e_core = core; e_amount = amount; e_debit = debit; e_addenda = addenda; e_cat = cat } in
    let es = times ne (entry (if kind = KIAT then `Iat else `Std)) in
    let adv = times na (entry `Adv) in
    { b_kind = kind; b_sig = sg; b_num = num; b_entries = es; b_adv = adv }) in
  expect "H";
  let k = int_of_string (next ()) in
  let hint = times k (fun () -> nat_of_int (int_of_string (next ()))) in
  (inf, batches, k, hint)

let z0 = z_of_int 0
let hd s = try Hashtbl.find hdrs s with Not_found -> { hd_class = z0; hd_odfi = []; hd_ok = false; hd_adv = false; hd_odfi_z = z0; hd_odfi_num = false }
let sp c = try Hashtbl.find stds c with Not_found -> { sp_code = z0; sp_rdfi = []; sp_check = []; sp_off = false }
let ip c = try Hashtbl.find iats c with Not_found -> { ip_code = z0; ip_rdfi = z0; ip_tr_num = false; ip_mand = []; ip_n17 = O; ip_n18 = O; ip_a98 = false; ip_a99 = false }
let iq c = try Hashtbl.find iqs c with Not_found -> { iq_rdfi = []; iq_check = [] }
let ap c = try Hashtbl.find advs c with Not_found -> { ap_code = z0; ap_rdfi = z0; ap_a99 = false }

let iz = int_of_z

let kind_code = function KStd0 -> 0 | KIAT0 -> 1 | KADV -> 2

let show_skel b (zero_num : bool) (s : batch0) =
  let c = s.bt_ctl in
  let num z = if zero_num then 0 else iz z in
  Buffer.add_string b (Printf.sprintf " %d %d %s %d %d %d %d %d %d %s %d %d" (kind_code s.bt_kind) (iz s.bt_class) (hex_of_bytes s.bt_odfi) (num s.bt_number)
    (iz c.bc_class) (iz c.bc_count) (iz c.bc_hash) (iz c.bc_debit) (iz c.bc_credit) (hex_of_bytes c.bc_odfi) (num c.bc_number) (List.length s.bt_entries));
  List.iter (fun e -> Buffer.add_string b (Printf.sprintf " %d %d %s %s %s %d" (iz e.en_code) (iz e.en_amount) (hex_of_bytes e.en_rdfi) (hex_of_bytes e.en_check)
    (hex_of_bytes e.en_trace) (iz e.en_addenda))) s.bt_entries

let class_of (cls, (f : afile)) =
  match cls with
  | FErrCreate -> if f.af_std = [] && f.af_iat = [] then "NOBATCHES" else "ERRFILE"
  | FErrValidate -> "ERRFILE"
  | FErrCount -> "COUNT"
  | FErrDebit -> "DEBIT"
  | FErrCredit -> "CREDIT"
  | FOk -> "OK"

let whole r views =
  let b = Buffer.create 4096 in
  let c = class_of r in
  Buffer.add_string b c;
  if c = "OK" then begin
    Buffer.add_string b (Printf.sprintf " V %d" (List.length views));
    List.iter (fun (s, v) -> show_skel b true s; Buffer.add_string b (if v then " 1" else " 0")) views
  end;
  print_endline (Buffer.contents b)

let () =
  let path = Sys.argv.(1) in
  iter_lines path (fun line ->
    try
      Hashtbl.reset hdrs; Hashtbl.reset stds; Hashtbl.reset iats; Hashtbl.reset advs; Hashtbl.reset iqs;
      match split_ws line with
      | "W" :: rest ->
        let (inf, batches, k, hint) = parse (Array.of_list rest) in
        if k = 0 then whole (flatten_full_stable gen_tables offset_table tabulate_table hd sp ip ap inf batches)
                            (iat_views_stable gen_tables tabulate_table hd ip iq batches)
        else (match flatten_full_hint gen_tables offset_table tabulate_table hd sp ip ap inf batches hint,
                    iat_views_hint gen_tables tabulate_table hd ip iq batches hint with
              | Some r, Some v -> whole r v
              | _ -> print_endline "REJECT")
      | "C" :: rest ->
        let (_, batches, _, _) = parse (Array.of_list rest) in
        (match batches with
         | [x] ->
           (match create_iat_view gen_tables tabulate_table hd ip iq x with
            | Some s -> let b = Buffer.create 1024 in Buffer.add_string b "OK"; show_skel b false s; print_endline (Buffer.contents b)
            | None -> print_endline "FAIL")
         | _ -> print_endline "? one batch expected")
      | _ -> print_endline "? bad case"
    with e -> print_endline ("? " ^ Printexc.to_string e))

(* C05 driver: runs the extracted build / File.Create / history model on the harness's
   cases and prints one observation per operation, in the harness's format. *)
open Model
open Conv
open Convz

let zs = string_of_z
let z = z_of_string
let b2s b = if b then "1" else "0"

let parse_entry (s : string) : entry =
  match String.split_on_char ':' s with
  | [c; a; o; t; ad; r] ->
    { e_code = z c; e_amount = z a; e_off = (o = "1"); e_trace = z t; e_addenda = z ad; e_rdfi = z r }
  | _ -> failwith ("bad entry " ^ s)

let parse_ctl (s : string) : control =
  match String.split_on_char ',' s with
  | [a; b; c; d; e; f] -> { c_svc = z a; c_num = z b; c_count = z c; c_hash = z d; c_credit = z e; c_debit = z f }
  | _ -> failwith ("bad control " ^ s)

let parse_fctl (s : string) : fctl =
  match String.split_on_char ',' s with
  | [a; b; c; d; e; f] -> { fc_batches = z a; fc_blocks = z b; fc_count = z c; fc_hash = z d; fc_debit = z e; fc_credit = z f }
  | _ -> failwith ("bad file control " ^ s)

let show_entry (e : entry) =
  Printf.sprintf "%s:%s:%s:%s:%s:%s" (zs e.e_code) (zs e.e_amount) (b2s e.e_off) (zs e.e_trace) (zs e.e_addenda) (zs e.e_rdfi)

let show_ctl (c : control) =
  Printf.sprintf "%s,%s,%s,%s,%s,%s" (zs c.c_svc) (zs c.c_num) (zs c.c_count) (zs c.c_hash) (zs c.c_credit) (zs c.c_debit)

let show_batch (b : batch) =
  Printf.sprintf "B:%s,%s|%s|%s" (zs b.b_svc) (zs b.b_num) (show_ctl b.b_ctl)
    (String.concat ";" (List.map show_entry b.b_entries))

let show_file (f : file) =
  let c = f.f_ctl in
  String.concat " "
    (Printf.sprintf "F:%s,%s,%s,%s,%s,%s" (zs c.fc_batches) (zs c.fc_blocks) (zs c.fc_count) (zs c.fc_hash) (zs c.fc_debit) (zs c.fc_credit)
     :: List.map show_batch f.f_batches)

let parse_batch (ws : string list) : batch =
  match ws with
  | [hok; odfi; svc; num; kind; rok; ordfi; ctl; es] ->
    let entries =
      List.filter_map (fun s -> if s = "." || s = "" then None else Some (parse_entry s)) (String.split_on_char ';' es) in
    let off =
      match kind with
      | "none" -> None
      | k -> Some { o_routing_ok = (rok = "1");
                    o_kind = (match k with "checking" -> Checking | "savings" -> Savings | _ -> BadKind);
                    o_rdfi = z ordfi } in
    { b_hdr_ok = (hok = "1"); b_odfi = z odfi; b_svc = z svc; b_num = z num; b_entries = entries;
      b_ctl = parse_ctl ctl; b_off = off }
  | _ -> failwith "bad batch line"

let () =
  let path = Sys.argv.(1) in
  let id = ref "" in
  let cur : file option ref = ref None in
  let k = ref 0 in
  let dead = ref false in
  iter_lines path (fun line ->
    match split_ws line with
    | ["CASE"; i; hok; fc] ->
      id := i; k := 0; dead := false;
      cur := Some { f_hdr_ok = (hok = "1"); f_batches = []; f_ctl = parse_fctl fc }
    | "B" :: rest ->
      (match !cur with
       | Some f -> cur := Some { f with f_batches = f.f_batches @ [parse_batch rest] }
       | None -> ())
    | "O" :: rest ->
      (match !cur with
       | Some f when not !dead ->
         let o =
           match rest with
           | ["C"; i] -> Some (BatchCreate (nat_of_int (int_of_string i)))
           | ["A"; i; e] -> Some (AddEntry (nat_of_int (int_of_string i), parse_entry e))
           | ["F"] -> Some FileCreate
           | _ -> None in
         let r = match o with Some o -> step offset_table o f | None -> Ret (true, f) in
         (match r with
          | Ret (ok, f') ->
            Printf.printf "c%s o%d %s %s\n" !id !k (if ok then "OK" else "ERR") (show_file f');
            cur := Some f'
          | Panic -> Printf.printf "c%s o%d PANIC\n" !id !k; dead := true
          | Hang -> Printf.printf "c%s o%d HANG\n" !id !k; dead := true);
         incr k
       | _ -> ())
    | _ -> ())

(* C05 (IAT / ADV / whole file) driver: runs the extracted history model (astep of
   coq/Model/FileCreateAll.v) on the harness's cases and prints the abstract state after every
   operation, in the harness's format. *)
open Model
open Conv
open Convz

let zs = string_of_z
let z = z_of_string
let b2s b = if b then "1" else "0"
let s2b s = (s = "1")
let nat s = nat_of_int (int_of_string s)

let split c s = String.split_on_char c s

let list_of (s : string) (f : string -> 'a) : 'a list =
  if s = "." || s = "" then [] else List.map f (split ';' s)

(* ---- standard entries *)
let parse_entry (s : string) : entry =
  match split ':' s with
  | [c; a; o; t; ad; r] ->
    { e_code = z c; e_amount = z a; e_off = s2b o; e_trace = z t; e_addenda = z ad; e_rdfi = z r }
  | _ -> failwith ("bad entry " ^ s)

let show_entry (e : entry) =
  Printf.sprintf "%s:%s:%s:%s:%s:%s" (zs e.e_code) (zs e.e_amount) (b2s e.e_off) (zs e.e_trace) (zs e.e_addenda) (zs e.e_rdfi)

(* ---- ADV entries *)
let parse_aentry (s : string) : aentry =
  match split ':' s with
  | [c; a; r; a99; q] -> { ae_code = z c; ae_amount = z a; ae_rdfi = z r; ae_a99 = s2b a99; ae_seq = z q }
  | _ -> failwith ("bad ADV entry " ^ s)

let show_aentry (e : aentry) =
  Printf.sprintf "%s:%s:%s:%s:%s" (zs e.ae_code) (zs e.ae_amount) (zs e.ae_rdfi) (b2s e.ae_a99) (zs e.ae_seq)

(* ---- IAT entries *)
let parse_pairs (s : string) =
  if s = "-" then []
  else List.map (fun p -> match split '/' p with [a; b] -> (z a, z b) | _ -> failwith ("bad pair " ^ p)) (split '+' s)

let show_pairs l =
  match l with
  | [] -> "-"
  | _ -> String.concat "+" (List.map (fun (a, b) -> zs a ^ "/" ^ zs b) l)

let parse_ientry (s : string) : ientry =
  match split ':' s with
  | [c; a; tn; t; r; m; a17; a18; a98; a99] ->
    { ie_code = z c; ie_amount = z a; ie_tr_num = s2b tn; ie_trace = z t; ie_rdfi = z r;
      ie_mand = List.map (fun x -> if x = "-" then None else Some (z x)) (split ',' m);
      ie_a17 = parse_pairs a17; ie_a18 = parse_pairs a18; ie_a98 = s2b a98; ie_a99 = s2b a99 }
  | _ -> failwith ("bad IAT entry " ^ s)

let show_ientry (e : ientry) =
  Printf.sprintf "%s:%s:%s:%s:%s:%s:%s:%s:%s:%s" (zs e.ie_code) (zs e.ie_amount) (b2s e.ie_tr_num) (zs e.ie_trace) (zs e.ie_rdfi)
    (String.concat "," (List.map (function None -> "-" | Some v -> zs v) e.ie_mand))
    (show_pairs e.ie_a17) (show_pairs e.ie_a18) (b2s e.ie_a98) (b2s e.ie_a99)

(* ---- controls *)
let parse_ctl (s : string) : control =
  match split ',' s with
  | [a; b; c; d; e; f] -> { c_svc = z a; c_num = z b; c_count = z c; c_hash = z d; c_credit = z e; c_debit = z f }
  | _ -> failwith ("bad control " ^ s)

let show_ctl (c : control) =
  Printf.sprintf "%s,%s,%s,%s,%s,%s" (zs c.c_svc) (zs c.c_num) (zs c.c_count) (zs c.c_hash) (zs c.c_credit) (zs c.c_debit)

let parse_fctl (s : string) : fctl =
  match split ',' s with
  | [a; b; c; d; e; f] -> { fc_batches = z a; fc_blocks = z b; fc_count = z c; fc_hash = z d; fc_debit = z e; fc_credit = z f }
  | _ -> failwith ("bad file control " ^ s)

let show_fctl (c : fctl) =
  Printf.sprintf "%s,%s,%s,%s,%s,%s" (zs c.fc_batches) (zs c.fc_blocks) (zs c.fc_count) (zs c.fc_hash) (zs c.fc_debit) (zs c.fc_credit)

let dot l = match l with [] -> "." | _ -> String.concat ";" l

let show_sbatch (s : sbatch) =
  match s with
  | SStd b -> Printf.sprintf "S:%s,%s|%s|%s" (zs b.b_svc) (zs b.b_num) (show_ctl b.b_ctl) (dot (List.map show_entry b.b_entries))
  | SAdv a -> Printf.sprintf "V:%s,%s|%s|%s" (zs a.ab_svc) (zs a.ab_num) (show_ctl a.ab_ctl) (dot (List.map show_aentry a.ab_entries))

let show_ibatch (b : ibatch) =
  Printf.sprintf "I:%s,%s|%s|%s" (zs b.ib_svc) (zs b.ib_num) (show_ctl b.ib_ctl) (dot (List.map show_ientry b.ib_entries))

let show_file (f : afile) =
  String.concat " "
    (("F:" ^ show_fctl f.af_ctl) :: ("A:" ^ show_fctl f.af_actl)
     :: (List.map show_sbatch f.af_std @ List.map show_ibatch f.af_iat))

let () =
  let path = Sys.argv.(1) in
  let id = ref "" in
  let cur : afile option ref = ref None in
  let k = ref 0 in
  let dead = ref false in
  iter_lines path (fun line ->
    match split_ws line with
    | ["CASE"; i; hok; skip; miss; zero; fc; afc] ->
      id := i; k := 0; dead := false;
      cur := Some { af_hdr_ok = s2b hok;
                    af_opts = { fo_skip_all = s2b skip; fo_allow_missing_hdr = s2b miss; fo_allow_zero = s2b zero };
                    af_std = []; af_iat = []; af_ctl = parse_fctl fc; af_actl = parse_fctl afc }
    | ["S"; hok; odfi; svc; num; ctl; es] ->
      (match !cur with
       | Some f ->
         let b = { b_hdr_ok = s2b hok; b_odfi = z odfi; b_svc = z svc; b_num = z num;
                   b_entries = list_of es parse_entry; b_ctl = parse_ctl ctl; b_off = None } in
         cur := Some { f with af_std = f.af_std @ [SStd b] }
       | None -> ())
    | ["V"; hok; stdes; svc; num; ctl; off; es] ->
      (match !cur with
       | Some f ->
         let a = { ab_hdr_ok = s2b hok; ab_std_entries = s2b stdes; ab_svc = z svc; ab_num = z num;
                   ab_entries = list_of es parse_aentry; ab_ctl = parse_ctl ctl; ab_off = s2b off } in
         cur := Some { f with af_std = f.af_std @ [SAdv a] }
       | None -> ())
    | ["I"; hok; onum; odfi; svc; num; opts; ctl; es] ->
      (match !cur with
       | Some f ->
         let o = if opts = "nil" then None
                 else (match split ',' opts with [a; b] -> Some (s2b a, s2b b) | _ -> failwith "bad opts") in
         let b = { ib_hdr_ok = s2b hok; ib_odfi_num = s2b onum; ib_odfi = z odfi; ib_svc = z svc; ib_num = z num;
                   ib_entries = list_of es parse_ientry; ib_ctl = parse_ctl ctl; ib_opts = o } in
         cur := Some { f with af_iat = f.af_iat @ [b] }
       | None -> ())
    | "O" :: rest ->
      (match !cur with
       | Some f when not !dead ->
         let o =
           match rest with
           | ["F"] -> ACreateFile
           | ["SB"; i] -> ABuild (nat i)
           | ["SA"; i; e] -> AAddStd (nat i, parse_entry e)
           | ["VA"; i; e] -> AAddAdv (nat i, parse_aentry e)
           | ["SR"; i; j] -> ARemove (nat i, nat j)
           | ["SM"; i; j; c; a] -> AAmend (nat i, nat j, z c, z a)
           | ["IB"; i] -> IBuild (nat i)
           | ["IA"; i; e] -> IAdd (nat i, parse_ientry e)
           | ["IR"; i; j] -> IRemove (nat i, nat j)
           | ["IM"; i; j; c; a] -> IAmend (nat i, nat j, z c, z a)
           | _ -> failwith ("bad op " ^ line) in
         (match astep offset_table tabulate_table o f with
          | Ret (ok, f') ->
            Printf.printf "c%s o%d %s %s\n" !id !k (if ok then "OK" else "ERR") (show_file f');
            cur := Some f'
          | Panic -> Printf.printf "c%s o%d PANIC\n" !id !k; dead := true
          | Hang -> Printf.printf "c%s o%d HANG\n" !id !k; dead := true);
         incr k
       | _ -> ())
    | _ -> ())

(* C17 phase-2 driver: the concrete interpretation of the server's library symbols
   (coq/Proto/ServerLib.v, extracted) on the harness's cases.  One case per line:

     <op> <arg> <view> <labels>

   view   = id/optbits/hdrok/fctl/pur/batches
            fctl = 6 integers, comma separated; pur = H<sechex>:<c>,N:<c>,... or -
            batches = batch|batch|... or -; batch = hok~odfi~svc~num~ctl~off~entries
            ctl = 6 integers, comma separated; off = none or rok.kind.rdfi
            entries = code:amt:off:trace:addenda:rdfi;... or -
   labels = k=v&k=v... or -   (wf vf sv: 4 bits skipAll allowMissing hdrOk ok;
            T = i:reset:sel.pos,sel.pos,...+...;  H = i:h+...;  IN = h:i,i+...;  CR = 2 bits;
            BV = one bit per batch the balance loop reached)

   Output: "<status> <view>" — status ok|err|panic for op create, "-" otherwise. *)
open Model
open Conv
open Convz

let zs = string_of_z
let z = z_of_string
let b2s b = if b then "1" else "0"
let s2b s = s = "1"
let split c s = if s = "-" || s = "" then [] else String.split_on_char c s

let id_of_string s =
  let n = n_of_int (int_of_string (String.sub s 1 (String.length s - 1))) in
  if s.[0] = 'c' then Client n else Gen n

let string_of_id = function
  | Client n -> "c" ^ string_of_int (int_of_n n)
  | Gen n -> "g" ^ string_of_int (int_of_n n)

let parse_entry s =
  match String.split_on_char ':' s with
  | [c; a; o; t; ad; r] -> { e_code = z c; e_amount = z a; e_off = s2b o; e_trace = z t; e_addenda = z ad; e_rdfi = z r }
  | _ -> failwith ("bad entry " ^ s)

let show_entry e =
  Printf.sprintf "%s:%s:%s:%s:%s:%s" (zs e.e_code) (zs e.e_amount) (b2s e.e_off) (zs e.e_trace) (zs e.e_addenda) (zs e.e_rdfi)

let parse_ctl s =
  match String.split_on_char ',' s with
  | [a; b; c; d; e; f] -> { c_svc = z a; c_num = z b; c_count = z c; c_hash = z d; c_credit = z e; c_debit = z f }
  | _ -> failwith ("bad control " ^ s)

let show_ctl c =
  Printf.sprintf "%s,%s,%s,%s,%s,%s" (zs c.c_svc) (zs c.c_num) (zs c.c_count) (zs c.c_hash) (zs c.c_credit) (zs c.c_debit)

let parse_fctl s =
  match String.split_on_char ',' s with
  | [a; b; c; d; e; f] -> { fc_batches = z a; fc_blocks = z b; fc_count = z c; fc_hash = z d; fc_debit = z e; fc_credit = z f }
  | _ -> failwith ("bad file control " ^ s)

let show_fctl c =
  Printf.sprintf "%s,%s,%s,%s,%s,%s" (zs c.fc_batches) (zs c.fc_blocks) (zs c.fc_count) (zs c.fc_hash) (zs c.fc_debit) (zs c.fc_credit)

let kind_of = function "checking" -> Checking | "savings" -> Savings | _ -> BadKind
let skind = function Checking -> "checking" | Savings -> "savings" | BadKind -> "bad"

let parse_off sep s =
  match String.split_on_char sep s with
  | [r; k; d] -> { o_routing_ok = s2b r; o_kind = kind_of k; o_rdfi = z d }
  | _ -> failwith ("bad offset " ^ s)

let parse_batch s =
  match String.split_on_char '~' s with
  | [hok; odfi; svc; num; ctl; off; es] ->
    { b_hdr_ok = s2b hok; b_odfi = z odfi; b_svc = z svc; b_num = z num;
      b_entries = List.map parse_entry (split ';' es); b_ctl = parse_ctl ctl;
      b_off = (if off = "none" then None else Some (parse_off '.' off)) }
  | _ -> failwith ("bad batch " ^ s)

let show_batch b =
  Printf.sprintf "%s~%s~%s~%s~%s~%s~%s" (b2s b.b_hdr_ok) (zs b.b_odfi) (zs b.b_svc) (zs b.b_num) (show_ctl b.b_ctl)
    (match b.b_off with None -> "none" | Some o -> Printf.sprintf "%s.%s.%s" (b2s o.o_routing_ok) (skind o.o_kind) (zs o.o_rdfi))
    (match b.b_entries with [] -> "-" | es -> String.concat ";" (List.map show_entry es))

let parse_bat s =
  match String.split_on_char ':' s with
  | [h; c] ->
    { b_hdr = (if h = "N" then None else Some (bytes_of_hex (let t = String.sub h 1 (String.length h - 1) in if t = "" then "-" else t)));
      b_ctl0 = s2b c }
  | _ -> failwith ("bad pur " ^ s)

let show_bat b =
  (match b.b_hdr with None -> "N" | Some s -> "H" ^ (match s with [] -> "" | _ -> hex_of_bytes s)) ^ ":" ^ b2s b.b_ctl0

let parse_view s =
  match String.split_on_char '/' s with
  | [i; ob; hok; fc; pur; bs] ->
    { lf_id = id_of_string i;
      lf_opts = { co_skip = ob.[0] = '1'; co_nohdr = ob.[1] = '1'; co_zero = ob.[2] = '1' };
      lf_off = { f_hdr_ok = s2b hok; f_batches = List.map parse_batch (split '|' bs); f_ctl = parse_fctl fc };
      lf_pur = List.map parse_bat (split ',' pur) }
  | _ -> failwith ("bad view " ^ s)

let show_view v =
  Printf.sprintf "%s/%s%s%s/%s/%s/%s/%s" (string_of_id v.lf_id)
    (b2s v.lf_opts.co_skip) (b2s v.lf_opts.co_nohdr) (b2s v.lf_opts.co_zero)
    (b2s v.lf_off.f_hdr_ok) (show_fctl v.lf_off.f_ctl)
    (match v.lf_pur with [] -> "-" | l -> String.concat "," (List.map show_bat l))
    (match v.lf_off.f_batches with [] -> "-" | l -> String.concat "|" (List.map show_batch l))

let vflags_of s =
  { v_skipAll = s.[0] = '1'; v_allowMissing = s.[1] = '1'; v_hdrOk = s.[2] = '1'; v_ok = s.[3] = '1' }

let default_vf = vflags_of "0011"

let () =
  let path = Sys.argv.(1) in
  iter_lines path (fun line ->
    match split_ws line with
    | [op; arg; view; labs] ->
      (try
        let v = parse_view view in
        let kv = List.filter_map (fun s ->
          match String.index_opt s '=' with
          | Some i -> Some (String.sub s 0 i, String.sub s (i + 1) (String.length s - i - 1))
          | None -> None) (split '&' labs) in
        let get k = List.assoc_opt k kv in
        let vf k = match get k with Some s -> vflags_of s | None -> default_vf in
        (* T = i:reset:sel.pos,sel.pos+... *)
        let touches =
          match get "T" with
          | None -> []
          | Some s ->
            List.map (fun item ->
              match String.split_on_char ':' item with
              | [i; r; es] ->
                (int_of_string i, (s2b r,
                   Array.of_list (List.map (fun e ->
                     match String.split_on_char '.' e with
                     | [a; b] -> (s2b a, z b)
                     | _ -> failwith "bad touch entry") (split ',' es))))
              | _ -> failwith ("bad touch " ^ item)) (split '+' s) in
        let touch =
          { t_sel = (fun i j -> match List.assoc_opt (int_of_nat i) touches with
                               | Some (_, a) -> let j = int_of_nat j in j < Array.length a && fst a.(j)
                               | None -> false);
            t_reset = (fun i -> match List.assoc_opt (int_of_nat i) touches with Some (r, _) -> r | None -> false);
            t_pos = (fun i j -> match List.assoc_opt (int_of_nat i) touches with
                               | Some (_, a) -> let j = int_of_nat j in if j < Array.length a then snd a.(j) else Z0
                               | None -> Z0) } in
        let halves =
          match get "H" with
          | None -> []
          | Some s -> List.map (fun item -> match String.split_on_char ':' item with
              | [i; h] -> (int_of_string i, s2b h) | _ -> failwith "bad H") (split '+' s) in
        let ins =
          match get "IN" with
          | None -> []
          | Some s -> List.map (fun item -> match String.split_on_char ':' item with
              | [h; l] -> (s2b h, List.map int_of_string (split ',' l)) | _ -> failwith "bad IN") (split '+' s) in
        let cr = match get "CR" with Some s -> s | None -> "11" in
        let share =
          { s_half = (fun i -> List.assoc_opt (int_of_nat i) halves);
            s_in = (fun h i -> match List.assoc_opt h ins with Some l -> List.mem (int_of_nat i) l | None -> false);
            s_created = (fun h -> if h then cr.[0] = '1' else cr.[1] = '1') } in
        let off = if arg = "-" then { o_routing_ok = true; o_kind = Checking; o_rdfi = Z0 } else parse_off ':' arg in
        let labels =
          { l_parse = (fun _ _ _ -> v); l_parseb = (fun _ _ -> v);
            l_vf = (fun _ _ -> vf "vf"); l_wf = (fun _ -> vf "wf"); l_sv = (fun _ -> vf "sv");
            l_flat = (fun _ -> touch); l_seg = (fun _ -> touch); l_share = (fun _ -> share);
            l_addb = (fun w _ -> w); l_delb = (fun w _ -> w);
            l_flatres = (fun w _ -> w); l_cred = (fun w _ -> w); l_deb = (fun w _ -> w);
            l_offs = (fun _ -> off);
            l_balv = (fun _ i -> match get "BV" with
                                 | Some s -> let i = int_of_nat i in i >= String.length s || s.[i] = '1'
                                 | None -> true) } in
        let out st w = print_string (st ^ " " ^ show_view w ^ "\n") in
        (match op with
         | "create" ->
           let (st, w) = lcreate v in
           out (match st with SOk -> "ok" | SErr -> "err" | SPanic -> "panic") w
         | "contents" -> out "-" (lcontents labels.l_wf v)
         | "build" -> out "-" (lbuild v)
         | "validate" -> out "-" (lvalidate (vf "vf") v)
         | "get" -> out "-" (lmarshal v)
         | "flatten" -> out "-" (lflatsrc labels v)
         | "segment" -> out "-" (lsegsrc labels v)
         | "balance" -> out "-" (lbal offset_table labels v N0 (Gen (n_of_int 0)))
         | _ -> print_string "unknown-op\n")
      with Failure m -> print_string ("driver-error " ^ m ^ "\n") | Not_found -> print_string "driver-error notfound\n"
         | Invalid_argument m -> print_string ("driver-error " ^ m ^ "\n"))
    | [] -> ()
    | _ -> print_string "bad-line\n")

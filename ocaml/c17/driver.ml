(* C17 driver: runs the extracted server machines on the harness's request lines.
   Per request line it prints the response of the pointer machine (cstep):
     <class> <status> <payload s-expression>
   and, after a tab, whether the term-map machine (gstep false) gave the same response
   (always "=" on histories without a successful balance, by C17_refines_map). *)
open Model
open Conv

let id_of_string s =
  let n = n_of_int (int_of_string (String.sub s 1 (String.length s - 1))) in
  if s.[0] = 'c' then Client n else Gen n

let string_of_id = function
  | Client n -> "c" ^ string_of_int (int_of_n n)
  | Gen n -> "g" ^ string_of_int (int_of_n n)

let ni s = n_of_int (int_of_string s)
let si n = string_of_int (int_of_n n)
let fmt_of = function "T" -> Text | _ -> Json
let sfmt = function Text -> "T" | Json -> "J"
let le_of = function "CRLF" -> CRLF | _ -> LF
let sle = function LF -> "LF" | CRLF -> "CRLF"
let b_of s = s = "1"
let opt_of s = if s = "-" then None else
  (match id_of_string s with Client n -> Some n | Gen n -> Some n)

let rec sterm = function
  | Parsed (f, b, o) -> Printf.sprintf "(Parsed %s %s %s)" (sfmt f) (si b) (si o)
  | ParsedBody (f, b) -> Printf.sprintf "(ParsedBody %s %s)" (sfmt f) (si b)
  | WithID (t, i) -> Printf.sprintf "(WithID %s %s)" (sterm t) (string_of_id i)
  | Created t -> Printf.sprintf "(Created %s)" (sterm t)
  | FlatSrc t -> Printf.sprintf "(FlatSrc %s)" (sterm t)
  | SegSrc t -> Printf.sprintf "(SegSrc %s)" (sterm t)
  | WithBatch (t, b) -> Printf.sprintf "(WithBatch %s %s)" (sterm t) (si b)
  | WithoutBatch (t, k) -> Printf.sprintf "(WithoutBatch %s %s)" (sterm t) (si k)
  | Flattened (t, i) -> Printf.sprintf "(Flattened %s %s)" (sterm t) (string_of_id i)
  | CreditOf (t, i) -> Printf.sprintf "(CreditOf %s %s)" (sterm t) (string_of_id i)
  | DebitOf (t, i) -> Printf.sprintf "(DebitOf %s %s)" (sterm t) (string_of_id i)
  | Balanced (t, o, i) -> Printf.sprintf "(Balanced %s %s %s)" (sterm t) (si o) (string_of_id i)

let spay = function
  | PNone -> "(PNone)"
  | PFile t -> Printf.sprintf "(PFile %s)" (sterm t)
  | PFiles l ->
    "(PFiles" ^ String.concat "" (List.map (fun (i, t) -> Printf.sprintf " (%s %s)" (string_of_id i) (sterm t)) l) ^ ")"
  | PText (l, t) -> Printf.sprintf "(PText %s %s)" (sle l) (sterm t)
  | PValid (t, o) -> Printf.sprintf "(PValid %s %s)" (sterm t) (si o)
  | PBuild t -> Printf.sprintf "(PBuild %s)" (sterm t)
  | PFlat (t, i) -> Printf.sprintf "(PFlat %s %s)" (sterm t) (string_of_id i)
  | PSeg (t, a, b) -> Printf.sprintf "(PSeg %s %s %s)" (sterm t) (string_of_id a) (string_of_id b)
  | PBal (t, o, i) -> Printf.sprintf "(PBal %s %s %s)" (sterm t) (si o) (string_of_id i)
  | PAddBatch (t, b) -> Printf.sprintf "(PAddBatch %s %s)" (sterm t) (si b)
  | PBatch (t, k) -> Printf.sprintf "(PBatch %s %s)" (sterm t) (si k)
  | PBatches t -> Printf.sprintf "(PBatches %s)" (sterm t)
  | PNoBatches -> "(PNoBatches)"
  | PDelBatch (t, k) -> Printf.sprintf "(PDelBatch %s %s)" (sterm t) (si k)

let scls = function Found -> "found" | NotFound -> "notfound" | Refused -> "refused" | BadBody -> "badbody"

let sresp (Resp (c, st, p)) = Printf.sprintf "%s %s %s" (scls c) (si st) (spay p)

let request_of (w : string list) : request option =
  match w with
  | ["CREATE"; f; b; o; url; bodyid] -> Some (RCreate (fmt_of f, ni b, ni o, opt_of url, opt_of bodyid))
  | ["GET"; i] -> Some (RGet (id_of_string i))
  | ["LIST"] -> Some RList
  | ["CONTENTS"; i; l] -> Some (RContents (id_of_string i, le_of l))
  | ["VALIDATE"; i; o] -> Some (RValidate (id_of_string i, ni o))
  | ["BUILD"; i] -> Some (RBuild (id_of_string i))
  | ["DELETE"; i] -> Some (RDelete (id_of_string i))
  | ["ADDBATCH"; i; b; d; u] -> Some (RAddBatch (id_of_string i, ni b, b_of d, b_of u))
  | ["GETBATCH"; i; k] -> Some (RGetBatch (id_of_string i, ni k))
  | ["LISTBATCHES"; i] -> Some (RListBatches (id_of_string i))
  | ["DELBATCH"; i; k] -> Some (RDeleteBatch (id_of_string i, ni k))
  | ["FLATTEN"; i; ok] -> Some (RFlatten (id_of_string i, b_of ok))
  | ["SEGMENT"; i; ok; hc; hd] -> Some (RSegment (id_of_string i, b_of ok, b_of hc, b_of hd))
  | ["SEGBODY"; f; b; ok; hc; hd] -> Some (RSegmentBody (fmt_of f, ni b, b_of ok, b_of hc, b_of hd))
  | ["BALANCE"; i; o; ok] -> Some (RBalance (id_of_string i, ni o, b_of ok))
  | _ -> None

let () =
  let path = Sys.argv.(1) in
  let c = ref cinit and m = ref minit in
  iter_lines path (fun line ->
    match split_ws line with
    | ["S"] -> c := cinit; m := minit; print_endline "S"
    | w ->
      (match request_of w with
       | None -> print_endline "?"
       | Some r ->
         let (c', a) = cstep !c r in
         let (m', a') = gstep false !m r in
         c := c'; m := m';
         print_endline (sresp a ^ "\t" ^ (if a = a' then "=" else "<>"))))

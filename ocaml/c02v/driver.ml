(* C02 valid => width driver.
   driver plan            prints, per record type, the fields the regenerated rules talk about and
                          the values worth trying (members of the accepted sets, literals, lengths)
   driver <cases file>    one verdict per case line:
     V <Layout> <varied field> <fields…>   ACC | REJ | UNK | OUTSIDE   (record rules)
     B <EntryType> <k> <entry 1> | <entry 2> | …   ACC | REJ           (batch level entry rules, entries in order) *)
open Model
open Conv
open Convz
open Convstr

let find_layout name = List.find_opt (fun l -> ocaml_string l.l_name = name) all_layouts

let parse_field tok =
  let i = String.index tok '=' in
  let name = String.sub tok 0 i in
  let kind = tok.[i + 1] in
  let rest = String.sub tok (i + 3) (String.length tok - i - 3) in
  if kind = 'i' then (coq_string name, VI (z_of_string rest)) else (coq_string name, VS (bytes_of_hex rest))

let rec sterm_fields = function
  | TField f -> [ocaml_string f]
  | TRender s -> List.map ocaml_string (seg_reads s)
  | TUpper t -> sterm_fields t

let iterm_fields = function
  | IField f -> [ocaml_string f]
  | IConst _ -> []
  | IAtoi t | ICheckDigit t -> sterm_fields t

(* fields of the recognised atoms / fields mentioned by unrecognised checks *)
let rec known_fields = function
  | CTrue | CFalse | CUnknown _ -> []
  | CStrIn (t, _) | CStrNotIn (t, _) | CByteLen (_, t, _) | CRuneLen (_, t, _) | CRunesOutside (t, _) | CAtoiErr t -> sterm_fields t
  | CIntIn (t, _) | CIntNotIn (t, _) -> iterm_fields t
  | CIntCmp (_, a, b) -> iterm_fields a @ iterm_fields b
  | CAnd (a, b) | COr (a, b) -> known_fields a @ known_fields b
  | CNot a -> known_fields a

let rec unknown_fields = function
  | CUnknown (_, fs) -> List.map ocaml_string fs
  | CAnd (a, b) | COr (a, b) -> unknown_fields a @ unknown_fields b
  | CNot a -> unknown_fields a
  | _ -> []

(* custom accessors outside the hand model (time.Now / ISO 8601 forms) that a rule renders *)
let rec custom_terms_s = function
  | TRender (SCustom (n, _)) -> [n]
  | TRender _ | TField _ -> []
  | TUpper t -> custom_terms_s t
let custom_terms_i = function IAtoi t | ICheckDigit t -> custom_terms_s t | _ -> []
let rec custom_terms = function
  | CStrIn (t, _) | CStrNotIn (t, _) | CByteLen (_, t, _) | CRuneLen (_, t, _) | CRunesOutside (t, _) | CAtoiErr t -> custom_terms_s t
  | CIntIn (t, _) | CIntNotIn (t, _) -> custom_terms_i t
  | CIntCmp (_, a, b) -> custom_terms_i a @ custom_terms_i b
  | CAnd (a, b) | COr (a, b) -> custom_terms a @ custom_terms b
  | CNot a -> custom_terms a
  | _ -> []

let utf8_of_rune n = hex_of_bytes (encode_rune (n_of_int n))
let rep s k = String.concat "" (List.init (max k 0) (fun _ -> s))

(* value candidates: (field, token) with token S:<hex> or I:<n> *)
let rec values c : (Stdlib.String.t * Stdlib.String.t) list =
  let s_all t toks = List.concat_map (fun f -> List.map (fun v -> (f, v)) toks) (sterm_fields t) in
  match c with
  | CStrIn (t, set) | CStrNotIn (t, set) -> s_all t (List.map (fun m -> "S:" ^ hex_of_bytes m) set)
  | CIntIn (IField f, set) | CIntNotIn (IField f, set) -> List.map (fun z -> (ocaml_string f, "I:" ^ string_of_z z)) set
  | CIntCmp (_, IField f, IConst z) | CIntCmp (_, IConst z, IField f) ->
    let n = int_of_z z in List.map (fun k -> (ocaml_string f, "I:" ^ string_of_int k)) [n - 1; n; n + 1]
  | CByteLen (_, t, n) | CRuneLen (_, t, n) ->
    let n = int_of_z n in
    s_all t (List.concat_map (fun k -> ["S:" ^ (if k <= 0 then "-" else rep "41" k); "S:" ^ (if k <= 0 then "-" else rep "c3a9" k)]) [n - 1; n; n + 1])
  | CRunesOutside (t, ranges) ->
    s_all t (List.concat_map (fun (lo, hi) ->
        let lo = int_of_n lo and hi = int_of_n hi in
        List.map (fun r -> "S:" ^ utf8_of_rune r) (List.filter (fun r -> r > 0) [lo - 1; lo; hi; hi + 1])) ranges)
  | CAtoiErr t -> s_all t (List.map (fun s -> "S:" ^ s) ["-"; "2b"; "2d"; "78"; "37"; "2b37"; "3037"; "2d31"; "2037"; "3720"; "303037"])
  | CAnd (a, b) | COr (a, b) -> values a @ values b
  | CNot a -> values a
  | _ -> []

let uniq l = List.sort_uniq compare l

let plan () =
  List.iter (fun l ->
      let name = ocaml_string l.l_name in
      let rs = List.map snd (rules_in all_rules l) in
      let cs = match cols l with Some cs -> cs | None -> [] in
      (* columns whose width only validation guarantees: field, nominal width *)
      let colfields = List.concat_map (fun ((_, w), s) ->
          match s with
          | SRaw f | SItoa f -> [(ocaml_string f, int_of_nat w)]
          | SCustom (_, _) -> List.map (fun f -> (ocaml_string f, int_of_nat w)) (seg_reads s)
          | _ -> []) cs in
      let unb = List.map (fun ((_, _), s) -> match s with
          | SRaw f | SItoa f -> ocaml_string f
          | SCustom (n, _) -> ocaml_string n
          | _ -> "?") (unbounded_in all_rules l) in
      let known = uniq (List.concat_map known_fields rs) in
      let vals = List.concat_map values rs in
      let fields = uniq (List.map fst colfields @ known) in
      List.iter (fun f ->
          let w = match List.assoc_opt f colfields with Some w -> string_of_int w | None -> "-" in
          let vs = uniq (List.filter_map (fun (g, v) -> if g = f then Some v else None) vals) in
          Printf.printf "F %s %s %s %s\n" name f w (String.concat " " vs)) fields;
      Printf.printf "U %s %s\n" name (String.concat " " unb)) all_layouts;
  List.iter (fun (n, subs) -> Printf.printf "S %s %s\n" (ocaml_string n) (String.concat " " (List.map ocaml_string subs))) entry_subrecords

let verdict_record l varied r =
  let rs = List.map snd (rules_in all_rules l) in
  let outside = List.exists (fun c ->
      List.exists (fun n -> match render_custom n r with None -> true | Some _ -> false) (custom_terms c)) rs in
  if outside then "OUTSIDE"
  else if not (rec_validb (rules_in all_rules l) r) then "REJ"
  else if List.exists (fun c -> List.mem varied (unknown_fields c)) rs then "UNK"
  else "ACC"

let () =
  if Array.length Sys.argv > 1 && Sys.argv.(1) = "plan" then plan ()
  else
    iter_lines Sys.argv.(1) (fun line ->
        match split_ws line with
        | "V" :: name :: varied :: fields ->
          (match find_layout name with
           | None -> print_endline "NOLAYOUT"
           | Some l -> print_endline (verdict_record l varied (List.map parse_field fields)))
        | "B" :: name :: _k :: toks ->
          (* all entries of the batch in order, separated by "|" *)
          let rs = match List.find_opt (fun (n, _) -> ocaml_string n = name) batch_entry_rules with
            | Some (_, rs) -> rs | None -> [] in
          let x = match List.find_opt (fun (n, _) -> ocaml_string n = name) batch_loop_exits with
            | Some (_, x) -> x | None -> CTrue in
          let rec split cur acc = function
            | [] -> List.rev (List.rev cur :: acc)
            | "|" :: rest -> split [] (List.rev cur :: acc) rest
            | t :: rest -> split (t :: cur) acc rest in
          let es = List.map (List.map parse_field) (split [] [] toks) in
          print_endline (if entries_validb rs x es then "ACC" else "REJ")
        | _ -> print_endline "?")

(* C17 phase-4 driver: the pointer-graph store of coq/Proto/ServerShare.v (extracted) on the
   labelled request lines of `c17 share`.  Per request line it prints

     nf=<status>\t<stored files>

   nf = the exact "no such file" status of the route (0 when the ID was found / the route has
   no target).  Stored files, sorted by ID:

     <id> F<n> id=<File.ID> o=<3 bits> k=<b> h=<b> c=<file control> B[<batch> ...] I[<batch> ...]
     batch = B<n>:<adv><keep><hdr>:<odfi>:<svc>:<num>:<control>:[E<n>=<trace>,...]

   File, batch and entry pointers are renamed in order of first appearance in this line, so
   two lines are equal iff the views are equal and the pointer graphs are isomorphic.

   With a second argument it also writes, per request line, the hypotheses of the theorems of
   coq/Props/C17Share.v evaluated in the state the request meets:

     k=<class> r=<sread_stored> t=<-|0|1: target stored and file_stable> wf=<wf_label> all=<all_stable>
     post=<stable>/<stored files after the request> new=<stable>/<files the request stored>
     wfr=<-|0|1: wf_flat_result of a flatten that stored its result> *)
open Model
open Conv
open Convz

let zs = string_of_z
let z = z_of_string
let b2s b = if b then "1" else "0"
let s2b s = s = "1"
let split c s = if s = "_" || s = "" then [] else String.split_on_char c s
let nat s = nat_of_int (int_of_string s)

let id_of_string s =
  let n = n_of_int (int_of_string (String.sub s 1 (String.length s - 1))) in
  if s.[0] = 'c' then Client n else Gen n

let string_of_id = function
  | Client n -> "c" ^ string_of_int (int_of_n n)
  | Gen n -> "g" ^ string_of_int (int_of_n n)

let opt_of s = if s = "-" then None else
  (match id_of_string s with Client n -> Some n | Gen n -> Some n)

let parse_ctl s =
  match String.split_on_char ',' s with
  | [a; b; c; d; e; f] -> { c_svc = z a; c_num = z b; c_count = z c; c_hash = z d; c_credit = z e; c_debit = z f }
  | _ -> failwith ("bad control " ^ s)

let show_ctl c =
  Printf.sprintf "%s,%s,%s,%s,%s,%s" (zs c.c_svc) (zs c.c_num) (zs c.c_count) (zs c.c_hash) (zs c.c_credit) (zs c.c_debit)

let parse_fctl s =
  match String.split_on_char ',' s with
  | [a; b; c; d; e; f] -> { fc_batches = z a; fc_blocks = z b; fc_count = z c; fc_hash = z d; fc_debit = z e; fc_credit = z f }
  | _ -> failwith ("bad file control " ^ s)

let show_fctl c =
  Printf.sprintf "%s,%s,%s,%s,%s,%s" (zs c.fc_batches) (zs c.fc_blocks) (zs c.fc_count) (zs c.fc_hash) (zs c.fc_debit) (zs c.fc_credit)

let parse_pbatch s =
  match String.split_on_char ':' s with
  | [adv; hdr; odfi; keep; svc; num; ctl; traces] ->
    { pb_adv = s2b adv; pb_hdr_ok = s2b hdr; pb_odfi = z odfi; pb_keep = s2b keep; pb_svc = z svc; pb_num = z num;
      pb_traces = List.map z (split ';' traces); pb_ctl = parse_ctl ctl }
  | _ -> failwith ("bad batch " ^ s)

let parse_opts s = { co_skip = s.[0] = '1'; co_nohdr = s.[1] = '1'; co_zero = s.[2] = '1' }
let show_opts o = b2s o.co_skip ^ b2s o.co_nohdr ^ b2s o.co_zero

let parse_pfile s =
  match String.split_on_char '|' s with
  | [top; bats; iats] ->
    (match String.split_on_char ':' top with
     | [o; keep; hdr; fc] ->
       { pf_opts = parse_opts o; pf_keep = s2b keep; pf_hdr_ok = s2b hdr;
         pf_bats = List.map parse_pbatch (split '+' bats); pf_iats = List.map parse_pbatch (split '+' iats);
         pf_ctl = parse_fctl fc }
     | _ -> failwith ("bad file top " ^ top))
  | _ -> failwith ("bad file " ^ s)

let parse_ref s =
  match String.split_on_char '.' s with
  | [k; j] -> (nat k, nat j)
  | _ -> failwith ("bad ref " ^ s)

let parse_group s =
  match String.split_on_char '/' s with
  | [srcs; refs; ctl] -> { g_srcs = List.map nat (split ';' srcs); g_refs = List.map parse_ref (split ';' refs); g_ctl = parse_ctl ctl }
  | _ -> failwith ("bad group " ^ s)

let parse_write s =
  match String.split_on_char '.' s with
  | ["T"; k; j; t] -> WTrace (nat k, nat j, z t)
  | ["N"; k; n; cn] -> WNum (nat k, z n, z cn)
  | _ -> failwith ("bad write " ^ s)

let parse_split s =
  match String.split_on_char '/' s with
  | [c; d; hc; hd; ch; dh; cr; dr; cc; dc] ->
    { sp_c = List.map nat (split ';' c); sp_d = List.map nat (split ';' d); sp_hasc = s2b hc; sp_hasd = s2b hd;
      sp_chdr = s2b ch; sp_dhdr = s2b dh; sp_creach = nat cr; sp_dreach = nat dr; sp_cctl = parse_ctl cc; sp_dctl = parse_ctl dc }
  | _ -> failwith ("bad split " ^ s)

let parse_eref s =
  let v = String.sub s 1 (String.length s - 1) in
  if s.[0] = 'o' then EOld (nat v) else EFresh (z v)

let parse_ballab s =
  match String.split_on_char '/' s with
  | [reach; res; ok] ->
    let r = if res = "-" then None else
        (match String.split_on_char '~' res with
         | [es; ctl; svc] -> Some ((List.map parse_eref (split ';' es), parse_ctl ctl), z svc)
         | _ -> failwith ("bad balance result " ^ res)) in
    { bl_reach = nat reach; bl_res = r; bl_ok = s2b ok }
  | _ -> failwith ("bad balance label " ^ s)

let flat_label = function
  | ["OK"; hdr; gs] -> FlatOk (List.map parse_group (split '+' gs), s2b hdr)
  | ["ERR"; ws] -> FlatErr (List.map parse_write (split '+' ws))
  | _ -> failwith "bad flatten label"

let seg_label = function
  | ["OK"; ch; dh; sps] -> SegOk (List.map parse_split (split '+' sps), s2b ch, s2b dh)
  | ["ERR"; v; ws] -> SegErr (s2b v, List.map parse_write (split '+' ws))
  | _ -> failwith "bad segment label"

let request_of (w : string list) : srequest option =
  match w with
  | ["CREATE"; url; bodyid; pf] -> Some (SCreate (opt_of url, opt_of bodyid, parse_pfile pf))
  | ["GET"; i] -> Some (SGet (id_of_string i))
  | ["LIST"] -> Some SList
  | ["CONTENTS"; i] -> Some (SContents (id_of_string i))
  | ["VALIDATE"; i] -> Some (SValidate (id_of_string i))
  | ["BUILD"; i] -> Some (SBuild (id_of_string i))
  | ["DELETE"; i] -> Some (SDelete (id_of_string i))
  | ["ADDBATCH"; i; d; u; b] -> Some (SAddBatch (id_of_string i, s2b d, s2b u, parse_pbatch b))
  | ["GETBATCH"; i] -> Some (SGetBatch (id_of_string i))
  | ["LISTBATCHES"; i] -> Some (SListBatches (id_of_string i))
  | ["DELBATCH"; i; p] -> Some (SDelBatch (id_of_string i, if p = "-" then None else Some (nat p)))
  | "FLATTEN" :: i :: l -> Some (SFlatten (id_of_string i, flat_label l))
  | "SEGMENT" :: i :: l -> Some (SSegment (id_of_string i, seg_label l))
  | "SEGBODY" :: pf :: l -> Some (SSegmentBody (parse_pfile pf, seg_label l))
  | ["BALANCE"; i; ls] -> Some (SBalance (id_of_string i, N0, List.map parse_ballab (split '+' ls)))
  | _ -> None

(* ---- canonical rendering of a snapshot *)

let rename tbl prefix p =
  let k = int_of_n p in
  match Hashtbl.find_opt tbl k with
  | Some v -> v
  | None -> let v = Printf.sprintf "%s%d" prefix (Hashtbl.length tbl) in Hashtbl.add tbl k v; v

let show_snapshot (snap : (id * (n * (vfile * (n * n list) list))) list) : string =
  let files = Hashtbl.create 16 and bats = Hashtbl.create 64 and ents = Hashtbl.create 256 in
  let items = List.map (fun (i, x) -> (string_of_id i, x)) snap in
  let items = List.sort (fun (a, _) (b, _) -> compare a b) items in
  let show_bat (v : vbatch) ((q, es) : n * n list) =
    let cells = List.map2 (fun e t -> Printf.sprintf "%s=%s" (rename ents "E" e) (zs t)) es v.vb_traces in
    Printf.sprintf "%s:%s%s%s:%s:%s:%s:%s:[%s]" (rename bats "B" q) (b2s v.vb_adv) (b2s v.vb_keep) (b2s v.vb_hdr_ok)
      (zs v.vb_odfi) (zs v.vb_svc) (zs v.vb_num) (show_ctl v.vb_ctl) (String.concat "," cells) in
  let show_file (sym, (p, (v, g))) =
    let nb = List.length v.vf_bats in
    let rec take k l = if k = 0 then [] else match l with [] -> [] | x :: r -> x :: take (k - 1) r in
    let rec drop k l = if k = 0 then l else match l with [] -> [] | _ :: r -> drop (k - 1) r in
    let f = rename files "F" p in
    let bs = List.map2 show_bat v.vf_bats (take nb g) in
    let js = List.map2 show_bat v.vf_iats (drop nb g) in
    Printf.sprintf "%s %s id=%s o=%s k=%s h=%s c=%s B[%s] I[%s]" sym f (string_of_id v.vf_id) (show_opts v.vf_opts)
      (b2s v.vf_keep) (b2s v.vf_hdr_ok) (show_fctl v.vf_ctl) (String.concat " " bs) (String.concat " " js) in
  match items with
  | [] -> "-"
  | _ -> String.concat " ; " (List.map show_file items)

let sclass = function KNone -> "none" | KPure -> "pure" | KEdit -> "edit" | KCreate -> "create" | KDerive -> "derive"

let () =
  let path = Sys.argv.(1) in
  let chk = if Array.length Sys.argv > 2 then Some (open_out Sys.argv.(2)) else None in
  let note l = match chk with Some oc -> output_string oc (l ^ "\n") | None -> () in
  let s = ref sinit in
  iter_lines path (fun line ->
    match split_ws line with
    | ["S"] -> s := sinit; print_endline "S"; note "S"
    | w ->
      (match (try request_of w with Failure m -> prerr_endline (m ^ " in: " ^ line); None) with
       | None -> print_endline "?"; note "?"
       | Some r ->
         let t = match target r with
           | None -> "-"
           | Some i -> (match lookup !s.ss_store i with None -> "-" | Some p -> b2s (file_stable !s p)) in
         let (s', SResp (c, st)) = sstep !s r in
         let stored = List.length s'.ss_store in
         let stable = List.length (List.filter (fun (_, p) -> file_stable s' p) s'.ss_store) in
         let fresh = List.filter (fun (i, _) -> lookup !s.ss_store i = None) s'.ss_store in
         let fresh_stable = List.length (List.filter (fun (_, p) -> file_stable s' p) fresh) in
         let wfr = match r with
           | SFlatten (i, FlatOk (gs, _)) ->
             (match lookup !s.ss_store i with None -> "-" | Some p -> b2s (wf_flat_result !s p gs))
           | _ -> "-" in
         note (Printf.sprintf "k=%s r=%s t=%s wf=%s all=%s post=%d/%d new=%d/%d wfr=%s" (sclass (rclass_of r)) (b2s (sread_stored r)) t
                 (b2s (wf_label !s r)) (b2s (all_stable !s)) stable stored fresh_stable (List.length fresh) wfr);
         s := s';
         let nf = match c with NotFound -> int_of_n st | _ -> 0 in
         Printf.printf "nf=%d\t%s\n" nf (show_snapshot (snapshot s'))));
  match chk with Some oc -> close_out oc | None -> ()

(* C01 driver: layout interpreter on the harness's record cases. *)
open Model
open Conv
open Convz
open Convstr

let find_layout name =
  List.find_opt (fun l -> ocaml_string l.l_name = name) all_layouts

(* "name=s:<hex>" / "name=i:<n>" *)
let parse_field tok =
  let i = String.index tok '=' in
  let name = String.sub tok 0 i in
  let kind = tok.[i + 1] in
  let rest = String.sub tok (i + 3) (String.length tok - i - 3) in
  if kind = 'i' then (name, VI (z_of_string rest)) else (name, VS (bytes_of_hex rest))

let recval_of fields = List.map (fun (n, v) -> (coq_string n, v)) fields

let show_field r (name, _) =
  match lookup r (coq_string name) with
  | Some (VI z) -> name ^ "=i:" ^ string_of_z z
  | Some (VS s) -> name ^ "=s:" ^ hex_of_bytes s
  | None -> name ^ "=?"

(* segments the model does not cover (time-dependent / ISO-8601 forms of the file creation date) *)
let outside l r =
  List.exists (fun s -> match s with
    | SCustom (n, _) -> (match render_custom n r with None -> true | Some _ -> false)
    | SUnknown _ -> true
    | _ -> false) l.l_segs

let () =
  iter_lines Sys.argv.(1) (fun line ->
    match split_ws line with
    | "S" :: name :: fields ->
      (match find_layout name with
       | None -> print_endline "NOLAYOUT"
       | Some l ->
         let r = recval_of (List.map parse_field fields) in
         if outside l r then print_endline "OUTSIDE"
         else print_endline (hex_of_bytes (render l r)))
    | "P" :: name :: hexline :: fields ->
      (match find_layout name with
       | None -> print_endline "NOLAYOUT"
       | Some l ->
         let init = List.map parse_field fields in
         let r = overlay (parse l (bytes_of_hex hexline)) (recval_of init) in
         let parts = List.sort compare (List.map (show_field r) init) in
         print_endline (String.concat " " parts))
    | _ -> print_endline "?")

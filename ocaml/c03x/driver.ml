(* C03 general statements driver: runs the extracted general specification
   (coq/Model/ArithGen.v) on the harness's cases.
     T                                    -> advcodes_ok gen_tables
     G <kind> <n> (code amount rdfi)*n    -> gen_credit gen_debit foreign_amount gen_hash
     H <hex rdfi>                         -> "d <aba8_digits_num> <digits_val (firstn 8)>"  (digit strings: the closed forms)
                                             "s <aba8_num>"                                (any other string) *)
open Model
open Conv
open Convz

let kind_of = function "0" -> KStd | "1" -> KIAT | _ -> KADV

let rec take_entries n toks acc =
  if n = 0 then List.rev acc
  else match toks with
    | code :: amt :: rdfi :: rest ->
      let e = { en_code = z_of_string code; en_amount = z_of_string amt; en_rdfi = bytes_of_hex rdfi;
                en_check = []; en_trace = []; en_addenda = Z0 } in
      take_entries (n - 1) rest (e :: acc)
    | _ -> failwith "entry"

let rec firstn n l = if n = 0 then [] else match l with [] -> [] | x :: t -> x :: firstn (n - 1) t

let () =
  iter_lines Sys.argv.(1) (fun line ->
    try
      match split_ws line with
      | ["T"] -> Printf.printf "%b\n" (advcodes_ok gen_tables)
      | "G" :: k :: n :: rest ->
        let k = kind_of k in
        let es = take_entries (int_of_string n) rest [] in
        Printf.printf "%s %s %s %s\n" (string_of_z (gen_credit k es)) (string_of_z (gen_debit k es))
          (string_of_z (foreign_amount k es)) (string_of_z (gen_hash es))
      | ["H"; h] ->
        let r = bytes_of_hex h in
        let e = { en_code = Z0; en_amount = Z0; en_rdfi = r; en_check = []; en_trace = []; en_addenda = Z0 } in
        if List.for_all is_digit r
        then Printf.printf "d %s %s\n" (string_of_z (aba8_digits_num r)) (string_of_z (digits_val (firstn 8 r) Z0))
        else Printf.printf "s %s\n" (string_of_z (aba8_num e))
      | _ -> print_endline "?"
    with _ -> print_endline "!")

(* C16 phase 4 driver: runs the extracted per-site / response-sequence model on the
   harness's cases (harness/cmd/c16/seq.go).
   G <le> <adv> <header> <control> <nb> <ni> (<site> <line>)*   -> full <hex of the complete output>
   O <kind> <transient> <k>          fault-at-offset sink        -> <write> <flush> <bytes at sink> <sink calls> p<prefix>
   Q <take[:err]>,...                scripted sink               -> ... p<prefix> b<bad> l<late calls> r<answers left>
   T <text>                                                      -> text <len>
   S <m> <from-to[:ev]>,... <b=class>,...   scripted source over text, maxLines m (0 = default)
                                                                 -> <class of Read's error> c<responses consumed> *)
open Model
open Conv

let le = ref []
let file = ref { sf_hdr = []; sf_batch = []; sf_iat = []; sf_adv = false; sf_ctl = [] }
let full = ref []
let text = ref [||]

let werr_s = function None -> "ok" | Some EInj -> "inj" | Some EShort -> "short" | Some EFuel -> "fuel"

let rec is_prefix p l =
  match p, l with
  | [], _ -> true
  | x :: p', y :: l' -> x = y && is_prefix p' l'
  | _ :: _, [] -> false

let kind_of = function
  | "hard" -> Hard | "short" -> Short | "shortnil" -> ShortNil | "full" -> FullErr
  | _ -> failwith "kind"

let rec take_pairs k l acc =
  if k = 0 then (List.rev acc, l)
  else match l with
    | s :: h :: rest -> take_pairs (k - 1) rest ((n_of_int (int_of_string s), bytes_of_hex h) :: acc)
    | _ -> failwith "pairs"

let split_on c s = if s = "-" || s = "" then [] else String.split_on_char c s

let sresp_of tok =
  match String.split_on_char ':' tok with
  | [t] -> { sr_take = n_of_int (int_of_string t); sr_err = None }
  | [t; "inj"] -> { sr_take = n_of_int (int_of_string t); sr_err = Some SInj }
  | [t; "short"] -> { sr_take = n_of_int (int_of_string t); sr_err = Some SShort }
  | _ -> failwith "sresp"

let slice a b = Array.to_list (Array.sub !text a (b - a))

let rresp_of tok =
  let range, ev = match String.split_on_char ':' tok with
    | [r] -> (r, None)
    | [r; "eof"] -> (r, Some TEOF)
    | [r; "inj"] -> (r, Some (TErr RInj))
    | [r; "ueof"] -> (r, Some (TErr RUnexpectedEOF))
    | _ -> failwith "rresp" in
  match String.split_on_char '-' range with
  | [a; b] -> { rr_data = slice (int_of_string a) (int_of_string b); rr_term = ev }
  | _ -> failwith "range"

let default_max_lines = 2 + 2_000_000 + 100_000_000 + 8

let () =
  let path = Sys.argv.(1) in
  iter_lines path (fun line ->
    match split_ws line with
    | "G" :: l :: adv :: h :: c :: nb :: ni :: rest ->
        le := bytes_of_hex l;
        let (batch, rest') = take_pairs (int_of_string nb) rest [] in
        let (iat, _) = take_pairs (int_of_string ni) rest' [] in
        file := { sf_hdr = bytes_of_hex h; sf_batch = batch; sf_iat = iat; sf_adv = (adv = "1"); sf_ctl = bytes_of_hex c };
        full := sfull_output !le !file;
        print_endline ("full " ^ hex_of_bytes !full)
    | ["O"; kind; tr; k] ->
        let f = { f_k = n_of_int (int_of_string k); f_kind = kind_of kind; f_transient = (tr = "1") } in
        let r = off_writer_run current_spolicy !le !file (Some f) in
        let got = r.gr_sink.s_got in
        Printf.printf "%s %s %d %d p%d\n" (werr_s r.gr_write) (werr_s r.gr_flush) (List.length got)
          (int_of_n r.gr_sink.s_calls) (if is_prefix got !full then 1 else 0)
    | ["Q"; script] ->
        let sc = List.map sresp_of (split_on ',' script) in
        let r = seq_writer_run current_spolicy !le !file sc in
        let s = r.gr_sink in
        Printf.printf "%s %s %d %d p%d b%d l%d r%d\n" (werr_s r.gr_write) (werr_s r.gr_flush) (List.length s.ss_got)
          (int_of_n s.ss_calls) (if is_prefix s.ss_got !full then 1 else 0) (if s.ss_bad then 1 else 0)
          (int_of_n s.ss_late) (List.length s.ss_script)
    | ["T"; h] ->
        text := Array.of_list (bytes_of_hex h);
        Printf.printf "text %d\n" (Array.length !text)
    | ["S"; m; script; hl] ->
        let m = int_of_string m in
        let rs = List.map rresp_of (split_on ',' script) in
        let classes = List.map (fun t -> match String.split_on_char '=' t with
                                         | [b; c] -> (int_of_string b, c) | _ -> failwith "hc") (split_on ',' hl) in
        let (q, used) = reader_seq current_rpolicy3 (n_of_int (if m > 0 then m else default_max_lines)) rs in
        let cls = match q with
          | QCtorErr -> "plain"
          | QScanErr RInj -> "inj"
          | QScanErr RUnexpectedEOF -> "ueof"
          | QTooLong -> "toolong"
          | QCutNil -> "ok"
          | QParsed d ->
              (* no I/O error surfaces: Read behaves as on a healthy input made of d *)
              let n = List.length d in
              (match List.assoc_opt n classes with Some c -> c | None -> Printf.sprintf "parsed-%d-bytes" n) in
        if m > 0 then Printf.printf "%s c-\n" cls else Printf.printf "%s c%d\n" cls (int_of_n used)
    | _ -> print_endline "?")

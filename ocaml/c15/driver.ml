(* C15 driver.
     driver clauses          prints the model's clause family, one bit mask per line
     driver <cases file>     "T <bits>" sets the observations accept(all flags but G_j)
                             (one 0/1 character per clause, in family order), echoed as "T";
                             "M <mask>" prints the extracted model's prediction of accept(mask) *)
open Model
open Conv

let mask_of (c : nat list) : int =
  List.fold_left (fun acc n -> acc lor (1 lsl (int_of_nat n))) 0 c

let () =
  if Array.length Sys.argv > 1 && Sys.argv.(1) = "clauses" then
    List.iter (fun c -> print_endline (string_of_int (mask_of c))) model_family_idx
  else begin
    let obs = ref [] in
    iter_lines Sys.argv.(1) (fun line ->
      match split_ws line with
      | ["T"; bits] ->
        obs := List.init (String.length bits) (fun i -> bits.[i] = '1');
        print_endline "T"
      | ["M"; m] ->
        let m = int_of_string m in
        let on = List.filter (fun i -> m land (1 lsl i) <> 0) (List.init 15 (fun i -> i)) in
        print_endline (if model_predict !obs (List.map nat_of_int on) then "1" else "0")
      | _ -> print_endline "?")
  end

(* C06 shape-model driver: parses the shapes written by harness/cmd/c06ops, runs the extracted
   model of the operation and judges the observation of the implementation (OK / ERR / PANIC):
   it is admitted when the model produces the same verdict under the all-true oracle (the path of
   a valid file under default options: "exact") or under an oracle with a single false bit (one
   data-dependent check fails or one option / data branch goes the other way: "oracle"; two for
   what one false bit does not reproduce: "oracle2").  An
   ERR of the implementation is also admitted by a model run that ends OK (the error may need
   two failing checks: "abstracted").  An observation no tried oracle reproduces is a mismatch;
   in particular a PANIC of the implementation on a shape for which the model never panics, and
   an OK of the implementation where the model always ends in ERR or PANIC.

   One line per case: "<id> <impl verdict>" when admitted, "<id> MODEL=<verdict>" otherwise, so
   that the comparison with impl.txt is line equality.  argv.(2), when given, receives the counts. *)
open Model
open Conv

exception Bad of string

let sec_of_int = function
  | 0 -> ACK | 1 -> ADV | 2 -> ARC | 3 -> ATX | 4 -> BOC | 5 -> CCD | 6 -> CIE | 7 -> COR | 8 -> CTX
  | 9 -> DNE | 10 -> ENR | 11 -> IAT | 12 -> MTE | 13 -> POP | 14 -> POS | 15 -> PPD | 16 -> RCK
  | 17 -> SHR | 18 -> TEL | 19 -> TRC | 20 -> TRX | 21 -> WEB | 22 -> XCK | _ -> SecUnknown

let kind_of_int n = if n = 24 || n < 0 then KBase else KSec (sec_of_int n)
let scc_of_int = function 0 -> Mixed | 1 -> Credits | 2 -> Debits | 3 -> Advices | _ -> SccOther
let cat_of_int = function 0 -> CFwd | 1 -> CNOC | 2 -> CRet | 3 -> CDis | 4 -> CCon | _ -> COther

let bits s = if s = "." then [] else List.init (String.length s) (fun i -> s.[i] = '1')
let b1 s i = s.[i] = '1'

(* token cursor *)
let toks = ref [||]
let pos = ref 0
let next () = let t = !toks.(!pos) in incr pos; t
let next_int () = int_of_string (next ())

let rec times n f = if n <= 0 then [] else let x = f () in x :: times (n - 1) f

let parse_entry () =
  match next () with
  | "N" -> None
  | "E" ->
    let c = next_int () in let code = next_int () in let a = next () in let a05 = next () in
    Some { e_cat = cat_of_int c; e_code = nat_of_int code; e_a02 = b1 a 0; e_a98 = b1 a 1; e_a98r = b1 a 2;
           e_a99 = b1 a 3; e_a99d = b1 a 4; e_a99c = b1 a 5; e_a05 = bits a05 }
  | t -> raise (Bad ("entry " ^ t))

let parse_adv () =
  match next () with
  | "N" -> None
  | "A" -> let c = next_int () in let code = next_int () in let a = next () in
    Some { ae_cat = cat_of_int c; ae_code = nat_of_int code; ae_a99 = b1 a 0 }
  | t -> raise (Bad ("adv " ^ t))

let parse_batch () =
  match next () with
  | "N" -> None
  | "B" ->
    let k = next_int () in
    let h = (match next () with
        | "N" -> None
        | "H" -> let s = next_int () in let c = next_int () in Some { h_sec = sec_of_int s; h_scc = scc_of_int c }
        | t -> raise (Bad ("hdr " ^ t))) in
    let ctl = next () = "1" in let adv = next () = "1" in let off = next () = "1" in
    let ne = next_int () in let es = times ne parse_entry in
    let na = next_int () in let advs = times na parse_adv in
    Some { b_kind = kind_of_int k; b_header = h; b_control = ctl; b_adv = adv; b_offset = off; b_entries = es; b_adventries = advs }
  | t -> raise (Bad ("batch " ^ t))

let parse_ientry () =
  match next () with
  | "N" -> None
  | "J" ->
    let c = next_int () in let code = next_int () in let a = next () in let a17 = next () in let a18 = next () in
    Some { ie_cat = cat_of_int c; ie_code = nat_of_int code; ie_a10 = b1 a 0; ie_a11 = b1 a 1; ie_a12 = b1 a 2; ie_a13 = b1 a 3;
           ie_a14 = b1 a 4; ie_a15 = b1 a 5; ie_a16 = b1 a 6; ie_a98 = b1 a 7; ie_a99 = b1 a 8; ie_a17 = bits a17; ie_a18 = bits a18 }
  | t -> raise (Bad ("ientry " ^ t))

let parse_iat () =
  match next () with
  | "I" ->
    let h = (match next () with
        | "N" -> None
        | "H" -> let c = next_int () in let cor = next () = "1" in Some { ih_scc = scc_of_int c; ih_cor = cor }
        | t -> raise (Bad ("ihdr " ^ t))) in
    let ctl = next () = "1" in
    let ne = next_int () in let es = times ne parse_ientry in
    { ib_header = h; ib_control = ctl; ib_entries = es }
  | t -> raise (Bad ("iat " ^ t))

let parse_file () =
  match next () with
  | "F" ->
    let nb = next_int () in let bs = times nb parse_batch in
    let ni = next_int () in let is = times ni parse_iat in
    { f_batches = bs; f_iat = is }
  | t -> raise (Bad ("file " ^ t))

let op_of_string = function
  | "Validate" -> OValidate | "Create" -> OCreate | "Write" -> OWrite | "WriteBypass" -> OWriteBypass
  | "MarshalJSON" -> OMarshal | "SegmentFile" -> OSegment | "FlattenBatches" -> OFlatten | "MergeFiles" -> OMerge
  | "Reversal" -> OReversal | "BatchCreate" -> OBatchCreate | "BatchValidate" -> OBatchValidate
  | s -> raise (Bad ("op " ^ s))

let verdict = function OK (_, _, _) -> "OK" | ERR (_, _) -> "ERR" | PANIC -> "PANIC"

(* oracles tried after the all-true one: one false bit at position k *)
let single k = List.init (k + 1) (fun i -> i <> k)
let pair j k = List.init (k + 1) (fun i -> i <> j && i <> k)
let max_single = 400
let max_pair = 160

let () =
  let counts = Hashtbl.create 16 in
  iter_lines Sys.argv.(1) (fun line ->
      match split_ws line with
      | id :: impl :: ops :: rest ->
        toks := Array.of_list rest; pos := 0;
        let out =
          (try
             let f = parse_file () in
             let ops = List.map op_of_string (String.split_on_char ',' ops) in
             let run o = (match ops with
                 | [x] -> verdict (run_op x f o)
                 | xs -> verdict (run_ops xs f o)) in
             let m = run [] in
             (* OK must be reproduced; ERR may stand for a data-dependent error the tried oracles do not
                reach (two failing checks), so a model run without panic admits it; PANIC must be reproduced *)
             let ok v = (v = impl) || (impl = "ERR" && v = "OK") in
             let found =
               if m = impl then "exact"
               else if ok m then "abstracted"
               else begin
                 let rec go k = if k >= max_single then false else if ok (run (single k)) then true else go (k + 1) in
                 if go 0 then "oracle"
                 else begin
                   (* call sequences: one failing check per operation *)
                   let rec go2 j k =
                     if j >= max_pair then false
                     else if k >= max_pair then go2 (j + 1) (j + 2)
                     else if ok (run (pair j k)) then true else go2 j (k + 1) in
                   if go2 0 1 then "oracle2" else "none"
                 end
               end in
             let k = m ^ "/" ^ impl ^ "/" ^ found in
             Hashtbl.replace counts k (1 + (try Hashtbl.find counts k with Not_found -> 0));
             if found <> "none" then impl else "MODEL=" ^ m
           with Bad s -> "BAD " ^ s | Invalid_argument s -> "BAD " ^ s) in
        print_string (id ^ " " ^ out ^ "\n")
      | _ -> ());
  if Array.length Sys.argv > 2 then begin
    let oc = open_out Sys.argv.(2) in
    Hashtbl.iter (fun k v -> Printf.fprintf oc "%s %d\n" k v) counts;
    close_out oc
  end

(* C06 shape-model driver: parses the shapes written by harness/cmd/c06ops, runs the extracted
   model of the operation and judges the observation of the implementation (OK / ERR / PANIC):
   it is admitted when the model produces the same verdict under the all-true oracle (the path of
   a valid file under default options: "exact") or under an oracle with a single false bit (one
   data-dependent check fails or one option / data branch goes the other way: "oracle"; two for
   what one false bit does not reproduce: "oracle2").  An
   ERR of the implementation is also admitted by a model run that ends OK (the error may need
   two failing checks: "abstracted").  An observation no tried oracle reproduces is a mismatch;
   in particular a PANIC of the implementation on a shape for which the model never panics, and
   an OK of the implementation where the model always ends in ERR or PANIC.

   One line per case: "<id> <impl verdict>" when admitted, "<id> MODEL=<verdict>" otherwise, so
   that the comparison with impl.txt is line equality.  argv.(2), when given, receives the counts. *)
open Model
open Conv

exception Bad of string

let sec_of_int = function
  | 0 -> ACK | 1 -> ADV | 2 -> ARC | 3 -> ATX | 4 -> BOC | 5 -> CCD | 6 -> CIE | 7 -> COR | 8 -> CTX
  | 9 -> DNE | 10 -> ENR | 11 -> IAT | 12 -> MTE | 13 -> POP | 14 -> POS | 15 -> PPD | 16 -> RCK
  | 17 -> SHR | 18 -> TEL | 19 -> TRC | 20 -> TRX | 21 -> WEB | 22 -> XCK | _ -> SecUnknown

let kind_of_int n = if n = 24 || n < 0 then KBase else KSec (sec_of_int n)
let scc_of_int = function 0 -> Mixed | 1 -> Credits | 2 -> Debits | 3 -> Advices | _ -> SccOther
let cat_of_int = function 0 -> CFwd | 1 -> CNOC | 2 -> CRet | 3 -> CDis | 4 -> CCon | _ -> COther

let bits s = if s = "." then [] else List.init (String.length s) (fun i -> s.[i] = '1')
let b1 s i = s.[i] = '1'

(* token cursor *)
let toks = ref [||]
let pos = ref 0
let next () = let t = !toks.(!pos) in incr pos; t
let next_int () = int_of_string (next ())

let rec times n f = if n <= 0 then [] else let x = f () in x :: times (n - 1) f

let parse_entry () =
  match next () with
  | "N" -> None
  | "E" ->
    let c = next_int () in let code = next_int () in let a = next () in let a05 = next () in
    Some { e_cat = cat_of_int c; e_code = nat_of_int code; e_a02 = b1 a 0; e_a98 = b1 a 1; e_a98r = b1 a 2;
           e_a99 = b1 a 3; e_a99d = b1 a 4; e_a99c = b1 a 5; e_a05 = bits a05; e_off = b1 a 6 }
  | t -> raise (Bad ("entry " ^ t))

let parse_adv () =
  match next () with
  | "N" -> None
  | "A" -> let c = next_int () in let code = next_int () in let a = next () in
    Some { ae_cat = cat_of_int c; ae_code = nat_of_int code; ae_a99 = b1 a 0 }
  | t -> raise (Bad ("adv " ^ t))

let parse_batch () =
  match next () with
  | "N" -> None
  | "B" ->
    let k = next_int () in
    let h = (match next () with
        | "N" -> None
        | "H" -> let s = next_int () in let c = next_int () in Some { h_sec = sec_of_int s; h_scc = scc_of_int c }
        | t -> raise (Bad ("hdr " ^ t))) in
    let ctl = next () = "1" in let adv = next () = "1" in let off = next () = "1" in
    let ne = next_int () in let es = times ne parse_entry in
    let na = next_int () in let advs = times na parse_adv in
    Some { b_kind = kind_of_int k; b_header = h; b_control = ctl; b_adv = adv; b_offset = off; b_entries = es; b_adventries = advs }
  | t -> raise (Bad ("batch " ^ t))

let parse_ientry () =
  match next () with
  | "N" -> None
  | "J" ->
    let c = next_int () in let code = next_int () in let a = next () in let a17 = next () in let a18 = next () in
    Some { ie_cat = cat_of_int c; ie_code = nat_of_int code; ie_a10 = b1 a 0; ie_a11 = b1 a 1; ie_a12 = b1 a 2; ie_a13 = b1 a 3;
           ie_a14 = b1 a 4; ie_a15 = b1 a 5; ie_a16 = b1 a 6; ie_a98 = b1 a 7; ie_a99 = b1 a 8; ie_a17 = bits a17; ie_a18 = bits a18 }
  | t -> raise (Bad ("ientry " ^ t))

let parse_iat () =
  match next () with
  | "I" ->
    let h = (match next () with
        | "N" -> None
        | "H" -> let c = next_int () in let cor = next () = "1" in Some { ih_scc = scc_of_int c; ih_cor = cor }
        | t -> raise (Bad ("ihdr " ^ t))) in
    let ctl = next () = "1" in
    let ne = next_int () in let es = times ne parse_ientry in
    { ib_header = h; ib_control = ctl; ib_entries = es }
  | t -> raise (Bad ("iat " ^ t))

let parse_file () =
  match next () with
  | "F" ->
    let nb = next_int () in let bs = times nb parse_batch in
    let ni = next_int () in let is = times ni parse_iat in
    { f_batches = bs; f_iat = is }
  | t -> raise (Bad ("file " ^ t))

(* the shape printer mirrors encodeFile of harness/cmd/c06ops/shape.go *)
let int_of_sec = function
  | ACK -> 0 | ADV -> 1 | ARC -> 2 | ATX -> 3 | BOC -> 4 | CCD -> 5 | CIE -> 6 | COR -> 7 | CTX -> 8
  | DNE -> 9 | ENR -> 10 | IAT -> 11 | MTE -> 12 | POP -> 13 | POS -> 14 | PPD -> 15 | RCK -> 16
  | SHR -> 17 | TEL -> 18 | TRC -> 19 | TRX -> 20 | WEB -> 21 | XCK -> 22 | SecUnknown -> 23
let int_of_kind = function KBase -> 24 | KSec s -> int_of_sec s
let int_of_scc = function Mixed -> 0 | Credits -> 1 | Debits -> 2 | Advices -> 3 | SccOther -> 4
let int_of_cat = function CFwd -> 0 | CNOC -> 1 | CRet -> 2 | CDis -> 3 | CCon -> 4 | COther -> 5
let bit b = if b then "1" else "0"
let bits_s = function [] -> "." | l -> String.concat "" (List.map bit l)
let si = string_of_int

let print_file_opt (skip_offsets : bool) (f : file) : string =
  let t = ref [] in
  let add s = t := s :: !t in
  add "F"; add (si (List.length f.f_batches));
  List.iter (function
      | None -> add "N"
      | Some b ->
        add "B"; add (si (int_of_kind b.b_kind));
        (match b.b_header with
         | None -> add "N"
         | Some h -> add "H"; add (si (int_of_sec h.h_sec)); add (si (int_of_scc h.h_scc)));
        add (bit b.b_control); add (bit b.b_adv); add (bit b.b_offset);
        let es = if skip_offsets then List.filter (function Some e -> not e.e_off | None -> true) b.b_entries else b.b_entries in
        add (si (List.length es));
        List.iter (function
            | None -> add "N"
            | Some e ->
              add "E"; add (si (int_of_cat e.e_cat)); add (si (int_of_nat e.e_code));
              add (bit e.e_a02 ^ bit e.e_a98 ^ bit e.e_a98r ^ bit e.e_a99 ^ bit e.e_a99d ^ bit e.e_a99c ^ bit e.e_off);
              add (bits_s e.e_a05)) es;
        add (si (List.length b.b_adventries));
        List.iter (function
            | None -> add "N"
            | Some e -> add "A"; add (si (int_of_cat e.ae_cat)); add (si (int_of_nat e.ae_code)); add (bit e.ae_a99)) b.b_adventries)
    f.f_batches;
  add (si (List.length f.f_iat));
  List.iter (fun b ->
      add "I";
      (match b.ib_header with
       | None -> add "N"
       | Some h -> add "H"; add (si (int_of_scc h.ih_scc)); add (bit h.ih_cor));
      add (bit b.ib_control);
      add (si (List.length b.ib_entries));
      List.iter (function
          | None -> add "N"
          | Some e ->
            add "J"; add (si (int_of_cat e.ie_cat)); add (si (int_of_nat e.ie_code));
            add (bit e.ie_a10 ^ bit e.ie_a11 ^ bit e.ie_a12 ^ bit e.ie_a13 ^ bit e.ie_a14 ^ bit e.ie_a15 ^ bit e.ie_a16 ^ bit e.ie_a98 ^ bit e.ie_a99);
            add (bits_s e.ie_a17); add (bits_s e.ie_a18)) b.ib_entries)
    f.f_iat;
  String.concat " " (List.rev !t)

let print_file = print_file_opt false

let class_name = function
  | ShWf -> "wf" | ShNilBatcher -> "nil-batcher" | ShNilHeader -> "nil-batch-header" | ShNilControl -> "nil-batch-control"
  | ShNilEntry -> "nil-entry" | ShNilAddenda -> "nil-addenda05" | ShNilIATHeader -> "nil-iat-header"
  | ShNilIATControl -> "nil-iat-control" | ShNilIATEntry -> "nil-iat-entry" | ShNilIATAddenda -> "nil-iat-addenda"

let op_of_string = function
  | "Validate" -> OValidate | "Create" -> OCreate | "Write" -> OWrite | "WriteBypass" -> OWriteBypass
  | "MarshalJSON" -> OMarshal | "SegmentFile" -> OSegment | "FlattenBatches" -> OFlatten | "MergeFiles" -> OMerge
  | "Reversal" -> OReversal | "BatchCreate" -> OBatchCreate | "BatchValidate" -> OBatchValidate
  | s -> raise (Bad ("op " ^ s))

let verdict = function OK (_, _, _) -> "OK" | ERR (_, _) -> "ERR" | PANIC -> "PANIC"

(* oracles tried after the all-true one: one false bit at position k *)
let single k = List.init (k + 1) (fun i -> i <> k)
let pair j k = List.init (k + 1) (fun i -> i <> j && i <> k)
let max_single = 400
let max_pair = 160
(* three adjacent bits set by mask (offset entries: debit needed, credit needed, account type) *)
let window k mask = List.init (k + 3) (fun i -> if i < k then true else (mask lsr (i - k)) land 1 = 0)

(* FromJSON: verdict and, for a returned file, its shape *)
let json_run f o =
  match file_from_json f () o with
  | OK ((g, ok), _, _) -> ((if ok then "OK" else "OKE"), print_file g)
  | ERR (_, _) -> ("ERR", "-")
  | PANIC -> ("PANIC", "-")

(* request lists: R <n> route* *)
let parse_body () =
  match next () with
  | "J" -> BJson (parse_file ())
  | "T" -> BText (parse_file ())
  | "X" -> BNoFile
  | t -> raise (Bad ("body " ^ t))

let nn () = nat_of_int (next_int ())

let parse_route () =
  match next () with
  | "CF" -> let id = nn () in let b = parse_body () in RCreateFile (id, b)
  | "GS" -> RGetFiles
  | "PI" -> RPing
  | "GF" -> RGetFile (nn ())
  | "BU" -> RBuild (nn ())
  | "CO" -> RContents (nn ())
  | "VG" -> RValidateGet (nn ())
  | "VP" -> RValidatePost (nn ())
  | "DF" -> RDeleteFile (nn ())
  | "CB" -> let id = nn () in let d = parse_file () in RCreateBatch (id, d)
  | "GB" -> RGetBatches (nn ())
  | "G1" -> RGetBatch (nn (), O)
  | "DB" -> RDeleteBatch (nn (), O)
  | "BA" -> let id = nn () in let ok = next () = "1" in let n = nn () in RBalance (id, ok, n)
  | "SI" -> let id = nn () in let c = nn () in let d = nn () in RSegmentID (id, c, d)
  | "SE" -> let b = parse_body () in let c = nn () in let d = nn () in RSegment (b, c, d)
  | "FL" -> let id = nn () in let n = nn () in RFlatten (id, n)
  | t -> raise (Bad ("route " ^ t))

let parse_routes () =
  match next () with
  | "R" -> let n = next_int () in times n parse_route
  | t -> raise (Bad ("routes " ^ t))

let http_run rs o =
  match serve rs [] o with
  | OK (_, r, _) | ERR (r, _) ->
    ("OK", String.concat " | " (List.sort compare (List.map (fun (_, f) -> print_file_opt true f) r)))
  | PANIC -> ("PANIC", "-")

let split_at_hash l =
  let rec go acc = function
    | [] -> (List.rev acc, [])
    | "#" :: t -> (List.rev acc, t)
    | x :: t -> go (x :: acc) t in
  go [] l

let () =
  let counts = Hashtbl.create 16 in
  let count k = Hashtbl.replace counts k (1 + (try Hashtbl.find counts k with Not_found -> 0)) in
  let detail = Buffer.create 4096 in
  iter_lines Sys.argv.(1) (fun line ->
      match split_ws line with
      | id :: impl :: ops :: rest ->
        let (shape, result) = split_at_hash rest in
        toks := Array.of_list shape; pos := 0;
        let out =
          (try
             let f = if ops = "HTTP" then { f_batches = []; f_iat = [] } else parse_file () in
             let cls = class_name (file_class f) ^ (if wf_file f && not (wf_file_strict f) then "+sec" else "") in
             if ops = "HTTP" then begin
               toks := Array.of_list shape; pos := 0;
               let rs = parse_routes () in
               let impl_shapes = String.concat " " result in
               let ok (v, sh) = v = impl && (impl = "PANIC" || sh = impl_shapes) in
               let m = http_run rs [] in
               let found =
                 if ok m then "exact"
                 else begin
                   let rec go k = if k >= max_single then false else if ok (http_run rs (single k)) then true else go (k + 1) in
                   if go 0 then "oracle"
                   else begin
                     let rec go3 k mask =
                       if k >= max_single then false else if mask > 7 then go3 (k + 1) 1
                       else if ok (http_run rs (window k mask)) then true else go3 k (mask + 1) in
                     if go3 0 1 then "oracle3"
                     else begin
                       let rec go2 j k =
                         if j >= 100 then false else if k >= 100 then go2 (j + 1) (j + 2)
                         else if ok (http_run rs (pair j k)) then true else go2 j (k + 1) in
                       if go2 0 1 then "oracle2" else "none"
                     end
                   end
                 end in
               count ("http " ^ fst m ^ "/" ^ impl ^ "/" ^ found);
               Buffer.add_string detail (Printf.sprintf "case %s http %s %s\n" id (fst m) found);
               if found <> "none" then impl else "MODEL=" ^ fst m ^ " stored " ^ snd m
             end else if ops = "FromJSON" then begin
               let impl_shape = String.concat " " result in
               let (m, mshape) = json_run f [] in
               (* a returned file must have the shape the model computes, under the oracle that reproduces the verdict *)
               let ok (v, sh) = v = impl && (impl = "ERR" || impl = "PANIC" || sh = impl_shape) in
               let found =
                 if ok (m, mshape) then "exact"
                 else begin
                   let rec go k = if k >= max_single then false else if ok (json_run f (single k)) then true else go (k + 1) in
                   if go 0 then "oracle"
                   else begin
                     let rec go2 j k =
                       if j >= 60 then false else if k >= 60 then go2 (j + 1) (j + 2)
                       else if ok (json_run f (pair j k)) then true else go2 j (k + 1) in
                     if go2 0 1 then "oracle2"
                     else begin
                       let rec go3 k mask =
                         if k >= max_single then false else if mask > 7 then go3 (k + 1) 1
                         else if ok (json_run f (window k mask)) then true else go3 k (mask + 1) in
                       if go3 0 1 then "oracle3" else "none"
                     end
                   end
                 end in
               count ("json " ^ m ^ "/" ^ impl ^ "/" ^ found);
               Buffer.add_string detail (Printf.sprintf "case %s json-doc %s %s\n" id m found);
               if found <> "none" then impl else "MODEL=" ^ m ^ (if m = impl then " shape " ^ mshape else "")
             end else begin
               let ops = List.map op_of_string (String.split_on_char ',' ops) in
               let impls = String.split_on_char ',' impl in
               (* operation by operation: an oracle that reproduces the verdict of this operation is searched
                  (all-true, one false bit, two false bits); the next operation continues on the state the
                  model reached.  OK must be reproduced; ERR may stand for a data-dependent error the tried
                  oracles do not reach, so a run without panic admits it; PANIC must be reproduced. *)
               let ok i v = (v = i) || (i = "ERR" && v = "OK") in
               let rank = function "exact" -> 0 | "abstracted" -> 1 | "oracle" -> 2 | _ -> 3 in
               let budget = ref 60000 in
               (* backtracking over the oracles that reproduce each operation: different oracles may leave the
                  model in different states (an error before or after File.IsADV installed a header) *)
               let rec go xs is st worst =
                 match xs, is with
                 | x :: xt, i :: it ->
                   let attempt o how =
                     if !budget <= 0 then None else begin
                       decr budget;
                       let r = run_op x st o in
                       let v = verdict r in
                       if not (ok i v) then None
                       else begin
                         let how = if how = "exact" && v <> i then "abstracted" else how in
                         let worst = if rank how > rank worst then how else worst in
                         match r with
                         | OK (_, st', _) | ERR (st', _) -> go xt it st' worst
                         | PANIC -> Some worst
                       end
                     end in
                   let rec singles k = if k >= max_single then None else (match attempt (single k) "oracle" with Some w -> Some w | None -> singles (k + 1)) in
                   let rec pairs j k =
                     if j >= max_pair then None else if k >= max_pair then pairs (j + 1) (j + 2)
                     else (match attempt (pair j k) "oracle2" with Some w -> Some w | None -> pairs j (k + 1)) in
                   (match attempt [] "exact" with
                    | Some w -> Some w
                    | None -> (match singles 0 with Some w -> Some w | None -> pairs 0 1))
                 | _, _ -> Some worst in
               let (m, found) =
                 (match go ops impls f "exact" with
                  | Some w -> ((match List.rev impls with i :: _ -> i | [] -> "OK"), w)
                  | None -> (verdict (run_ops ops f []), "none")) in
               let impl = (match List.rev impls with i :: _ -> i | [] -> "OK") in
               count (m ^ "/" ^ impl ^ "/" ^ found);
               count ("class " ^ cls);
               Buffer.add_string detail (Printf.sprintf "case %s %s %s %s\n" id cls m found);
               if found <> "none" then String.concat "," impls else "MODEL=" ^ m
             end
           with Bad s -> "BAD " ^ s | Invalid_argument s -> "BAD " ^ s) in
        print_string (id ^ " " ^ out ^ "\n")
      | _ -> ());
  if Array.length Sys.argv > 2 then begin
    let oc = open_out Sys.argv.(2) in
    Hashtbl.iter (fun k v -> Printf.fprintf oc "count %s %d\n" k v) counts;
    Buffer.output_buffer oc detail;
    close_out oc
  end

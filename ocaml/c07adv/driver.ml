(* C07 (phase 7) driver: ADV documents on the extracted file-level model.
   driver <cases> [<stats>]   per line:
     W <val>                          -> hex of write_full (tree_full v)
     A <hv> <kind> <verdict> <val>    -> eq if the explicit hypotheses of C07_roundtrip_adv hold of the file value, else <verdict>
     F <hv> <skip> <passed> <val>     -> observation of from_json passed (to_json v): TEXT/OPTS/HDR/OFFS | ERR
     U <hv> <fvv> <cur> <val>         -> observation of File.UnmarshalJSON on a receiver holding <cur>: the new file | ERR receiver-options <flags>
   (<passed>/<cur>: N for nil, or the 18 booleans of a ValidateOpts as 0/1 characters) *)
exception Bad of string
open Model
open Conv

let rec parse_val toks =
  match toks with
  | "S" :: h :: r -> (VStr (bytes_of_hex h), r)
  | "I" :: n :: r -> (VInt (Convz.z_of_string n), r)
  | "B" :: b :: r -> (VBool (b = "1"), r)
  | "N" :: r -> (VNil, r)
  | "F" :: r -> (VOpaque, r)
  | "R" :: n :: r -> let (xs, r') = parse_vals (int_of_string n) r in (VRec xs, r')
  | "A" :: n :: r -> let (xs, r') = parse_vals (int_of_string n) r in (VArr xs, r')
  | t :: _ -> raise (Bad ("val token " ^ t))
  | [] -> raise (Bad "val: end of input")
and parse_vals n toks =
  if n = 0 then ([], toks)
  else
    let (x, r) = parse_val toks in
    let (xs, r') = parse_vals (n - 1) r in
    (x :: xs, r')

let opts_of s =
  if s = "N" then []
  else begin
    if Stdlib.String.length s <> 18 then raise (Bad "options: 18 flags expected");
    let b i = VBool (s.[i] = '1') in
    let v = VRec ([b 0; b 1; b 2; b 3; VNil] @ List.init 14 (fun i -> b (i + 4))) in
    opts_tree v
  end

let flags_of (o : rtree list) =
  match o with
  | [] -> "N"
  | RT (_, scal, _) :: _ ->
    Stdlib.String.concat "" (List.map (fun (_, v) -> match v with VI z -> if Convz.string_of_z z = "0" then "0" else "1" | VS _ -> "?") scal)

let offset_of (o : rtree list) =
  match o with
  | [] -> "N"
  | RT (_, scal, _) :: _ ->
    Stdlib.String.concat "," (List.map (fun (k, v) -> Convstr.ocaml_string k ^ "=" ^ (match v with VS s -> hex_of_bytes s | VI z -> Convz.string_of_z z)) scal)

let show f =
  let (((text, fo), ho), offs) = observe f in
  "TEXT " ^ hex_of_bytes text ^ " OPTS " ^ flags_of fo
  ^ " HDR " ^ Stdlib.String.concat "/" (List.map flags_of ho)
  ^ " OFFS " ^ Stdlib.String.concat "/" (List.map offset_of offs)

let asked = Hashtbl.create 16
let hold = Hashtbl.create 16
let why = Hashtbl.create 8
let bump t k = Hashtbl.replace t k (1 + try Hashtbl.find t k with Not_found -> 0)
let has_sub s sub =
  let n = Stdlib.String.length s and m = Stdlib.String.length sub in
  let rec go i = i + m <= n && (Stdlib.String.sub s i m = sub || go (i + 1)) in
  go 0
let classes kind =
  ["all"] @ (if has_sub kind "+returns" then ["returned-advices"] else [])
  @ (if has_sub kind "+needs-opts" then ["needs-stored-options"] else [])
  @ (if has_sub kind "+damaged" then ["damaged-tabulation"] else [])
  @ (if has_sub kind "+big-hash" then ["big-hash"] else [])

let () =
  iter_lines Sys.argv.(1) (fun line ->
      try
        match split_ws line with
        | "W" :: rest ->
          let (v, _) = parse_val rest in
          print_endline (hex_of_bytes (write_full (tree_full v)))
        | "A" :: hv :: kind :: verdict :: rest ->
          let (v, _) = parse_val rest in
          let h = hv = "1" in
          List.iter (bump asked) (classes kind);
          let (x, y, z) = ((fun _ _ -> h), (fun _ _ -> true), (fun _ -> true)) in
          if adv_hyps h v then begin
            List.iter (bump hold) (classes kind); print_endline "eq"
          end else begin
            (if not (typed t_File v) then bump why "untyped"
             else if not (in_domain v) then bump why "not-in-domain"
             else if not (valid x y z v) then bump why "not-valid"
             else if not (adv_tabulated x y z v) then bump why "not-tabulated"
             else bump why "addenda98-iat-data");
            print_endline verdict
          end
        | "F" :: hv :: skip :: passed :: rest ->
          let (v, _) = parse_val rest in
          (match roundtrip_run (hv = "1") (skip = "1") (opts_of passed) v with
           | Some f -> print_endline (show f)
           | None -> print_endline "ERR")
        | "U" :: hv :: fvv :: cur :: rest ->
          let (v, _) = parse_val rest in
          (match unmarshal_run (hv = "1") (fvv = "1") (opts_of cur) v with
           | (Some f, _) -> print_endline (show f)
           | (None, o) -> print_endline ("ERR receiver-options " ^ flags_of o))
        | _ -> print_endline "?"
      with Bad m -> print_endline ("bad: " ^ m));
  if Array.length Sys.argv > 2 then begin
    let oc = open_out Sys.argv.(2) in
    let tbl t = Stdlib.String.concat ", " (List.sort compare (Hashtbl.fold (fun k n acc -> Printf.sprintf "\"%s\": %d" k n :: acc) t [])) in
    Printf.fprintf oc "{\"adv_files\": {%s}, \"explicit_hypotheses_hold\": {%s}, \"hypothesis_failing_first\": {%s}}\n"
      (tbl asked) (tbl hold) (tbl why);
    close_out oc
  end

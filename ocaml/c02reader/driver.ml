(* C02 reader-domain driver: for every text of the harness the extracted default reader, then the model's
   writer on the tree it returns.

     T <hex text> <hex clock | ->    -> REJ                       the model's reader reports an error
                                        LINGER                    accepted, a batch was never closed (flag true)
                                        W <t> <hex line>,...      accepted: the lines of
                                                                  write_file_padded (stamp clock tree), final block
                                                                  included; <t> = 1 when the tree needs no clock
   The clock is what the harness saw the real FileCreationTimeField() write when the header read back
   holds no creation time ("-" otherwise: the model then stamps nothing that could hide a difference). *)
open Model
open Conv

let () =
  iter_lines Sys.argv.(1) (fun line ->
    match split_ws line with
    | ["T"; h; clk] ->
      (match read_text_valid all_layouts all_rules gen_tables (bytes_of_hex h) with
       | Some (f, true) -> print_endline "LINGER"
       | Some (f, false) ->
         let g = stamp (bytes_of_hex clk) f in
         let ls = write_file_padded all_layouts g in
         print_endline (String.concat " " ["W"; (if all_file has_time f then "1" else "0");
                                           String.concat "," (List.map hex_of_bytes ls)])
       | None -> print_endline "REJ")
    | _ -> print_endline "?")

(* C07 driver: runs the extracted struct <-> JSON codec on the harness's cases.
   E <Type> <val>   -> canonical JSON of enc
   D <Type> <json>  -> val of dec T (start T) json
   S <Type> <val>   -> 1/0: safeb T (start T) val (does the value survive the round trip?) *)
exception Bad of string
open Model
open Conv

let table =
  List.map (fun (n, t) -> (Convstr.ocaml_string n, t)) json_structs

let rec parse_val toks =
  match toks with
  | "S" :: h :: r -> (VStr (bytes_of_hex h), r)
  | "I" :: n :: r -> (VInt (Convz.z_of_string n), r)
  | "B" :: b :: r -> (VBool (b = "1"), r)
  | "N" :: r -> (VNil, r)
  | "F" :: r -> (VOpaque, r)
  | "R" :: n :: r -> let (xs, r') = parse_vals (int_of_string n) r in (VRec xs, r')
  | "A" :: n :: r -> let (xs, r') = parse_vals (int_of_string n) r in (VArr xs, r')
  | t :: _ -> raise (Bad ("val token " ^ t))
  | [] -> raise (Bad "val: end of input")
and parse_vals n toks =
  if n = 0 then ([], toks)
  else
    let (x, r) = parse_val toks in
    let (xs, r') = parse_vals (n - 1) r in
    (x :: xs, r')

let string_of_hex h =
  if h = "-" then ""
  else Stdlib.String.init (Stdlib.String.length h / 2) (fun i -> Char.chr (16 * hexval h.[2 * i] + hexval h.[2 * i + 1]))

let rec parse_json toks =
  match toks with
  | "s" :: h :: r -> (JStr (bytes_of_hex h), r)
  | "n" :: n :: r -> (JNum (Convz.z_of_string n), r)
  | "t" :: r -> (JBool true, r)
  | "f" :: r -> (JBool false, r)
  | "z" :: r -> (JNull, r)
  | "a" :: n :: r ->
    let rec go k toks = if k = 0 then ([], toks) else
        let (x, r) = parse_json toks in let (xs, r') = go (k - 1) r in (x :: xs, r') in
    let (xs, r') = go (int_of_string n) r in (JArr xs, r')
  | "o" :: n :: r ->
    let rec go k toks = if k = 0 then ([], toks) else
        match toks with
        | key :: rest ->
          let (x, r) = parse_json rest in
          let (xs, r') = go (k - 1) r in
          ((Convstr.coq_string (string_of_hex key), x) :: xs, r')
        | [] -> raise (Bad "object: end of input") in
    let (kvs, r') = go (int_of_string n) r in (JObj kvs, r')
  | t :: _ -> raise (Bad ("json token " ^ t))
  | [] -> raise (Bad "json: end of input")

let hex_of_string s =
  if s = "" then "-" else Stdlib.String.concat "" (List.map (fun c -> Printf.sprintf "%02x" (Char.code c)) (List.init (Stdlib.String.length s) (Stdlib.String.get s)))

let rec print_json b j =
  match j with
  | JStr s -> Buffer.add_string b ("s " ^ hex_of_bytes s ^ " ")
  | JNum z -> Buffer.add_string b ("n " ^ Convz.string_of_z z ^ " ")
  | JBool true -> Buffer.add_string b "t "
  | JBool false -> Buffer.add_string b "f "
  | JNull -> Buffer.add_string b "z "
  | JArr [] -> Buffer.add_string b "z "
  | JArr xs ->
    Buffer.add_string b (Printf.sprintf "a %d " (List.length xs));
    List.iter (print_json b) xs
  | JObj kvs ->
    let kvs = List.map (fun (k, v) -> (Convstr.ocaml_string k, v)) kvs in
    let kvs = List.stable_sort (fun (a, _) (c, _) -> compare a c) kvs in
    Buffer.add_string b (Printf.sprintf "o %d " (List.length kvs));
    List.iter (fun (k, v) -> Buffer.add_string b (hex_of_string k ^ " "); print_json b v) kvs

let rec print_val b v =
  match v with
  | VStr s -> Buffer.add_string b ("S " ^ hex_of_bytes s ^ " ")
  | VInt z -> Buffer.add_string b ("I " ^ Convz.string_of_z z ^ " ")
  | VBool true -> Buffer.add_string b "B 1 "
  | VBool false -> Buffer.add_string b "B 0 "
  | VNil -> Buffer.add_string b "N "
  | VOpaque -> Buffer.add_string b "F "
  | VRec xs -> Buffer.add_string b (Printf.sprintf "R %d " (List.length xs)); List.iter (print_val b) xs
  | VArr xs -> Buffer.add_string b (Printf.sprintf "A %d " (List.length xs)); List.iter (print_val b) xs

let out b = print_endline (Stdlib.String.trim (Buffer.contents b))

let () =
  let path = Sys.argv.(1) in
  iter_lines path (fun line ->
    try
      match split_ws line with
      | mode :: tname :: rest ->
        let t = try List.assoc tname table with Not_found -> raise (Bad ("unknown type " ^ tname)) in
        let b = Buffer.create 256 in
        (match mode with
         | "E" ->
           let (v, _) = parse_val rest in
           if typed t v then (print_json b (enc t v); out b) else print_endline "ill-typed"
         | "D" ->
           let (j, _) = parse_json rest in
           print_val b (dec t (start t) j); out b
         | "S" ->
           let (v, _) = parse_val rest in
           print_endline (if typed t v && safeb t (start t) v then "1" else "0")
         | _ -> print_endline "?")
      | _ -> print_endline "?"
    with Bad m -> print_endline ("bad: " ^ m))

(* C11 option driver: runs the extracted SegmentOpts model (segment_opts_view over the tables
   ST of this run) on the harness's cases (harness/cmd/optsdom corr -prop C11).
   Case line:   F <opts> NB <n> { <adv 0|1> <scc> <opts> <ne> <code>*ne }*n NI <m> { ... }*m
   Result line: C <opts> <nb> <opts>*nb <ni> <opts>*ni | D <opts> <nb> <opts>*nb <ni> <opts>*ni
   <opts> as in ocaml/c12opts/driver.ml. *)
open Model
open Conv
open Convz

let opts_of_token (t : string) =
  if t = "-" then None
  else match String.split_on_char ':' t with
    | [bits; ctc] ->
      let fl = List.init (String.length bits) (fun i -> bits.[i] = '1') in
      let c = int_of_string ctc in
      Some { o_flags = fl; o_ctc = (if c = 0 then None else Some (n_of_int c)) }
    | _ -> failwith "bad option token"

let token_of_opts = function
  | None -> "-"
  | Some o ->
    String.concat "" (List.map (fun b -> if b then "1" else "0") o.o_flags) ^ ":" ^
    (match o.o_ctc with None -> "0" | Some c -> string_of_int (int_of_n c))

let side tag ((fo, bs), is) =
  tag ^ " " ^ token_of_opts fo ^ " " ^ string_of_int (List.length bs) ^
  String.concat "" (List.map (fun o -> " " ^ token_of_opts o) bs) ^ " " ^ string_of_int (List.length is) ^
  String.concat "" (List.map (fun o -> " " ^ token_of_opts o) is)

let () =
  let path = Sys.argv.(1) in
  iter_lines path (fun line ->
    try
      let toks = Array.of_list (split_ws line) in
      let pos = ref 0 in
      let next () = let t = toks.(!pos) in incr pos; t in
      let expect s = if next () <> s then failwith ("expected " ^ s) in
      let num () = int_of_string (next ()) in
      let rec times k f = if k <= 0 then [] else let x = f () in x :: times (k - 1) f in
      let batch () =
        let adv = num () in
        let scc = num () in
        let o = opts_of_token (next ()) in
        let ne = num () in
        let es = times ne (fun () ->
          { e_code = z_of_int (num ()); e_amount = z_of_int 0; e_id = n_of_int 0; e_trace = n_of_int 0 }) in
        { so_batch = { sb_adv = (adv = 1); sb_scc = z_of_int scc; sb_num = z_of_int 1; sb_ident = n_of_int 0;
                       sb_credit = z_of_int 0; sb_debit = z_of_int 0; sb_entries = es };
          so_opts = o } in
      expect "F";
      let fo = opts_of_token (next ()) in
      expect "NB";
      let nb = num () in
      let bs = times nb batch in
      expect "NI";
      let ni = num () in
      let is = times ni batch in
      let (c, d) = segment_opts_view_ST { sfo_opts = fo; sfo_batches = bs; sfo_iat = is } in
      print_endline (side "C" c ^ " | " ^ side "D" d)
    with e -> print_endline ("? " ^ Printexc.to_string e))

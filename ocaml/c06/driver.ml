(* C06 driver: runs the extracted slicer / reader-line model on the harness's cases. *)
open Model
open Conv

let show = function
  | Ok v -> "OK " ^ hex_of_bytes v
  | Err -> "ERR"
  | Panic -> "PANIC"

let show2 = function
  | Ok (a, b) -> "OK " ^ hex_of_bytes a ^ " " ^ hex_of_bytes b
  | Err -> "ERR"
  | Panic -> "PANIC"

let seven = Convz.z_of_int 7
let receiver = bytes_of_hex "526563656976657220436f"   (* "Receiver Co" *)

let accessor name s =
  match name with
  | "process_control" -> show (process_control s)
  | "item_research" -> show (item_research s)
  | "pop_check_serial" -> show (pop_check_serial s)
  | "pop_terminal_city" -> show (pop_terminal_city s)
  | "pop_terminal_state" -> show (pop_terminal_state s)
  | "shr_card_exp" -> show (shr_card_exp s)
  | "shr_doc_ref" -> show (shr_doc_ref s)
  | "catx_addenda_records" -> show (catx_addenda_records s)
  | "catx_receiving" -> show (catx_receiving s)
  | "catx_reserved" -> show (catx_reserved s)
  | "set_catx_addenda_records" -> show (set_catx_addenda_records seven s)
  | "set_catx_receiving" -> show (set_catx_receiving receiver s)
  | "set_rdfi" | "set_rdfi_adv" | "set_rdfi_iat" -> show2 (set_rdfi s)
  | "iat_payment_amount" ->
      (match iat_payment_amount s with
       | Ok z -> "OK " ^ Convz.string_of_z z
       | Err -> "ERR"
       | Panic -> "PANIC")
  | "iat_addenda_information" -> show (iat_addenda_information s)
  | "a99_return_trace" -> show (a99_return_trace s)
  | "a99_settlement_date" -> show (a99_settlement_date s)
  | "a99_reason_code" -> show (a99_reason_code s)
  | "a99_extra" -> show (a99_extra s)
  | "aba8" -> show (aba8 s)
  | "first9" -> show (first (nat_of_int 9) s)
  | "first22" -> show (first (nat_of_int 22) s)
  | "trim_long" -> show (trim_long s)
  | "right_pad" -> show (right_pad s)
  | _ -> "?"

let () =
  let path = Sys.argv.(1) in
  iter_lines path (fun line ->
    match split_ws line with
    | ["A"; name; h] -> print_endline (accessor name (bytes_of_hex h))
    | ["V"; sec; h] ->
        let s = bytes_of_hex h in
        let p = (match sec with
          | "SHR" -> (match shr_entry_check s with Panic -> true | _ -> false)
          | _ -> (match trc_entry_check s with Panic -> true | _ -> false)) in
        print_endline (if p then "PANIC" else "NOPANIC")
    | ["L"; first; h; seen] ->
        (match read_line (first = "1") (bytes_of_hex h) with
         | Panic -> print_endline "PANIC"
         | Err -> print_endline "ERR"
         | Ok [] -> print_endline "ERR"
         | Ok recs ->
             (* readLine stops at the first record whose parser reports an error: the line the
                implementation handed over last must be one of the model's records *)
             let hexes = List.map (fun (l, _) -> hex_of_bytes l) recs in
             if List.mem seen hexes then print_endline ("OK " ^ seen)
             else print_endline ("OK " ^ List.hd hexes ^ " (implementation line not among the model's records)"))
    | _ -> print_endline "?")

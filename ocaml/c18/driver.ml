(* C18 driver: runs the extracted repository specification (Repo.repo_spec) on
   the harness's sequential cases and prints the canonical observation of the
   last operation (and, for "D" lines, of the final state). *)
open Model
open Conv

let op_of_char = function
  | 'a' -> StoreFile | 'b' -> FindFile | 'c' -> FindAllFiles | 'd' -> DeleteFile
  | 'e' -> StoreBatch | 'f' -> FindBatch | 'g' -> FindAllBatches | 'h' -> DeleteBatch
  | 'i' -> Sweep | _ -> failwith "bad op"

let digit c = Char.code c - 48

let call_of_token pos (t : string) =
  (op_of_char t.[0],
   { a_fid = n_of_int (digit t.[1]); a_bid = n_of_int (digit t.[2]);
     a_tok = n_of_int pos; a_old = (t.[3] = '1') })

let show_err = function ENotFound -> "E:notfound" | EExists -> "E:exists" | EOther -> "E:other"

let show_res = function
  | RNone -> "nil"
  | ROk -> "ok"
  | RErr e -> show_err e
  | RFile t -> "file:" ^ string_of_int (int_of_n t)
  | RFiles l ->
    let ts = List.sort compare (List.map (function None -> -1 | Some t -> int_of_n t) l) in
    "files:" ^ String.concat "," (List.map (fun t -> if t < 0 then "nil" else string_of_int t) ts)
  | RBatch b -> "batch:" ^ string_of_int (int_of_n b)
  | RBatches l -> "batches:" ^ String.concat "," (List.map (fun b -> string_of_int (int_of_n b)) l)

let arg0 f = { a_fid = n_of_int f; a_bid = N0; a_tok = N0; a_old = false }

let dump s nf =
  let b = Buffer.create 64 in
  let (_, r) = repo_spec FindAllFiles (arg0 0) s in
  Buffer.add_string b (show_res r);
  for f = 1 to nf do
    let (_, r) = repo_spec FindAllBatches (arg0 f) s in
    Buffer.add_string b ("|" ^ show_res r)
  done;
  Buffer.contents b

let rec last = function [] -> failwith "empty" | [x] -> x | _ :: l -> last l

let () =
  let path = Sys.argv.(1) in
  iter_lines path (fun line ->
    match split_ws line with
    | kind :: nf :: toks when toks <> [] ->
      let calls = List.mapi (fun i t -> call_of_token (i + 1) t) toks in
      let (s, rs) = run_seq calls [] in
      let o = show_res (last rs) in
      if kind = "D" then print_endline (o ^ " # " ^ dump s (int_of_string nf))
      else print_endline o
    | _ -> print_endline "?")

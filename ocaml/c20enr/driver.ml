(* C20 (ENR/DNE payment information) driver: runs the extracted describe_enr /
   describe_dne pipeline on the harness's cases. *)
open Model
open Conv

let rtrim l =
  let rec go = function
    | [] -> []
    | x :: r -> (match go r with [] when int_of_n x = 32 -> [] | r' -> x :: r')
  in
  go l

let flag c = (c = '1')

let () =
  let path = Sys.argv.(1) in
  iter_lines path (fun line ->
    match split_ws line with
    | [ch; fl; h] when String.length fl = 2 ->
      let names = flag fl.[0] and accts = flag fl.[1] in
      let pri = bytes_of_hex h in
      let is_enr = (ch = "E" || ch = "S") in
      let ok = (if is_enr then enr_wellformed pri else dne_wellformed pri) in
      let cell = if is_enr then describe_enr names accts pri else describe_dne names accts pri in
      (match ch with
       | "E" | "D" -> Printf.printf "%d %s\n" (if ok then 1 else 0) (hex_of_bytes (rtrim cell))
       | "S" | "T" -> if ok then Printf.printf "1 %s\n" (hex_of_bytes cell) else print_endline "0 -"
       | _ -> print_endline "?")
    | _ -> print_endline "?")

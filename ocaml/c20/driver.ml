(* C20 driver: runs the extracted mask model on the harness's cases. *)
open Model
open Conv

let () =
  let path = Sys.argv.(1) in
  iter_lines path (fun line ->
    match split_ws line with
    | ["N"; h] -> print_endline (hex_of_bytes (maskNumber (bytes_of_hex h)))
    | ["M"; h] -> print_endline (hex_of_bytes (maskName (bytes_of_hex h)))
    | _ -> print_endline "?")

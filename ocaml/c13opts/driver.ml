(* C13 phase-5 driver: the extracted Reversal model under options (reversal_file_x =
   ReversalOpts.reversal_file_o, OptsViewFacts.reversal_file_x_is) and the validator model under
   options on the harness's cases (harness/cmd/c0913x rev).  OPT = "-" (nil) or bits:ctc.
   Case:   date1 time1 date2 time2 reversible  OPT origin dest fcBatches fcCount fcHash fcDebit fcCredit nBatches
           { OPT hdrClass ctlClass desc date debit credit odfi number count hash cOdfi cNumber nEntries
             { code amount id EOPT rdfi check trace addenda } }
   Result: ERR | OK <file> V<valid or -> [ "|" ERR | "|" OK <file> V<..> ]      (second reversal)
           <file> = OPT date time fcBatches fcCount fcHash fcDebit fcCredit nBatches
                    { B OPT number cNumber hdrClass ctlClass desc date debit credit count hash nEntries { code amount trace EOPT } } *)
open Model
open Conv
open Convz

let opt_of_token (t : string) =
  if t = "-" then None
  else begin
    let i = String.index t ':' in
    let bits = String.sub t 0 i in
    let ctc = int_of_string (String.sub t (i + 1) (String.length t - i - 1)) in
    let fl = List.init (String.length bits) (fun k -> bits.[k] = '1') in
    Some { o_flags = fl; o_ctc = (if ctc = 0 then None else Some (n_of_int ctc)) }
  end

let token_of_opt = function
  | None -> "-"
  | Some o ->
    let b = Buffer.create 32 in
    List.iter (fun x -> Buffer.add_char b (if x then '1' else '0')) o.o_flags;
    Buffer.add_string b (Printf.sprintf ":%d" (match o.o_ctc with None -> 0 | Some n -> int_of_n n));
    Buffer.contents b

let csem (f : n) (c : z) : bool =
  let c = int_of_z c in
  match int_of_n f with
  | 1 -> c <> 91
  | 4 -> c >= 10 && c <= 99
  | _ -> true

let run_case (line : string) : string =
  let toks = Array.of_list (split_ws line) in
  let pos = ref 0 in
  let next () = let t = toks.(!pos) in incr pos; t in
  let nint () = int_of_string (next ()) in
  let nz () = z_of_int (nint ()) in
  let nb () = bytes_of_hex (next ()) in
  let no () = opt_of_token (next ()) in
  let rec times n f = if n <= 0 then [] else let x = f () in x :: times (n - 1) f in
  let pays = Hashtbl.create 64 in
  let d1 = nb () in let t1 = nb () in let d2 = nb () in let t2 = nb () in
  let reversible = nint () in
  let fopts = no () in
  let origin = nb () in let dest = nb () in
  let fcb = nz () in let fcc = nz () in let fch = nz () in let fcd = nz () in let fcr = nz () in
  let nbat = nint () in
  let batches = times nbat (fun () ->
    let bopts = no () in
    let sh = nz () in let sc = nz () in
    let desc = nb () in let date = nb () in
    let deb = nz () in let cre = nz () in
    let odfi = nb () in let number = nz () in let count = nz () in let hash = nz () in
    let codfi = nb () in let cnumber = nz () in
    let ne = nint () in
    let es = times ne (fun () ->
      let code = nz () in let amount = nz () in let id = nint () in let eo = no () in
      let rdfi = nb () in let chk = nb () in let trace = nb () in let addenda = nz () in
      Hashtbl.replace pays id { ve_rdfi = rdfi; ve_check = chk; ve_trace = trace; ve_addenda = addenda };
      ({ e_code = code; e_amount = amount; e_id = n_of_int id; e_trace = n_of_int id }, eo)) in
    { xv_opts = bopts; xv_eopts = List.map snd es;
      xv_pay = { vp_odfi = odfi; vp_number = number; vp_count = count; vp_hash = hash; vp_codfi = codfi; vp_cnumber = cnumber };
      xv_b = { rb_scc_h = sh; rb_scc_c = sc; rb_desc = desc; rb_date = date; rb_debit = deb; rb_credit = cre;
               rb_entries = List.map fst es } }) in
  let ep id _ = match Hashtbl.find_opt pays (int_of_n id) with
    | Some p -> p | None -> { ve_rdfi = []; ve_check = []; ve_trace = []; ve_addenda = Z0 } in
  let f = { xvf_opts = fopts; xvf_origin = origin; xvf_dest = dest; xvf_date = []; xvf_time = [];
            xvf_batches = batches; xvf_ctl = { fc_batches = fcb; fc_count = fcc; fc_hash = fch; fc_debit = fcd; fc_credit = fcr } } in
  let b = Buffer.create 512 in
  let show (g : xvf) =
    let fc = g.xvf_ctl in
    Buffer.add_string b (Printf.sprintf " %s %s %s %d %d %d %d %d %d" (token_of_opt g.xvf_opts) (hex_of_bytes g.xvf_date) (hex_of_bytes g.xvf_time)
      (int_of_z fc.fc_batches) (int_of_z fc.fc_count) (int_of_z fc.fc_hash) (int_of_z fc.fc_debit) (int_of_z fc.fc_credit)
      (List.length g.xvf_batches));
    List.iter (fun x ->
      let p = x.xv_pay and r = x.xv_b in
      Buffer.add_string b (Printf.sprintf " B %s %d %d %d %d %s %s %d %d %d %d %d" (token_of_opt x.xv_opts)
        (int_of_z p.vp_number) (int_of_z p.vp_cnumber) (int_of_z r.rb_scc_h) (int_of_z r.rb_scc_c)
        (hex_of_bytes r.rb_desc) (hex_of_bytes r.rb_date) (int_of_z r.rb_debit) (int_of_z r.rb_credit)
        (int_of_z p.vp_count) (int_of_z p.vp_hash) (List.length r.rb_entries));
      List.iter2 (fun e eo ->
        Buffer.add_string b (Printf.sprintf " %d %d %s %s" (int_of_z e.e_code) (int_of_z e.e_amount)
          (hex_of_bytes (ep e.e_id e.e_trace).ve_trace) (token_of_opt eo))) r.rb_entries x.xv_eopts) g.xvf_batches;
    Buffer.add_string b (if reversible = 1 then (if file_valid_o csem gen_tables (xvf_arith ep g) then " V1" else " V0") else " V-") in
  (match reversal_file_x gen_tables rT ep d1 t1 f with
   | XvOk f1 ->
     Buffer.add_string b "OK"; show f1;
     (match reversal_file_x gen_tables rT ep d2 t2 f1 with
      | XvOk f2 -> Buffer.add_string b " | OK"; show f2
      | _ -> Buffer.add_string b " | ERR")
   | _ -> Buffer.add_string b "ERR");
  Buffer.contents b

let () =
  let path = Sys.argv.(1) in
  iter_lines path (fun line ->
    if String.trim line = "" then print_endline "?"
    else print_endline (try run_case line with e -> "MODEL-EXCEPTION " ^ Printexc.to_string e))

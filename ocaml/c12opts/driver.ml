(* C12 option driver: runs the extracted FlattenOpts model (flatten_o_stable_view) on the
   harness's cases (harness/cmd/optsdom corr -prop C12).
   Case line:   F <opts> N <n> { B <S|I> <sighex> <num> <opts> <ne> <na> <tracehex>*ne }*n
   Result line: F <opts> N <k> <opts>*k
   <opts>: "-" (nil) or <bits>:<ctc> — the boolean fields of ValidateOpts in declaration order
   as 0/1 characters, and the identity of the CheckTransactionCode function (0 = nil). *)
open Model
open Conv
open Convz

let opts_of_token (t : string) =
  if t = "-" then None
  else match String.split_on_char ':' t with
    | [bits; ctc] ->
      let fl = List.init (String.length bits) (fun i -> bits.[i] = '1') in
      let c = int_of_string ctc in
      Some { o_flags = fl; o_ctc = (if c = 0 then None else Some (n_of_int c)) }
    | _ -> failwith "bad option token"

let token_of_opts = function
  | None -> "-"
  | Some o ->
    String.concat "" (List.map (fun b -> if b then "1" else "0") o.o_flags) ^ ":" ^
    (match o.o_ctc with None -> "0" | Some c -> string_of_int (int_of_n c))

let () =
  let path = Sys.argv.(1) in
  iter_lines path (fun line ->
    try
      let toks = Array.of_list (split_ws line) in
      let pos = ref 0 in
      let next () = let t = toks.(!pos) in incr pos; t in
      let expect s = if next () <> s then failwith ("expected " ^ s) in
      let rec times k f = if k <= 0 then [] else let x = f () in x :: times (k - 1) f in
      expect "F";
      let fo = opts_of_token (next ()) in
      expect "N";
      let n = int_of_string (next ()) in
      let batches = times n (fun () ->
        expect "B";
        let kind = if next () = "I" then KIAT else KStd in
        let sg = bytes_of_hex (next ()) in
        let num = z_of_int (int_of_string (next ())) in
        let o = opts_of_token (next ()) in
        let ne = int_of_string (next ()) in
        let na = int_of_string (next ()) in
        let es = times ne (fun () ->
          { e_trace = bytes_of_hex (next ()); e_core = []; e_amount = z_of_int 0; e_debit = false;
            e_addenda = n_of_int 0; e_cat = n_of_int 0 }) in
        let adv = times na (fun () ->
          { e_trace = []; e_core = []; e_amount = z_of_int 0; e_debit = false; e_addenda = n_of_int 0; e_cat = n_of_int 0 }) in
        { bo_batch = { b_kind = kind; b_sig = sg; b_num = num; b_entries = es; b_adv = adv }; bo_opts = o }) in
      let (fo', bos) = flatten_o_stable_view { fo_opts = fo; fo_batches = batches } in
      print_endline ("F " ^ token_of_opts fo' ^ " N " ^ string_of_int (List.length bos) ^
                     String.concat "" (List.map (fun o -> " " ^ token_of_opts o) bos))
    with e -> print_endline ("? " ^ Printexc.to_string e))

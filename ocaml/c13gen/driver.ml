(* C13 phase-3 driver: runs the extracted Reversal model (over the regenerated tables RT) and the
   general validity (amount rule by addenda kind), the survival predicate and the offset balance
   on the harness's cases; one canonical observation line per case.
   Case: <date> <time> <input-eligible> <result-eligible> <file date> <file time> <file debit> <file credit> <nb>
         { hdr-class ctl-class desc date debit credit ne { code amount id trace addenda-kind offset } } *)
open Model
open Conv
open Convz

let () =
  let path = Sys.argv.(1) in
  iter_lines path (fun line ->
    let toks = ref (split_ws line) in
    let next () = match !toks with [] -> failwith "short line" | t :: r -> toks := r; t in
    let num () = int_of_string (next ()) in
    let rec rep n f = if n <= 0 then [] else let x = f () in x :: rep (n - 1) f in
    try
      let aks = Hashtbl.create 64 in
      let offs = Hashtbl.create 64 in
      let d = bytes_of_hex (next ()) in
      let t = bytes_of_hex (next ()) in
      let ie = num () in let re = num () in
      let fdate = bytes_of_hex (next ()) in let ftime = bytes_of_hex (next ()) in
      let fdeb = num () in let fcre = num () in
      let nb = num () in
      let batches = rep nb (fun () ->
        let sh = num () in let sc = num () in
        let desc = bytes_of_hex (next ()) in let date = bytes_of_hex (next ()) in
        let deb = num () in let cre = num () in
        let ne = num () in
        let es = rep ne (fun () ->
          let c = num () in let a = num () in let id = num () in let tr = num () in
          let k = num () in let o = num () in
          Hashtbl.replace aks id (match k with 1 -> ANoc | 2 -> AReturn | _ -> AForward);
          Hashtbl.replace offs id (o = 1);
          { e_code = z_of_int c; e_amount = z_of_int a; e_id = n_of_int id; e_trace = n_of_int tr }) in
        { rb_scc_h = z_of_int sh; rb_scc_c = z_of_int sc; rb_desc = desc; rb_date = date;
          rb_debit = z_of_int deb; rb_credit = z_of_int cre; rb_entries = es }) in
      let ak id = match Hashtbl.find_opt aks (int_of_n id) with Some k -> k | None -> AForward in
      let off id = match Hashtbl.find_opt offs (int_of_n id) with Some o -> o | None -> false in
      let f = { rf_date = fdate; rf_time = ftime; rf_batches = batches; rf_debit = z_of_int fdeb; rf_credit = z_of_int fcre } in
      match reversal_file rT d t f with
      | RErrNoBatches -> print_endline "ERR other"
      | ROk f' ->
        let b = Buffer.create 256 in
        Buffer.add_string b (Printf.sprintf "OK %s %s %d %d %d" (hex_of_bytes f'.rf_date) (hex_of_bytes f'.rf_time)
          (int_of_z f'.rf_debit) (int_of_z f'.rf_credit) (List.length f'.rf_batches));
        List.iter (fun x ->
          Buffer.add_string b (Printf.sprintf " %d %d %s %s %d %d %d" (int_of_z x.rb_scc_h) (int_of_z x.rb_scc_c)
            (hex_of_bytes x.rb_desc) (hex_of_bytes x.rb_date) (int_of_z x.rb_debit) (int_of_z x.rb_credit) (List.length x.rb_entries));
          List.iter (fun e ->
            Buffer.add_string b (Printf.sprintf " %d %d %d %d %d %d" (int_of_z e.e_code) (int_of_z e.e_amount) (int_of_n e.e_id) (int_of_n e.e_trace)
              (match ak e.e_id with AForward -> 0 | ANoc -> 1 | AReturn -> 2) (if off e.e_id then 1 else 0)))
            x.rb_entries) f'.rf_batches;
        (* I: the general validity accepts the input (every generated input passed the real Validate) *)
        Buffer.add_string b (if ie = 1 then (if rfile_valid_gen ak rT f then " I1" else " I0") else " I-");
        (* V: the general validity of the model's result = Validate() of the real result *)
        Buffer.add_string b (if re = 1 then (if rfile_valid_gen ak rT f' then " V1" else " V0") else " V-");
        Buffer.add_string b " O";
        List.iter (fun x -> Buffer.add_string b (if offsets_consistent off rev_amount_arms x.rb_entries then "1" else "0")) f'.rf_batches;
        print_endline (Buffer.contents b)
    with _ -> print_endline "?")

(* C11 phase-3 driver: runs the extracted SegmentFile model with AddBatch's ReturnEntries /
   NotificationOfChange bookkeeping and the category check (segment_cat over the regenerated
   tables ST) on the harness's cases; one canonical observation line per case. *)
open Model
open Conv
open Convz

let cat_of_int = function 1 -> CReturn | 2 -> CNOC | 3 -> CDishonored | 4 -> CContested | _ -> CForward

let lists (r : nat list) (n : nat list) : string =
  let b = Buffer.create 64 in
  Buffer.add_string b (Printf.sprintf "R %d" (List.length r));
  List.iter (fun i -> Buffer.add_string b (Printf.sprintf " %d" (int_of_nat i))) r;
  Buffer.add_string b (Printf.sprintf " N %d" (List.length n));
  List.iter (fun i -> Buffer.add_string b (Printf.sprintf " %d" (int_of_nat i))) n;
  Buffer.contents b

let dump (cat : n -> category) (g : gfile) : string =
  let f = g.g_file in
  let b = Buffer.create 512 in
  let code = function CForward -> 0 | CReturn -> 1 | CNOC -> 2 | CDishonored -> 3 | CContested -> 4 in
  let batch x =
    Buffer.add_string b (Printf.sprintf " %d %d %d %d %d %d %d" (if x.sb_adv then 1 else 0) (int_of_z x.sb_scc) (int_of_z x.sb_num)
      (int_of_n x.sb_ident) (int_of_z x.sb_credit) (int_of_z x.sb_debit) (List.length x.sb_entries));
    List.iter (fun e ->
      Buffer.add_string b (Printf.sprintf " %d %d %d %d %d" (int_of_z e.e_code) (int_of_z e.e_amount) (int_of_n e.e_id) (int_of_n e.e_trace) (code (cat e.e_id))))
      x.sb_entries in
  Buffer.add_string b (Printf.sprintf "%d %d %d %d %d" (int_of_n f.sf_origin) (int_of_n f.sf_dest) (int_of_z f.sf_credit) (int_of_z f.sf_debit)
    (List.length f.sf_batches));
  List.iter batch f.sf_batches;
  Buffer.add_string b (Printf.sprintf " %d" (List.length f.sf_iat));
  List.iter batch f.sf_iat;
  Buffer.add_string b (" " ^ lists g.g_ret g.g_noc);
  Buffer.contents b

let verr = function VBatch -> "batch" | VTotals -> "totals" | VAscending -> "ascending"

let () =
  let path = Sys.argv.(1) in
  iter_lines path (fun line ->
    let toks = ref (split_ws line) in
    let next () = match !toks with [] -> failwith "short line" | t :: r -> toks := r; t in
    let num () = int_of_string (next ()) in
    let rec rep n f = if n <= 0 then [] else let x = f () in x :: rep (n - 1) f in
    try
      let cats = Hashtbl.create 64 in
      let origin = num () in let dest = num () in
      let credit = num () in let debit = num () in
      let batch () =
        let adv = num () in let scc = num () in let nr = num () in let ident = num () in
        let cr = num () in let de = num () in let ne = num () in
        let es = rep ne (fun () ->
          let c = num () in let a = num () in let id = num () in let tr = num () in let k = num () in
          Hashtbl.replace cats id (cat_of_int k);
          { e_code = z_of_int c; e_amount = z_of_int a; e_id = n_of_int id; e_trace = n_of_int tr }) in
        { sb_adv = (adv = 1); sb_scc = z_of_int scc; sb_num = z_of_int nr; sb_ident = n_of_int ident;
          sb_credit = z_of_int cr; sb_debit = z_of_int de; sb_entries = es } in
      let nb = num () in
      let bs = rep nb batch in
      let ni = num () in
      let is = rep ni batch in
      let f = { sf_origin = n_of_int origin; sf_dest = n_of_int dest; sf_batches = bs; sf_iat = is;
                sf_credit = z_of_int credit; sf_debit = z_of_int debit } in
      let cat id = match Hashtbl.find_opt cats (int_of_n id) with Some c -> c | None -> CForward in
      let inp = built cat bs in
      let head = "IN " ^ lists inp.bl_ret inp.bl_noc ^ " ; " in
      match segment_cat cat sT f with
      | GOk (gc, gd) -> print_endline (head ^ "OK " ^ dump cat gc ^ " | " ^ dump cat gd)
      | GErr (EInput v) -> print_endline (head ^ "ERR input-" ^ verr v)
      | GErr EAdvOnly -> print_endline (head ^ "ERR advonly")
      | GErr (EOutput v) -> print_endline (head ^ "ERR output-" ^ verr v)
    with _ -> print_endline "?")

(* C01 validating-reader driver: the extracted default reader (ReaderValid.read_text_valid over the
   regenerated layouts, record rules and arithmetic tables) on the harness's texts.

     D <Kind> <fields>              constructor defaults of a record type (what a field holds that Parse
                                    does not assign)                                   -> D
     U                              -> U <fields…>: the fields unrecognised checks (CUnknown) mention, all record types
     T <hex text> <Kind> <Field>    a text; Kind/Field = the record type and field the harness varied
                                    ("-" when the case is not a single-field change)
        -> ERR <r><b>                                the model's reader reports an error; r = 1: the text read with
                                                     validation skipped holds a record that fails its rules;
                                                     b = 1: no such record, but a batch fails the batch arithmetic
           OK <u> <rule> <tree>                      accepted; <rule> = first failing rule of
                                                     File.Validate() on the result (0 = valid);
           LINGER <u> <rule> <tree>                  accepted, a batch was never closed
        <u> = 1 when a check of unrecognised shape (CUnknown) of Kind mentions Field ("*" = any
        field): the model may accept what the code rejects there *)
open Model
open Conv
open Convz
open Convstr

let defaults = Hashtbl.create 32

let parse_field tok =
  let i = String.index tok '=' in
  let name = String.sub tok 0 i in
  let kind = tok.[i + 1] in
  let rest = String.sub tok (i + 3) (String.length tok - i - 3) in
  if kind = 'i' then (name, VI (z_of_string rest)) else (name, VS (bytes_of_hex rest))

let show_value = function
  | VI z -> "i:" ^ string_of_z z
  | VS s -> "s:" ^ hex_of_bytes s

let show_rec role (x : recordR) =
  let kind = ocaml_string x.r_kind in
  let dflt = try Hashtbl.find defaults kind with Not_found -> [] in
  let parts = List.map (fun (name, dv) ->
    let v = match lookup x.r_val (coq_string name) with Some v -> v | None -> dv in
    name ^ "=" ^ show_value v) dflt in
  Printf.sprintf "%s/%s[%s]" role kind (String.concat "," parts)

let show_entry (e : entryR) =
  String.concat " " (["E{"; show_rec "e" e.en_rec] @ List.map (show_rec "a") e.en_addenda0 @ ["}"])

let show_batch tag (b : batchR) =
  String.concat " " ([tag ^ "{"; show_rec "h" b.bt_hdr] @ List.map show_entry b.bt_entries0 @ [show_rec "c" b.bt_ctl0; "}"])

let show_file (f : fileR) =
  String.concat " " ([show_rec "H" f.fl_hdr] @ List.map (show_batch "B") f.fl_batches0
                     @ List.map (show_batch "I") f.fl_iat0 @ [show_rec "F" f.fl_ctl0])

let rec unknown_fields = function
  | CUnknown (_, fs) -> List.map ocaml_string fs
  | CAnd (a, b) | COr (a, b) -> unknown_fields a @ unknown_fields b
  | CNot a -> unknown_fields a
  | _ -> []

let unk kind field =
  if kind = "-" then "0"
  else
    match List.find_opt (fun (n, _) -> ocaml_string n = kind) all_rules with
    | Some (_, rs) -> if List.exists (fun (_, c) -> (let fs = unknown_fields c in if field = "*" then fs <> [] else List.mem field fs)) rs then "1" else "0"
    | None -> "0"

let () =
  iter_lines Sys.argv.(1) (fun line ->
    match split_ws line with
    | ["D"; kind; fields] ->
      Hashtbl.replace defaults kind (List.map parse_field (String.split_on_char ',' fields));
      print_endline "D"
    | ["U"] ->
      (* every field some unrecognised check mentions, whatever the record type *)
      let fs = List.concat_map (fun (_, rs) -> List.concat_map (fun (_, c) -> unknown_fields c) rs) all_rules in
      print_endline (String.concat " " ("U" :: List.sort_uniq compare fs))
    | ["T"; h; kind; field] ->
      (match read_text_valid all_layouts all_rules gen_tables (bytes_of_hex h) with
       | Some (f, lg) ->
         let rule = string_of_z (rule_code (validate_file gen_tables (p_file f))) in
         print_endline (String.concat " " [(if lg then "LINGER" else "OK"); unk kind field; rule; show_file f])
       | None ->
         (* why: the text read with validation skipped (Dispatch.read_text) holds a record that fails its
            rules (r) / only a batch that fails the batch arithmetic (b) *)
         let r, b = match read_text all_layouts (bytes_of_hex h) with
           | Some g ->
             let r = not (all_file (rec_passb all_rules) g) in
             (r, (not r) && not (batches_okb gen_tables g))
           | None -> (false, false) in
         print_endline (Printf.sprintf "ERR %d%d" (if r then 1 else 0) (if b then 1 else 0)))
    | _ -> print_endline "?")

(* C14 driver: runs the extracted purity model on the harness's cases.
   case line:  <state> | <op> <op> ...
     state: "-" (no batches) or comma separated batches  N:<c> | H<hex>:<c>   (c = 0/1 control present)
     ops:   V<bits> validate, W<bits> validateWith, B<i> batch validate, S<r> string, J json,
            P write bypassing validation, X<bits> validating write;  bits = skipAll allowMissing hdrOk ok
   K <b|c|r> <hexsec,...>: state of built / created / reader_file for these SEC codes
   result line: the states after each operation joined by ';', then " inv=<0/1> pinv=<0/1>" of the initial state *)
open Model
open Conv

let parse_bat (s : string) : bat =
  match String.split_on_char ':' s with
  | [h; c] ->
    let hdr = if h = "N" then None else Some (bytes_of_hex (String.sub h 1 (String.length h - 1))) in
    { b_hdr = hdr; b_ctl = (c = "1") }
  | _ -> failwith ("bad batch " ^ s)

let parse_state (s : string) : file =
  if s = "-" then [] else List.map parse_bat (String.split_on_char ',' s)

let show_bat (b : bat) : string =
  (match b.b_hdr with None -> "N" | Some h -> "H" ^ hex_of_bytes h) ^ ":" ^ (if b.b_ctl then "1" else "0")

let show_state (f : file) : string =
  match f with [] -> "-" | _ -> String.concat "," (List.map show_bat f)

let flags (s : string) : vflags =
  let b i = s.[i] = '1' in
  { v_skipAll = b 1; v_allowMissing = b 2; v_hdrOk = b 3; v_ok = b 4 }

let parse_op (s : string) : op =
  let arg () = nat_of_int (int_of_string (String.sub s 1 (String.length s - 1))) in
  match s.[0] with
  | 'V' -> OValidate (flags s)
  | 'W' -> OValidateWith (flags s)
  | 'B' -> OBatchValidate (arg ())
  | 'S' -> OString (arg ())
  | 'J' -> OMarshalJSON
  | 'P' -> OWriteBypass
  | 'X' -> OWriteValidating (flags s)
  | _ -> failwith ("bad op " ^ s)

let b01 b = if b then "1" else "0"

let () =
  let path = Sys.argv.(1) in
  iter_lines path (fun line ->
    if String.length line > 2 && line.[0] = 'K' then begin
      (* K <mode> <hexsec,...>: the model of the constructions *)
      match split_ws line with
      | [_; mode; secs] ->
        let secs = List.map bytes_of_hex (String.split_on_char ',' secs) in
        let f = (match mode with "b" -> built secs | "c" -> created secs | _ -> reader_file secs) in
        print_endline (show_state f ^ " inv=" ^ b01 (inv f) ^ " pinv=" ^ b01 (prefix_inv f))
      | _ -> print_endline "?"
    end else
    match String.index_opt line '|' with
    | None -> print_endline "?"
    | Some k ->
      (try
         let st = parse_state (String.trim (String.sub line 0 k)) in
         let ops = List.map parse_op (split_ws (String.sub line (k + 1) (String.length line - k - 1))) in
         let states = run_ops st ops in
         print_endline (String.concat ";" (List.map show_state states) ^ " inv=" ^ b01 (inv st) ^ " pinv=" ^ b01 (prefix_inv st))
       with e -> print_endline ("? " ^ Printexc.to_string e)))

(* C04 validating-reader text driver: runs the extracted accept_code (Reader.Read with validation,
   then File.Validate, Codec/ReaderSkel.v) on the harness's cases.
     V <hex text>   -> "A" (accepted) | "R" (Read fails, leaves a batch open, or Validate fails) *)
open Model
open Conv

let () =
  iter_lines Sys.argv.(1) (fun line ->
    try
      match split_ws line with
      | ["V"; h] ->
        (match accept_code all_layouts all_rules gen_tables (bytes_of_hex h) with
         | O -> print_endline "A"
         | _ -> print_endline "R")
      | ["V"] ->
        (match accept_code all_layouts all_rules gen_tables [] with
         | O -> print_endline "A"
         | _ -> print_endline "R")
      | _ -> print_endline "?"
    with _ -> print_endline "!")

(* C01 whole-file driver: the extracted typed reader (Dispatch.read_text over the
   regenerated layouts) on the harness's texts; prints the file tree in the
   harness's canonical form. *)
open Model
open Conv
open Convz
open Convstr

let defaults = Hashtbl.create 32

(* "name=s:<hex>" / "name=i:<n>" *)
let parse_field tok =
  let i = String.index tok '=' in
  let name = String.sub tok 0 i in
  let kind = tok.[i + 1] in
  let rest = String.sub tok (i + 3) (String.length tok - i - 3) in
  if kind = 'i' then (name, VI (z_of_string rest)) else (name, VS (bytes_of_hex rest))

let show_value = function
  | VI z -> "i:" ^ string_of_z z
  | VS s -> "s:" ^ hex_of_bytes s

let show_rec role (x : recordR) =
  let kind = ocaml_string x.r_kind in
  let dflt = try Hashtbl.find defaults kind with Not_found -> [] in
  let parts = List.map (fun (name, dv) ->
    let v = match lookup x.r_val (coq_string name) with Some v -> v | None -> dv in
    name ^ "=" ^ show_value v) dflt in
  Printf.sprintf "%s/%s[%s]" role kind (String.concat "," parts)

let show_entry (e : entryR) =
  String.concat " " (["E{"; show_rec "e" e.en_rec] @ List.map (show_rec "a") e.en_addenda @ ["}"])

let show_batch tag (b : batchR) =
  String.concat " " ([tag ^ "{"; show_rec "h" b.bt_hdr] @ List.map show_entry b.bt_entries @ [show_rec "c" b.bt_ctl; "}"])

let show_file (f : fileR) =
  String.concat " " ([show_rec "H" f.fl_hdr] @ List.map (show_batch "B") f.fl_batches
                     @ List.map (show_batch "I") f.fl_iat @ [show_rec "F" f.fl_ctl])

let () =
  iter_lines Sys.argv.(1) (fun line ->
    match split_ws line with
    | ["D"; kind; fields] ->
      Hashtbl.replace defaults kind (List.map parse_field (String.split_on_char ',' fields));
      print_endline "D"
    | [("T" | "TS"); h] ->
      (match read_text all_layouts (bytes_of_hex h) with
       | Some f -> print_endline ("OK " ^ show_file f)
       | None -> print_endline "ERR")
    | _ -> print_endline "?")

(* C08/C09 driver: runs the extracted merge model on the harness's cases.
   Case line (blank separated tokens, byte strings hex encoded):
     maxLines maxDollar nFiles { origin dest hid nBatches { scc name cid sec desc eed odfi rest nEntries { trace amount addenda id } } }
   Result line:
     nFiles { F origin dest hid lines amount nBatches { B number scc name cid sec desc eed odfi rest nEntries { id } } } *)
open Model
open Conv

let z_of_int n = if n = 0 then Z0 else if n > 0 then Zpos (pos_of_int n) else Zneg (pos_of_int (-n))
let int_of_z = function Z0 -> 0 | Zpos p -> int_of_pos p | Zneg p -> - (int_of_pos p)

let run_case (line : string) : string =
  let toks = Array.of_list (split_ws line) in
  let pos = ref 0 in
  let next () = let t = toks.(!pos) in incr pos; t in
  let nint () = int_of_string (next ()) in
  let nz () = z_of_int (nint ()) in
  let nn () = n_of_int (nint ()) in
  let nb () = bytes_of_hex (next ()) in
  let rec times n f = if n <= 0 then [] else let x = f () in x :: times (n - 1) f in
  let ml = nz () in
  let md = nz () in
  let nf = nint () in
  let files = times nf (fun () ->
    let origin = nb () in
    let dest = nb () in
    let hid = nn () in
    let nbat = nint () in
    let batches = times nbat (fun () ->
      let scc = nz () in
      let name = nb () in
      let cid = nb () in
      let sec = nb () in
      let desc = nb () in
      let eed = nb () in
      let odfi = nb () in
      let rest = nn () in
      let ne = nint () in
      let entries = times ne (fun () ->
        let trace = nb () in
        let amount = nz () in
        let addenda = nz () in
        let id = nn () in
        { e_trace = trace; e_amount = amount; e_addenda = addenda; e_id = id }) in
      { ib_header = { h_scc = scc; h_name = name; h_cid = cid; h_sec = sec; h_desc = desc;
                      h_eed = eed; h_odfi = odfi; h_rest = rest };
        ib_entries = entries }) in
    { if_origin = origin; if_dest = dest; if_hid = hid; if_batches = batches }) in
  let out = merge_files files { maxLines = ml; maxDollar = md } in
  let b = Buffer.create 256 in
  Buffer.add_string b (string_of_int (List.length out));
  List.iter (fun g ->
    Buffer.add_string b (Printf.sprintf " F %s %s %d %d %d %d" (hex_of_bytes g.rf_origin) (hex_of_bytes g.rf_dest)
      (int_of_n g.rf_hid) (int_of_z (file_lines g)) (int_of_z (file_amount g)) (List.length g.rf_batches));
    List.iter (fun rb ->
      let h = rb.rb_header in
      Buffer.add_string b (Printf.sprintf " B %d %d %s %s %s %s %s %s %d %d" (int_of_z rb.rb_number) (int_of_z h.h_scc)
        (hex_of_bytes h.h_name) (hex_of_bytes h.h_cid) (hex_of_bytes h.h_sec) (hex_of_bytes h.h_desc)
        (hex_of_bytes h.h_eed) (hex_of_bytes h.h_odfi) (int_of_n h.h_rest) (List.length rb.rb_entries));
      List.iter (fun e -> Buffer.add_string b (Printf.sprintf " %d" (int_of_n e.e_id))) rb.rb_entries)
      g.rf_batches) out;
  Buffer.contents b

let () =
  let path = Sys.argv.(1) in
  iter_lines path (fun line ->
    if String.trim line = "" then print_endline "?"
    else print_endline (try run_case line with e -> "MODEL-EXCEPTION " ^ Printexc.to_string e))

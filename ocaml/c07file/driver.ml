(* C07 (phase 2) driver: runs the extracted post-processing model of FileFromJSONWith.
   driver hidden           -> the (struct, field) pairs that are not part of a result tree
   driver <cases>          per line:
     P <passed> <hv> <json> -> OK <tree> TEXT <hex> | ERR | UNMODELLED
     R <passed> <hv> <verdict> <val> -> eq if the conditions of the round-trip theorem hold of the file value, else <verdict>
     W <val>               -> the text the writer model produces for the tree of the file value
   driver <cases> <stats>  also writes how many R cases satisfied the conditions
                              (<passed>: N for nil, or the 18 booleans of a ValidateOpts as 0/1 characters) *)
exception Bad of string
open Model
open Conv

let string_of_hex h =
  if h = "-" then ""
  else Stdlib.String.init (Stdlib.String.length h / 2) (fun i -> Char.chr (16 * hexval h.[2 * i] + hexval h.[2 * i + 1]))

let rec parse_json toks =
  match toks with
  | "s" :: h :: r -> (JStr (bytes_of_hex h), r)
  | "n" :: n :: r -> (JNum (Convz.z_of_string n), r)
  | "t" :: r -> (JBool true, r)
  | "f" :: r -> (JBool false, r)
  | "z" :: r -> (JNull, r)
  | "a" :: n :: r ->
    let rec go k toks = if k = 0 then ([], toks) else
        let (x, r) = parse_json toks in let (xs, r') = go (k - 1) r in (x :: xs, r') in
    let (xs, r') = go (int_of_string n) r in (JArr xs, r')
  | "o" :: n :: r ->
    let rec go k toks = if k = 0 then ([], toks) else
        match toks with
        | key :: rest ->
          let (x, r) = parse_json rest in
          let (xs, r') = go (k - 1) r in
          ((Convstr.coq_string (string_of_hex key), x) :: xs, r')
        | [] -> raise (Bad "object: end of input") in
    let (kvs, r') = go (int_of_string n) r in (JObj kvs, r')
  | t :: _ -> raise (Bad ("json token " ^ t))
  | [] -> raise (Bad "json: end of input")

let rec parse_val toks =
  match toks with
  | "S" :: h :: r -> (VStr (bytes_of_hex h), r)
  | "I" :: n :: r -> (VInt (Convz.z_of_string n), r)
  | "B" :: b :: r -> (VBool (b = "1"), r)
  | "N" :: r -> (VNil, r)
  | "F" :: r -> (VOpaque, r)
  | "R" :: n :: r -> let (xs, r') = parse_vals (int_of_string n) r in (VRec xs, r')
  | "A" :: n :: r -> let (xs, r') = parse_vals (int_of_string n) r in (VArr xs, r')
  | t :: _ -> raise (Bad ("val token " ^ t))
  | [] -> raise (Bad "val: end of input")
and parse_vals n toks =
  if n = 0 then ([], toks)
  else
    let (x, r) = parse_val toks in
    let (xs, r') = parse_vals (n - 1) r in
    (x :: xs, r')

let n_ready = ref 0
let n_asked = ref 0

let passed_of s =
  if s = "N" then []
  else begin
    if Stdlib.String.length s <> 18 then raise (Bad "passed options: 18 flags expected");
    let b i = VBool (s.[i] = '1') in
    let v = VRec ([b 0; b 1; b 2; b 3; VNil] @ List.init 14 (fun i -> b (i + 4))) in
    opts_tree v
  end

let rec print_tree b t =
  match t with
  | RT (name, scal, kids) ->
    Buffer.add_string b ("{" ^ Convstr.ocaml_string name);
    let scal = List.map (fun (k, v) ->
        (Convstr.ocaml_string k,
         match v with VS s -> "S:" ^ hex_of_bytes s | VI z -> "I:" ^ Convz.string_of_z z)) scal in
    let scal = List.stable_sort (fun (a, _) (c, _) -> compare a c) scal in
    List.iter (fun (k, v) -> Buffer.add_string b (" " ^ k ^ "=" ^ v)) scal;
    Buffer.add_string b " |";
    let kids = List.map (fun (k, ns) -> (Convstr.ocaml_string k, ns)) kids in
    let kids = List.stable_sort (fun (a, _) (c, _) -> compare a c) kids in
    List.iter (fun (k, ns) ->
        Buffer.add_string b (" " ^ k ^ ":[");
        List.iter (print_tree b) ns;
        Buffer.add_string b "]") kids;
    Buffer.add_string b "}"

let () =
  if Sys.argv.(1) = "hidden" then begin
    let same (a, b) (c, d) = Convstr.ocaml_string a = Convstr.ocaml_string c && Convstr.ocaml_string b = Convstr.ocaml_string d in
    List.iter (fun p ->
        if not (List.exists (same p) written_fields) then
          print_endline (Convstr.ocaml_string (fst p) ^ " " ^ Convstr.ocaml_string (snd p))) hid_fields
  end else
    iter_lines Sys.argv.(1) (fun line ->
      try
        match split_ws line with
        | "P" :: passed :: hv :: rest ->
          let (j, _) = parse_json rest in
          (match from_json_run (hv = "1") (passed_of passed) j with
           | POk f | PInvalid f ->
             let b = Buffer.create 4096 in
             Buffer.add_string b "OK ";
             print_tree b f;
             Buffer.add_string b (" TEXT " ^ hex_of_bytes (write_cur f));
             print_endline (Buffer.contents b)
           | PErr stage ->
             let s = Convstr.ocaml_string stage in
             if Stdlib.String.length s >= 10 && Stdlib.String.sub s 0 10 = "unmodelled" then print_endline "UNMODELLED"
             else print_endline "ERR")
        | "R" :: passed :: hv :: verdict :: rest ->
          (* the round-trip theorem predicts "eq" wherever its conditions hold; elsewhere it says nothing *)
          let (v, _) = parse_val rest in
          incr n_asked;
          if ready_run (hv = "1") (passed_of passed) v then (incr n_ready; print_endline "eq")
          else print_endline verdict
        | "W" :: rest ->
          let (v, _) = parse_val rest in
          print_endline (hex_of_bytes (write_cur (tree_of_file v)))
        | _ -> print_endline "?"
      with Bad m -> print_endline ("bad: " ^ m));
  if Array.length Sys.argv > 2 then begin
    let oc = open_out Sys.argv.(2) in
    Printf.fprintf oc "{\"roundtrip_conditions_hold\": %d, \"files\": %d}\n" !n_ready !n_asked;
    close_out oc
  end

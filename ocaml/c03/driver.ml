(* C03/C04 driver: runs the extracted control-arithmetic model on the harness's cases.
   Case syntax (space separated, byte strings hex, "-" = empty):
     B <batch>                 -> rule count_ok asc_ok amount_ok hash_ok todfi_ok credit debit hash
     F bc cnt hash deb cred nb <batch>*nb ni <batch>*ni   -> validate_file read_validate
     D <hex>  check digit      R <n> roundUp10      L <v> <d> leastSignificantDigits
     A <hex>  aba8             C <code> CreditOrDebit
   <batch> = kind class odfi number  c_class c_count c_hash c_debit c_credit c_odfi c_number  n
             (code amount rdfi check trace addenda)*n *)
open Model
open Conv
open Convz

let t = gen_tables

let kind_of = function "0" -> KStd | "1" -> KIAT | _ -> KADV

let rec take_entries n toks acc =
  if n = 0 then (List.rev acc, toks)
  else match toks with
    | code :: amt :: rdfi :: chk :: tr :: add :: rest ->
      let e = { en_code = z_of_string code; en_amount = z_of_string amt; en_rdfi = bytes_of_hex rdfi;
                en_check = bytes_of_hex chk; en_trace = bytes_of_hex tr; en_addenda = z_of_string add } in
      take_entries (n - 1) rest (e :: acc)
    | _ -> failwith "entry"

let take_batch toks =
  match toks with
  | k :: cls :: odfi :: num :: cc :: ccount :: chash :: cdeb :: ccred :: codfi :: cnum :: n :: rest ->
    let es, rest' = take_entries (int_of_string n) rest [] in
    let c = { bc_class = z_of_string cc; bc_count = z_of_string ccount; bc_hash = z_of_string chash;
              bc_debit = z_of_string cdeb; bc_credit = z_of_string ccred; bc_odfi = bytes_of_hex codfi;
              bc_number = z_of_string cnum } in
    ({ bt_kind = kind_of k; bt_class = z_of_string cls; bt_odfi = bytes_of_hex odfi; bt_number = z_of_string num;
       bt_entries = es; bt_ctl = c }, rest')
  | _ -> failwith "batch"

let rec take_batches n toks acc =
  if n = 0 then (List.rev acc, toks)
  else let b, rest = take_batch toks in take_batches (n - 1) rest (b :: acc)

let b2s b = if b then "1" else "0"
let zeq a b = string_of_z a = string_of_z b

let () =
  let path = Sys.argv.(1) in
  iter_lines path (fun line ->
    try
      match split_ws line with
      | "B" :: rest ->
        let b, _ = take_batch rest in
        let k = b.bt_kind and es = b.bt_entries and c = b.bt_ctl in
        let credit = calc_credit t k es and debit = calc_debit t k es and hash = calc_hash t es in
        let asc = match k with KADV -> true | _ -> ascending (ascending_init k) es in
        Printf.printf "%s %s %s %s %s %s %s %s %s\n"
          (string_of_z (rule_code (validate_batch t b)))
          (b2s (zeq (calc_count es) c.bc_count)) (b2s asc)
          (b2s (zeq debit c.bc_debit && zeq credit c.bc_credit)) (b2s (zeq hash c.bc_hash))
          (b2s (trace_odfi_ok k b)) (string_of_z credit) (string_of_z debit) (string_of_z hash)
      | "F" :: bc :: cnt :: hash :: deb :: cred :: nb :: rest ->
        let bs, rest1 = take_batches (int_of_string nb) rest [] in
        (match rest1 with
         | ni :: rest2 ->
           let ibs, _ = take_batches (int_of_string ni) rest2 [] in
           let f = { fl_batches = bs; fl_iat = ibs;
                     fl_ctl = { fc_batches = z_of_string bc; fc_count = z_of_string cnt; fc_hash = z_of_string hash;
                                fc_debit = z_of_string deb; fc_credit = z_of_string cred } } in
           Printf.printf "%s %s\n" (string_of_z (rule_code (validate_file t f))) (string_of_z (rule_code (read_validate t f)))
         | _ -> print_endline "?")
      | ["D"; h] -> print_endline (string_of_z (calc_check_digit (bytes_of_hex h)))
      | ["R"; n] -> print_endline (string_of_z (roundUp10 (z_of_string n)))
      | ["L"; v; d] -> print_endline (string_of_z (least_sig (z_of_string v) (z_of_string d)))
      | ["A"; h] -> print_endline (hex_of_bytes (aba8 (bytes_of_hex h)))
      | ["C"; c] -> print_endline (string_of_z (credit_or_debit (z_of_string c)))
      | _ -> print_endline "?"
    with _ -> print_endline "!")

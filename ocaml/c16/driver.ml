(* C16 driver: runs the extracted I/O model on the harness's cases.
   F <le> <header> <control> <body...>   -> full <hex of the complete output>
   W <kind> <transient> <k>              -> <write> <flush> <bytes at sink> <sink calls> p<sink content is a prefix>
   T <text>                              -> text <len>
   R <kind> <k> <chunk> <healthy class of text[:k]> <healthy class of the empty input>
                                         -> ok | inj | other   (class of Read's error) *)
open Model
open Conv

let recs = ref []
let le = ref []
let full = ref []
let text = ref []

let werr_s = function None -> "ok" | Some EInj -> "inj" | Some EShort -> "short" | Some EFuel -> "fuel"

let rec is_prefix p l =
  match p, l with
  | [], _ -> true
  | x :: p', y :: l' -> x = y && is_prefix p' l'
  | _ :: _, [] -> false

let kind_of = function
  | "hard" -> Hard | "short" -> Short | "shortnil" -> ShortNil | "full" -> FullErr
  | _ -> failwith "kind"

let () =
  let path = Sys.argv.(1) in
  iter_lines path (fun line ->
    match split_ws line with
    | "F" :: l :: h :: c :: body ->
        le := bytes_of_hex l;
        recs := ((THdr, bytes_of_hex h) :: List.map (fun b -> (TBody, bytes_of_hex b)) body) @ [(TCtl, bytes_of_hex c)];
        full := full_output !le !recs;
        print_endline ("full " ^ hex_of_bytes !full)
    | ["W"; kind; tr; k] ->
        let f = { f_k = n_of_int (int_of_string k); f_kind = kind_of kind; f_transient = (tr = "1") } in
        let r = writer_run current_wpolicy !le !recs (Some f) in
        let got = r.wr_sink.s_got in
        Printf.printf "%s %s %d %d p%d\n" (werr_s r.wr_write) (werr_s r.wr_flush) (List.length got)
          (int_of_n r.wr_sink.s_calls) (if is_prefix got !full then 1 else 0)
    | ["T"; h] ->
        text := bytes_of_hex h;
        Printf.printf "text %d\n" (List.length !text)
    | ["R"; kind; k; chunk; hc; hc0] ->
        let e = if kind = "ueof" then RUnexpectedEOF else RInj in
        let k = int_of_string k in
        let src = failing_source !text (nat_of_int k) (nat_of_int (int_of_string chunk)) e in
        (match reader_run current_rpolicy src with
         | RCtorErr -> print_endline "other"
         | RScanErr RInj -> print_endline "inj"
         | RScanErr RUnexpectedEOF -> print_endline "other"
         | RParsed d ->
             (* no I/O error surfaces: Read behaves as on a healthy input made of d *)
             if List.length d = k then print_endline hc
             else if d = [] then print_endline hc0
             else Printf.printf "parsed-%d-bytes-not-%d\n" (List.length d) k)
    | _ -> print_endline "?")

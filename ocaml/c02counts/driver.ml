(* C02 counts driver: rebuilds the typed file tree from the harness's record-by-record
   dump of a real ach.File, runs the extracted [observe] (the model's writer over the
   regenerated layouts, the physical and declared quantities, the hypotheses of
   C02_create_counts) and prints one canonical line per case. *)
open Model
open Conv
open Convz
open Convstr

(* "name=s:<hex>" / "name=i:<n>" *)
let parse_field tok =
  let i = String.index tok '=' in
  let name = String.sub tok 0 i in
  let kind = tok.[i + 1] in
  let rest = String.sub tok (i + 3) (String.length tok - i - 3) in
  if kind = 'i' then (coq_string name, VI (z_of_string rest)) else (coq_string name, VS (bytes_of_hex rest))

let parse_rec kind fields =
  let fs = if fields = "-" then [] else List.map parse_field (String.split_on_char ',' fields) in
  { r_kind = coq_string kind; r_val = fs }

type bacc = { mutable hdr : recordR option; mutable ents : entryR list; mutable ctl : recordR option; iat : bool }

let b01 b = if b then "1" else "0"

let () =
  let fhdr = ref None and fctl = ref None in
  let std = ref [] and iat = ref [] in
  let cur : bacc option ref = ref None in
  let dummy = { r_kind = coq_string "?"; r_val = [] } in
  let close () =
    (match !cur with
     | Some b ->
       let bt = { bt_hdr = (match b.hdr with Some h -> h | None -> dummy); bt_entries = List.rev b.ents;
                  bt_ctl = (match b.ctl with Some c -> c | None -> dummy) } in
       if b.iat then iat := bt :: !iat else std := bt :: !std
     | None -> ());
    cur := None in
  let reset () = fhdr := None; fctl := None; std := []; iat := []; cur := None in
  iter_lines Sys.argv.(1) (fun line ->
    match split_ws line with
    | ["CASE"] -> reset ()
    | ["B"] -> close (); cur := Some { hdr = None; ents = []; ctl = None; iat = false }
    | ["I"] -> close (); cur := Some { hdr = None; ents = []; ctl = None; iat = true }
    | [role; kind; fields] ->
      let x = parse_rec kind fields in
      (match role, !cur with
       | "H", _ -> fhdr := Some x
       | "F", _ -> close (); fctl := Some x
       | "h", Some b -> b.hdr <- Some x
       | "c", Some b -> b.ctl <- Some x
       | "e", Some b -> b.ents <- { en_rec = x; en_addenda = [] } :: b.ents
       | "a", Some b ->
         (match b.ents with
          | e :: rest -> b.ents <- { en_rec = e.en_rec; en_addenda = e.en_addenda @ [x] } :: rest
          | [] -> ())
       | _ -> ())
    | ["END"] ->
      close ();
      let f = { fl_hdr = (match !fhdr with Some h -> h | None -> dummy); fl_batches = List.rev !std;
                fl_iat = List.rev !iat; fl_ctl = (match !fctl with Some c -> c | None -> dummy) } in
      let o = observe all_layouts f in
      let segs = String.concat "," (List.map (fun (n, z) -> Printf.sprintf "%d:%s" (int_of_nat n) (string_of_z z)) o.ob_segments) in
      let ((a, b), c) = o.ob_fc in
      let retab = match o.ob_retab with
        | None -> "refused"
        | Some (bs, ((x, y), z)) ->
          Printf.sprintf "[%s]%s/%s/%s" (String.concat "," (List.map string_of_z bs)) (string_of_z x) (string_of_z y) (string_of_z z) in
      Printf.printf "lines=%d records=%d n5=%d n67=%d segs=[%s] fc=%s/%s/%s tab=%s fit=%s shape=%s bounds=%s noiat=%s recreate=%s\n"
        (int_of_nat o.ob_lines) (int_of_nat o.ob_records) (int_of_nat o.ob_n5) (int_of_nat o.ob_n67) segs
        (string_of_z a) (string_of_z b) (string_of_z c)
        (b01 o.ob_tab) (b01 o.ob_fit) (b01 o.ob_shape) (b01 o.ob_bounds) (b01 o.ob_noiat) retab
    | _ -> ())

"""C03 — files that pass validation satisfy the NACHA control arithmetic."""
import os

import common as C

PROP_FILES = ["Props/C03.v", "Props/C03General.v"]
OBLIG_FILES = ["Oblig/C03Obl.v", "Model/ArithFacts.v", "Model/ArithTable.v",
               "Oblig/C03GenObl.v", "Model/ArithGenFacts.v"]


def build(ctx, props=PROP_FILES, obligs=OBLIG_FILES):
    ok, out = C.translate()
    ctx.log("translate", out)
    if not ok:
        ctx.diag.append("translator failed: " + out[-300:])
    C.prove(ctx, props, obligs)
    ok, out = C.build_harness()
    ctx.log("go build", out)
    if not ok:
        ctx.diag.append("harness does not build against the repository: " + out[-600:])
        return False
    ok, out = C.build_ocaml("c03")
    ctx.log("ocaml", out[-3000:])
    if not ok:
        ctx.diag.append("extracted model does not build: " + out[-600:])
    return True


def normalise_other(model_path, impl_path):
    """A case on which the implementation stops at a check the model does not cover (rule 99)
    cannot be compared on the rule; blank the rule token on both sides and count them."""
    try:
        m = open(model_path).read().splitlines()
        i = open(impl_path).read().splitlines()
    except OSError:
        return 0
    n = 0
    for k in range(min(len(m), len(i))):
        it = i[k].split(" ")
        mt = m[k].split(" ")
        changed = False
        for col in range(min(2, len(it), len(mt))):
            if it[col] == "99" and (len(it) == 2 or col == 0):
                it[col] = mt[col] = "other"
                changed = True
        if changed:
            n += 1
            i[k] = " ".join(it)
            m[k] = " ".join(mt)
    open(model_path, "w").write("\n".join(m) + "\n")
    open(impl_path, "w").write("\n".join(i) + "\n")
    return n


def correspondence(ctx, binary, label, sub, extra):
    d = os.path.join(ctx.rundir, sub)
    os.makedirs(d, exist_ok=True)
    rc, out = C.sh([os.path.join(C.BIN, binary), "corr", "-out", d] + extra, timeout=3000)
    ctx.log("corr " + sub, out[-1500:])
    drv = os.path.join(C.BUILD, "ocaml", "c03", "driver")
    if rc != 0 or not os.path.exists(drv):
        ctx.diag.append("correspondence could not run: " + out[-300:])
        return
    mp, ip, cp = os.path.join(d, "model.txt"), os.path.join(d, "impl.txt"), os.path.join(d, "cases.txt")
    rc2, out2 = C.sh("%s %s > %s" % (drv, cp, mp), timeout=3000)
    if rc2 != 0:
        ctx.diag.append("extracted model crashed: " + out2[-300:])
    other = normalise_other(mp, ip)
    n = ctx.compare(label, mp, ip, cp)
    ctx.cov.setdefault("correspondence", {}).setdefault(label, {})["rule_not_modelled"] = other
    try:
        kinds = {}
        for line in open(cp):
            kinds[line[:1]] = kinds.get(line[:1], 0) + 1
        ctx.cov["correspondence"][label]["by_kind"] = kinds
    except OSError:
        pass
    return n


def general_correspondence(ctx):
    """The GENERAL statements of Props/C03General.v (coq/Model/ArithGen.v, extracted): the declarative
    general totals (units digit / ADV codes 81..88 / codes of the other family in neither total) and
    the general hash (sum of atoi(aba8 RDFI) rem 10^10, closed form on digit strings, number in the
    written 8 column field) against calculateBatchAmounts / calculateADVBatchAmounts /
    IATBatch.calculateBatchAmounts / calculateEntryHash / aba8 / RDFIIdentificationField on batches
    re-coded with arbitrary accepted transaction codes and arbitrary routing strings."""
    ok, out = C.build_ocaml("c03x")
    ctx.log("ocaml c03x", out[-3000:])
    if not ok:
        ctx.diag.append("extracted general C03 specification does not build: " + out[-600:])
        return
    d = os.path.join(ctx.rundir, "corrgen")
    os.makedirs(d, exist_ok=True)
    rc, out = C.sh([os.path.join(C.BIN, "c03x"), "corr", "-out", d, "-files", str(ctx.scale(75, 600)),
                    "-rounds", str(ctx.scale(6, 12)), "-strings", str(ctx.scale(4000, 100000))], timeout=3000)
    ctx.log("corr general", out[-2500:])
    drv = os.path.join(C.BUILD, "ocaml", "c03x", "driver")
    if rc != 0 or not os.path.exists(drv):
        ctx.diag.append("general correspondence could not run: " + out[-300:])
        return
    mp, ip, cp = os.path.join(d, "model.txt"), os.path.join(d, "impl.txt"), os.path.join(d, "cases.txt")
    rc2, out2 = C.sh("%s %s > %s" % (drv, cp, mp), timeout=3000)
    if rc2 != 0:
        ctx.diag.append("extracted general specification crashed: " + out2[-300:])
    label = "general totals/hash spec vs calculate*"
    ctx.compare(label, mp, ip, cp)
    try:
        dist = {}
        for line in out.splitlines():
            if ": " in line:
                k, v = line.rsplit(": ", 1)
                dist[k] = int(v)
        ctx.cov["correspondence"][label]["distribution"] = dist
    except (ValueError, KeyError):
        pass


def oracle(ctx, files, perturb, sub="oracle"):
    d = os.path.join(ctx.rundir, sub)
    os.makedirs(d, exist_ok=True)
    rc, out = C.sh([os.path.join(C.BIN, "c03"), "oracle", "-out", d, "-files", str(files), "-perturb", str(perturb),
                    "-corpus", os.path.join(C.VERIF, "corpus", "C03")], timeout=3000)
    ctx.log("oracle", out[-2000:])
    if rc != 0:
        ctx.diag.append("oracle crashed rc=%d: %s" % (rc, out[-300:]))
    before = len(ctx.fails)
    summ = ctx.read_jsonl(os.path.join(d, "oracle.jsonl"))
    for f in ctx.fails[before:]:
        f["input"] = f.get("case")
    return summ


def search(ctx, factor):
    before = len(ctx.fails)
    oracle(ctx, ctx.scale(100, 1000) * factor, 40, "search")
    found = ctx.fails[before:]
    del ctx.fails[before:]
    return found


def run(ctx):
    ctx.search = search
    ctx.trusted += ["tables emitter translator/tables.go (go/ast: case lists, const resolution, failing-check list with enclosing conditions)",
                    "verif build-tag hook verif_export_c03.go (exports the unexported checks unchanged)",
                    "harness classification of Go errors into the model's rule enum (field name + error type) and the skeleton extraction in harness/internal/arith"]
    ctx.assumptions += ["only the integrity-protected fields are modelled; every other validation rule (field inclusion, character sets, SEC specific addenda rules, categories) is outside the model: cases where the implementation stops at such a rule are compared on accept/reject of the individual checks only (counted as rule_not_modelled)",
                        "default ValidateOpts (nil); option-relaxed validation is out of scope of C03",
                        "general statements (Props/C03General.v): hash = sum of atoi(aba8 RDFI) rem 10^10 for all stored strings and totals for all code mixes are unconditional; the equation with the WRITTEN 8 column field needs 8 or 9 stored digits (known finding entry-hash:rdfi-not-8-chars otherwise) and the declarative totals need batches without foreign accounting codes (known finding; the foreign amount is in neither total)",
                        "File.Validate() on an in-memory file does not re-validate IAT batches and ADV batches (known findings); the theorem for every batch kind is stated for read_validate = what Reader.Read + Validate enforce"]
    if not build(ctx):
        return
    correspondence(ctx, "c03", "validate/checks/primitives", "corr",
                   ["-files", str(ctx.scale(150, 1500)), "-perturb", str(ctx.scale(30, 60)), "-cd", str(ctx.scale(100000, 10000000))])
    general_correspondence(ctx)
    summ = oracle(ctx, ctx.scale(150, 2000), ctx.scale(40, 80))
    ctx.add_summary(summ, "accepted => arithmetic oracle")
    if ctx.tier == "thorough":
        ctx.cov["forbidden_vernacular"] = C.forbidden_vernacular()


def replay(path):
    ok, out = C.build_harness()
    if not ok:
        print(out[-2000:])
        return 1
    rc, out = C.sh([os.path.join(C.BIN, "c03"), "replay", path], timeout=600)
    print(out)
    return 1 if rc != 0 else 0

"""C18 — The file repository is linearizable under concurrent clients."""
import json
import os
import re

import common as C

PROPS = ["Props/C18.v"]
OBLIG = ["Oblig/C18Obl.v", "Proto/RWLockFacts.v", "Proto/RepoFacts.v"]
CORPUS = os.path.join(C.VERIF, "corpus", "C18")
RACE_BIN = os.path.join(C.BUILD, "bin-race")

REPO_FRAME = re.compile(r"server\.\(\*repositoryInMemory\)\.(\w+)")
ANY_FRAME = re.compile(r"^\s+([\w./*()\-]+)\(\)\s*$", re.M)


def build(ctx):
    ok, out = C.translate()
    ctx.log("translate", out)
    if not ok:
        ctx.diag.append("translator failed: " + out[-300:])
    C.prove(ctx, PROPS, OBLIG)
    ok, out = C.build_harness()
    ctx.log("go build", out)
    if not ok:
        ctx.diag.append("harness does not build against the repository: " + out[-600:])
        return False
    ok, out = C.build_harness(race=True)
    ctx.log("go build -race", out)
    ctx.race = ok
    if not ok:
        ctx.diag.append("race-enabled harness does not build: " + out[-600:])
    ok, out = C.build_ocaml("c18")
    ctx.log("ocaml", out[-3000:])
    if not ok:
        ctx.diag.append("extracted model does not build: " + out[-600:])
    return True


def race_failures(out, args):
    """Turn the race detector's / runtime's reports in the harness output into failure records."""
    fails = []
    case = {"mode": "rerun", "binary": "race", "args": args}
    for rep in out.split("WARNING: DATA RACE")[1:]:
        rep = rep.split("==================")[0]
        m = REPO_FRAME.search(rep)
        if m:
            fn = m.group(1)
        else:
            m2 = ANY_FRAME.search(rep)
            fn = m2.group(1) if m2 else "unknown"
        fails.append({"kind": "fail", "key": "race:" + fn,
                      "what": "data race reported by the Go race detector: " + " ".join(rep.split())[:700], "case": case})
    m = re.search(r"fatal error: (concurrent map[^\n]*)", out)
    if m:
        fn = REPO_FRAME.search(out[m.end():])
        fails.append({"kind": "fail", "key": "fatal:concurrent-map-access:" + (fn.group(1) if fn else "unknown"),
                      "what": "Go runtime aborted: " + m.group(1), "case": dict(case, binary=case["binary"])})
    # one record per key is enough
    seen, uniq = set(), []
    for f in fails:
        if f["key"] not in seen:
            seen.add(f["key"])
            uniq.append(f)
    return uniq


def oracle(ctx, n, nseq, stress, sub, race=False):
    d = os.path.join(ctx.rundir, sub)
    os.makedirs(d, exist_ok=True)
    args = ["oracle", "-n", str(n), "-seq", str(nseq), "-stress", str(stress), "-corpus", CORPUS]
    binary = os.path.join(RACE_BIN if race else C.BIN, "c18")
    rc, out = C.sh([binary] + args + ["-out", d], timeout=3000, extra_env={"GORACE": "halt_on_error=0 exitcode=0"})
    ctx.log("oracle" + (" -race" if race else ""), out[-3000:])
    before = len(ctx.fails)
    extra = race_failures(out, args)
    for f in extra:
        f["case"]["binary"] = "race" if race else "plain"
    ctx.fails.extend(extra)
    if rc != 0 and not extra:
        ctx.diag.append("oracle crashed rc=%d: %s" % (rc, out[-400:]))
    summ = ctx.read_jsonl(os.path.join(d, "oracle.jsonl")) if os.path.exists(os.path.join(d, "oracle.jsonl")) else None
    for f in ctx.fails[before:]:
        f["input"] = f.get("case")
    return summ


def search(ctx, factor):
    before = len(ctx.fails)
    oracle(ctx, ctx.scale(1500, 6000) * factor, ctx.scale(2000, 20000) * factor, ctx.scale(10, 40) * factor, "search")
    if getattr(ctx, "race", False):
        oracle(ctx, ctx.scale(500, 3000) * factor, 0, ctx.scale(10, 40) * factor, "search-race", race=True)
    found = ctx.fails[before:]
    del ctx.fails[before:]
    return found


def corr(ctx, label, maxlen, alphabet):
    d = os.path.join(ctx.rundir, "corr-" + alphabet)
    os.makedirs(d, exist_ok=True)
    rc, out = C.sh([os.path.join(C.BIN, "c18"), "corr", "-out", d, "-maxlen", str(maxlen), "-alphabet", alphabet], timeout=3000)
    ctx.log("corr " + alphabet, out[-1000:])
    drv = os.path.join(C.BUILD, "ocaml", "c18", "driver")
    if rc != 0 or not os.path.exists(drv):
        ctx.diag.append("correspondence could not run: " + out[-300:])
        return
    cases, model = os.path.join(d, "cases.txt"), os.path.join(d, "model.txt")
    rc2, out2 = C.sh("%s %s > %s" % (drv, cases, model), timeout=3000)
    if rc2 != 0:
        ctx.diag.append("extracted model crashed: " + out2[-300:])
    ctx.compare("Repo.spec vs repositoryInMemory, %s" % label, model, os.path.join(d, "impl.txt"), cases)
    validated = ctx.cov.get("traces_validated_against_impl", 0)
    ctx.compare("Repo.spec vs porcupine model, %s" % label, model, os.path.join(d, "gospec.txt"), cases)
    ctx.cov["traces_validated_against_impl"] = validated  # the second comparison is model vs model, not vs the implementation


def run(ctx):
    ctx.search = search
    ctx.race = False
    ctx.trusted += [
        "lock-table analysis of the translator (translator/locks.go: syntactic — first call on r.mtx, deferred matching unlock, writes to r.files / values reached from it)",
        "verif build-tag hook server/verif_export_c18.go (calls cleanupOldFiles once; nothing else)",
        "porcupine v1.3.0 linearizability checker and the Go race detector (oracle side only)",
        "the Go transcription of the sequential specification used as porcupine model (compared line by line with the extracted Repo.spec on every run)",
    ]
    ctx.assumptions += [
        "accesses made while holding sync.RWMutex are sequentially consistent and Lock/RLock exclude each other as in the machine of Proto/RWLock.v (Go memory model contract, not derived)",
        "a micro-step of the model (one map lookup / assignment / delete / slice scan / append) is atomic; under the proved discipline the granularity is irrelevant, it only matters for the violating-schedule witnesses",
        "clients pass a fresh *ach.File to StoreFile and do not mutate stored objects behind the repository's back; StoreFile(nil) (rejected before the lock) is not modelled",
        "'no operation races' is established by the lock table plus the race detector on the explored executions, not derived from the Go memory model",
    ]
    if not build(ctx):
        return
    # correspondence: every sequential op sequence over 2 files x 2 batches
    corr(ctx, "all sequences <= %d, 24 op instances incl. TTL sweep" % ctx.scale(4, 4), ctx.scale(4, 4), "full")
    if ctx.tier == "thorough":
        corr(ctx, "all sequences <= 5, 21 op instances", 5, "core")
    ctx.cov["exhaustive"] = True
    ctx.cov["exhaustive_sequence_length"] = ctx.scale(4, 5)
    summ = oracle(ctx, ctx.scale(1500, 6000), ctx.scale(2000, 20000), ctx.scale(10, 40), "oracle")
    ctx.add_summary(summ, "repository oracle")
    if summ:
        ctx.cov["executions"] = summ.get("executions", 0)
        ctx.cov["overlapped_executions"] = summ.get("overlapped_executions", 0)
    if ctx.race:
        summ = oracle(ctx, ctx.scale(500, 3000), 0, ctx.scale(10, 40), "oracle-race", race=True)
        ctx.add_summary(summ, "repository oracle under -race")
        if summ:
            ctx.cov["race_executions"] = summ.get("executions", 0)
    if ctx.tier == "thorough":
        ctx.cov["forbidden_vernacular"] = C.forbidden_vernacular()


def replay(path):
    ok, out = C.build_harness()
    if not ok:
        print(out[-2000:])
        return 1
    try:
        d = json.load(open(path))
    except (OSError, ValueError) as ex:
        print("cannot read %s: %s" % (path, ex))
        return 1
    case = d.get("input") or {}
    if case.get("mode") == "rerun":
        binary = os.path.join(C.BIN, "c18")
        if case.get("binary") == "race":
            ok, out = C.build_harness(race=True)
            if not ok:
                print(out[-2000:])
                return 1
            binary = os.path.join(RACE_BIN, "c18")
        tmp = os.path.join(C.BUILD, "run", "c18-replay")
        os.makedirs(tmp, exist_ok=True)
        rc, out = C.sh([binary] + list(case.get("args", [])) + ["-out", tmp], timeout=3000,
                       extra_env={"GORACE": "halt_on_error=0 exitcode=0"})
        found = race_failures(out, [])
        fails = [json.loads(l) for l in open(os.path.join(tmp, "oracle.jsonl")) if '"kind":"fail"' in l] if os.path.exists(os.path.join(tmp, "oracle.jsonl")) else []
        for f in found + fails:
            print("REPRODUCED %s: %s" % (f["key"], f["what"][:600]))
        if found or fails or rc != 0:
            return 1
        print("not reproduced on this tree")
        return 0
    rc, out = C.sh([os.path.join(C.BIN, "c18"), "replay", path], timeout=1200)
    print(out)
    return 1 if rc != 0 else 0

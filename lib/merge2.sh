#!/bin/bash
# merge an agent branch into /verif main and cherry-pick its /repo commits; resolves the recurring extraction-artifact conflict
x=$1
cd /verif
git merge --no-edit $x 2>&1 | tail -2
if git status --short | grep -q "^DU coq/model\|^UD coq/model"; then git rm -q coq/model.ml 2>/dev/null; git rm -q coq/model.mli 2>/dev/null; rm -f coq/model.ml coq/model.mli; fi
for f in hooks.txt MANIFEST.json evidence/C*.json; do if git status --short | grep -q "^UU $f"; then git checkout --ours $f; git add $f; fi; done
if git status --short | grep -q "^U\|^AA\|^DU\|^UD"; then echo "UNRESOLVED:"; git status --short | grep "^U\|^AA\|^DU\|^UD"; exit 1; fi
git commit -qm "Merge branch '$x'" 2>/dev/null
cd /repo
for c in $(git rev-list --reverse --no-merges main..verif-$x 2>/dev/null); do
  msg=$(git log --format=%s -1 $c)
  if git log main --format=%s | grep -qxF "$msg"; then continue; fi
  old=$(git log --format=%h -1 $c)
  if git cherry-pick $c >/dev/null 2>&1; then new=$(git log --format=%h -1); echo "picked $old -> $new $msg"; sed -i "s/ $old / $new /" /verif/known-findings.jsonl; else echo "CHERRY-PICK CONFLICT $old $msg"; git cherry-pick --abort; fi
done
cd /verif

"""C17 — The HTTP server is a faithful store: what goes in comes out."""
import json
import os
import re

import common as C
import optsdom


def build(ctx):
    ok, out = C.translate()
    ctx.log("translate", out)
    if not ok:
        ctx.diag.append("translator failed: " + out[-300:])
    C.prove(ctx, ["Props/C17.v", "Props/C17Lib.v", "Props/C17Share.v"],
            ["Oblig/C17Obl.v", "Proto/ServerFacts.v", "Model/RouteTable.v", "Oblig/C17LibObl.v", "Proto/ServerLibFacts.v",
             "Oblig/C17ShareObl.v", "Proto/ServerShareFacts.v", "Proto/ServerShareStable.v", "Proto/ServerShareDerived.v",
             "Model/ShareTable.v"])
    ok, out = C.build_harness()
    ctx.log("go build", out)
    if not ok:
        ctx.diag.append("harness does not build against the repository: " + out[-600:])
        return False
    ok, out = C.build_ocaml("c17")
    ctx.log("ocaml", out[-3000:])
    if not ok:
        ctx.diag.append("extracted model does not build: " + out[-600:])
    ok, out = C.build_ocaml("c17lib")
    ctx.log("ocaml c17lib", out[-3000:])
    if not ok:
        ctx.diag.append("extracted library interpretation (ServerLib) does not build: " + out[-600:])
    ok, out = C.build_ocaml("c17share")
    ctx.log("ocaml c17share", out[-3000:])
    if not ok:
        ctx.diag.append("extracted pointer-graph store (ServerShare) does not build: " + out[-600:])
    return True


def corpus():
    return os.path.join(C.VERIF, "corpus", "C17")


def oracle(ctx, n, sub="oracle"):
    d = os.path.join(ctx.rundir, sub)
    os.makedirs(d, exist_ok=True)
    rc, out = C.sh([os.path.join(C.BIN, "c17"), "oracle", "-out", d, "-n", str(n), "-corpus", corpus()], timeout=3000)
    ctx.log(sub, out[-2000:])
    if rc != 0:
        ctx.diag.append("oracle crashed rc=%d: %s" % (rc, out[-300:]))
    before = len(ctx.fails)
    summ = ctx.read_jsonl(os.path.join(d, "oracle.jsonl"))
    for f in ctx.fails[before:]:
        f["input"] = f.get("case")
    return summ


def lib_oracle(ctx, n, sub="lib"):
    """phase 2: the discharged library claims asked of the code — every stored object photographed
    (JSON tree + record lines) before and after every request, per request class"""
    d = os.path.join(ctx.rundir, sub)
    os.makedirs(d, exist_ok=True)
    rc, out = C.sh([os.path.join(C.BIN, "c17"), "lib", "-out", d, "-n", str(n), "-corpus", corpus()], timeout=3000)
    ctx.log(sub, out[-2000:])
    if rc != 0:
        ctx.diag.append("stored-object check crashed rc=%d: %s" % (rc, out[-300:]))
    before = len(ctx.fails)
    summ = ctx.read_jsonl(os.path.join(d, "lib.jsonl"))
    for f in ctx.fails[before:]:
        f["input"] = f.get("case")
    return summ


def lib_correspondence(ctx, n):
    """phase 2: extracted lcreate/lcontents/lbuild/lvalidate/lmarshal/lflatsrc/lsegsrc/lbal (ServerLib.v)
    against the service layer on the same object, projected onto the model's view"""
    d = os.path.join(ctx.rundir, "libcorr")
    os.makedirs(d, exist_ok=True)
    rc, out = C.sh([os.path.join(C.BIN, "c17"), "libcorr", "-out", d, "-n", str(n)], timeout=3000)
    ctx.log("libcorr", out[-1000:])
    drv = os.path.join(C.BUILD, "ocaml", "c17lib", "driver")
    if rc != 0 or not os.path.exists(drv):
        ctx.diag.append("library correspondence could not run: " + out[-300:])
        return
    rc, out = C.sh("%s %s > %s" % (drv, os.path.join(d, "libcases.txt"), os.path.join(d, "libmodel.txt")), timeout=3000)
    if rc != 0:
        ctx.diag.append("extracted library interpretation crashed: " + out[-300:])
        return
    ctx.compare("service layer on the stored object vs extracted ServerLib (C05/C14 views)",
                os.path.join(d, "libmodel.txt"), os.path.join(d, "libimpl.txt"), os.path.join(d, "libcases.txt"))
    try:
        ctx.cov["library_correspondence_classes"] = json.load(open(os.path.join(d, "libcorr.json")))["distribution"]
    except (OSError, ValueError, KeyError):
        pass


_STRIP = re.compile(r"(?<![\w])([FBE])\d+")


def _views(line):
    """impl / model observation line -> {id: view text without pointer names}"""
    parts = line.rstrip("\n").split("\t")
    out = {}
    if len(parts) < 2 or parts[1] == "-":
        return out
    for item in parts[1].split(" ; "):
        sym, _, rest = item.partition(" ")
        out[sym] = _STRIP.sub(r"\1", rest)
    return out


def share_correspondence(ctx, n, sub="share", compare=True):
    """phase 4: random histories that derive files and then operate on the derived ones and on their
    sources (no admissibility filter) through the real handler; after every request every stored
    file's modelled fields and the pointer graph below it (read off the real objects) against the
    extracted pointer-graph store of Proto/ServerShare.v; the hypotheses of Props/C17Share.v evaluated by the
    extracted model at every step and their conclusions asked of the implementation's observations;
    the statements asked of the implementation directly with real pointer identities (share.jsonl)"""
    d = os.path.join(ctx.rundir, sub)
    os.makedirs(d, exist_ok=True)
    exe = os.path.join(C.BIN, "c17")
    rc, out = C.sh([exe, "share", "-out", d, "-n", str(n), "-corpus", os.path.join(corpus(), "share")], timeout=3000)
    ctx.log(sub, out[-1000:])
    if rc != 0:
        ctx.diag.append("share correspondence crashed rc=%d: %s" % (rc, out[-300:]))
        return None
    before = len(ctx.fails)
    summ = ctx.read_jsonl(os.path.join(d, "share.jsonl"))
    for f in ctx.fails[before:]:
        f["input"] = f.get("case")
    if not compare:
        return summ
    drv = os.path.join(C.BUILD, "ocaml", "c17share", "driver")
    if not os.path.exists(drv):
        ctx.diag.append("share correspondence could not run: no extracted model")
        return summ
    cases, model, impl, checks = [os.path.join(d, x) for x in ("sharecases.txt", "sharemodel.txt", "shareimpl.txt", "sharechecks.txt")]
    rc, out = C.sh("%s %s %s > %s" % (drv, cases, checks, model), timeout=3000)
    if rc != 0:
        ctx.diag.append("extracted pointer-graph store crashed: " + out[-300:])
        return summ
    ctx.compare("httptest server (stored views + pointer graph after every request) vs extracted pointer-graph store",
                model, impl, cases)
    # the theorems' hypotheses, evaluated by the model, and their conclusions on the IMPLEMENTATION's lines
    stats = {"steps": 0, "read_of_stable_file_checked": 0, "reads_in_all_stable_state_checked": 0,
             "pure_request_checked": 0, "label_not_well_formed": 0, "target_stable": 0, "target_not_stable": 0,
             "states_all_stable": 0, "stored_file_observations": 0, "stored_file_observations_stable": 0,
             "files_stored_by_create": [0, 0], "files_stored_by_flatten_segment_balance": [0, 0],
             "flatten_stored_result": 0, "flatten_stored_result_label_wf_flat_result": 0}
    prev = {}
    for case, chk, obs in zip(open(cases), open(checks), open(impl)):
        if case.strip() == "S":
            prev = {}
            continue
        cur = _views(obs)
        f = dict(kv.split("=", 1) for kv in chk.split() if "=" in kv)
        stats["steps"] += 1
        if f.get("wf") == "0":
            stats["label_not_well_formed"] += 1
        if f.get("t") == "1":
            stats["target_stable"] += 1
        elif f.get("t") == "0":
            stats["target_not_stable"] += 1
        if f.get("all") == "1":
            stats["states_all_stable"] += 1
        if "/" in f.get("post", ""):
            a, b = f["post"].split("/")
            stats["stored_file_observations"] += int(b)
            stats["stored_file_observations_stable"] += int(a)
        if "/" in f.get("new", ""):
            a, b = f["new"].split("/")
            key = "files_stored_by_create" if case.startswith("CREATE") else "files_stored_by_flatten_segment_balance"
            stats[key][0] += int(a)      # stable
            stats[key][1] += int(b)      # stored
        if f.get("wfr") in ("0", "1"):
            stats["flatten_stored_result"] += 1
            stats["flatten_stored_result_label_wf_flat_result"] += int(f["wfr"])
            if f["wfr"] == "1" and f.get("new") not in ("1/1", "0/0"):
                ctx.diag.append("C17_flatten_result_stable: hypotheses hold, the stored file is not stable in the model: " + case.strip()[:200])
        same = all(cur.get(k) == v for k, v in prev.items())
        why = None
        if f.get("k") in ("pure", "none"):
            stats["pure_request_checked"] += 1
            if not same:
                why = "C17_pure_requests_change_nothing"
        if f.get("r") == "1" and f.get("wf") == "1" and f.get("t") == "1":
            stats["read_of_stable_file_checked"] += 1
            if not same:
                why = "C17_read_of_stable"
        if f.get("r") == "1" and f.get("wf") == "1" and f.get("all") == "1":
            stats["reads_in_all_stable_state_checked"] += 1
            if not same:
                why = "C17_stable_class_closed"
        if why:
            ctx.diag.append("%s: the hypotheses hold in the model's state, the implementation changed what a stored ID shows: %s" % (why, case.strip()[:300]))
        prev = cur
    ctx.cov["share_theorems_on_implementation"] = stats
    try:
        ctx.cov["share_histories"] = json.load(open(os.path.join(d, "share.json")))
    except (OSError, ValueError):
        pass
    return summ


def search(ctx, factor):
    before = len(ctx.fails)
    oracle(ctx, ctx.scale(1000, 4000) * factor, "search")
    lib_oracle(ctx, ctx.scale(300, 1500) * factor, "search-lib")
    share_correspondence(ctx, ctx.scale(150, 600) * factor, "search-share", compare=False)
    found = ctx.fails[before:]
    del ctx.fails[before:]
    return found


def correspondence(ctx, n):
    """real server -> labelled cases; extracted Coq machine -> response terms; terms evaluated
    with the real library on fresh copies -> expected observations; compared line by line."""
    d = os.path.join(ctx.rundir, "corr")
    os.makedirs(d, exist_ok=True)
    exe = os.path.join(C.BIN, "c17")
    rc, out = C.sh([exe, "corr", "-out", d, "-n", str(n), "-corpus", corpus()], timeout=3000)
    ctx.log("corr", out[-1000:])
    drv = os.path.join(C.BUILD, "ocaml", "c17", "driver")
    if rc != 0 or not os.path.exists(drv):
        ctx.diag.append("correspondence could not run: " + out[-300:])
        return
    rc, out = C.sh("%s %s > %s" % (drv, os.path.join(d, "cases.txt"), os.path.join(d, "model.txt")), timeout=3000)
    if rc != 0:
        ctx.diag.append("extracted model crashed: " + out[-300:])
        return
    rc, out = C.sh([exe, "eval", "-out", d], timeout=3000)
    ctx.log("eval", out[-1000:])
    if rc != 0:
        ctx.diag.append("term evaluation crashed: " + out[-300:])
        return
    ctx.compare("httptest server vs extracted machine evaluated with the library",
                os.path.join(d, "expect.txt"), os.path.join(d, "impl.txt"), os.path.join(d, "cases.txt"))
    # histories without a successful balance: pointer machine and term map must agree (C17_refines_map)
    agree = differ = skipped = 0
    balanced = False
    for case, line in zip(open(os.path.join(d, "cases.txt")), open(os.path.join(d, "model.txt"))):
        if case.strip() == "S":
            balanced = False
            continue
        if case.startswith("BALANCE") and case.rstrip().endswith(" 1"):
            balanced = True
        if line.rstrip("\n").endswith("\t="):
            agree += 1
        elif balanced:
            differ += 1
        else:
            ctx.diag.append("extracted pointer machine and term map differ on a history without balance: " + case.strip())
    for line in open(os.path.join(d, "expect.txt")):
        if line.startswith("skipped"):
            skipped += 1
    ctx.cov["pointer_machine_vs_term_map"] = {"equal_steps": agree, "differ_after_balance": differ}
    ctx.cov["steps_skipped_flatten_without_unique_answer"] = skipped


def run(ctx):
    ctx.search = search
    ctx.trusted += ["projection of an *ach.File onto the views of Proto/ServerLib.v and the label extraction by pointer identity (harness/cmd/c17/libcorr.go); the field classes File.Create / Batch.build are modelled to write (harness/cmd/c17/lib.go)",
                    "route/status table analysis of translator/routes.go (syntactic: the r.Methods(..).Path(..).Handler(httptransport.NewServer(..)) statements of MakeHTTPHandler, the switch of codeFrom, the last return of encodeTextResponse)",
                    "term evaluator of harness/cmd/c17 (replays the library calls a term names on a freshly parsed copy; re-implements the few statements of service.CreateBatch/BalanceFile and repository.DeleteBatch)",
                    "gorilla/mux routing, go-kit transport and encoding/json of responses are exercised through httptest, not modelled",
                    "phase 4: the projection of a stored *ach.File onto the views of Proto/ServerShare.v, the pointer identities (Batcher interface value / *IATBatchHeader / *EntryDetail) and the label extraction of harness/cmd/c17/share.go (by pointer, by content when no pointer matches); the syntactic object-flow analysis of translator/sharing.go"]
    ctx.assumptions += ["library outcomes (flatten/segment/balance succeeded, credit/debit half empty, batch id already present, batch body decodes, id read from a JSON body) enter the model as labels of the request; the theorems hold for every labelling and the correspondence run checks each label against the library on an independent copy",
                        "records shared between a derived file and its source are outside the term machine (Server.v) and the value machine (ServerLib.v): their generated histories send no flatten/segment/balance to such files, no batch edits to flatten relatives and no Create-running endpoint to a flatten source; phase 4 (Proto/ServerShare.v, Props/C17Share.v) models the pointer graph ID -> file object -> batch cells -> entry cells with every route's heap writes and its histories have no such filter",
                        "ServerShare's view of an entry is its trace number, of a batch header / control the fields File.Create, Batch.build and SegmentFile read or write; control records computed by a Batch.Create, offset entries of BalanceFile, grouping / split of entries and verdicts are labels read off the real objects; Addenda / ADV sequence numbers and nil batch headers are outside it (covered by `c17 lib`)",
                        "C17_unchanged_if_tabulated takes idempotence of File.Create on the stored value (C05) and purity of FlattenBatches/SegmentFile on a tabulated receiver (C14) as hypotheses; Props/C17Lib.v discharges them for the concrete interpretation of Proto/ServerLib.v (stored value = C05's Offsets.file x C14's Purity.file x ID x the validateOpts bits File.Create reads): Create idempotent and read-only calls pure for every value; FlattenBatches/SegmentFile leave the receiver alone only when its entries carry the batch ODFI (Batch.Create ran) and no mixed IAT batch is segmented — refuted otherwise (known findings)",
                        "ServerLib's views leave out Addenda05 / IAT addenda sequence numbers and ADVEntryDetail.SequenceNumber (rewritten through the same shared entry pointers) and the ADV controls: those are covered by the stored-object photographs of `c17 lib` only; library outcomes outside the views are labels, arbitrary in the theorems, measured on an independent copy / by pointer identity in the correspondence"]
    if not build(ctx):
        return
    correspondence(ctx, ctx.scale(1500, 15000))
    lib_correspondence(ctx, ctx.scale(2000, 30000))
    summ = oracle(ctx, ctx.scale(2500, 20000))
    ctx.add_summary(summ, "httptest server vs ideal map replayed with the library")
    lsum = lib_oracle(ctx, ctx.scale(700, 8000))
    ctx.add_summary(lsum, "stored objects before/after every request")
    ssum = share_correspondence(ctx, ctx.scale(220, 3000))
    ctx.add_summary(ssum, "requests on files that share records, real pointer graph")
    optsdom.run(ctx, "C17")
    if lsum:
        ctx.cov["stored_object_changes_by_request"] = lsum.get("changes", {})
        ctx.cov["stored_object_change_samples"] = lsum.get("change_samples", {})
    if summ and "pools" in summ:
        ctx.cov["pools"] = summ["pools"]
    if ctx.tier == "thorough":
        ctx.cov["forbidden_vernacular"] = [b for b in C.forbidden_vernacular() if "Server" in b or "Route" in b or "C17" in b]


def replay(path):
    if optsdom.is_case(path):
        return optsdom.replay(path)
    ok, out = C.build_harness()
    if not ok:
        print(out[-2000:])
        return 1
    rc, out = C.sh([os.path.join(C.BIN, "c17"), "replay", path], timeout=600)
    print(out)
    return 1 if rc != 0 else 0

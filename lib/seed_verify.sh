#!/bin/bash
# usage: seed_verify.sh <seed id, e.g. C01_a>   — confirms a seeded change independently and files it under /verif/seeded/<id>/
id=$1
dest=$2   # optional: directory (relative to the repo root) the top-level demo files belong to
out=/tmp/seedout_$id
prop=${id%%_*}
wt=/tmp/sv_$id
export GOFLAGS=-mod=mod GOPROXY=off GOSUMDB=off GOTOOLCHAIN=local
[ -f $out/patch.diff ] || { echo "no patch for $id"; exit 2; }
git -C /repo worktree remove --force $wt 2>/dev/null
git -C /repo worktree add --detach -q $wt main || exit 2
cd $wt
# place the demo files (directory structure under demo/ mirrors the repo; top-level files go to the repo root)
tgt() { f=$1; if [ -n "$dest" ] && [ "$(dirname $f)" = "." ]; then echo "$dest/$(basename $f)"; else echo "$f"; fi; }
place() { (cd $out/demo && find . -name '*.go' | while read f; do t=$(tgt $f); mkdir -p $wt/$(dirname $t); cp $f $wt/$t; done); }
unplace() { (cd $out/demo && find . -name '*.go' | while read f; do rm -f $wt/$(tgt $f); done); }
place
pkgs=$(cd $out/demo && find . -name '*.go' | while read f; do dirname $(tgt $f); done | sort -u | sed 's|^\./||; s|^\.$||' | while read d; do echo "./$d"; done | tr '\n' ' ')
run_demo() { go test $RACEFLAG -vet=off -count=1 -run 'Seed|seed' $pkgs 2>&1 | tail -15; return ${PIPESTATUS[0]}; }
echo "== demo on unchanged code (must pass)"; run_demo; r0=$?
if ! git apply --check $out/patch.diff 2>/dev/null; then echo "patch does not apply cleanly, trying 3-way"; fi
git apply --3way $out/patch.diff 2>&1 | tail -2 || { echo "PATCH FAILED"; }
echo "== demo with the change (must fail)"; run_demo; r1=$?
unplace
echo "== build + suite with the change"
go build ./... 2>&1 | grep -v "docs/webui\|^#" | head -5
go test -vet=off -count=1 ./... 2>&1 | grep -v "^ok\|no test files" | head -10; suite=${PIPESTATUS[0]}
cd /verif
verdict="rejected"
if [ $r0 -eq 0 ] && [ $r1 -ne 0 ] && [ $suite -eq 0 ]; then verdict="confirmed"; fi
echo "VERDICT $id: demo-unchanged-rc=$r0 demo-changed-rc=$r1 suite-rc=$suite -> $verdict"
if [ $verdict = confirmed ]; then
  d=/verif/seeded/$id; rm -rf $d; mkdir -p $d
  (cd $wt && git diff HEAD) > $d/patch.diff
  cp -r $out/demo $d/demo
  python3 - "$out/meta.json" "$d/meta.json" "$prop" <<'PY'
import json,sys
try: m=json.load(open(sys.argv[1]))
except Exception: m={}
m["property"]=sys.argv[3]
m["confirmed_by"]="lib/seed_verify.sh: demo passes on /repo main, fails with the patch applied; go build ./... and go test -vet=off -count=1 ./... pass with the patch (scratch worktree of /repo main)"
json.dump(m,open(sys.argv[2],"w"),indent=1)
PY
fi
git -C /repo worktree remove --force $wt

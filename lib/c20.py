"""C20 — achcli masking never reveals protected account data or names."""
import json
import os

import common as C


def build(ctx):
    ok, out = C.translate()
    ctx.log("translate", out)
    if not ok:
        ctx.diag.append("translator failed: " + out[-300:])
    C.prove(ctx, ["Props/C20.v", "Props/C20Enr.v"], ["Oblig/C20Obl.v", "Oblig/C20EnrObl.v"])
    ok, out = C.build_harness()
    ctx.log("go build", out)
    if not ok:
        ctx.diag.append("harness does not build against /repo: " + out[-600:])
        return False
    ok, out = C.build_ocaml("c20")
    ctx.log("ocaml", out[-3000:])
    if not ok:
        ctx.diag.append("extracted model does not build: " + out[-600:])
    ok, out = C.build_ocaml("c20enr")
    ctx.log("ocaml c20enr", out[-3000:])
    if not ok:
        ctx.diag.append("extracted payment-information model does not build: " + out[-600:])
    return True


def corr_enr(ctx):
    """ENR / DNE payment information: extracted parse -> mask -> String() pipeline against the
    PaymentRelatedInformation cell of the real describe.File output (and the public functions)."""
    d = os.path.join(ctx.rundir, "corr-enr")
    os.makedirs(d, exist_ok=True)
    rc, out = C.sh([os.path.join(C.BIN, "c20enr"), "corr", "-out", d, "-random", str(ctx.scale(1500, 40000))], timeout=3000)
    ctx.log("corr c20enr", out[-1000:])
    drv = os.path.join(C.BUILD, "ocaml", "c20enr", "driver")
    if rc != 0 or not os.path.exists(drv):
        ctx.diag.append("payment-information correspondence could not run: " + out[-300:])
        return
    rc2, out2 = C.sh("%s %s > %s" % (drv, os.path.join(d, "cases.txt"), os.path.join(d, "model.txt")), timeout=3000)
    if rc2 != 0:
        ctx.diag.append("extracted payment-information model crashed: " + out2[-300:])
    ctx.compare("ENR/DNE payment information cell", os.path.join(d, "model.txt"), os.path.join(d, "impl.txt"), os.path.join(d, "cases.txt"))
    try:
        ctx.cov["payment_information_cases"] = json.loads(out.strip().splitlines()[-1])
    except (ValueError, IndexError):
        pass


def oracle(ctx, n, sub="oracle"):
    d = os.path.join(ctx.rundir, sub)
    os.makedirs(d, exist_ok=True)
    rc, out = C.sh([os.path.join(C.BIN, "c20"), "oracle", "-out", d, "-n", str(n), "-corpus", os.path.join(C.VERIF, "corpus", "C20")], timeout=3000)
    ctx.log("oracle", out[-2000:])
    if rc != 0:
        ctx.diag.append("oracle crashed rc=%d: %s" % (rc, out[-300:]))
    before = len(ctx.fails)
    summ = ctx.read_jsonl(os.path.join(d, "oracle.jsonl"))
    for f in ctx.fails[before:]:
        f["input"] = f.get("case")
    return summ


def oracle_enr(ctx, n, sub="oracle-enr"):
    """ENR (consumer and business branch) / DNE payment strings: substring oracle on the real cell."""
    d = os.path.join(ctx.rundir, sub)
    os.makedirs(d, exist_ok=True)
    rc, out = C.sh([os.path.join(C.BIN, "c20enr"), "oracle", "-out", d, "-n", str(n), "-corpus", os.path.join(C.VERIF, "corpus", "C20")], timeout=3000)
    ctx.log("oracle c20enr", out[-2000:])
    if rc != 0:
        ctx.diag.append("payment-information oracle crashed rc=%d: %s" % (rc, out[-300:]))
    before = len(ctx.fails)
    summ = ctx.read_jsonl(os.path.join(d, "oracle.jsonl"))
    for f in ctx.fails[before:]:
        f["input"] = f.get("case")
    return summ


def cli(ctx, n):
    """the built achcli binary under the combinations of its four masking flags (flag wiring), both tiers"""
    d = os.path.join(ctx.rundir, "cli")
    os.makedirs(d, exist_ok=True)
    binp = os.path.join(C.BIN, "achcli_c20")
    rc, out = C.sh(["go", "build", "-o", binp, "./cmd/achcli"], cwd=C.REPO, timeout=900)
    ctx.log("achcli build", out[-1000:])
    if rc != 0:
        ctx.diag.append("achcli does not build: " + out[-300:])
        return None
    rc, out = C.sh([os.path.join(C.BIN, "c20"), "cli", "-out", d, "-n", str(n), "-achcli", binp], timeout=3000)
    ctx.log("cli", out[-2000:])
    if rc != 0:
        ctx.diag.append("achcli oracle crashed rc=%d: %s" % (rc, out[-300:]))
    before = len(ctx.fails)
    summ = ctx.read_jsonl(os.path.join(d, "cli.jsonl"))
    for f in ctx.fails[before:]:
        f["input"] = f.get("case")
    return summ


def search(ctx, factor):
    before = len(ctx.fails)
    oracle(ctx, ctx.scale(3000, 60000) * factor, "search")
    oracle_enr(ctx, ctx.scale(1500, 30000) * factor, "search-enr")
    cli(ctx, ctx.scale(25, 400))
    found = ctx.fails[before:]
    del ctx.fails[before:]
    return found


def run(ctx):
    ctx.search = search
    ctx.trusted += ["describe-table analysis of the translator (syntactic data flow from protected accessors to fmt.Fprintf arguments)",
                    "verif build-tag hook cmd/achcli/describe/verif_export.go (exports maskNumber/maskName unchanged)",
                    "translator/payshape.go: syntactic transcription of the bodies of ENR/DNE PaymentInformation.String and Parse...PaymentInformation into the pexpr/pstmt syntax; the interpreter of Model/PayShapeTable.v gives the library calls (fmt.Sprintf verbs, strings.Fields/TrimSpace/Split/Join/EqualFold, strconv.Atoi, time.Parse/Format 010206, byte slices) their model, checked against the real library by the payment-information correspondence"]
    ctx.assumptions += ["text/tabwriter and fmt copy cell bytes unchanged (not modelled; text/tabwriter interprets \\t \\v \\f \\n and the escape byte 0xff inside a cell)",
                        "ENR/DNE: payment information that does not parse is printed as the raw field (C20_enr_malformed_raw; property scope is well-formed payment information)",
                        "a value with no information-carrying byte in the first two columns and at most four such bytes is its own mask (known finding / side condition, see DESIGN.md C20)"]
    if not build(ctx):
        return
    # correspondence: exhaustive over a 6(7)-symbol alphabet + random strings, model vs real mask functions
    d = os.path.join(ctx.rundir, "corr")
    os.makedirs(d, exist_ok=True)
    args = [os.path.join(C.BIN, "c20"), "corr", "-out", d, "-maxlen", str(ctx.scale(6, 7)), "-random", str(ctx.scale(2000, 50000))]
    if ctx.tier == "thorough":
        args.append("-invalid")
    rc, out = C.sh(args, timeout=3000)
    ctx.log("corr", out[-1000:])
    drv = os.path.join(C.BUILD, "ocaml", "c20", "driver")
    if rc == 0 and os.path.exists(drv):
        rc2, out2 = C.sh("%s %s > %s" % (drv, os.path.join(d, "cases.txt"), os.path.join(d, "model.txt")), timeout=3000)
        if rc2 != 0:
            ctx.diag.append("extracted model crashed: " + out2[-300:])
        n = ctx.compare("maskNumber/maskName", os.path.join(d, "model.txt"), os.path.join(d, "impl.txt"), os.path.join(d, "cases.txt"))
        ctx.cov["exhaustive_alphabet_len"] = ctx.scale(6, 7)
    else:
        ctx.diag.append("correspondence could not run: " + out[-300:])
    corr_enr(ctx)
    summ = oracle(ctx, ctx.scale(3000, 60000))
    ctx.add_summary(summ, "describe.File oracle")
    ctx.add_summary(oracle_enr(ctx, ctx.scale(1500, 30000)), "ENR/DNE payment information oracle")
    s3 = cli(ctx, ctx.scale(25, 400))
    if s3:
        ctx.add_summary(s3, "achcli binary, masking flag combinations")
    if ctx.tier == "thorough":
        ctx.cov["forbidden_vernacular"] = C.forbidden_vernacular()


def replay(path):
    ok, out = C.build_harness()
    if not ok:
        print(out[-2000:])
        return 1
    try:
        cls = json.load(open(path)).get("input", {}).get("class", "")
    except (OSError, ValueError, AttributeError):
        cls = ""
    binary = "c20enr" if str(cls).startswith("pri-") else "c20"
    env = {}
    if binary == "c20":
        binp = os.path.join(C.BIN, "achcli_c20")
        C.sh(["go", "build", "-o", binp, "./cmd/achcli"], cwd=C.REPO, timeout=900)
        env["VERIF_ACHCLI"] = binp
    rc, out = C.sh([os.path.join(C.BIN, binary), "replay", path], timeout=600, extra_env=env)
    print(out)
    return 1 if rc != 0 else 0

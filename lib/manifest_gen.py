#!/usr/bin/env python3
"""Regenerates MANIFEST.json from the per-property table below (kept in one place so it stays valid)."""
import json
import os

VERIF = os.path.dirname(os.path.dirname(os.path.abspath(__file__)))

CHECKS = {}
for _p in sorted(os.listdir(os.path.join(VERIF, "lib", "manifest"))):
    if _p.endswith(".json"):
        CHECKS[_p[:-5]] = json.load(open(os.path.join(VERIF, "lib", "manifest", _p)))

PENDING = {}

def hook_commits():
    """hook commits = commits of /repo whose subject starts with 'verif hook' (hashes as they are on the current branch)"""
    import subprocess
    try:
        out = subprocess.run(["git", "-C", "/repo", "log", "--format=%H %s"], stdout=subprocess.PIPE).stdout.decode()
        hs = [l.split()[0] for l in out.splitlines() if l.split(" ", 1)[1].startswith("verif hook")]
        hs.reverse()
        if hs:
            with open(os.path.join(VERIF, "hooks.txt"), "w") as f:
                f.write("\n".join(hs) + "\n")
            return hs
    except Exception:
        pass
    p = os.path.join(VERIF, "hooks.txt")
    return [l.strip() for l in open(p) if l.strip()] if os.path.exists(p) else []


def main():
    props = [json.loads(l)["id"] for l in open(os.path.join(VERIF, "properties.jsonl"))]
    checks = []
    for p in props:
        if p not in CHECKS:
            continue
        c = CHECKS[p]
        checks.append({
            "property_id": p,
            "quick_cmd": "./check %s --tier quick" % p,
            "thorough_cmd": "./check %s --tier thorough" % p,
            "evidence_file": "evidence/%s.json" % p,
            "replay_cmd_template": "./check %s --replay {path}" % p,
            "engine": "coq+correspondence",
            "level_claimed": {"category": "proof", "text": c["text"], "design_ref": c["design"]},
            "level_note": c["note"],
            "technique": c["technique"],
        })
    na = [{"property_id": p, "reason": PENDING.get(p, "check not built yet in this revision (work in progress; see DESIGN.md §8 build order)")} for p in props if p not in CHECKS]
    m = {
        "version": 1,
        "setup_cmd": "./check --setup",
        "hooks": {
            "guard": "verif",
            "enable": "go build -tags verif (harness module /verif/harness with replace github.com/moov-io/ach => /repo)",
            "baseline_off_cmd": "cd /repo && go test -mod=mod -json -vet=off -count=1 -timeout 25m ./...",
            "source_commits": hook_commits(),
            "add_only": True,
        },
        "engines": [
            {"name": "translator", "path": "translator/", "serves_properties": sorted(CHECKS), "kind_free_text": "Go (go/ast) source-to-Coq table generator, run on every check"},
            {"name": "coq", "path": "coq/", "serves_properties": sorted(CHECKS), "kind_free_text": "Coq 8.16.1 development: model, theorems (Props/), reflection obligations (Oblig/)"},
            {"name": "extracted-model", "path": "ocaml/", "serves_properties": sorted(CHECKS), "kind_free_text": "OCaml drivers running the extracted Gallina model on the harness's cases"},
            {"name": "harness", "path": "harness/", "serves_properties": sorted(CHECKS), "kind_free_text": "Go generators, direct oracles on the implementation, replay"},
        ],
        "checks": checks,
        "not_applicable": na,
        "notes": "Entry point ./check <Cxx> [--tier quick|thorough] [--replay f]; known findings in known-findings.jsonl; see DESIGN.md.",
    }
    with open(os.path.join(VERIF, "MANIFEST.json"), "w") as f:
        json.dump(m, f, indent=1)
        f.write("\n")

if __name__ == "__main__":
    main()

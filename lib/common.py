"""Shared orchestration for the /verif checks (python3 stdlib only)."""
import fcntl
import glob
import hashlib
import json
import os
import re
import shutil
import subprocess
import sys
import time

VERIF = os.path.dirname(os.path.dirname(os.path.abspath(__file__)))
REPO = os.environ.get("VERIF_REPO", "/repo")
BUILD = os.path.join(VERIF, "build")
COQ = os.path.join(VERIF, "coq")
BIN = os.path.join(BUILD, "bin")

GOENV = {
    "GOFLAGS": "-mod=mod",
    "GOPROXY": "off",
    "GOSUMDB": "off",
    "GOTOOLCHAIN": "local",
    "CGO_ENABLED": os.environ.get("CGO_ENABLED", "1"),
}


def env():
    e = dict(os.environ)
    e.update(GOENV)
    return e


def sh(cmd, cwd=None, timeout=None, extra_env=None, stdin=None):
    """Run cmd (list or str); returns (rc, combined output).  rc 124 on timeout."""
    e = env()
    if extra_env:
        e.update(extra_env)
    try:
        p = subprocess.run(cmd, cwd=cwd, env=e, shell=isinstance(cmd, str), stdout=subprocess.PIPE,
                           stderr=subprocess.STDOUT, timeout=timeout, input=stdin)
        return p.returncode, p.stdout.decode("utf-8", "replace")
    except subprocess.TimeoutExpired as ex:
        out = ex.stdout.decode("utf-8", "replace") if ex.stdout else ""
        return 124, out + "\n[timeout after %ss]" % timeout


def sha(*parts):
    h = hashlib.sha256()
    for p in parts:
        h.update(p if isinstance(p, bytes) else p.encode())
    return h.hexdigest()


def file_sha(paths):
    h = hashlib.sha256()
    for p in sorted(paths):
        h.update(p.encode())
        try:
            with open(p, "rb") as f:
                h.update(f.read())
        except OSError:
            h.update(b"<missing>")
    return h.hexdigest()


class Lock:
    def __enter__(self):
        os.makedirs(BUILD, exist_ok=True)
        self.f = open(os.path.join(BUILD, ".lock"), "w")
        fcntl.flock(self.f, fcntl.LOCK_EX)
        return self

    def __exit__(self, *a):
        fcntl.flock(self.f, fcntl.LOCK_UN)
        self.f.close()


# ----------------------------------------------------------------- build steps

def build_translator():
    os.makedirs(BIN, exist_ok=True)
    rc, out = sh(["go", "build", "-o", os.path.join(BIN, "translate"), "."], cwd=os.path.join(VERIF, "translator"), timeout=600)
    return rc == 0, out


def translate():
    """Regenerate coq/Gen/*.v from REPO's working tree; move over only files whose bytes differ."""
    ok, out = build_translator()
    if not ok:
        return False, "translator build failed:\n" + out
    new = os.path.join(BUILD, "gen.new")
    shutil.rmtree(new, ignore_errors=True)
    os.makedirs(new)
    rc, out = sh([os.path.join(BIN, "translate"), "-repo", REPO, "-out", new], timeout=600)
    gen = os.path.join(COQ, "Gen")
    os.makedirs(gen, exist_ok=True)
    changed = []
    for p in sorted(glob.glob(os.path.join(new, "*.v"))):
        dst = os.path.join(gen, os.path.basename(p))
        a = open(p, "rb").read()
        b = open(dst, "rb").read() if os.path.exists(dst) else None
        if a != b:
            with open(dst, "wb") as f:
                f.write(a)
            changed.append(os.path.basename(p))
    return True, ("translate rc=%d changed=%s\n" % (rc, changed)) + out


def coq_project():
    files = []
    for root, _, names in os.walk(COQ):
        for n in names:
            if n.endswith(".v"):
                files.append(os.path.relpath(os.path.join(root, n), COQ))
    files.sort()
    text = "-Q . ACH\n" + "\n".join(files) + "\n"
    p = os.path.join(COQ, "_CoqProject")
    old = open(p).read() if os.path.exists(p) else None
    if old != text or not os.path.exists(os.path.join(COQ, "Makefile.coq")):
        with open(p, "w") as f:
            f.write(text)
        rc, out = sh(["coq_makefile", "-f", "_CoqProject", "-o", "Makefile.coq"], cwd=COQ, timeout=120)
        if rc != 0:
            return False, out
    return True, ""


def coq_make(targets, timeout=1500, force=(), keep_going=False):
    """Full .vo build of the given targets (relative to coq/).  `force` targets are recompiled
    even when up to date, so that their Print Assumptions output is captured."""
    ok, out = coq_project()
    if not ok:
        return False, out
    for t in force:
        for ext in (".vo", ".vos", ".vok", ".glob"):
            try:
                os.remove(os.path.join(COQ, t[:-3] + ext))
            except OSError:
                pass
    rc, out = sh(["make", "-f", "Makefile.coq", "-j16"] + (["-k"] if keep_going else []) + list(targets), cwd=COQ, timeout=timeout)
    return rc == 0, out


def build_harness(tags="verif", race=False):
    """go build of every harness command against REPO's working tree (module replace via -modfile)."""
    os.makedirs(BIN, exist_ok=True)
    h = os.path.join(VERIF, "harness")
    mod = os.path.join(BUILD, "harness.go.mod")
    text = open(os.path.join(h, "go.mod")).read().replace("=> /repo", "=> " + REPO)
    if not os.path.exists(mod) or open(mod).read() != text:
        with open(mod, "w") as f:
            f.write(text)
    shutil.copy(os.path.join(REPO, "go.sum"), os.path.join(BUILD, "harness.go.sum"))
    cmd = ["go", "build", "-modfile", mod, "-tags", tags]
    outdir = BIN
    if race:
        cmd.append("-race")
        outdir = os.path.join(BUILD, "bin-race")
        os.makedirs(outdir, exist_ok=True)
    cmd += ["-o", outdir + "/", "./cmd/..."]
    rc, out = sh(cmd, cwd=h, timeout=1200)
    return rc == 0, out


def build_ocaml(name):
    """Extract coq/Extract/<Name>.v and build ocaml/<name>/driver.ml against it."""
    d = os.path.join(BUILD, "ocaml", name)
    os.makedirs(d, exist_ok=True)
    ext = os.path.join(COQ, "Extract", name.upper() + ".v")
    # the Coq modules the extraction depends on must be compiled first
    ok, out = coq_make([os.path.join("Extract", name.upper() + ".vo")])
    if not ok:
        return False, out
    srcs = [ext] + sorted(glob.glob(os.path.join(VERIF, "ocaml", "common", "*.ml"))) + sorted(glob.glob(os.path.join(VERIF, "ocaml", name, "*.ml")))
    vos = glob.glob(os.path.join(COQ, "*", "*.vo"))
    stamp = file_sha(srcs) + sha(*[str(os.path.getmtime(v)) for v in sorted(vos)])
    sp = os.path.join(d, ".stamp")
    if os.path.exists(sp) and open(sp).read() == stamp and os.path.exists(os.path.join(d, "driver")):
        return True, "ocaml driver up to date"
    rc, out = sh(["coqc", "-Q", COQ, "ACH", ext], cwd=d, timeout=600)
    if rc != 0:
        return False, out
    model_src = open(os.path.join(d, "model.ml")).read()
    units = ["conv.ml"]
    if "Zpos" in model_src:
        units.append("convz.ml")
    if "EmptyString" in model_src:
        units.append("convstr.ml")
    for u in units:
        shutil.copy(os.path.join(VERIF, "ocaml", "common", u), d)
    for extra in sorted(glob.glob(os.path.join(VERIF, "ocaml", name, "*.ml"))):
        shutil.copy(extra, d)
        b = os.path.basename(extra)
        if b != "driver.ml":
            units.append(b)
    units.append("driver.ml")
    files = "model.mli model.ml " + " ".join(units)
    rc, out2 = sh("ocamlfind ocamlopt -O3 -w -a %s -o driver 2>&1 || ocamlfind ocamlopt -w -a %s -o driver" % (files, files), cwd=d, timeout=900)
    if rc != 0:
        return False, out + out2
    with open(sp, "w") as f:
        f.write(stamp)
    return True, out + out2


# ----------------------------------------------------------------- proof accounting

STMT = re.compile(r"^\s*(Theorem|Lemma|Corollary|Example)\s+([A-Za-z0-9_']+)", re.M)


def statements(path):
    try:
        return [m.group(2) for m in STMT.finditer(open(path).read())]
    except OSError:
        return []


def assumptions_from_log(log):
    """Collect what Print Assumptions printed (verbatim, de-duplicated)."""
    res = []
    lines = log.splitlines()
    i = 0
    while i < len(lines):
        l = lines[i]
        if l.startswith("Closed under the global context"):
            if l not in res:
                res.append(l)
        elif l.startswith("Axioms:"):
            blk = [l]
            i += 1
            while i < len(lines) and (lines[i].startswith(" ") or lines[i].strip() == ""):
                if lines[i].strip():
                    blk.append(lines[i].rstrip())
                i += 1
            t = "\n".join(blk)
            if t not in res:
                res.append(t)
            continue
        i += 1
    return res


def coq_error(log):
    m = re.search(r'File "([^"]+)", line (\d+), characters [^\n]*\n((?:.*\n){0,12})', log)
    if not m:
        return None
    return {"file": m.group(1), "line": int(m.group(2)), "message": m.group(3).strip()[:1500]}


def prove(ctx, prop_files, oblig_files=()):
    """Compile Props/<prop>.v (always re-checked) and its obligations; fill ctx.proof."""
    targets = [p[:-2] + ".vo" for p in prop_files]
    ok, log = coq_make(targets, force=targets)
    ctx.log("coq", log[-6000:])
    names = []
    for p in list(oblig_files) + list(prop_files):
        names += [(p, n) for n in statements(os.path.join(COQ, p))]
    ctx.proof["obligations"] = len(names)
    ctx.proof["theorems"] = [n for p, n in names if p in prop_files]
    ctx.proof["assumptions"] = assumptions_from_log(log)
    if ok:
        ctx.proof["discharged"] = len(names)
    else:
        err = coq_error(log) or {"file": "?", "line": 0, "message": log[-1500:]}
        ctx.proof["error"] = err
        # statements of files that compiled, plus those closed before the failing line
        done = 0
        for p, n in names:
            full = os.path.join(COQ, p)
            vo = full[:-2] + ".vo"
            if os.path.exists(vo) and os.path.getmtime(vo) >= os.path.getmtime(full):
                done += 1
            elif err["file"].lstrip("./") == p:
                txt = open(full).read().splitlines()[: err["line"] - 1]
                if re.search(r"\b(Theorem|Lemma|Corollary|Example)\s+%s\b" % re.escape(n), "\n".join(txt)) and \
                        re.search(r"\b%s\b[\s\S]*?\b(Qed|Defined)\." % re.escape(n), "\n".join(txt)):
                    done += 1
        ctx.proof["discharged"] = done
        ctx.diag.append("proof obligation broken: %s line %d: %s" % (err["file"], err["line"], err["message"].splitlines()[0] if err["message"] else ""))
    return ok


def coqchk(ctx):
    """thorough tier: re-check the property's compiled Props files (and everything they depend on) with the
    independent checker and record the axioms it reports."""
    mods = []
    for n in sorted(os.listdir(os.path.join(COQ, "Props"))):
        if n.endswith(".v") and n.startswith(ctx.prop) and os.path.exists(os.path.join(COQ, "Props", n[:-2] + ".vo")):
            mods.append("ACH.Props." + n[:-2])
    if not mods:
        ctx.cov["coqchk"] = "no compiled Props file"
        return
    rc, out = sh(["coqchk", "-silent", "-o", "-Q", ".", "ACH"] + mods, cwd=COQ, timeout=3400)
    tail = out[out.find("CONTEXT SUMMARY"):] if "CONTEXT SUMMARY" in out else out[-1500:]
    ctx.cov["coqchk"] = {"modules": mods, "rc": rc, "summary": " ".join(tail.split())[:1200]}
    if rc != 0:
        ctx.diag.append("coqchk failed on %s: %s" % (mods, out[-400:]))
    elif "Axioms: <none>" not in " ".join(tail.split()):
        ctx.trusted.append("coqchk -o reports: " + " ".join(tail.split())[:600])


def forbidden_vernacular():
    """grep the development for vernacular the brief forbids."""
    bad = []
    pat = re.compile(r"\b(Admitted|admit|Axiom|Axioms|Parameter|Parameters|Conjecture|Hypothesis|Variable|Admit Obligations|Unset Guard Checking|Unset Positivity Checking|Unset Universe Checking|bypass_check|type-in-type|impredicative-set)\b")
    for root, _, names in os.walk(COQ):
        for n in names:
            if not n.endswith(".v"):
                continue
            p = os.path.join(root, n)
            depth = 0
            for i, line in enumerate(open(p), 1):
                code = re.sub(r"\(\*.*?\*\)", "", line)
                if re.match(r"\s*Section\b", code):
                    depth += 1
                if re.match(r"\s*End\b", code) and depth > 0:
                    depth -= 1
                for m in pat.finditer(code):
                    w = m.group(1)
                    if w in ("Variable", "Hypothesis", "Parameter", "Parameters") and depth > 0 and w in ("Variable", "Hypothesis"):
                        continue
                    bad.append("%s:%d: %s" % (os.path.relpath(p, VERIF), i, w))
    return bad


# ----------------------------------------------------------------- known findings

def known_findings(prop):
    out = []
    p = os.path.join(VERIF, "known-findings.jsonl")
    if not os.path.exists(p):
        return out
    for line in open(p):
        line = line.strip()
        if not line or line.startswith("#"):
            continue
        if line.startswith("fixed:"):
            continue
        try:
            d = json.loads(line)
        except ValueError:
            continue
        if d.get("property") == prop and d.get("status") == "known":
            out.append(d)
    return out


# ----------------------------------------------------------------- check context

class Ctx:
    def __init__(self, prop, tier, seed):
        self.prop = prop
        self.tier = tier
        self.seed = seed
        self.t0 = time.time()
        self.logs = []
        self.diag = []          # broken obligations / correspondence mismatches (not by themselves violations)
        self.fails = []         # oracle failures on the implementation: dicts with key, what, input
        self.proof = {"obligations": 0, "discharged": 0, "assumptions": [], "theorems": []}
        self.cov = {}           # extra coverage keys
        self.samples = []
        self.evaluations = 0
        self.distinct = 0
        self.rule = ""
        self.trusted = []
        self.assumptions = []
        self.rundir = os.path.join(BUILD, "run", prop.lower())
        shutil.rmtree(self.rundir, ignore_errors=True)
        os.makedirs(self.rundir, exist_ok=True)
        self.search = None      # callable(ctx, factor) -> list of failures, for the extended search

    def log(self, tag, text):
        self.logs.append("== %s ==\n%s" % (tag, text))

    def scale(self, quick, thorough):
        return thorough if self.tier == "thorough" else quick

    def read_jsonl(self, path):
        """Read an oracle result file: failure records and the summary record."""
        summ = None
        try:
            for line in open(path):
                line = line.strip()
                if not line:
                    continue
                d = json.loads(line)
                if d.get("kind") == "summary":
                    summ = d
                elif d.get("kind") == "fail":
                    self.fails.append(d)
        except OSError as ex:
            self.diag.append("oracle output missing: %s" % ex)
        return summ

    def add_summary(self, summ, label=None):
        if not summ:
            return
        self.evaluations += int(summ.get("evaluations", 0))
        self.distinct += int(summ.get("distinct_nontrivial", 0))
        if summ.get("rule"):
            self.rule = (self.rule + " | " if self.rule else "") + ((label + ": ") if label else "") + summ["rule"]
        for s in (summ.get("samples") or [])[:4]:
            self.samples.append(s)
        if "distribution" in summ:
            self.cov.setdefault("distribution", {})[label or "oracle"] = summ["distribution"]

    def compare(self, label, model_path, impl_path, cases_path=None, limit=5):
        """Line-by-line comparison of model and implementation observations."""
        try:
            a = open(model_path).read().splitlines()
            b = open(impl_path).read().splitlines()
        except OSError as ex:
            self.diag.append("correspondence %s: missing output (%s)" % (label, ex))
            return 0
        cases = open(cases_path).read().splitlines() if cases_path and os.path.exists(cases_path) else None
        n = min(len(a), len(b))
        mism = []
        if len(a) != len(b):
            mism.append({"line": n, "model": "<%d lines>" % len(a), "impl": "<%d lines>" % len(b)})
        for i in range(n):
            if a[i] != b[i]:
                mism.append({"line": i + 1, "case": cases[i] if cases and i < len(cases) else None, "model": a[i][:400], "impl": b[i][:400]})
                if len(mism) >= limit:
                    break
        self.cov.setdefault("correspondence", {})[label] = {"cases": n, "mismatches": len(mism)}
        self.cov["traces_validated_against_impl"] = self.cov.get("traces_validated_against_impl", 0) + n
        if mism:
            self.diag.append("correspondence %s: model and implementation differ on %d case(s), first: %s" % (label, len(mism), json.dumps(mism[0])))
            self.cov["correspondence"][label]["first"] = mism[:limit]
        return n

    # ---- finish: classify, write evidence, print, exit code
    def finish(self):
        known = known_findings(self.prop)
        kkeys = {k["key"]: k for k in known}
        new, hit = [], {}
        for f in self.fails:
            k = f.get("key", "?")
            if k in kkeys:
                hit[k] = hit.get(k, 0) + 1
            else:
                new.append(f)
        if not new and self.diag and self.search:
            # proof or correspondence broke: look for a concrete failing input, 10x effort
            try:
                extra = self.search(self, 10)
            except Exception as ex:  # noqa
                extra = []
                self.log("search", "extended search crashed: %r" % ex)
            for f in extra:
                if f.get("key", "?") in kkeys:
                    hit[f["key"]] = hit.get(f["key"], 0) + 1
                else:
                    new.append(f)
        lines = []
        for k in known:
            n = hit.get(k["key"], 0)
            lines.append("KNOWN-FINDING: property=%s %s: %s (%s)" % (self.prop, k["key"], k.get("what", ""),
                         "reproduced %d time(s) this run" % n if n else "not exercised this run"))
        rep_dir = os.path.join(VERIF, "evidence", "replays")
        os.makedirs(rep_dir, exist_ok=True)
        violations = 0
        vlines = []
        if new:
            bykey = {}
            for f in new:
                bykey.setdefault(f.get("key", "?"), []).append(f)
            for k, fs in sorted(bykey.items()):
                f = min(fs, key=lambda x: len(json.dumps(x.get("input", x.get("case", "")))))
                rp = os.path.join(rep_dir, "%s-%s.json" % (self.prop, sha(k, json.dumps(f, sort_keys=True))[:12]))
                with open(rp, "w") as fh:
                    json.dump({"property": self.prop, "key": k, "what": f.get("what", ""), "input": f.get("input", f.get("case")),
                               "failure": f, "diagnostics": self.diag, "count": len(fs)}, fh, indent=1, sort_keys=True)
                vlines.append("VIOLATION property=%s replay=%s" % (self.prop, os.path.relpath(rp, VERIF)))
                violations += 1
        elif self.diag:
            rp = os.path.join(rep_dir, "%s-unproved-%s.json" % (self.prop, sha(json.dumps(self.diag))[:12]))
            with open(rp, "w") as fh:
                json.dump({"property": self.prop, "key": "no-failing-input-found",
                           "what": "a theorem, reflection obligation or model/implementation correspondence no longer checks; the search found no input on which the implementation violates the property",
                           "broken": self.diag, "proof": self.proof.get("error")}, fh, indent=1, sort_keys=True)
            vlines.append("VIOLATION property=%s replay=%s no-failing-input-found" % (self.prop, os.path.relpath(rp, VERIF)))
            violations += 1
        wall = time.time() - self.t0
        cov = {
            "obligations": int(self.proof.get("obligations", 0)),
            "discharged": int(self.proof.get("discharged", 0)),
            "checker_cmd": "coqc 8.16.1 via `make -f Makefile.coq Props/%s.vo` (full .vo build; Props file always re-checked)" % self.prop,
            "trusted_base": TRUSTED_BASE + self.trusted + ["Print Assumptions: " + a for a in self.proof.get("assumptions", [])],
            "theorems": self.proof.get("theorems", []),
            "evaluations": int(self.evaluations),
            "distinct_nontrivial": int(self.distinct),
            "rule": self.rule,
            "samples": self.samples[:12] if self.samples else [{"note": "no sample recorded"}],
            "diagnostics": self.diag,
            "known_findings_reproduced": hit,
        }
        cov.update(self.cov)
        if self.proof.get("error"):
            cov["proof_error"] = self.proof["error"]
        ev = {"property_id": self.prop, "tier": self.tier, "seed": int(self.seed), "level": "proof", "coverage": cov,
              "assumptions": self.assumptions, "wall_s": round(wall, 2), "violations": violations}
        os.makedirs(os.path.join(VERIF, "evidence"), exist_ok=True)
        with open(os.path.join(VERIF, "evidence", self.prop + ".json"), "w") as fh:
            json.dump(ev, fh, indent=1, sort_keys=True)
        with open(os.path.join(self.rundir, "log.txt"), "w") as fh:
            fh.write("\n".join(self.logs))
        for l in lines + vlines:
            print(l)
        print("%s %s: obligations %d/%d, evaluations %d (distinct non-trivial %d), corr %s, %.1fs -> %s" % (
            self.prop, self.tier, cov["discharged"], cov["obligations"], self.evaluations, self.distinct,
            json.dumps({k: v["cases"] for k, v in cov.get("correspondence", {}).items()}), wall,
            "VIOLATION" if violations else "ok"))
        return 1 if violations else 0


TRUSTED_BASE = [
    "Coq 8.16.1 kernel (coqc; vm_compute used for reflection, no native_compute)",
    "translator /verif/translator (go/ast based; regenerates coq/Gen/*.v from /repo on every run)",
    "extraction: Require Import ExtrOcamlBasic only (bool, option, unit, list, prod, sumbool, sumor, andb, orb); N/Z/positive/nat kept as Coq datatypes; OCaml 4.13.1 driver under /verif/ocaml",
    "Go harness /verif/harness (generators, canonicalisation, oracle) and python orchestration /verif/lib",
]

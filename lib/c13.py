"""C13 — Reversal flips every entry and yields a valid reversing file."""
import os

import common as C
import optsdom
import validout
import c1113x
import c0913x

PROP = "C13"
NAME = "c13"


def build(ctx):
    ok, out = C.translate()
    ctx.log("translate", out)
    if not ok:
        ctx.diag.append("translator failed: " + out[-300:])
    C.prove(ctx, ["Props/C13.v", "Props/C13Valid.v", "Props/C13General.v", "Props/C13Opts.v", "Props/C13OptsValid.v"],
            ["Oblig/C13Obl.v", "Oblig/ValidRevObl.v", "Oblig/C13GenObl.v", "Oblig/OptSitesObl.v", "Oblig/C13OptsObl.v"])
    ok, out = C.build_harness()
    ctx.log("go build", out)
    if not ok:
        ctx.diag.append("harness does not build against the repository: " + out[-600:])
        try:
            os.remove(os.path.join(C.BIN, NAME))  # never search with a binary of an older tree
        except OSError:
            pass
        return False
    ok, out = C.build_ocaml(NAME)
    ctx.log("ocaml", out[-3000:])
    if not ok:
        ctx.diag.append("extracted model does not build: " + out[-600:])
    c1113x.build(ctx, "rev")
    c0913x.build(ctx, "rev")
    return True


def oracle(ctx, n, sub="oracle"):
    d = os.path.join(ctx.rundir, sub)
    os.makedirs(d, exist_ok=True)
    rc, out = C.sh([os.path.join(C.BIN, NAME), "oracle", "-out", d, "-n", str(n), "-corpus", os.path.join(C.VERIF, "corpus", PROP)], timeout=3000)
    ctx.log("oracle", out[-2000:])
    if rc != 0:
        ctx.diag.append("oracle crashed rc=%d: %s" % (rc, out[-300:]))
    before = len(ctx.fails)
    summ = ctx.read_jsonl(os.path.join(d, "oracle.jsonl"))
    for f in ctx.fails[before:]:
        f["input"] = f.get("case")
    return summ


def search(ctx, factor):
    before = len(ctx.fails)
    oracle(ctx, ctx.scale(8000, 150000) * factor, "search")
    found = ctx.fails[before:]
    del ctx.fails[before:]
    return found + c1113x.search(ctx, "rev", factor) + c0913x.search(ctx, "rev", factor)


def run(ctx):
    ctx.search = search
    ctx.trusted += ["reversal-table emitter of the translator (switch arms, deltas, flags, service-class ifs of File.Reversal; calculateBatchAmounts lists; StandardTransactionCode and isPrenote lists)",
                    "hand model of the control swap, description/date rewrite and File.Create re-tabulation (coq/Model/Reversal.v), tied by the extracted-model correspondence",
                    "phase 3: the amount rule of ValidAmountForCodes by addenda kind and the OFFSET flag (coq/Model/ReversalGen.v) and the abstraction of generated files (harness/internal/c1113x), tied by the generated-file correspondence incl. the real Validate() of the reversed file for PPD CCD CTX WEB COR"]
    ctx.assumptions += ["validation is modelled as the fragment the property speaks about (service class vs directions, header = control class, control totals = totals by calculateBatchAmounts, standard codes, amount rule of ValidAmountForCodes without options); the full File.Validate is exercised by the oracle only",
                        "batches are of the concrete SEC types NewBatch returns (the `.(*Batch)` rebuild branch of Reversal is dead for them); IAT batches are outside the property",
                        "integers unbounded (amounts up to 10 digits, sums far below 2^63)"]
    if not build(ctx):
        return
    d = os.path.join(ctx.rundir, "corr")
    os.makedirs(d, exist_ok=True)
    rc, out = C.sh([os.path.join(C.BIN, NAME), "corr", "-out", d, "-n", str(ctx.scale(8000, 150000))], timeout=3000)
    ctx.log("corr", out[-1000:])
    drv = os.path.join(C.BUILD, "ocaml", NAME, "driver")
    if rc == 0 and os.path.exists(drv):
        rc2, out2 = C.sh("%s %s > %s" % (drv, os.path.join(d, "cases.txt"), os.path.join(d, "model.txt")), timeout=3000)
        if rc2 != 0:
            ctx.diag.append("extracted model crashed: " + out2[-300:])
        ctx.compare("File.Reversal", os.path.join(d, "model.txt"), os.path.join(d, "impl.txt"), os.path.join(d, "specs.jsonl"))
    else:
        ctx.diag.append("correspondence could not run: " + out[-300:])
    validout.run(ctx, "reversal")
    ctx.add_summary(c1113x.run(ctx, "rev"), "C13 general (gen files)")
    summ = oracle(ctx, ctx.scale(8000, 150000))
    ctx.add_summary(summ, "File.Reversal oracle")
    optsdom.run(ctx, "C13")
    # phase 5: Reversal of files valid only under their stored options (Props/C13OptsValid.v)
    c0913x.run(ctx, "rev")
    if ctx.tier == "thorough":
        ctx.cov["forbidden_vernacular"] = C.forbidden_vernacular()


def replay(path):
    if optsdom.is_case(path):
        return optsdom.replay(path)
    if c1113x.is_case(path):
        return c1113x.replay(path)
    if c0913x.is_case(path):
        return c0913x.replay(path)
    ok, out = C.build_harness()
    if not ok:
        print(out[-2000:])
        return 1
    rc, out = C.sh([os.path.join(C.BIN, NAME), "replay", path], timeout=600)
    print(out)
    return 1 if rc != 0 else 0

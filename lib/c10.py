"""C10 — MergeDir equals MergeFiles over the directory, under every schedule."""
import os

import common as C


def build(ctx):
    ok, out = C.translate()
    ctx.log("translate", out)
    if not ok:
        ctx.diag.append("translator failed: " + out[-300:])
    C.prove(ctx, ["Props/C10.v", "Props/C10Merge.v"],
            ["Oblig/C10Obl.v", "Model/WalkFacts.v", "Model/MergeDirTable.v", "Proto/MergeDirFacts.v", "Proto/MergeDirTraceFacts.v",
             "Proto/MergeDirMergeFacts.v", "Oblig/C10MergeObl.v"])
    ok, out = C.build_harness()
    ctx.log("go build", out)
    if not ok:
        ctx.diag.append("harness does not build against the repository: " + out[-600:])
        return False
    ok, out = C.build_ocaml("c10")
    ctx.log("ocaml", out[-3000:])
    if not ok:
        ctx.diag.append("extracted model does not build: " + out[-600:])
    ok, out = C.build_ocaml("c10merge")
    ctx.log("ocaml c10merge", out[-3000:])
    if not ok:
        ctx.diag.append("extracted MergeDir-over-Merge model does not build: " + out[-600:])
    return True


def mergecorr(ctx, n, sub="mergecorr", salt=1011, compare=True):
    """Phase 2: forced-arrival and free-running runs of the real MergeDir against the extracted
    MergeDir-over-Merge model (exact output structure), plus the direct oracle
    'result = MergeFilesWith over the files in arrival order'."""
    d = os.path.join(ctx.rundir, sub)
    os.makedirs(d, exist_ok=True)
    rc, out = C.sh([os.path.join(C.BIN, "c10"), "mergecorr", "-out", d, "-n", str(n), "-salt", str(salt),
                    "-corpus", os.path.join(C.VERIF, "corpus", "C10")], timeout=3000)
    ctx.log(sub, out[-2000:])
    if rc != 0:
        ctx.diag.append("mergecorr crashed rc=%d: %s" % (rc, out[-300:]))
    before = len(ctx.fails)
    summ = ctx.read_jsonl(os.path.join(d, "oracle.jsonl"))
    for f in ctx.fails[before:]:
        f["input"] = f.get("case")
    if not compare:
        return summ
    drv = os.path.join(C.BUILD, "ocaml", "c10merge", "driver")
    if rc == 0 and os.path.exists(drv):
        rc2, out2 = C.sh("%s %s > %s 2> %s" % (drv, os.path.join(d, "cases.txt"), os.path.join(d, "model.txt"), os.path.join(d, "stats.json")), timeout=3000)
        if rc2 != 0:
            ctx.diag.append("extracted MergeDir-over-Merge model crashed: " + out2[-300:])
        ctx.compare("mergedir-over-merge", os.path.join(d, "model.txt"), os.path.join(d, "impl.txt"), os.path.join(d, "cases.txt"))
        kinds = {}
        for line in open(os.path.join(d, "cases.txt")):
            kinds[line[:1]] = kinds.get(line[:1], 0) + 1
        ctx.cov["mergedir_over_merge_case_kinds"] = {"forced_arrival": kinds.get("M", 0), "free_running_envelope": kinds.get("E", 0)}
        try:
            import json
            ctx.cov["mergedir_over_merge_free_running"] = json.loads(open(os.path.join(d, "stats.json")).read().strip().splitlines()[-1])
        except Exception:  # noqa
            pass
    else:
        ctx.diag.append("MergeDir-over-Merge correspondence could not run: " + out[-300:])
    return summ


def oracle(ctx, n, sub="oracle", salt=10, race=False):
    d = os.path.join(ctx.rundir, sub)
    os.makedirs(d, exist_ok=True)
    exe = os.path.join(C.BUILD, "bin-race" if race else "bin", "c10")
    rc, out = C.sh([exe, "oracle", "-out", d, "-n", str(n), "-salt", str(salt), "-corpus", os.path.join(C.VERIF, "corpus", "C10")],
                   timeout=3000, extra_env={"GORACE": "halt_on_error=1 exitcode=66"})
    ctx.log(sub, out[-3000:])
    if rc != 0:
        if "DATA RACE" in out:
            ctx.fails.append({"kind": "fail", "key": "mergedir:data-race", "what": "the race detector reported a data race inside MergeDir:\n" + out[-2500:],
                              "input": {"note": "run the -race build of harness/cmd/c10 (oracle mode, salt %d)" % salt}})
        else:
            ctx.diag.append("oracle crashed rc=%d: %s" % (rc, out[-300:]))
    before = len(ctx.fails)
    summ = ctx.read_jsonl(os.path.join(d, "oracle.jsonl"))
    for f in ctx.fails[before:]:
        f["input"] = f.get("case")
    return summ


def search(ctx, factor):
    before = len(ctx.fails)
    oracle(ctx, ctx.scale(1500, 8000) * factor, "search", salt=77)
    mergecorr(ctx, ctx.scale(400, 2000) * factor, "search-merge", salt=78, compare=False)
    if len(ctx.fails) == before:
        # nothing deterministic: a broken obligation of the goroutine tables may be a data race (the oracle's
        # histories include several unparseable files per worker); run them under the race detector
        ok, out = C.build_harness(race=True)
        ctx.log("go build -race (search)", out[-1000:])
        if ok:
            oracle(ctx, 800 * factor, "search-race", salt=79, race=True)
    found = ctx.fails[before:]
    del ctx.fails[before:]
    return found


def run(ctx):
    ctx.search = search
    ctx.trusted += [
        "Go scheduler, channels, errgroup, context and sync.Once/WaitGroup semantics are model definitions (coq/Proto/MergeDir.v: rendezvous hand-offs, cancel flags, one label per goroutine action)",
        "MergeDirGen analysis of the translator (extension switch of DefaultFileAcceptor; channel sends and their select/Done guards; returns inside walkDir's listing loop)",
        "trace recording of the harness (AcceptFile callback = start, fs.File.Close = read finished; path and file ids; gated in-memory fs.FS)",
        "forced-arrival argument of harness/cmd/c10/mergecorr.go: a parse worker asks for its next path only after its send on mergableFiles was received, and the merger receives again only after sorted.add returned (read off queueFileForMerging / the merger loop); identity markers of the generated files as in C08",
    ]
    ctx.assumptions += [
        "content theorems (Props/C10Merge.v) are about the Merge model of C08/C09 (valid non-IAT, non-ADV files without ValidateOpts; NewBatch/Batch.Create/File.Create succeed; sorted.add never fails) with the protocol's file ids interpreted by an arbitrary content function",
        "which file seeds sorted.header when it is not the first to reach the merger (sync.Once in the worker) is modelled and covered by the theorems but cannot be forced on the real code: forced-arrival runs always seed with the first arrival; free-running runs are only checked to lie inside the model's envelope",
        "data-race freedom is observed with the race detector (thorough tier), not proved",
        "directory read errors (fs.ReadDir failing) are not part of the model",
        "strings.ToLower is modelled on ASCII letters only (no other rune lower-cases to a letter of the accepted extensions)",
    ]
    if not build(ctx):
        return
    # correspondence: acceptor sweep, walk over generated trees, protocol traces from the real MergeDir
    d = os.path.join(ctx.rundir, "corr")
    os.makedirs(d, exist_ok=True)
    rc, out = C.sh([os.path.join(C.BIN, "c10"), "corr", "-out", d, "-n", str(ctx.scale(600, 3000)), "-maxlen", str(ctx.scale(5, 6))], timeout=3000)
    ctx.log("corr", out[-1000:])
    drv = os.path.join(C.BUILD, "ocaml", "c10", "driver")
    if rc == 0 and os.path.exists(drv):
        rc2, out2 = C.sh("%s %s > %s" % (drv, os.path.join(d, "cases.txt"), os.path.join(d, "model.txt")), timeout=3000)
        if rc2 != 0:
            ctx.diag.append("extracted model crashed: " + out2[-300:])
        ctx.compare("acceptor/walk/trace", os.path.join(d, "model.txt"), os.path.join(d, "impl.txt"), os.path.join(d, "cases.txt"))
        kinds = {}
        for line in open(os.path.join(d, "cases.txt")):
            kinds[line[:1]] = kinds.get(line[:1], 0) + 1
        ctx.cov["correspondence_case_kinds"] = {"acceptor": kinds.get("A", 0), "walk": kinds.get("W", 0), "accepted": kinds.get("V", 0), "traces": kinds.get("T", 0)}
    else:
        ctx.diag.append("correspondence could not run: " + out[-300:])
    summ = oracle(ctx, ctx.scale(4000, 20000))
    ctx.add_summary(summ, "MergeDir vs MergeFiles oracle")
    summ = mergecorr(ctx, ctx.scale(600, 6000))
    ctx.add_summary(summ, "forced arrival order: MergeDir vs MergeFilesWith in arrival order, exact structure")
    if ctx.tier == "thorough":
        ok, out = C.build_harness(race=True)
        ctx.log("go build -race", out)
        if ok:
            summ = oracle(ctx, 1500, "race", salt=11, race=True)
            ctx.add_summary(summ, "race build")
            ctx.cov["race_detector"] = "ran %d cases, no report" % (summ or {}).get("evaluations", 0) if summ else "no summary"
        else:
            ctx.diag.append("-race harness does not build: " + out[-400:])
        ctx.cov["forbidden_vernacular"] = [x for x in C.forbidden_vernacular() if "MergeDir" in x or "Walk" in x or "C10" in x]


def replay(path):
    ok, out = C.build_harness()
    if not ok:
        print(out[-2000:])
        return 1
    rc, out = C.sh([os.path.join(C.BIN, "c10"), "replay", path], timeout=600)
    print(out)
    return 1 if rc != 0 else 0

"""C05 — Create tabulates a valid, stable file; offsets balance every batch."""
import os

import common as C
import optsdom
import validout

CORPUS = os.path.join(C.VERIF, "corpus", "C05")
CORPUS_IAT = os.path.join(CORPUS, "iat")  # cases of harness/cmd/c05iat (IAT / ADV / whole files)


def build(ctx):
    ok, out = C.translate()
    ctx.log("translate", out)
    if not ok:
        ctx.diag.append("translator failed: " + out[-300:])
    C.prove(ctx, ["Props/C05.v", "Props/C05Valid.v", "Props/C05Iat.v"], ["Oblig/C05Obl.v", "Oblig/ValidOutObl.v", "Oblig/C05IatObl.v"])
    ok, out = C.build_harness()
    ctx.log("go build", out)
    if not ok:
        ctx.diag.append("harness does not build against /repo: " + out[-600:])
        return False
    ok, out = C.build_ocaml("c05")
    ctx.log("ocaml", out[-3000:])
    if not ok:
        ctx.diag.append("extracted model does not build: " + out[-600:])
    ok, out = C.build_ocaml("c05iat")
    ctx.log("ocaml c05iat", out[-3000:])
    if not ok:
        ctx.diag.append("extracted IAT / ADV / file model does not build: " + out[-600:])
    return True


def oracle_iat(ctx, n, maxops, sub="oracle_iat", salt=2505):
    """harness/cmd/c05iat oracle: clean IAT / ADV / mixed-file histories through the public API,
    file controls compared with the records of the file the Writer renders."""
    d = os.path.join(ctx.rundir, sub)
    os.makedirs(d, exist_ok=True)
    rc, out = C.sh([os.path.join(C.BIN, "c05iat"), "oracle", "-out", d, "-n", str(n), "-maxops", str(maxops),
                    "-salt", str(salt), "-corpus", CORPUS_IAT], timeout=3000)
    ctx.log(sub, out[-2000:])
    if rc != 0:
        ctx.diag.append("c05iat oracle crashed rc=%d: %s" % (rc, out[-300:]))
    before = len(ctx.fails)
    summ = ctx.read_jsonl(os.path.join(d, "oracle_iat.jsonl"))
    for f in ctx.fails[before:]:
        f["input"] = f.get("case")
    return summ


def corr_iat(ctx):
    """extracted astep (coq/Model/FileCreateAll.v) against IATBatch.build / Batch.build (standard, ADV) /
    entry edits / File.Create on generated histories."""
    d = os.path.join(ctx.rundir, "corr_iat")
    os.makedirs(d, exist_ok=True)
    rc, out = C.sh([os.path.join(C.BIN, "c05iat"), "corr", "-out", d, "-n", str(ctx.scale(2500, 40000)),
                    "-maxops", str(ctx.scale(6, 10)), "-corpus", CORPUS_IAT], timeout=3000)
    ctx.log("corr_iat", out[-1000:])
    drv = os.path.join(C.BUILD, "ocaml", "c05iat", "driver")
    if rc == 0 and os.path.exists(drv):
        rc2, out2 = C.sh("%s %s > %s" % (drv, os.path.join(d, "cases.txt"), os.path.join(d, "model.txt")), timeout=3000)
        if rc2 != 0:
            ctx.diag.append("extracted IAT / ADV / file model crashed: " + out2[-300:])
        ctx.compare("histories: IATBatch.build / Batch.build (ADV, standard) / entry edits / File.Create (all batch kinds)",
                    os.path.join(d, "model.txt"), os.path.join(d, "impl.txt"))
        try:
            import json
            info = json.loads(out.strip().splitlines()[-1])
            ctx.cov.setdefault("c05iat", {})["corr"] = {k: info[k] for k in ("histories", "observations", "skipped", "generator_degraded") if k in info}
        except (ValueError, IndexError):
            pass
    else:
        ctx.diag.append("IAT / ADV / file correspondence could not run: " + out[-300:])


def oracle(ctx, n, maxops, sub="oracle", salt=505):
    d = os.path.join(ctx.rundir, sub)
    os.makedirs(d, exist_ok=True)
    rc, out = C.sh([os.path.join(C.BIN, "c05"), "oracle", "-out", d, "-n", str(n), "-maxops", str(maxops),
                    "-salt", str(salt), "-corpus", CORPUS], timeout=3000)
    ctx.log(sub, out[-2000:])
    if rc != 0:
        ctx.diag.append("oracle crashed rc=%d: %s" % (rc, out[-300:]))
    before = len(ctx.fails)
    summ = ctx.read_jsonl(os.path.join(d, "oracle.jsonl"))
    for f in ctx.fails[before:]:
        f["input"] = f.get("case")
    return summ


def search(ctx, factor):
    before = len(ctx.fails)
    oracle(ctx, ctx.scale(6000, 100000) * factor, ctx.scale(6, 8), "search", salt=9505)
    oracle_iat(ctx, ctx.scale(800, 12000) * factor, ctx.scale(4, 8), "search_iat", salt=9506)
    found = ctx.fails[before:]
    del ctx.fails[before:]
    return found


def run(ctx):
    ctx.search = search
    ctx.trusted += [
        "offset-table emitter of the translator (translator/offsets.go: statement shapes of calculateBatchAmounts / upsertOffsets matched on their printed source)",
        "verif build-tag hook verif_export_c05.go (exports Batch.build, Batch.offset, IATBatch.build unchanged)",
        "abstraction function of the harness (harness/cmd/c05: EntryDetail -> code, amount, name-is-OFFSET, trace number, addenda count, RDFI)",
        "tabulate-table emitter of the translator (translator/tabulate.go: code lists of IATBatch.calculateBatchAmounts / Batch.calculateADVBatchAmounts, constants and statement fragments of IATBatch.build, Batch.build (ADV branch), File.Create, createFileADV matched on their printed source)",
        "abstraction function of harness/cmd/c05iat (IATEntryDetail -> code, amount, trace number, RDFI, presence and sequence fields of Addenda10-18, Addenda98/99; ADVEntryDetail -> code, amount, RDFI, Addenda99, sequence number; both file controls)",
    ]
    ctx.assumptions += [
        "Go int modelled as unbounded Z (amounts <= 10^10-1 and fewer than 9*10^8 entries cannot overflow int64)",
        "trace numbers are empty or strings of at most 16 digits; the header's ODFI is numeric (build returns an error otherwise)",
        "theorems about the control and the balance assume that an entry the caller named OFFSET has no addenda and a transaction code the removal loop books the way calculateBatchAmounts counts it (22/32 or a debit code) when an offset is configured",
        "standard batches: validateOpts == nil is modelled; the SEC specific Validate and Addenda05 sequence numbers are covered by the oracle only",
        "IAT / ADV models: trace numbers are empty or strings of at most 16 digits (IAT: or flagged as not numeric in their first eight characters); entry pointers of a batch are distinct and not nil; batches come from the constructors (an ADV batch carries an ADVControl, every other batch a Control)",
    ]
    if not build(ctx):
        return
    d = os.path.join(ctx.rundir, "corr")
    os.makedirs(d, exist_ok=True)
    rc, out = C.sh([os.path.join(C.BIN, "c05"), "corr", "-out", d, "-n", str(ctx.scale(3000, 60000)),
                    "-maxops", str(ctx.scale(4, 8)), "-corpus", CORPUS], timeout=3000)
    ctx.log("corr", out[-1000:])
    drv = os.path.join(C.BUILD, "ocaml", "c05", "driver")
    if rc == 0 and os.path.exists(drv):
        rc2, out2 = C.sh("%s %s > %s" % (drv, os.path.join(d, "cases.txt"), os.path.join(d, "model.txt")), timeout=3000)
        if rc2 != 0:
            ctx.diag.append("extracted model crashed: " + out2[-300:])
        ctx.compare("histories: Batch.build / AddEntry / File.Create", os.path.join(d, "model.txt"), os.path.join(d, "impl.txt"))
    else:
        ctx.diag.append("correspondence could not run: " + out[-300:])
    corr_iat(ctx)
    validout.run(ctx, "create")
    summ = oracle(ctx, ctx.scale(6000, 100000), ctx.scale(4, 8))
    ctx.add_summary(summ, "Create/AddEntry/File.Create history oracle")
    summ = oracle_iat(ctx, ctx.scale(800, 12000), ctx.scale(4, 8))
    ctx.add_summary(summ, "IAT / ADV / mixed-file history oracle (files as rendered by the Writer)")
    optsdom.run(ctx, "C05")
    optsdom.selftest(ctx)
    if ctx.tier == "thorough":
        ctx.cov["forbidden_vernacular"] = C.forbidden_vernacular()


def replay(path):
    if optsdom.is_case(path):
        return optsdom.replay(path)
    ok, out = C.build_harness()
    if not ok:
        print(out[-2000:])
        return 1
    binary = "c05"
    try:
        import json
        if (json.load(open(path)).get("input") or {}).get("h") == "c05iat":
            binary = "c05iat"
    except (OSError, ValueError, AttributeError):
        pass
    rc, out = C.sh([os.path.join(C.BIN, binary), "replay", path], timeout=600)
    print(out)
    return 1 if rc != 0 else 0

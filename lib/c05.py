"""C05 — Create tabulates a valid, stable file; offsets balance every batch."""
import os

import common as C
import validout

CORPUS = os.path.join(C.VERIF, "corpus", "C05")


def build(ctx):
    ok, out = C.translate()
    ctx.log("translate", out)
    if not ok:
        ctx.diag.append("translator failed: " + out[-300:])
    C.prove(ctx, ["Props/C05.v", "Props/C05Valid.v"], ["Oblig/C05Obl.v", "Oblig/ValidOutObl.v"])
    ok, out = C.build_harness()
    ctx.log("go build", out)
    if not ok:
        ctx.diag.append("harness does not build against /repo: " + out[-600:])
        return False
    ok, out = C.build_ocaml("c05")
    ctx.log("ocaml", out[-3000:])
    if not ok:
        ctx.diag.append("extracted model does not build: " + out[-600:])
    return True


def oracle(ctx, n, maxops, sub="oracle", salt=505):
    d = os.path.join(ctx.rundir, sub)
    os.makedirs(d, exist_ok=True)
    rc, out = C.sh([os.path.join(C.BIN, "c05"), "oracle", "-out", d, "-n", str(n), "-maxops", str(maxops),
                    "-salt", str(salt), "-corpus", CORPUS], timeout=3000)
    ctx.log(sub, out[-2000:])
    if rc != 0:
        ctx.diag.append("oracle crashed rc=%d: %s" % (rc, out[-300:]))
    before = len(ctx.fails)
    summ = ctx.read_jsonl(os.path.join(d, "oracle.jsonl"))
    for f in ctx.fails[before:]:
        f["input"] = f.get("case")
    return summ


def search(ctx, factor):
    before = len(ctx.fails)
    oracle(ctx, ctx.scale(6000, 100000) * factor, ctx.scale(6, 8), "search", salt=9505)
    found = ctx.fails[before:]
    del ctx.fails[before:]
    return found


def run(ctx):
    ctx.search = search
    ctx.trusted += [
        "offset-table emitter of the translator (translator/offsets.go: statement shapes of calculateBatchAmounts / upsertOffsets matched on their printed source)",
        "verif build-tag hook verif_export_c05.go (exports Batch.build, Batch.offset, IATBatch.build unchanged)",
        "abstraction function of the harness (harness/cmd/c05: EntryDetail -> code, amount, name-is-OFFSET, trace number, addenda count, RDFI)",
    ]
    ctx.assumptions += [
        "Go int modelled as unbounded Z (amounts <= 10^10-1 and fewer than 9*10^8 entries cannot overflow int64)",
        "trace numbers are empty or strings of at most 16 digits; the header's ODFI is numeric (build returns an error otherwise)",
        "theorems about the control and the balance assume that an entry the caller named OFFSET has no addenda and a transaction code the removal loop books the way calculateBatchAmounts counts it (22/32 or a debit code) when an offset is configured",
        "validateOpts == nil, non-ADV, non-IAT batches are modelled; ADV and IAT Create, the SEC specific Validate and addenda sequence numbers are covered by the oracle only",
    ]
    if not build(ctx):
        return
    d = os.path.join(ctx.rundir, "corr")
    os.makedirs(d, exist_ok=True)
    rc, out = C.sh([os.path.join(C.BIN, "c05"), "corr", "-out", d, "-n", str(ctx.scale(3000, 60000)),
                    "-maxops", str(ctx.scale(4, 8)), "-corpus", CORPUS], timeout=3000)
    ctx.log("corr", out[-1000:])
    drv = os.path.join(C.BUILD, "ocaml", "c05", "driver")
    if rc == 0 and os.path.exists(drv):
        rc2, out2 = C.sh("%s %s > %s" % (drv, os.path.join(d, "cases.txt"), os.path.join(d, "model.txt")), timeout=3000)
        if rc2 != 0:
            ctx.diag.append("extracted model crashed: " + out2[-300:])
        ctx.compare("histories: Batch.build / AddEntry / File.Create", os.path.join(d, "model.txt"), os.path.join(d, "impl.txt"))
    else:
        ctx.diag.append("correspondence could not run: " + out[-300:])
    validout.run(ctx, "create")
    summ = oracle(ctx, ctx.scale(6000, 100000), ctx.scale(4, 8))
    ctx.add_summary(summ, "Create/AddEntry/File.Create history oracle")
    if ctx.tier == "thorough":
        ctx.cov["forbidden_vernacular"] = C.forbidden_vernacular()


def replay(path):
    ok, out = C.build_harness()
    if not ok:
        print(out[-2000:])
        return 1
    rc, out = C.sh([os.path.join(C.BIN, "c05"), "replay", path], timeout=600)
    print(out)
    return 1 if rc != 0 else 0

"""Phase 3 of C11 / C13: correspondence of the general models (SegmentFile with AddBatch's lists and
the category check; Reversal with the amount rule by addenda kind, PRENOTE descriptions and OFFSET
entries) with the real code on files of harness/internal/gen, and the direct oracle for the new
statements.  Called from lib/c11.py and lib/c13.py."""
import os

import common as C

BIN = "c1113x"
WHAT = {
    "seg": ("c11gen", "C11", "File.SegmentFile with ReturnEntries / NotificationOfChange on generated files (gen)", "C11 general oracle"),
    "rev": ("c13gen", "C13", "File.Reversal with PRENOTE / return / NOC / offset entries on generated files (gen)", "C13 general oracle"),
}


def build(ctx, mode):
    """OCaml driver of the general model (the harness binary is built by the caller)."""
    name = WHAT[mode][0]
    ok, out = C.build_ocaml(name)
    ctx.log("ocaml " + name, out[-3000:])
    if not ok:
        ctx.diag.append("extracted general model does not build: " + out[-600:])
    return ok


def run(ctx, mode, n=None, sub=None, compare=True):
    name, prop, label, olabel = WHAT[mode]
    n = n or ctx.scale(2400, 60000)
    d = os.path.join(ctx.rundir, sub or ("gen-" + mode))
    os.makedirs(d, exist_ok=True)
    exe = os.path.join(C.BIN, BIN)
    if not os.path.exists(exe):
        ctx.diag.append("phase-3 harness binary missing")
        return None
    rc, out = C.sh([exe, mode, "-out", d, "-n", str(n), "-corpus", os.path.join(C.VERIF, "corpus", prop)], timeout=3000)
    ctx.log(BIN + " " + mode, out[-1000:])
    if rc != 0:
        ctx.diag.append("phase-3 harness crashed rc=%d: %s" % (rc, out[-300:]))
        return None
    if compare:
        drv = os.path.join(C.BUILD, "ocaml", name, "driver")
        if os.path.exists(drv):
            rc2, out2 = C.sh("%s %s > %s" % (drv, os.path.join(d, "cases.txt"), os.path.join(d, "model.txt")), timeout=3000)
            if rc2 != 0:
                ctx.diag.append("extracted general model crashed: " + out2[-300:])
            cases = ctx.compare(label, os.path.join(d, "model.txt"), os.path.join(d, "impl.txt"), os.path.join(d, "specs.jsonl"))
            if cases < 1500 and ctx.tier == "quick" and n >= 1500:
                ctx.diag.append("phase-3 correspondence ran on %d cases only (fewer than 1500)" % cases)
        else:
            ctx.diag.append("phase-3 correspondence could not run: driver missing")
    before = len(ctx.fails)
    summ = ctx.read_jsonl(os.path.join(d, "oracle.jsonl"))
    for f in ctx.fails[before:]:
        f["input"] = f.get("case")
    return summ


def search(ctx, mode, factor):
    """Extended search with the direct oracle only (no model run)."""
    before = len(ctx.fails)
    run(ctx, mode, n=ctx.scale(2400, 60000) * factor, sub="gen-search-" + mode, compare=False)
    found = ctx.fails[before:]
    del ctx.fails[before:]
    return found


def is_case(path):
    import json
    try:
        doc = json.load(open(path))
    except (OSError, ValueError):
        return False
    inp = doc.get("input") or doc.get("case") or {}
    return isinstance(inp, dict) and inp.get("x") in ("seg", "rev")


def replay(path):
    ok, out = C.build_harness()
    if not ok:
        print(out[-2000:])
        return 1
    rc, out = C.sh([os.path.join(C.BIN, BIN), "replay", path], timeout=600)
    print(out)
    return 1 if rc != 0 else 0

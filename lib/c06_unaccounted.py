"""List the partial-operation sites of the current source that C06Obl.sites_ok does not accept
(neither discharged by their guards nor listed in coq/Model/PartialAccounted.v), and the stale
entries of the accounted list.  Usage: VERIF_REPO=... python3 lib/c06_unaccounted.py"""
import os
import sys

sys.path.insert(0, os.path.dirname(os.path.abspath(__file__)))
import common as C  # noqa: E402

Q = '''From Coq Require Import String List Bool.
Import ListNotations.
From ACH Require Import PartialTable PartialAccounted PartialSites.
Eval vm_compute in map (fun s => (s_func s, s_kind s, s_class s, s_text s)) (filter (fun s => negb (site_ok field_widths accounted s)) partial_sites).
Eval vm_compute in filter (fun a => negb (existsb (fun s => acct_matches s a) partial_sites)) accounted.
Eval vm_compute in filter (fun m => negb (existsb (msite_matches m) partial_sites)) model_sites.
'''

if __name__ == "__main__":
    print(C.translate()[1][:200])
    ok, out = C.coq_make(["Model/PartialAccounted.vo", "Gen/PartialSites.vo"])
    if not ok:
        print(out[-2000:])
        sys.exit(1)
    p = os.path.join(C.COQ, "ZUnaccounted.v")
    with open(p, "w") as f:
        f.write(Q)
    rc, out = C.sh(["coqc", "-Q", ".", "ACH", "ZUnaccounted.v"], cwd=C.COQ, timeout=600)
    for ext in (".v", ".vo", ".vok", ".vos", ".glob"):
        try:
            os.remove(p[:-2] + ext)
        except OSError:
            pass
    print(out)

"""C07 — JSON and NACHA text are interchangeable representations of a file."""
import os

import common as C
import optsdom


def build(ctx):
    ok, out = C.translate()
    ctx.log("translate", out)
    if not ok:
        ctx.diag.append("translator failed: " + out[-300:])
    C.prove(ctx, ["Props/C07.v", "Props/C07File.v", "Props/C07Full.v", "Props/C07FullADV.v"],
            ["Oblig/C07FullADVObl.v", "Model/JsonFullADVFacts.v", "Oblig/C07Obl.v", "Model/JsonCodecFacts.v", "Oblig/C07FileObl.v", "Model/JsonSurvive.v", "Model/JsonFileFacts.v",
             "Model/JsonPostTable.v", "Model/JsonDefaultsTable.v", "Model/JsonFullFacts.v", "Model/JsonKeepFacts.v", "Oblig/C07FullObl.v"])
    ok, out = C.build_harness()
    ctx.log("go build", out)
    if not ok:
        ctx.diag.append("harness does not build against the repo: " + out[-600:])
        return False
    ok, out = C.build_ocaml("c07")
    ctx.log("ocaml", out[-3000:])
    if not ok:
        ctx.diag.append("extracted model does not build: " + out[-600:])
    ok, out = C.build_ocaml("c07file")
    ctx.log("ocaml c07file", out[-3000:])
    if not ok:
        ctx.diag.append("extracted post-processing model does not build: " + out[-600:])
    ok, out = C.build_ocaml("c07full")
    ctx.log("ocaml c07full", out[-3000:])
    if not ok:
        ctx.diag.append("extracted full file-level model does not build: " + out[-600:])
    ok, out = C.build_ocaml("c07adv")
    ctx.log("ocaml c07adv", out[-3000:])
    if not ok:
        ctx.diag.append("extracted ADV file-level model does not build: " + out[-600:])
    return True


def adv_corr(ctx, n):
    """Phase 7: ADV documents only (forward and returned advices, ADV files valid only under stored options, damaged
    tabulations, an ADV file control hash of eleven digits): writer on full trees, the prediction of C07_roundtrip_adv
    under its explicit hypotheses, from_json, File.UnmarshalJSON."""
    import json
    d = os.path.join(ctx.rundir, "adv")
    os.makedirs(d, exist_ok=True)
    drv = os.path.join(C.BUILD, "ocaml", "c07adv", "driver")
    if not os.path.exists(drv):
        ctx.diag.append("ADV file-level correspondence could not run: no driver")
        return
    rc, out = C.sh([os.path.join(C.BIN, "c07"), "adv", "-out", d, "-n", str(n)], timeout=3000)
    ctx.log("adv", out[-1500:])
    if rc != 0:
        ctx.diag.append("ADV file-level correspondence could not run: " + out[-300:])
        return
    rc2, out2 = C.sh("%s %s %s > %s" % (drv, os.path.join(d, "cases.txt"), os.path.join(d, "hyps.json"), os.path.join(d, "model.txt")), timeout=3000)
    if rc2 != 0:
        ctx.diag.append("extracted ADV file-level model crashed: " + out2[-300:])
    ctx.compare("ADV documents (writer, C07_roundtrip_adv prediction, from_json, File.UnmarshalJSON)",
                os.path.join(d, "model.txt"), os.path.join(d, "impl.txt"), os.path.join(d, "cases.txt"))
    try:
        hy = json.load(open(os.path.join(d, "hyps.json")))
        ctx.cov["adv_roundtrip"] = {"generator": json.load(open(os.path.join(d, "stats.json"))), "roundtrip_adv_theorem": hy}
        files, hold = hy.get("adv_files", {}), hy.get("explicit_hypotheses_hold", {})
        if files.get("all", 0) < min(300, n - n // 10):
            ctx.diag.append("ADV correspondence: only %d ADV files were generated" % files.get("all", 0))
        for cls in ("all", "returned-advices", "needs-stored-options"):
            if hold.get(cls, 0) == 0:
                ctx.diag.append("no generated ADV file of class '%s' satisfies the hypotheses of C07_roundtrip_adv (vacuous)" % cls)
        if hold.get("damaged-tabulation", 0) != 0:
            ctx.diag.append("a file with a damaged tabulation satisfies the hypotheses of C07_roundtrip_adv")
    except (OSError, ValueError) as ex:
        ctx.diag.append("ADV file-level statistics missing: %s" % ex)


def achcli_bin(ctx):
    binp = os.path.join(C.BIN, "achcli_c07")
    rc, out = C.sh(["go", "build", "-o", binp, "./cmd/achcli"], cwd=C.REPO, timeout=900)
    ctx.log("achcli build", out[-1000:])
    if rc != 0:
        ctx.diag.append("achcli does not build: " + out[-300:])
        return None
    return binp


def full_corr(ctx, n, ncli):
    """Phase 4: option-aware writer on full trees (ADV, bypass options), the prediction of C07_roundtrip, from_json under
    the option values achcli passes, the achcli binary's option precedence, constructor values."""
    d = os.path.join(ctx.rundir, "full")
    os.makedirs(d, exist_ok=True)
    drv = os.path.join(C.BUILD, "ocaml", "c07full", "driver")
    if not os.path.exists(drv):
        ctx.diag.append("full file-level correspondence could not run: no driver")
        return
    cmd = [os.path.join(C.BIN, "c07"), "full", "-out", d, "-n", str(n), "-ncli", str(ncli)]
    binp = achcli_bin(ctx)
    if binp:
        cmd += ["-achcli", binp]
    rc, out = C.sh(cmd, timeout=3000)
    ctx.log("full", out[-1500:])
    if rc != 0:
        ctx.diag.append("full file-level correspondence could not run: " + out[-300:])
        return
    rc2, out2 = C.sh("%s %s %s > %s" % (drv, os.path.join(d, "cases.txt"), os.path.join(d, "hyps.json"), os.path.join(d, "model.txt")), timeout=3000)
    if rc2 != 0:
        ctx.diag.append("extracted full file-level model crashed: " + out2[-300:])
    ctx.compare("file-level round trip (options, header options, offsets, ADV, achcli, constructors)",
                os.path.join(d, "model.txt"), os.path.join(d, "impl.txt"), os.path.join(d, "cases.txt"))
    try:
        import json
        hy = json.load(open(os.path.join(d, "hyps.json")))
        rc3, latent = C.sh("echo L > %s && %s %s" % (os.path.join(d, "latent.txt"), drv, os.path.join(d, "latent.txt")), timeout=60)
        ctx.cov["full_roundtrip"] = {"generator": json.load(open(os.path.join(d, "stats.json"))), "roundtrip_theorem": hy,
                                     "latent_constructor_defaults": latent.split()}
        if hy.get("roundtrip_hypotheses_hold", 0) == 0 or hy.get("adv_files_hypotheses_hold", 0) == 0:
            ctx.diag.append("no generated file (or no ADV file) satisfies the hypotheses of C07_roundtrip (vacuous)")
    except (OSError, ValueError) as ex:
        ctx.diag.append("full file-level statistics missing: %s" % ex)


def post_corr(ctx, n):
    """FileFromJSONWith after the decode: extracted post-processing model against the real function."""
    d = os.path.join(ctx.rundir, "post")
    os.makedirs(d, exist_ok=True)
    drv = os.path.join(C.BUILD, "ocaml", "c07file", "driver")
    if not os.path.exists(drv):
        ctx.diag.append("post-processing correspondence could not run: no driver")
        return
    hidden = os.path.join(d, "hidden.txt")
    rc, out = C.sh("%s hidden > %s" % (drv, hidden), timeout=600)
    if rc != 0:
        ctx.diag.append("post-processing driver crashed: " + out[-300:])
        return
    rc, out = C.sh([os.path.join(C.BIN, "c07"), "post", "-out", d, "-n", str(n), "-hidden", hidden, "-repo", C.REPO], timeout=3000)
    ctx.log("post", out[-1000:])
    if rc != 0:
        ctx.diag.append("post-processing correspondence could not run: " + out[-300:])
        return
    rc2, out2 = C.sh("%s %s %s > %s" % (drv, os.path.join(d, "cases.txt"), os.path.join(d, "ready.json"), os.path.join(d, "model.txt")), timeout=3000)
    if rc2 != 0:
        ctx.diag.append("extracted post-processing model crashed: " + out2[-300:])
    ctx.compare("FileFromJSONWith post-processing", os.path.join(d, "model.txt"), os.path.join(d, "impl.txt"), os.path.join(d, "cases.txt"))
    try:
        import json
        ctx.cov["post_processing"] = {"generator": json.load(open(os.path.join(d, "stats.json"))),
                                      "roundtrip_theorem": json.load(open(os.path.join(d, "ready.json")))}
        if ctx.cov["post_processing"]["roundtrip_theorem"].get("roundtrip_conditions_hold", 0) == 0:
            ctx.diag.append("no generated file satisfies the hypotheses of C07_roundtrip_partial (vacuous)")
    except (OSError, ValueError) as ex:
        ctx.diag.append("post-processing statistics missing: %s" % ex)


def oracle(ctx, n, sub="oracle"):
    d = os.path.join(ctx.rundir, sub)
    os.makedirs(d, exist_ok=True)
    rc, out = C.sh([os.path.join(C.BIN, "c07"), "oracle", "-out", d, "-n", str(n), "-repo", C.REPO,
                    "-corpus", os.path.join(C.VERIF, "corpus", "C07")], timeout=3000)
    ctx.log(sub, out[-2000:])
    if rc != 0:
        ctx.diag.append("oracle crashed rc=%d: %s" % (rc, out[-300:]))
    before = len(ctx.fails)
    summ = ctx.read_jsonl(os.path.join(d, "oracle.jsonl"))
    for f in ctx.fails[before:]:
        f["input"] = f.get("case")
    return summ


def cli(ctx, n):
    """achcli -reformat json|ach as a built binary (glue), both tiers."""
    d = os.path.join(ctx.rundir, "cli")
    os.makedirs(d, exist_ok=True)
    binp = os.path.join(C.BIN, "achcli_c07")
    rc, out = C.sh(["go", "build", "-o", binp, "./cmd/achcli"], cwd=C.REPO, timeout=900)
    ctx.log("achcli build", out[-1000:])
    if rc != 0:
        ctx.diag.append("achcli does not build: " + out[-300:])
        return None
    rc, out = C.sh([os.path.join(C.BIN, "c07"), "cli", "-out", d, "-n", str(n), "-achcli", binp], timeout=3000)
    ctx.log("cli", out[-1000:])
    if rc != 0:
        ctx.diag.append("cli glue check crashed rc=%d: %s" % (rc, out[-300:]))
    before = len(ctx.fails)
    summ = ctx.read_jsonl(os.path.join(d, "cli.jsonl"))
    for f in ctx.fails[before:]:
        f["input"] = f.get("case")
    return summ


def search(ctx, factor):
    before = len(ctx.fails)
    oracle(ctx, ctx.scale(1500, 20000) * factor, "search")
    found = ctx.fails[before:]
    del ctx.fails[before:]
    return found


def run(ctx):
    ctx.search = search
    ctx.trusted += ["jsonadv analysis of the translator (statements of the ADV branch of Batch.build, calculateADVBatchAmounts, createFileADV, the ADV branches of FileFromJSONWith, setADVEntryRecordType, File.IsADV, the ADV steps of setBatchesFromJSON, File.UnmarshalJSON, printed and compared with the table the model transcribes; syntactic)",
                    "jsondefaults analysis of the translator (New... constructor literals incl. the new(T)/var shape, File.SetValidation / FileHeader.SetValidation statements, the header wrapper literal of FileFromJSONWith, option reads of the FileHeader accessors, File.Create's header check, assignments to unexported FileHeader fields, exits of achcli's readValidationOpts and the call chain to FileFromJSONWith; syntactic)",
                    "jsonpost analysis of the translator (switches of ConvertBatchType/NewBatch, type-code literals, call order in setBatchesFromJSON and FileFromJSONWith, datetimeformats, overwriteDateTimeFields; syntactic)",
                    "jsontags analysis of the translator (struct tags, aux structs of the JSON methods, decode wrappers of file.go, constructor literals; syntactic)",
                    "encoding/json: text <-> tree, case-insensitive key matching, omitempty, decoding into existing values (modelled by enc/dec, validated by the correspondence run)"]
    ctx.assumptions += ["strings are valid UTF-8 (json.Marshal replaces invalid bytes); JSON objects carry no duplicate keys",
                        "C07_roundtrip (Props/C07Full.v): write, file options, header options and offsets survive FileFromJSON(Marshal(v)) for every typed File value (ADV included) that is in the domain (options stored through File.SetValidation, priorityCode the package's literal, timestamps in NACHA form), valid (regenerated FileHeader rules, batch headers present, addenda type codes, Create's preconditions), tabulated (build / Create / createFileADV are the identity) and json-safe (no Addenda98.iatCorrectedData; the CTX/ATX name heuristic does not fire) -- json-safe is exactly the known findings, each with a _refuted witness; the kept excused fields (header constants, FileIDModifier) are derived from validity (C07_keep_from_valid)",
                        "C07_roundtrip_adv (Props/C07FullADV.v): the ADV case of C07_roundtrip with 'tabulated' replaced by explicit conditions on the records (sequence numbers 1..n, no Offset, the stored ADVBatchControl is the one the ADV branch of build assembles, batch numbering and ADVFileControl as createFileADV computes them); each condition has a _refuted witness; Batch.build is proved idempotent on ADV batches (C07_adv_build_idempotent); the category condition of 'valid' is sufficient but not necessary for the text (C07_adv_category_text_only); not modelled: ErrFileADVOnly for an ADV file that also holds IAT batches (excluded by the hypotheses)",
                        "PARTIAL (phase 2 statement, kept): C07_roundtrip_partial (write (from_json (to_json v)) = write v) is proved for file values whose tree is 'ready' (not ADV, addenda type codes present, CTX/ATX counts set, build under the file's options is the identity on every batch, timestamps shorter than 19 bytes, batch numbers and file control as Create computes them) and whose kept excused fields hold their decode-time values; FileHeader.Validate / BatchHeader.Validate / File.Validate are abstract predicates; ADV files, the reader (text -> file) and option-dependent renderings of the file header are covered by correspondence and oracle only",
                        "post-processing model: nil elements of JSON arrays, the key advFileControl in a hand-written document, Unicode case folding of the OFFSET name are not modelled",
                        "the excused fields of Oblig/C07Obl.v (unexported option pointers, ids, categories, Batch.ADVControl, File.ADVControl, NotificationOfChange/ReturnEntries, FileHeader constants) are restored or recomputed by the decoder's post-processing or are not rendered (docs/C07.md)"]
    if not build(ctx):
        return
    # correspondence: extracted enc / dec / safeb against json.Marshal / json.Unmarshal on every record of generated files
    d = os.path.join(ctx.rundir, "corr")
    os.makedirs(d, exist_ok=True)
    rc, out = C.sh([os.path.join(C.BIN, "c07"), "corr", "-out", d, "-n", str(ctx.scale(60, 600))], timeout=3000)
    ctx.log("corr", out[-1000:])
    drv = os.path.join(C.BUILD, "ocaml", "c07", "driver")
    if rc == 0 and os.path.exists(drv):
        rc2, out2 = C.sh("%s %s > %s" % (drv, os.path.join(d, "cases.txt"), os.path.join(d, "model.txt")), timeout=3000)
        if rc2 != 0:
            ctx.diag.append("extracted model crashed: " + out2[-300:])
        ctx.compare("enc/dec/survives", os.path.join(d, "model.txt"), os.path.join(d, "impl.txt"), os.path.join(d, "cases.txt"))
    else:
        ctx.diag.append("correspondence could not run: " + out[-300:])
    post_corr(ctx, ctx.scale(250, 4000))
    full_corr(ctx, ctx.scale(540, 6000), ctx.scale(36, 240))
    adv_corr(ctx, ctx.scale(340, 3000))
    summ = oracle(ctx, ctx.scale(1500, 20000))
    ctx.add_summary(summ, "JSON round trip oracle")
    optsdom.run(ctx, "C07")
    s2 = cli(ctx, ctx.scale(30, 240))
    ctx.add_summary(s2, "achcli -reformat")
    if ctx.tier == "thorough":
        ctx.cov["forbidden_vernacular"] = [x for x in C.forbidden_vernacular() if "JsonCodec" in x or "C07" in x or "JsonTags" in x or "JsonFile" in x or "JsonSurvive" in x or "JsonPost" in x or "JsonFull" in x or "JsonDefaults" in x or "JsonKeep" in x or "JsonADV" in x]


def replay(path):
    if optsdom.is_case(path):
        return optsdom.replay(path)
    ok, out = C.build_harness()
    if not ok:
        print(out[-2000:])
        return 1
    binp = os.path.join(C.BIN, "achcli_c07")
    C.sh(["go", "build", "-o", binp, "./cmd/achcli"], cwd=C.REPO, timeout=900)
    rc, out = C.sh([os.path.join(C.BIN, "c07"), "replay", path], timeout=600, extra_env={"VERIF_ACHCLI": binp})
    print(out)
    return 1 if rc != 0 else 0

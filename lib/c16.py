"""C16 — I/O failures are reported, never swallowed."""
import glob
import os
import subprocess

import common as C

LEVEL = {"quick": 0, "thorough": 1}


def build(ctx):
    ok, out = C.translate()
    ctx.log("translate", out)
    if not ok:
        ctx.diag.append("translator failed: " + out[-300:])
    C.prove(ctx, ["Props/C16.v", "Props/C16Seq.v"],
            ["Oblig/C16Obl.v", "Proto/BufIOFacts.v", "Oblig/C16SeqObl.v", "Proto/BufIOSeqFacts.v", "Proto/BufIOSeqInst.v"])
    ok, out = C.build_harness()
    ctx.log("go build", out)
    if not ok:
        ctx.diag.append("harness does not build against /repo: " + out[-600:])
        return False
    ok, out = C.build_ocaml("c16")
    ctx.log("ocaml", out[-3000:])
    if not ok:
        ctx.diag.append("extracted model does not build: " + out[-600:])
    ok, out = C.build_ocaml("c16seq")
    ctx.log("ocaml seq", out[-3000:])
    if not ok:
        ctx.diag.append("extracted per-site / response-sequence model does not build: " + out[-600:])
    return True


def oracle(ctx, level, sub="oracle"):
    d = os.path.join(ctx.rundir, sub)
    os.makedirs(d, exist_ok=True)
    rc, out = C.sh([os.path.join(C.BIN, "c16"), "oracle", "-out", d, "-level", str(level),
                    "-corpus", os.path.join(C.VERIF, "corpus", "C16")], timeout=3000)
    ctx.log("oracle", out[-2000:])
    if rc != 0:
        ctx.diag.append("oracle crashed rc=%d: %s" % (rc, out[-300:]))
    before = len(ctx.fails)
    summ = ctx.read_jsonl(os.path.join(d, "oracle.jsonl"))
    for f in ctx.fails[before:]:
        f["input"] = f.get("case")
    return summ


def search(ctx, factor):
    before = len(ctx.fails)
    oracle(ctx, 2 if ctx.tier == "thorough" else 1, "search")
    seq(ctx, 2 if ctx.tier == "thorough" else 1, "seqsearch", corr=False)
    found = ctx.fails[before:]
    del ctx.fails[before:]
    return found


def correspondence(ctx):
    """Model (extracted, current policy) vs implementation on every offset of every sampled file."""
    d = os.path.join(ctx.rundir, "corr")
    os.makedirs(d, exist_ok=True)
    rc, out = C.sh([os.path.join(C.BIN, "c16"), "corr", "-out", d, "-level", str(LEVEL.get(ctx.tier, 0)), "-shards", "16"], timeout=3000)
    ctx.log("corr", out[-1000:])
    drv = os.path.join(C.BUILD, "ocaml", "c16", "driver")
    if rc != 0 or not os.path.exists(drv):
        ctx.diag.append("correspondence could not run: " + out[-300:])
        return
    shards = sorted(glob.glob(os.path.join(d, "cases-*.txt")))
    procs = []
    for p in shards:
        o = open(p.replace("cases-", "model-"), "w")
        procs.append((subprocess.Popen([drv, p], stdout=o, stderr=subprocess.PIPE), o, p))
    for pr, o, p in procs:
        try:
            _, err = pr.communicate(timeout=3000)
        except subprocess.TimeoutExpired:
            pr.kill()
            err = b"timeout"
        o.close()
        if pr.returncode != 0:
            ctx.diag.append("extracted model crashed on %s: %s" % (os.path.basename(p), (err or b"")[-300:].decode("utf-8", "replace")))
    for kind in ("cases", "impl", "model"):
        with open(os.path.join(d, kind + ".txt"), "w") as fh:
            for p in shards:
                fh.write(open(p.replace("cases-", kind + "-")).read())
    ctx.compare("Writer.Write+Flush / Reader.Read under faults at every offset", os.path.join(d, "model.txt"),
                os.path.join(d, "impl.txt"), os.path.join(d, "cases.txt"))


def run_drivers(ctx, drv, d, label):
    """Run the extracted model on every shard of d in parallel, concatenate, compare."""
    shards = sorted(glob.glob(os.path.join(d, "cases-*.txt")))
    procs = []
    for p in shards:
        o = open(p.replace("cases-", "model-"), "w")
        procs.append((subprocess.Popen([drv, p], stdout=o, stderr=subprocess.PIPE), o, p))
    for pr, o, p in procs:
        try:
            _, err = pr.communicate(timeout=3000)
        except subprocess.TimeoutExpired:
            pr.kill()
            err = b"timeout"
        o.close()
        if pr.returncode != 0:
            ctx.diag.append("extracted model crashed on %s: %s" % (os.path.basename(p), (err or b"")[-300:].decode("utf-8", "replace")))
    for kind in ("cases", "impl", "model"):
        with open(os.path.join(d, kind + ".txt"), "w") as fh:
            for p in shards:
                fh.write(open(p.replace("cases-", kind + "-")).read())
    ctx.compare(label, os.path.join(d, "model.txt"), os.path.join(d, "impl.txt"), os.path.join(d, "cases.txt"))


def seq(ctx, level, sub="seq", corr=True):
    """Phase 4: per-site model on the fault-at-offset sink, scripted sinks and sources.  One pass of
    the harness writes the correspondence cases with the implementation's observations and judges
    the property on each of them (oracle.jsonl)."""
    d = os.path.join(ctx.rundir, sub)
    os.makedirs(d, exist_ok=True)
    rc, out = C.sh([os.path.join(C.BIN, "c16"), "seq", "-out", d, "-level", str(level), "-shards", "16",
                    "-corpus", os.path.join(C.VERIF, "corpus", "C16")], timeout=3000)
    ctx.log(sub, out[-1000:])
    if rc != 0:
        ctx.diag.append("seq pass crashed rc=%d: %s" % (rc, out[-300:]))
        return None
    before = len(ctx.fails)
    summ = ctx.read_jsonl(os.path.join(d, "oracle.jsonl"))
    for f in ctx.fails[before:]:
        f["input"] = f.get("case")
    if corr:
        drv = os.path.join(C.BUILD, "ocaml", "c16seq", "driver")
        if not os.path.exists(drv):
            ctx.diag.append("per-site correspondence could not run: no driver")
        else:
            run_drivers(ctx, drv, d, "per-site Writer.Write+Flush under offset faults and scripted sinks / Reader.Read under scripted sources")
    return summ


def run(ctx):
    ctx.search = search
    ctx.trusted += ["WriterIO analysis of the translator (statement shapes around every call through the Writer receiver; shapes of the error handling in NewReaderWithContentType / Read / ReadFile)",
                    "model definitions of bufio.Writer (Flush, WriteString, sticky error), io.ReadFull, charset.NewReader's error cases and bufio.Scanner's error reporting, transcribed from the Go 1.23 / x/net sources (contract, exercised by the correspondence run)"]
    ctx.assumptions += ["bufio.Writer, io.ReadFull, io.MultiReader, transform.Reader and bufio.Scanner behave as transcribed in coq/Proto/BufIO.v (exercised, not proved)",
                        "phase 1 model: the failing io.Writer / io.Reader keeps failing or recovers as described by its fault record and a reader's error is sticky; phase 4 model (C16Seq): the sink / source answers with an arbitrary sequence of responses",
                        "the decoding stage between source and scan loop is Framing.chars (UTF-8 / ASCII; the windows-1252 path for non-UTF-8 input is not modelled): it only matters for the maxLines count",
                        "io.ErrUnexpectedEOF raised by the underlying reader inside charset's 1024-byte preview is indistinguishable from a short input (known finding)"]
    if not build(ctx):
        return
    correspondence(ctx)
    summ = oracle(ctx, LEVEL.get(ctx.tier, 0))
    ctx.add_summary(summ, "fault-injection oracle")
    ctx.add_summary(seq(ctx, LEVEL.get(ctx.tier, 0)), "scripted sinks and sources")
    if summ:
        # every offset of every sampled file is enumerated; the set of files is a sample
        ctx.cov["exhaustive_offsets_per_sampled_file"] = bool(summ.get("exhaustive_offsets"))
        ctx.cov["files"] = summ.get("files", [])
    if ctx.tier == "thorough":
        ctx.cov["forbidden_vernacular"] = C.forbidden_vernacular()


def replay(path):
    ok, out = C.build_harness()
    if not ok:
        print(out[-2000:])
        return 1
    rc, out = C.sh([os.path.join(C.BIN, "c16"), "replay", path], timeout=600)
    print(out)
    return 1 if rc != 0 else 0

"""Shared driver for C08 (merge conserves entries) and C09 (merged files valid, limits respected):
one Gallina model (coq/Model/Merge.v), one harness command (harness/cmd/c08), one extraction."""
import os

import common as C
import optsdom

TRUSTED = [
    "merge-table analysis of the translator (syntactic: fields compared by BatchHeader.Equal, fields copied into the NewBatch literals of convertToFiles, constants and comparison operators of the limit tests)",
    "harness encoding of identity markers (IdentificationNumber / CompanyDiscretionaryData / ImmediateOriginName) used to recognise entries, batch headers and file headers in the outputs",
]
ASSUMPTIONS = [
    "inputs are valid non-IAT, non-ADV files carrying no ValidateOpts (with BypassOriginValidation/CustomTraceNumbers set on only some inputs Batch.build may rewrite trace numbers; not modelled)",
    "NewBatch/Batch.Create/File.Create succeed on the merged content (their error paths are not modelled: e.g. forward and return entries under Equal headers make Create fail and MergeFiles return an error)",
    "company names are ASCII (strings.EqualFold modelled as ASCII case folding)",
    "machine integers do not overflow (amounts <= 10 digits, batchNumber < 2^63)",
]


def build(ctx, props, obligs):
    ok, out = C.translate()
    ctx.log("translate", out)
    if not ok:
        ctx.diag.append("translator failed: " + out[-300:])
    C.prove(ctx, props, obligs)
    ok, out = C.build_harness()
    ctx.log("go build", out)
    if not ok:
        ctx.diag.append("harness does not build against the repo: " + out[-600:])
        return False
    ok, out = C.build_ocaml("c08")
    ctx.log("ocaml", out[-3000:])
    if not ok:
        ctx.diag.append("extracted model does not build: " + out[-600:])
    return True


def correspondence(ctx, lists, per):
    d = os.path.join(ctx.rundir, "corr")
    os.makedirs(d, exist_ok=True)
    rc, out = C.sh([os.path.join(C.BIN, "c08"), "corr", "-out", d, "-lists", str(lists), "-per", str(per)], timeout=3000)
    ctx.log("corr", out[-1000:])
    drv = os.path.join(C.BUILD, "ocaml", "c08", "driver")
    if rc == 0 and os.path.exists(drv):
        rc2, out2 = C.sh("%s %s > %s" % (drv, os.path.join(d, "cases.txt"), os.path.join(d, "model.txt")), timeout=3000)
        if rc2 != 0:
            ctx.diag.append("extracted model crashed: " + out2[-300:])
        ctx.compare("MergeFilesWith", os.path.join(d, "model.txt"), os.path.join(d, "impl.txt"), os.path.join(d, "cases.txt"))
    else:
        ctx.diag.append("correspondence could not run: " + out[-300:])


def oracle(ctx, prop, n, per, sub="oracle"):
    d = os.path.join(ctx.rundir, sub)
    os.makedirs(d, exist_ok=True)
    rc, out = C.sh([os.path.join(C.BIN, "c08"), "oracle", "-prop", prop, "-out", d, "-n", str(n), "-per", str(per), "-gen", str(max(1, n // 4)),
                    "-corpus", os.path.join(C.VERIF, "corpus", prop)], timeout=6000)
    ctx.log("oracle", out[-2000:])
    if rc != 0:
        ctx.diag.append("oracle crashed rc=%d: %s" % (rc, out[-300:]))
    before = len(ctx.fails)
    summ = ctx.read_jsonl(os.path.join(d, "oracle.jsonl"))
    for f in ctx.fails[before:]:
        f["input"] = f.get("case")
    return summ


def make_search(prop):
    def search(ctx, factor):
        before = len(ctx.fails)
        oracle(ctx, prop, ctx.scale(800, 5000) * factor, 40, "search")
        found = ctx.fails[before:]
        del ctx.fails[before:]
        return found
    return search


def run(ctx, prop, props, obligs):
    ctx.search = make_search(prop)
    ctx.trusted += TRUSTED
    ctx.assumptions += ASSUMPTIONS
    if not build(ctx, props, obligs):
        return
    correspondence(ctx, ctx.scale(800, 5000), ctx.scale(80, 0))
    summ = oracle(ctx, prop, ctx.scale(800, 5000), ctx.scale(30, 0))
    ctx.add_summary(summ, "MergeFilesWith oracle (%s)" % prop)
    optsdom.run(ctx, prop)
    if ctx.tier == "thorough":
        ctx.cov["forbidden_vernacular"] = C.forbidden_vernacular()


def replay(prop, path):
    if optsdom.is_case(path):
        return optsdom.replay(path)
    ok, out = C.build_harness()
    if not ok:
        print(out[-2000:])
        return 1
    rc, out = C.sh([os.path.join(C.BIN, "c08"), "replay", "-prop", prop, path], timeout=600)
    print(out)
    return 1 if rc != 0 else 0

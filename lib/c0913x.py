"""Phase 5 of C09 / C13: files valid only under the ValidateOpts stored on them, through MergeFilesWith
and File.Reversal.  Correspondence of the extracted option models (merge_files_o + the validator model
under options; reversal_file_x = ReversalOpts.reversal_file_o) with the real code on inputs drawn from
gen.NeedsOptsVariant (harness/cmd/c0913x), plus the direct oracle statements of that command.
Called from lib/c09.py (mode "merge") and lib/c13.py (mode "rev")."""
import json
import os

import common as C

BIN = "c0913x"
WHAT = {
    "merge": ("c09opts", "C09", "MergeFilesWith on files valid only under their options: validator model under options on inputs and outputs (ArithOpts / ValidMergeOpts)", "C09 outputs valid under carried options"),
    "rev": ("c13opts", "C13", "File.Reversal on files valid only under their options (ReversalOpts.reversal_file_o, double reversal)", "C13 reversal under stored options"),
}
TRUSTED = ("phase 5: harness/cmd/c0913x — abstraction of generated files into the option models (entry records identified by pointer, "
           "record-level ValidateOpts read through reflection on the unexported field, CheckTransactionCode identified by behaviour); "
           "translator/revopts.go (printed source of File.Reversal, File.Create, (*Batch).Validate and the option reads of the validators); "
           "OptsView.v restates the extracted functions without module aliases (equalities proved in OptsViewFacts.v)")


def build(ctx, mode):
    name = WHAT[mode][0]
    ok, out = C.build_ocaml(name)
    ctx.log("ocaml " + name, out[-3000:])
    if not ok:
        ctx.diag.append("extracted phase-5 option model does not build: " + out[-600:])
    return ok


def run(ctx, mode, n=None, sub=None, compare=True):
    name, prop, label, olabel = WHAT[mode]
    n = n or ctx.scale(1900, 40000)
    d = os.path.join(ctx.rundir, sub or ("opts5-" + mode))
    os.makedirs(d, exist_ok=True)
    exe = os.path.join(C.BIN, BIN)
    if not os.path.exists(exe):
        ctx.diag.append("phase-5 harness binary missing (the harness did not build)")
        return None
    rc, out = C.sh([exe, mode, "-out", d, "-n", str(n), "-corpus", os.path.join(C.VERIF, "corpus", prop, "opts5")], timeout=3000)
    ctx.log(BIN + " " + mode, out[-1500:])
    if rc != 0:
        ctx.diag.append("phase-5 harness crashed rc=%d: %s" % (rc, out[-300:]))
        return None
    if compare:
        drv = os.path.join(C.BUILD, "ocaml", name, "driver")
        if os.path.exists(drv):
            rc2, out2 = C.sh("%s %s > %s" % (drv, os.path.join(d, "cases.txt"), os.path.join(d, "model.txt")), timeout=3000)
            if rc2 != 0:
                ctx.diag.append("extracted phase-5 option model crashed: " + out2[-300:])
            cases = ctx.compare(label, os.path.join(d, "model.txt"), os.path.join(d, "impl.txt"), os.path.join(d, "specs.jsonl"))
            if cases < 1500 and ctx.tier == "quick" and n >= 1900:
                ctx.diag.append("phase-5 option correspondence (%s) ran on %d cases only (fewer than 1500)" % (mode, cases))
        else:
            ctx.diag.append("phase-5 option correspondence could not run: driver missing")
        if TRUSTED not in ctx.trusted:
            ctx.trusted.append(TRUSTED)
    before = len(ctx.fails)
    summ = ctx.read_jsonl(os.path.join(d, "oracle.jsonl"))
    for f in ctx.fails[before:]:
        f["input"] = f.get("case")
    if compare:
        ctx.add_summary(summ, olabel)
    return summ


def search(ctx, mode, factor):
    """Extended search with the direct oracle statements only (no model run)."""
    before = len(ctx.fails)
    run(ctx, mode, n=ctx.scale(1900, 40000) * factor, sub="opts5-search-" + mode, compare=False)
    found = ctx.fails[before:]
    del ctx.fails[before:]
    return found


def is_case(path):
    try:
        doc = json.load(open(path))
    except (OSError, ValueError):
        return False
    inp = doc.get("input") or doc.get("case") or {}
    return isinstance(inp, dict) and inp.get("x") in ("c09opts", "c13opts")


def replay(path):
    ok, out = C.build_harness()
    if not ok:
        print(out[-2000:])
        return 1
    rc, out = C.sh([os.path.join(C.BIN, BIN), "replay", path], timeout=600)
    print(out)
    return 1 if rc != 0 else 0

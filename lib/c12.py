"""C12 — FlattenBatches consolidates batches without changing the entries."""
import os

import common as C
import optsdom
import validout

CORPUS = os.path.join(C.VERIF, "corpus", "C12")


def build(ctx):
    ok, out = C.translate()
    ctx.log("translate", out)
    if not ok:
        ctx.diag.append("translator failed: " + out[-300:])
    C.prove(ctx, ["Props/C12.v", "Props/C12Valid.v", "Props/C12Opts.v", "Props/C12Full.v", "Props/C12FullIAT.v"], ["Oblig/C12Obl.v", "Oblig/ValidFlatObl.v", "Oblig/OptSitesObl.v", "Oblig/C12OptsObl.v", "Oblig/C12FullObl.v", "Oblig/C12FullIATObl.v"])
    ok, out = C.build_harness()
    ctx.log("go build", out)
    if not ok:
        ctx.diag.append("harness does not build against /repo: " + out[-600:])
        return False
    ok, out = C.build_ocaml("c12")
    ctx.log("ocaml", out[-3000:])
    if not ok:
        ctx.diag.append("extracted model does not build: " + out[-600:])
    ok, out = C.build_ocaml("c12full")
    ctx.log("ocaml c12full", out[-3000:])
    if not ok:
        ctx.diag.append("extracted whole-function model (FlattenFull) does not build: " + out[-600:])
    ok, out = C.build_ocaml("c12iat")
    ctx.log("ocaml c12iat", out[-3000:])
    if not ok:
        ctx.diag.append("extracted IAT validator / survivor model (FlattenFullIAT) does not build: " + out[-600:])
    return True


def corr_full(ctx):
    """Phase 6: the whole Flatten function (Model/FlattenFull.v: consolidation + C05's Create models + File.Create +
    the sanity checks) against the real FlattenBatches: outcome class, batch controls, trace numbers, file control,
    Batch.Category()."""
    import json
    d = os.path.join(ctx.rundir, "corr-full")
    os.makedirs(d, exist_ok=True)
    args = [os.path.join(C.BIN, "c12"), "corrfull", "-out", d, "-n", str(ctx.scale(1600, 16000)), "-nbig", str(ctx.scale(150, 1500)),
            "-naug", str(ctx.scale(500, 5000)), "-corpus", CORPUS]
    rc, out = C.sh(args, timeout=3000)
    ctx.log("corr-full", out[-1500:])
    drv = os.path.join(C.BUILD, "ocaml", "c12full", "driver")
    if rc != 0 or not os.path.exists(drv):
        ctx.diag.append("whole-function correspondence could not run: " + out[-300:])
        return
    rc2, out2 = C.sh("%s %s > %s" % (drv, os.path.join(d, "cases.txt"), os.path.join(d, "model.txt")), timeout=3000)
    if rc2 != 0:
        ctx.diag.append("extracted whole-function model crashed: " + out2[-300:])
    ctx.compare("FlattenBatches, whole function (FlattenFull.flatten_full_stable / _hint)", os.path.join(d, "model.txt"),
                os.path.join(d, "impl.txt"), os.path.join(d, "specs.jsonl"))
    # the same run is a direct oracle for C12_succeeds: every generated file is valid, a failure of FlattenBatches
    # is reported under the key of its cause
    before = len(ctx.fails)
    summ = ctx.read_jsonl(os.path.join(d, "full-oracle.jsonl"))
    for f in ctx.fails[before:]:
        f["input"] = f.get("case")
    ctx.add_summary(summ, "FlattenBatches whole-function oracle")
    try:
        info = json.loads(out.strip().splitlines()[-1])
        ctx.cov.setdefault("distribution", {})["whole-function correspondence"] = info
        if info.get("cases", 0) < 1500 and ctx.tier == "quick":
            ctx.diag.append("whole-function correspondence: only %d cases" % info.get("cases", 0))
        if info.get("distribution", {}).get("files_mixed_category_same_signature", 0) < 100:
            ctx.diag.append("whole-function correspondence: too few files with mixed categories under one signature")
    except (ValueError, IndexError):
        pass


def corr_iat(ctx):
    """Phase 7: IATBatch.Create WITH the validator (Model/FlattenFullIAT.v: iat_skeleton, iat_validate, create_iat_v) against
    the real FlattenBatches / IATBatch.Create / IATBatch.Validate — skeleton and verdict of every IAT batch of the result,
    single batches as generated and tampered — and files that mix ADV batches with others (File.Create's refusal)."""
    import json
    d = os.path.join(ctx.rundir, "corr-iat")
    os.makedirs(d, exist_ok=True)
    args = [os.path.join(C.BIN, "c12"), "corriat", "-out", d, "-n", str(ctx.scale(500, 5000)), "-nmix", str(ctx.scale(120, 1200)),
            "-nbatch", str(ctx.scale(900, 9000)), "-corpus", CORPUS]
    rc, out = C.sh(args, timeout=3000)
    ctx.log("corr-iat", out[-1500:])
    drv = os.path.join(C.BUILD, "ocaml", "c12iat", "driver")
    if rc != 0 or not os.path.exists(drv):
        ctx.diag.append("IAT validator correspondence could not run: " + out[-300:])
        return
    rc2, out2 = C.sh("%s %s > %s" % (drv, os.path.join(d, "cases.txt"), os.path.join(d, "model.txt")), timeout=3000)
    if rc2 != 0:
        ctx.diag.append("extracted IAT validator model crashed: " + out2[-300:])
    ctx.compare("FlattenBatches / IATBatch.Create with the validator, ADV next to other batches (FlattenFullIAT.iat_views / create_iat_view)",
                os.path.join(d, "model.txt"), os.path.join(d, "impl.txt"), os.path.join(d, "specs.jsonl"))
    before = len(ctx.fails)
    summ = ctx.read_jsonl(os.path.join(d, "iat-oracle.jsonl"))
    for f in ctx.fails[before:]:
        f["input"] = f.get("case")
    ctx.add_summary(summ, "IAT validator / mixed ADV oracle")
    try:
        info = json.loads(out.strip().splitlines()[-1])
        ctx.cov.setdefault("distribution", {})["IAT validator correspondence"] = info
        dist = info.get("distribution", {})
        if ctx.tier == "quick" and (info.get("cases", 0) < 800 or dist.get("mixed_adv_ERRFILE", 0) < 50 or dist.get("iat_batches_out", 0) < 300
                                    or sum(v for k, v in dist.items() if k.startswith("create_fail:")) < 150):
            ctx.diag.append("IAT validator correspondence: too few cases %s" % json.dumps(info)[:300])
    except (ValueError, IndexError):
        pass


def oracle(ctx, n, sub="oracle"):
    d = os.path.join(ctx.rundir, sub)
    os.makedirs(d, exist_ok=True)
    rc, out = C.sh([os.path.join(C.BIN, "c12"), "oracle", "-out", d, "-n", str(n), "-corpus", CORPUS], timeout=3000)
    ctx.log("oracle", out[-2000:])
    if rc != 0:
        ctx.diag.append("oracle crashed rc=%d: %s" % (rc, out[-300:]))
    before = len(ctx.fails)
    summ = ctx.read_jsonl(os.path.join(d, "oracle.jsonl"))
    for f in ctx.fails[before:]:
        f["input"] = f.get("case")
    return summ


def search(ctx, factor):
    before = len(ctx.fails)
    oracle(ctx, ctx.scale(3000, 40000) * factor, "search")
    found = ctx.fails[before:]
    del ctx.fails[before:]
    return found


def run(ctx):
    ctx.search = search
    ctx.trusted += ["flatten-source analysis of the translator (translator/flatten.go: syntactic shapes of GetHeaderSignature, the sort.Slice comparators, canMerge, the candidate loop and Consume)",
                    "header signature and entry identity as observed by the harness (first 87 columns of the rendered header; rendered entry + addenda without trace/sequence columns, sha256-abbreviated in the interchange)",
                    "payload observation of harness/cmd/c12/full.go and fulliat.go (stored routing number / check digit of IAT entries; service class, ODFI, header validity, transaction code, routing number, check digit, addenda presence per entry) and the payload lookup of ocaml/c12full/driver.ml and ocaml/c12iat/driver.ml",
                    "the processing order for more than 12 batches is obtained by replaying sort.Slice on the entry counts (untrusted hint: the extracted checker flatten_hint re-validates it)"]
    ctx.assumptions += ["whole-function theorems (Props/C12Full.v, Props/C12FullIAT.v) are about files under default validation options: standard batches (C12_succeeds, C12_valid), standard + IAT batches (C12_succeeds_iat, C12_succeeds_iat_valid: every IAT batch handed to AddToFile passes the Arith part of IATBatch.Validate, the addenda sequence numbers and the addenda limits), ADV files (C12_succeeds_adv), files mixing ADV with other kinds (C12_mixed_adv_error: File.Create's error, exactly); of Validate only what Arith models plus seqs_okb / addenda_limits / isCategory (field level rules of entries and addenda records, IAT NOC rules: oracle)",
                        "inputs are files valid under default validation options (trace numbers strictly ascending inside a batch and prefixed by the header's ODFI)"]
    if not build(ctx):
        return
    d = os.path.join(ctx.rundir, "corr")
    os.makedirs(d, exist_ok=True)
    args = [os.path.join(C.BIN, "c12"), "corr", "-out", d, "-n", str(ctx.scale(4000, 30000)), "-nbig", str(ctx.scale(500, 3000)), "-naug", str(ctx.scale(1500, 10000)), "-corpus", CORPUS]
    rc, out = C.sh(args, timeout=3000)
    ctx.log("corr", out[-1500:])
    drv = os.path.join(C.BUILD, "ocaml", "c12", "driver")
    if rc == 0 and os.path.exists(drv):
        rc2, out2 = C.sh("%s %s > %s" % (drv, os.path.join(d, "cases.txt"), os.path.join(d, "model.txt")), timeout=3000)
        if rc2 != 0:
            ctx.diag.append("extracted model crashed: " + out2[-300:])
        ctx.compare("FlattenBatches", os.path.join(d, "model.txt"), os.path.join(d, "impl.txt"), os.path.join(d, "specs.jsonl"))
        try:
            import json
            ctx.cov["correspondence_generator"] = json.loads(out.strip().splitlines()[-1])
        except Exception:  # noqa
            pass
    else:
        ctx.diag.append("correspondence could not run: " + out[-300:])
    corr_full(ctx)
    corr_iat(ctx)
    validout.run(ctx, "flatten")
    summ = oracle(ctx, ctx.scale(9000, 40000))
    ctx.add_summary(summ, "FlattenBatches oracle")
    optsdom.corr(ctx, "C12")
    optsdom.run(ctx, "C12")
    if summ and "input_file_no_longer_valid_after_flatten" in summ:
        # outside the statement of C12 (see docs/C12.md, "Observation")
        ctx.cov["observation_input_file_no_longer_valid_after_flatten"] = summ["input_file_no_longer_valid_after_flatten"]
    if ctx.tier == "thorough":
        ctx.cov["forbidden_vernacular"] = C.forbidden_vernacular()


def replay(path):
    if optsdom.is_case(path):
        return optsdom.replay(path)
    ok, out = C.build_harness()
    if not ok:
        print(out[-2000:])
        return 1
    try:
        import json
        d = json.load(open(path))
        inp = d.get("input", d)
        if isinstance(inp, dict) and "full" in inp:   # phase-7 recipe (harness/cmd/c12/fulliat.go)
            rc, out = C.sh([os.path.join(C.BIN, "c12"), "replayiat", path], timeout=600)
            print(out)
            return 1 if rc != 0 else 0
        if isinstance(inp, dict) and "file" in inp:   # phase-6 recipe (harness/cmd/c12/full.go)
            rc, out = C.sh([os.path.join(C.BIN, "c12"), "replayfull", path], timeout=600)
            print(out)
            return 1 if rc != 0 else 0
    except (OSError, ValueError):
        pass
    rc, out = C.sh([os.path.join(C.BIN, "c12"), "replay", path], timeout=600)
    print(out)
    return 1 if rc != 0 else 0

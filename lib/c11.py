"""C11 — SegmentFile partitions a file into credits and debits without loss."""
import os

import common as C
import optsdom
import validout
import c1113x

PROP = "C11"
NAME = "c11"


def build(ctx):
    ok, out = C.translate()
    ctx.log("translate", out)
    if not ok:
        ctx.diag.append("translator failed: " + out[-300:])
    C.prove(ctx, ["Props/C11.v", "Props/C11Valid.v", "Props/C11General.v", "Props/C11Opts.v"],
            ["Oblig/C11Obl.v", "Oblig/ValidSegObl.v", "Oblig/C11GenObl.v", "Oblig/OptSitesObl.v", "Oblig/C11OptsObl.v"])
    ok, out = C.build_harness()
    ctx.log("go build", out)
    if not ok:
        ctx.diag.append("harness does not build against the repository: " + out[-600:])
        try:
            os.remove(os.path.join(C.BIN, NAME))  # never search with a binary of an older tree
        except OSError:
            pass
        return False
    ok, out = C.build_ocaml(NAME)
    ctx.log("ocaml", out[-3000:])
    if not ok:
        ctx.diag.append("extracted model does not build: " + out[-600:])
    c1113x.build(ctx, "seg")
    return True


def oracle(ctx, n, sub="oracle"):
    d = os.path.join(ctx.rundir, sub)
    os.makedirs(d, exist_ok=True)
    rc, out = C.sh([os.path.join(C.BIN, NAME), "oracle", "-out", d, "-n", str(n), "-corpus", os.path.join(C.VERIF, "corpus", PROP)], timeout=3000)
    ctx.log("oracle", out[-2000:])
    if rc != 0:
        ctx.diag.append("oracle crashed rc=%d: %s" % (rc, out[-300:]))
    before = len(ctx.fails)
    summ = ctx.read_jsonl(os.path.join(d, "oracle.jsonl"))
    for f in ctx.fails[before:]:
        f["input"] = f.get("case")
    return summ


def search(ctx, factor):
    before = len(ctx.fails)
    oracle(ctx, ctx.scale(8000, 150000) * factor, "search")
    found = ctx.fails[before:]
    del ctx.fails[before:]
    return found + c1113x.search(ctx, "seg", factor)


def run(ctx):
    ctx.search = search
    ctx.trusted += ["segment-table emitter of the translator (three transaction-code switches and two service-class switches of SegmentFile; calculateBatchAmounts / calculateADVBatchAmounts lists; StandardTransactionCode list)",
                    "hand model of the batch walk, fresh-batch tabulation, File.Create renumbering and the File.Validate fragment (coq/Model/Segment.v), tied by the extracted-model correspondence",
                    "phase 3: hand model of File.AddBatch / Batch.Category / Batch.isCategory (coq/Model/SegmentGen.v) and the abstraction of generated files (harness/internal/c1113x: tags in DFIAccountNumber, interned identifications, list positions by pointer identity), tied by the generated-file correspondence"]
    ctx.assumptions += ["validation is modelled as the fragment that matters for segmentation (standard batches: class vs directions, control totals, standard codes; file totals; ascending batch numbers of f.Batches; ADV files: file totals only); IAT and ADV batches are assumed well-formed as generated (File.Validate does not look inside them); the full Validate of both outputs is exercised by the oracle",
                        "entry identity = the entry with its addenda as moved by pointer; trace numbers of split IAT batches are re-sequenced by the code and excluded from the identity",
                        "integers unbounded (amounts up to 10 digits, sums far below 2^63)",
                        "EntryDetail.Category is a function of the entry identity (entries are moved by pointer); the union of the two halves' ReturnEntries / NotificationOfChange lists and success with the category check are stated for category-uniform batches (what ach.Reader yields)"]
    if not build(ctx):
        return
    d = os.path.join(ctx.rundir, "corr")
    os.makedirs(d, exist_ok=True)
    rc, out = C.sh([os.path.join(C.BIN, NAME), "corr", "-out", d, "-n", str(ctx.scale(8000, 150000))], timeout=3000)
    ctx.log("corr", out[-1000:])
    drv = os.path.join(C.BUILD, "ocaml", NAME, "driver")
    if rc == 0 and os.path.exists(drv):
        rc2, out2 = C.sh("%s %s > %s" % (drv, os.path.join(d, "cases.txt"), os.path.join(d, "model.txt")), timeout=3000)
        if rc2 != 0:
            ctx.diag.append("extracted model crashed: " + out2[-300:])
        ctx.compare("File.SegmentFile", os.path.join(d, "model.txt"), os.path.join(d, "impl.txt"), os.path.join(d, "specs.jsonl"))
    else:
        ctx.diag.append("correspondence could not run: " + out[-300:])
    validout.run(ctx, "segment")
    ctx.add_summary(c1113x.run(ctx, "seg"), "C11 general (gen files)")
    summ = oracle(ctx, ctx.scale(8000, 150000))
    ctx.add_summary(summ, "File.SegmentFile oracle")
    optsdom.corr(ctx, "C11")
    optsdom.run(ctx, "C11")
    if ctx.tier == "thorough":
        ctx.cov["forbidden_vernacular"] = C.forbidden_vernacular()


def replay(path):
    if optsdom.is_case(path):
        return optsdom.replay(path)
    if c1113x.is_case(path):
        return c1113x.replay(path)
    ok, out = C.build_harness()
    if not ok:
        print(out[-2000:])
        return 1
    rc, out = C.sh([os.path.join(C.BIN, NAME), "replay", path], timeout=600)
    print(out)
    return 1 if rc != 0 else 0

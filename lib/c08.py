"""C08 — merging conserves entries: nothing lost, duplicated or invented."""
import merge_common as M


def run(ctx):
    M.run(ctx, "C08", ["Props/C08.v"], ["Oblig/C08Obl.v"])


def replay(path):
    return M.replay("C08", path)

"""C08 — merging conserves entries: nothing lost, duplicated or invented.

Second part (phase 3): what MergeFilesWith does with the ValidateOpts stored on the input files
and batches — model coq/Model/MergeOpts.v, theorems coq/Props/C08Opts.v, table
coq/Gen/MergeOptsGen.v (translator/mergeopts.go), harness command c08opts, extraction
coq/Extract/C08OPTS.v + ocaml/c08opts/driver.ml.  See docs/C08.md."""
import json
import os

import common as C
import merge_common as M

OPTS_TRUSTED = [
    "option table of the translator (syntactic: fields of ValidateOpts, shape of ValidateOpts.merge, the statements of merge.go that touch option values, printed source of the trace-number code of Batch.build/verify)",
    "harness c08opts: options observed by reflection over ach.ValidateOpts and through the verif hook VerifBatchValidation; CheckTransactionCode identity by function pointer",
]
OPTS_ASSUMPTIONS = [
    "options: pointer identity of *ValidateOpts values is not modelled (values only); the options stored on batch headers, entries and addenda are outside the model (the oracle observes them through Create/Validate of the real outputs)",
    "options: trace numbers and ODFI identifications are ASCII (byte slicing of TraceNumberField()[:8]); inputs do not share *EntryDetail pointers when Batch.build renumbers (the mutation of a shared entry is not modelled)",
    "NewMerger(opts).MergeWith stores opts on every input file before MergeFilesWith: covered as inputs that all carry the same option value",
]


def opts_correspondence(ctx, n):
    d = os.path.join(ctx.rundir, "corr-opts")
    os.makedirs(d, exist_ok=True)
    ok, out = C.build_ocaml("c08opts")
    ctx.log("ocaml c08opts", out[-3000:])
    if not ok:
        ctx.diag.append("extracted option model does not build: " + out[-600:])
        return
    rc, out = C.sh([os.path.join(C.BIN, "c08opts"), "corr", "-out", d, "-n", str(n)], timeout=3000)
    ctx.log("corr-opts", out[-1500:])
    drv = os.path.join(C.BUILD, "ocaml", "c08opts", "driver")
    if rc != 0 or not os.path.exists(drv):
        ctx.diag.append("option correspondence could not run: " + out[-300:])
        return
    rc2, out2 = C.sh("%s %s > %s" % (drv, os.path.join(d, "cases.txt"), os.path.join(d, "model.txt")), timeout=3000)
    if rc2 != 0:
        ctx.diag.append("extracted option model crashed: " + out2[-300:])
    ctx.compare("MergeFilesWith with ValidateOpts", os.path.join(d, "model.txt"), os.path.join(d, "impl.txt"), os.path.join(d, "cases.jsonl"))
    try:
        info = json.loads(out.strip().splitlines()[-1])
        ctx.cov.setdefault("distribution", {})["correspondence with ValidateOpts"] = info.get("distribution", {})
        if info.get("skipped", 0) * 10 > info.get("cases", 0):
            ctx.diag.append("option correspondence: %d of %d generated cases could not be built" % (info["skipped"], info["skipped"] + info["cases"]))
    except (ValueError, IndexError):
        pass


def opts_oracle(ctx, n, sub="oracle-opts"):
    d = os.path.join(ctx.rundir, sub)
    os.makedirs(d, exist_ok=True)
    rc, out = C.sh([os.path.join(C.BIN, "c08opts"), "oracle", "-out", d, "-n", str(n),
                    "-corpus", os.path.join(C.VERIF, "corpus", "C08", "opts")], timeout=6000)
    ctx.log(sub, out[-2000:])
    if rc != 0:
        ctx.diag.append("option oracle crashed rc=%d: %s" % (rc, out[-300:]))
    before = len(ctx.fails)
    summ = ctx.read_jsonl(os.path.join(d, "oracle.jsonl"))
    for f in ctx.fails[before:]:
        f["input"] = f.get("case")
    return summ


def run(ctx):
    M.run(ctx, "C08", ["Props/C08.v", "Props/C08Opts.v"], ["Oblig/C08Obl.v", "Oblig/C08OptsObl.v"])
    if not os.path.exists(os.path.join(C.BIN, "c08opts")):
        return  # the harness did not build; M.run has recorded why
    base_search = ctx.search

    def search(c, factor):
        found = list(base_search(c, factor) or [])
        before = len(c.fails)
        opts_oracle(c, c.scale(1500, 8000) * factor, "search-opts")
        found += c.fails[before:]
        del c.fails[before:]
        return found

    ctx.search = search
    ctx.trusted += OPTS_TRUSTED
    ctx.assumptions[:] = [a for a in ctx.assumptions if not a.startswith("inputs are valid non-IAT, non-ADV files carrying no ValidateOpts")]
    ctx.assumptions += ["inputs are valid non-IAT, non-ADV files (valid under the ValidateOpts stored on them)"] + OPTS_ASSUMPTIONS
    opts_correspondence(ctx, ctx.scale(2000, 20000))
    summ = opts_oracle(ctx, ctx.scale(1500, 15000))
    ctx.add_summary(summ, "MergeFilesWith with ValidateOpts (C08 options)")


def replay(path):
    try:
        inp = json.load(open(path)).get("input") or {}
    except (OSError, ValueError):
        inp = {}
    if isinstance(inp, dict) and inp.get("kind") == "opts":
        ok, out = C.build_harness()
        if not ok:
            print(out[-2000:])
            return 1
        rc, out = C.sh([os.path.join(C.BIN, "c08opts"), "replay", path], timeout=600)
        print(out)
        return 1 if rc != 0 else 0
    return M.replay("C08", path)

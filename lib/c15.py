"""C15 — relaxation options only ever relax."""
import json
import os

import common as C


def build(ctx):
    ok, out = C.translate()
    ctx.log("translate", out)
    if not ok:
        ctx.diag.append("translator failed: " + out[-300:])
    C.prove(ctx, ["Props/C15.v"], ["Oblig/C15Obl.v"])
    ok, out = C.build_harness()
    ctx.log("go build", out)
    if not ok:
        ctx.diag.append("harness does not build against $VERIF_REPO: " + out[-600:])
        return False
    ok, out = C.build_ocaml("c15")
    ctx.log("ocaml", out[-3000:])
    if not ok:
        ctx.diag.append("extracted model does not build: " + out[-600:])
    return True


def oracle(ctx, n, sub="oracle"):
    d = os.path.join(ctx.rundir, sub)
    os.makedirs(d, exist_ok=True)
    rc, out = C.sh([os.path.join(C.BIN, "c15"), "oracle", "-out", d, "-n", str(n), "-corpus", os.path.join(C.VERIF, "corpus", "C15")], timeout=3000)
    ctx.log("oracle", out[-2000:])
    if rc != 0:
        ctx.diag.append("oracle crashed rc=%d: %s" % (rc, out[-300:]))
    before = len(ctx.fails)
    summ = ctx.read_jsonl(os.path.join(d, "oracle.jsonl"))
    for f in ctx.fails[before:]:
        f["input"] = f.get("case")
    return summ


def search(ctx, factor):
    before = len(ctx.fails)
    oracle(ctx, ctx.scale(15000, 80000) * factor, "search")
    found = ctx.fails[before:]
    del ctx.fails[before:]
    return found


def correspondence(ctx):
    """accept(O) on the real Reader/ValidateWith vs the extracted model's prediction from the
    observations accept(all flags but G), G in the model's clause family (theorem C15_predict)."""
    d = os.path.join(ctx.rundir, "corr")
    os.makedirs(d, exist_ok=True)
    drv = os.path.join(C.BUILD, "ocaml", "c15", "driver")
    if not os.path.exists(drv):
        ctx.diag.append("correspondence could not run: extracted driver missing")
        return
    clauses = os.path.join(d, "clauses.txt")
    rc, out = C.sh("%s clauses > %s" % (drv, clauses), timeout=300)
    if rc != 0:
        ctx.diag.append("extracted model crashed printing its clauses: " + out[-300:])
        return
    args = [os.path.join(C.BIN, "c15"), "corr", "-out", d, "-clauses", clauses, "-n", str(ctx.scale(1500, 6000)),
            "-per", str(ctx.scale(24, 64)), "-full", str(ctx.scale(0, 12)), "-corpus", os.path.join(C.VERIF, "corpus", "C15")]
    rc, out = C.sh(args, timeout=3000)
    ctx.log("corr", out[-1000:])
    if rc != 0:
        ctx.diag.append("correspondence could not run: " + out[-300:])
        return
    try:
        info = json.loads(out.strip().splitlines()[-1])
        ctx.cov["correspondence_info"] = info
    except ValueError:
        pass
    rc2, out2 = C.sh("%s %s > %s" % (drv, os.path.join(d, "cases.txt"), os.path.join(d, "model.txt")), timeout=3000)
    if rc2 != 0:
        ctx.diag.append("extracted model crashed: " + out2[-300:])
    ctx.compare("accept(O) vs model_predict", os.path.join(d, "model.txt"), os.path.join(d, "impl.txt"), os.path.join(d, "cases.txt"))


def run(ctx):
    ctx.search = search
    ctx.trusted += ["opt-uses analysis of the translator (translator/optuses.go: syntactic monotonicity of if-conditions in each ValidateOpts flag through ! && || and nil tests; effect-freeness of guarded / skipped statements; calls taken to be pure unless named Set*/Add*/Parse/Write*)",
                    "hand-written skeleton coq/Model/OptTree.v (which check sits under which guard, how the reader's control flow depends on verdicts); its guard sites are compared with the regenerated table, its clause family with the implementation by the correspondence run"]
    ctx.assumptions += ["data checks, record parsers and reader state updates are arbitrary functions that do not read the 15 relaxation flags (universally quantified in the theorems; the translator table shows no other read of a flag in package ach)",
                        "all records of one text carry either the reader's option set or none (Reader.SetValidation); per-record option sets that differ (JSON input) are outside the model",
                        "line splitting, charset decoding and the fixed-width (no line break) format are option independent and not modelled",
                        "SkipAll is off, RequireABAOrigin / PreserveSpaces / CheckTransactionCode are held fixed along a chain"]
    if not build(ctx):
        return
    correspondence(ctx)
    summ = oracle(ctx, ctx.scale(15000, 80000))
    ctx.add_summary(summ, "chain oracle")
    if ctx.tier == "thorough":
        ctx.cov["forbidden_vernacular"] = C.forbidden_vernacular()


def replay(path):
    ok, out = C.build_harness()
    if not ok:
        print(out[-2000:])
        return 1
    rc, out = C.sh([os.path.join(C.BIN, "c15"), "replay", path], timeout=600)
    print(out)
    return 1 if rc != 0 else 0

"""C19 — Concurrent work on distinct files never interferes."""
import json
import os
import re

import common as C

CORPUS = os.path.join(C.VERIF, "corpus", "C19")


def table_report(ctx):
    """Name the entries of the regenerated table that the Coq checker will reject (diagnostics only;
    the verdict is the Coq obligation)."""
    p = os.path.join(C.COQ, "Gen", "PoolTable.v")
    try:
        txt = open(p).read()
    except OSError:
        return
    users = re.findall(r'mkuser "([^"]*)" "([^"]*)" (true|false) (true|false) (\[[^\]]*\]) (\[[^\]]*\]) (true|false)', txt)
    gvars = re.findall(r'mkgvar "([^"]*)" "([^"]*)" "([^"]*)" (\[[^\]]*\]) (\[[^\]]*\]) (\[[^\]]*\]) (\[[^\]]*\])', txt)
    ctx.cov["pool_table"] = {"getBuffer_users": len(users), "package_level_vars": len(gvars)}
    allowed = {"Write", "WriteString", "WriteByte", "WriteRune", "Truncate", "Grow", "String", "Len", "Cap", "Reset"}
    bad = []
    for fn, var, dn, top, ops, esc, unk in users:
        opl = re.findall(r'"([^"]*)"', ops)
        if dn != "true" or top != "true" or unk != "false" or esc != "[]" or any(o not in allowed for o in opl):
            bad.append("getBuffer user %s (%s): defer-next=%s top-level=%s ops-outside-allowed=%s other-uses=%s" % (
                fn, var, dn, top, [o for o in opl if o not in allowed], esc))
    for pkg, name, kind, wr, addr, passed, meth in gvars:
        if wr != "[]" or addr != "[]" or passed != "[]":
            bad.append("package-level var %s.%s: assigned-in=%s address-taken-in=%s passed-to=%s" % (pkg, name, wr, addr, passed))
    m = re.search(r"pool_save_ops : list string := (\[[^\]]*\])", txt)
    if m and m.group(1) != '["Reset"; "Put"]':
        bad.append("saveBuffer body is %s (expected Reset then Put)" % m.group(1))
    if bad:
        ctx.cov["pool_table"]["rejected_entries"] = bad[:20]
        ctx.log("table", "\n".join(bad))


def build(ctx):
    ok, out = C.translate()
    ctx.log("translate", out)
    if not ok:
        ctx.diag.append("translator failed: " + out[-300:])
    table_report(ctx)
    ok = C.prove(ctx, ["Props/C19.v"], ["Oblig/C19Obl.v", "Proto/PoolFacts.v", "Model/PoolDisc.v"])
    if not ok and ctx.cov.get("pool_table", {}).get("rejected_entries"):
        ctx.diag.append("pool discipline table: " + "; ".join(ctx.cov["pool_table"]["rejected_entries"][:3]))
    ok, out = C.build_harness()
    ctx.log("go build", out)
    if not ok:
        ctx.diag.append("harness does not build against the source tree: " + out[-600:])
        return False
    ok, out = C.build_harness(race=True)
    ctx.log("go build -race", out)
    if not ok:
        ctx.diag.append("race-detector build of the harness failed: " + out[-600:])
    ok, out = C.build_ocaml("c19")
    ctx.log("ocaml", out[-3000:])
    if not ok:
        ctx.diag.append("extracted model does not build: " + out[-600:])
    return True


RACE_FRAME = re.compile(r"^\s+(github\.com/moov-io/ach\S*)\(\)\s*$", re.M)


def race_failures(out, case):
    """Turn race-detector reports into failure records keyed by the first library frame."""
    fails = []
    for blk in out.split("WARNING: DATA RACE")[1:]:
        blk = blk.split("==================")[0]
        m = RACE_FRAME.search(blk)
        frame = m.group(1).replace("github.com/moov-io/ach", "ach") if m else "unknown-frame"
        fails.append({"kind": "fail", "key": "race:" + frame, "what": "the Go race detector reported a data race: " + blk.strip()[:1500],
                      "case": case, "input": case})
    return fails


def oracle(ctx, n, sub="oracle", race=False, salt=1902):
    d = os.path.join(ctx.rundir, sub)
    os.makedirs(d, exist_ok=True)
    exe = os.path.join(C.BUILD, "bin-race" if race else "bin", "c19")
    args = [exe, "oracle", "-out", d, "-n", str(n), "-corpus", CORPUS, "-salt", str(salt)]
    rc, out = C.sh(args, timeout=3000, extra_env={"GORACE": "halt_on_error=0 exitcode=66"} if race else None)
    ctx.log(sub, out[-4000:])
    before = len(ctx.fails)
    if race and ("WARNING: DATA RACE" in out or rc == 66):
        case = {"mode": "race", "n": n, "salt": salt, "seed": ctx.seed}
        seen = set()
        for f in race_failures(out, case) or [{"kind": "fail", "key": "race:unknown-frame", "what": out[-1500:], "case": case, "input": case}]:
            if f["key"] not in seen:
                seen.add(f["key"])
                ctx.fails.append(f)
    elif "fatal error: concurrent map" in out:
        case = {"mode": "race", "n": n, "salt": salt, "seed": ctx.seed, "race_build": race}
        m = RACE_FRAME.search(out[out.index("fatal error: concurrent map"):])
        frame = m.group(1).replace("github.com/moov-io/ach", "ach") if m else "unknown-frame"
        ctx.fails.append({"kind": "fail", "key": "fatal:concurrent-map-access:" + frame,
                          "what": "the Go runtime aborted the process: " + out[out.index("fatal error: concurrent map"):][:1500], "case": case, "input": case})
    elif rc != 0:
        ctx.diag.append("oracle (%s) crashed rc=%d: %s" % (sub, rc, out[-300:]))
    summ = ctx.read_jsonl(os.path.join(d, "oracle.jsonl"))
    for f in ctx.fails[before:]:
        f.setdefault("input", f.get("case"))
    return summ


def search(ctx, factor):
    before = len(ctx.fails)
    oracle(ctx, ctx.scale(5000, 40000) * factor, "search", salt=2902)
    if len(ctx.fails) == before and os.path.exists(os.path.join(C.BUILD, "bin-race", "c19")):
        oracle(ctx, ctx.scale(600, 5000) * 3, "search-race", race=True, salt=2903)
    found = ctx.fails[before:]
    del ctx.fails[before:]
    return found


def run(ctx):
    ctx.search = search
    ctx.trusted += [
        "pool-table analysis of the translator (translator/pool.go): syntactic, per function; identifier resolution by go/parser objects; escape through reflection/unsafe conversions of values other than the buffer variable is not seen",
        "sync.Pool contract (Get returns a previously Put item not handed out since, or New()), bytes.Buffer.String copies, Go memory model for properly synchronised programs",
        "verif build-tag hook verif_export_c19.go (exports getBuffer/saveBuffer unchanged)",
        "Go race detector (-race) as the witness of data races in the executions the oracle produces",
    ]
    ctx.assumptions += [
        "types with documented internal synchronisation (sync.Pool, *regexp.Regexp, go-kit/prometheus counters, net/http, gorilla/mux) are contracts, not modelled",
        "a goroutine is modelled as a finite tree program over its private state; loops are unrolled along the (finite) input",
        "wall-clock columns (file creation date/time when empty, segment files) and random IDs are inputs of the operations and are blanked before comparing",
        "the list-all endpoint and requests addressing the same file id are out of scope (property text)",
    ]
    if not build(ctx):
        return
    # correspondence: the extracted pool machine (solo semantics) vs real goroutines on the real pool
    d = os.path.join(ctx.rundir, "corr")
    os.makedirs(d, exist_ok=True)
    rc, out = C.sh([os.path.join(C.BIN, "c19"), "corr", "-out", d, "-n", str(ctx.scale(400, 6000))], timeout=3000)
    ctx.log("corr", out[-1000:])
    drv = os.path.join(C.BUILD, "ocaml", "c19", "driver")
    if rc == 0 and os.path.exists(drv):
        rc2, out2 = C.sh("%s %s > %s" % (drv, os.path.join(d, "cases.txt"), os.path.join(d, "model.txt")), timeout=3000)
        if rc2 != 0:
            ctx.diag.append("extracted model crashed: " + out2[-300:])
        ctx.compare("pool programs: goroutines on getBuffer/saveBuffer vs model solo runs", os.path.join(d, "model.txt"),
                    os.path.join(d, "impl.txt"), os.path.join(d, "cases.txt"))
    else:
        ctx.diag.append("correspondence could not run: " + out[-300:])
    summ = oracle(ctx, ctx.scale(5000, 40000))
    ctx.add_summary(summ, "concurrent vs sequential")
    if os.path.exists(os.path.join(C.BUILD, "bin-race", "c19")):
        rs = oracle(ctx, ctx.scale(600, 5000), "oracle-race", race=True, salt=1903)
        ctx.add_summary(rs, "same under -race")
        ctx.cov["race_detector"] = {"evaluations": int(rs.get("evaluations", 0)) if rs else 0,
                                    "reports": len([f for f in ctx.fails if str(f.get("key", "")).startswith("race:")])}
    if ctx.tier == "thorough":
        ctx.cov["forbidden_vernacular"] = C.forbidden_vernacular()


def replay(path):
    try:
        d = json.load(open(path))
    except (OSError, ValueError) as ex:
        print("replay: %s" % ex)
        return 2
    case = d.get("input") or d.get("case") or (d.get("failure") or {}).get("case") or d
    if d.get("key") == "no-failing-input-found":
        print(json.dumps(d, indent=1)[:4000])
        print("this replay records broken obligations, not an input; re-run ./check C19")
        return 1
    race = isinstance(case, dict) and case.get("mode") == "race"
    ok, out = C.build_harness(race=race)
    if not ok:
        print(out[-2000:])
        return 1
    if race:
        os.environ["VERIF_SEED"] = str(case.get("seed", 1))
        tmp = os.path.join(C.BUILD, "run", "c19-replay")
        os.makedirs(tmp, exist_ok=True)
        rc, out = C.sh([os.path.join(C.BUILD, "bin-race", "c19"), "oracle", "-out", tmp, "-n", str(case.get("n", 300)),
                        "-corpus", CORPUS, "-salt", str(case.get("salt", 1903))], timeout=3000,
                       extra_env={"GORACE": "halt_on_error=1 exitcode=66"})
        print(out[-6000:])
        return 1 if (rc == 66 or "DATA RACE" in out) else 0
    rc, out = C.sh([os.path.join(C.BIN, "c19"), "replay", path], timeout=1200)
    print(out)
    return 1 if rc != 0 else 0

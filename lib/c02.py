"""C02 — every successfully written file is physically well-formed NACHA."""
import os

import common as C

PROPS = ["Props/C02.v"]
OBLIG = ["Oblig/C02Obl.v"]
for extra_p, extra_o in (("Props/C02Records.v", "Oblig/C01Obl.v"),):
    if os.path.exists(os.path.join(C.COQ, extra_p)):
        PROPS.append(extra_p)
        OBLIG.append(extra_o)


def build(ctx):
    ok, out = C.translate()
    ctx.log("translate", out)
    if not ok:
        ctx.diag.append("translator failed: " + out[-300:])
    C.prove(ctx, PROPS, OBLIG)
    ok, out = C.build_harness()
    ctx.log("go build", out)
    if not ok:
        ctx.diag.append("harness does not build against the repository: " + out[-600:])
        return False
    ok, out = C.build_ocaml("c02")
    ctx.log("ocaml", out[-3000:])
    if not ok:
        ctx.diag.append("extracted model does not build: " + out[-600:])
    return True


def oracle(ctx, n, ntext, sub="oracle"):
    d = os.path.join(ctx.rundir, sub)
    os.makedirs(d, exist_ok=True)
    rc, out = C.sh([os.path.join(C.BIN, "c02"), "oracle", "-out", d, "-n", str(n), "-ntext", str(ntext), "-repo", C.REPO,
                    "-corpus", os.path.join(C.VERIF, "corpus", "C02")], timeout=3000)
    ctx.log("oracle", out[-2000:])
    if rc != 0:
        ctx.diag.append("oracle crashed rc=%d: %s" % (rc, out[-300:]))
    before = len(ctx.fails)
    summ = ctx.read_jsonl(os.path.join(d, "oracle.jsonl"))
    for f in ctx.fails[before:]:
        f["input"] = f.get("case")
    return summ


def search(ctx, factor):
    before = len(ctx.fails)
    oracle(ctx, ctx.scale(400, 4000) * factor, ctx.scale(1500, 20000) * factor, "search")
    found = ctx.fails[before:]
    del ctx.fails[before:]
    return found


def run(ctx):
    ctx.search = search
    ctx.trusted += ["writer-order translator (translator/writerorder.go) and layout translator (translator/layouts.go)"]
    ctx.assumptions += ["bufio.Writer delivers the bytes it is given (C16 covers failures)"]
    if not build(ctx):
        return
    drv = os.path.join(C.BUILD, "ocaml", "c02", "driver")
    d = os.path.join(ctx.rundir, "corr")
    os.makedirs(d, exist_ok=True)
    rc, out = C.sh([os.path.join(C.BIN, "c02"), "corr", "-out", d, "-n", str(ctx.scale(300, 3000))], timeout=3000)
    ctx.log("corr", out[-500:])
    if rc == 0 and os.path.exists(drv):
        C.sh("%s %s > %s" % (drv, os.path.join(d, "cases.txt"), os.path.join(d, "model.txt")), timeout=3000)
        ctx.compare("structural reader vs ach.Reader on written files (fillers as written / removed / in excess)",
                    os.path.join(d, "model.txt"), os.path.join(d, "impl.txt"))
    else:
        ctx.diag.append("correspondence could not run: " + out[-300:])
    summ = oracle(ctx, ctx.scale(400, 4000), ctx.scale(1500, 20000))
    ctx.add_summary(summ, "physical well-formedness oracle")


def replay(path):
    ok, out = C.build_harness()
    if not ok:
        print(out[-2000:])
        return 1
    rc, out = C.sh([os.path.join(C.BIN, "c02"), "replay", path], timeout=600)
    print(out)
    return 1 if rc != 0 else 0

"""C02 — every successfully written file is physically well-formed NACHA."""
import os

import common as C

PROPS = ["Props/C02.v"]
OBLIG = ["Oblig/C02Obl.v"]
for extra_p, extra_o in (("Props/C02Records.v", "Oblig/C01Obl.v"), ("Props/C02Valid.v", "Oblig/C02ValidObl.v"),
                         ("Props/C02Counts.v", "Oblig/C02CountsObl.v"), ("Props/C02Reader.v", "Oblig/C02ReaderObl.v")):
    if os.path.exists(os.path.join(C.COQ, extra_p)):
        PROPS.append(extra_p)
        OBLIG.append(extra_o)


def build(ctx):
    ok, out = C.translate()
    ctx.log("translate", out)
    if not ok:
        ctx.diag.append("translator failed: " + out[-300:])
    C.prove(ctx, PROPS, OBLIG)
    ok, out = C.build_harness()
    ctx.log("go build", out)
    if not ok:
        ctx.diag.append("harness does not build against the repository: " + out[-600:])
        return False
    ok, out = C.build_ocaml("c02")
    ctx.log("ocaml", out[-3000:])
    if not ok:
        ctx.diag.append("extracted model does not build: " + out[-600:])
    if os.path.exists(os.path.join(C.COQ, "Extract", "C02V.v")):
        ok, out = C.build_ocaml("c02v")
        ctx.log("ocaml c02v", out[-3000:])
        if not ok:
            ctx.diag.append("extracted rule interpreter (valid => width) does not build: " + out[-600:])
    if os.path.exists(os.path.join(C.COQ, "Extract", "C02COUNTS.v")):
        ok, out = C.build_ocaml("c02counts")
        ctx.log("ocaml c02counts", out[-3000:])
        if not ok:
            ctx.diag.append("extracted counts model (WrittenCounts.observe) does not build: " + out[-600:])
    if os.path.exists(os.path.join(C.COQ, "Extract", "C02READER.v")):
        ok, out = C.build_ocaml("c02reader")
        ctx.log("ocaml c02reader", out[-3000:])
        if not ok:
            ctx.diag.append("extracted reader-domain model (read_text_valid + write_file_padded) does not build: " + out[-600:])
    return True


# ---- reader domain: the real Writer's output of what the real default Reader returns vs the model's

RDRV = os.path.join(C.BUILD, "ocaml", "c02reader", "driver")


def reader_run(ctx, n, ntext, sub="rcorr", compare=True):
    """harness/cmd/c02reader run: texts (witnesses, generated, directed changes, fixtures, random changes, byte
    noise) through ach.NewReader...Read() and, when accepted, ach.NewWriter; the extracted read_text_valid +
    stamp + write_file_padded on the same texts.  Lines must be equal whenever both accept and the Writer wrote.
    The model knows fewer rules than the code (unrecognised checks, SEC specific batch rules; C01's default-reader
    correspondence classifies those): model accepts / code rejects is counted and skipped, the converse is a
    mismatch.  The Writer refusing the returned file (File.Validate: file level arithmetic, which Read does not
    check) is outside "successfully written": counted and skipped."""
    d = os.path.join(ctx.rundir, sub)
    os.makedirs(d, exist_ok=True)
    exe = os.path.join(C.BIN, "c02reader")
    rc, out = C.sh([exe, "run", "-out", d, "-n", str(n), "-ntext", str(ntext), "-repo", C.REPO,
                    "-corpus", os.path.join(C.VERIF, "corpus", "C02")], timeout=3000)
    ctx.log("reader-domain run", out[-1200:])
    if rc != 0:
        ctx.diag.append("reader-domain harness crashed rc=%d: %s" % (rc, out[-300:]))
        return None
    before = len(ctx.fails)
    summ = ctx.read_jsonl(os.path.join(d, "oracle.jsonl"))
    for f in ctx.fails[before:]:
        f["input"] = f.get("case")
    if not compare:
        return summ
    if not os.path.exists(RDRV):
        ctx.diag.append("reader-domain correspondence could not run: no driver")
        return summ
    rc, out2 = C.sh("%s %s > %s" % (RDRV, os.path.join(d, "cases.txt"), os.path.join(d, "model.txt")), timeout=3000)
    if rc != 0:
        ctx.diag.append("extracted reader-domain model crashed: " + out2[-300:])
    try:
        m = open(os.path.join(d, "model.txt")).read().splitlines()
        i = open(os.path.join(d, "impl.txt")).read().splitlines()
        ds = open(os.path.join(d, "desc.txt")).read().splitlines()
    except OSError as ex:
        ctx.diag.append("reader-domain correspondence: missing output (%s)" % ex)
        return summ
    if not (len(m) == len(i) == len(ds)):
        ctx.diag.append("reader-domain correspondence: %d cases, %d model lines, %d implementation lines" % (len(ds), len(m), len(i)))
    cnt = {"written_same": 0, "written_with_clock_same": 0, "unclosed_batch_same": 0, "rejected_same": 0,
           "skipped_model_accepts_code_rejects": 0, "skipped_writer_refused": 0}
    mo, io, co = [], [], []
    for k in range(min(len(m), len(i), len(ds))):
        a, b = m[k], i[k]
        ta, tb = a.split(" ", 1)[0], b.split(" ", 1)[0]
        if tb == "REJ" and ta in ("W", "LINGER"):
            cnt["skipped_model_accepts_code_rejects"] += 1
            continue
        if tb == "WERR" and ta == "W":
            cnt["skipped_writer_refused"] += 1
            continue
        if a == b:
            if ta == "W":
                cnt["written_same"] += 1
                if a.startswith("W 0 "):
                    cnt["written_with_clock_same"] += 1
            elif ta == "LINGER":
                cnt["unclosed_batch_same"] += 1
            elif ta == "REJ":
                cnt["rejected_same"] += 1
        # long hex lists: keep the evidence short (the first differing record is what matters)
        if a != b and ta == "W" and tb == "W":
            la, lb = a.split(" ")[-1].split(","), b.split(" ")[-1].split(",")
            j = next((x for x in range(min(len(la), len(lb))) if la[x] != lb[x]), min(len(la), len(lb)))
            a = "W %s records=%d first-difference@%d %s" % (a.split(" ")[1], len(la), j, la[j] if j < len(la) else "-")
            b = "W %s records=%d first-difference@%d %s" % (b.split(" ")[1], len(lb), j, lb[j] if j < len(lb) else "-")
        elif ta == "W":
            a = b = "W same (%d records)" % len(a.split(" ")[-1].split(","))
        mo.append(a)
        io.append(b)
        co.append(ds[k][:300])
    for name, rows in (("model.f.txt", mo), ("impl.f.txt", io), ("cases.f.txt", co)):
        with open(os.path.join(d, name), "w") as fh:
            fh.write("\n".join(rows) + "\n")
    label = "reader domain: the real Writer's records of the file the real default Reader returns vs write_file_padded of read_text_valid's tree, line by line"
    ctx.compare(label, os.path.join(d, "model.f.txt"), os.path.join(d, "impl.f.txt"), os.path.join(d, "cases.f.txt"))
    try:
        ctx.cov["correspondence"][label].update(cnt)
    except KeyError:
        pass
    if cnt["written_same"] < ctx.scale(700, 7000):
        ctx.diag.append("reader-domain correspondence: only %d accepted texts were compared line by line" % cnt["written_same"])
    if cnt["written_with_clock_same"] < 5:
        ctx.diag.append("reader-domain correspondence: only %d accepted headers without creation time (the clock case)" % cnt["written_with_clock_same"])
    if cnt["skipped_model_accepts_code_rejects"] * 4 > len(ds):
        ctx.diag.append("reader-domain correspondence: the model accepts %d of %d texts the code rejects" % (cnt["skipped_model_accepts_code_rejects"], len(ds)))
    return summ


# ---- control counts: the model's written lines and count columns against the real writer's text

CDRV = os.path.join(C.BUILD, "ocaml", "c02counts", "driver")


def counts_corr(ctx):
    d = os.path.join(ctx.rundir, "ccorr")
    os.makedirs(d, exist_ok=True)
    if not os.path.exists(CDRV):
        ctx.diag.append("counts correspondence could not run: no driver")
        return
    rc, out = C.sh([os.path.join(C.BIN, "c02counts"), "corr", "-out", d, "-n", str(ctx.scale(1800, 30000))], timeout=3000)
    ctx.log("counts corr", out[-1500:])
    if rc != 0:
        ctx.diag.append("counts correspondence crashed: " + out[-300:])
        return
    try:
        info = C.json.loads(out.strip().splitlines()[-1])
    except ValueError:
        info = {}
    ctx.cov["counts_corr"] = {k: info.get(k) for k in ("cases", "residues", "kinds", "secs")}
    missing = [str(r) for r in range(10) if not info.get("residues", {}).get(str(r))]
    if missing:
        ctx.diag.append("counts correspondence: no generated file with record-count residue " + ",".join(missing))
    if info.get("cases", 0) < 1500:
        ctx.diag.append("counts correspondence: only %s cases" % info.get("cases"))
    if info.get("generator_failures"):
        ctx.diag.append("counts correspondence: Create / Validate refuse generated files: %s" % C.json.dumps(info["generator_failures"])[:400])
    C.sh("%s %s > %s" % (CDRV, os.path.join(d, "cases.txt"), os.path.join(d, "model.txt")), timeout=3000)
    ctx.compare("physical and declared counts of the model's written lines (fdump of the real file) vs the real writer's text; tabulated / fits / bounds flags",
                os.path.join(d, "model.txt"), os.path.join(d, "impl.txt"), os.path.join(d, "desc.txt"))


def counts_oracle(ctx, n, sub="coracle"):
    d = os.path.join(ctx.rundir, sub)
    os.makedirs(d, exist_ok=True)
    rc, out = C.sh([os.path.join(C.BIN, "c02counts"), "oracle", "-out", d, "-n", str(n),
                    "-corpus", os.path.join(C.VERIF, "corpus", "C02")], timeout=3000)
    ctx.log("counts oracle", out[-800:])
    if rc != 0:
        ctx.diag.append("counts oracle crashed rc=%d: %s" % (rc, out[-300:]))
    before = len(ctx.fails)
    summ = ctx.read_jsonl(os.path.join(d, "oracle.jsonl"))
    for f in ctx.fails[before:]:
        f["input"] = f.get("case")
    return summ


# ---- valid => width: the regenerated validation rules against the real Validate() methods

VDRV = os.path.join(C.BUILD, "ocaml", "c02v", "driver")


def valid_plan(d):
    """The fields and boundary values the regenerated rules talk about (printed by the extracted model)."""
    plan = os.path.join(d, "plan.txt")
    rc, out = C.sh("%s plan > %s" % (VDRV, plan), timeout=600)
    return plan if rc == 0 and os.path.getsize(plan) > 0 else None


def valid_corr(ctx):
    d = os.path.join(ctx.rundir, "vcorr")
    os.makedirs(d, exist_ok=True)
    if not os.path.exists(VDRV):
        ctx.diag.append("valid => width correspondence could not run: no driver")
        return None
    plan = valid_plan(d)
    if not plan:
        ctx.diag.append("valid => width correspondence could not run: the extracted model printed no plan")
        return None
    rc, out = C.sh([os.path.join(C.BIN, "c02valid"), "corr", "-plan", plan, "-out", d, "-n", str(ctx.scale(80, 600)),
                    "-per-type", str(ctx.scale(3, 12))], timeout=3000)
    ctx.log("valid corr", out[-800:])
    if rc != 0:
        ctx.diag.append("valid => width correspondence crashed: " + out[-300:])
        return plan
    try:
        info = C.json.loads(out.strip().splitlines()[-1])
        if info.get("record_types_without_base"):
            ctx.diag.append("valid => width correspondence: no valid base record for " + ",".join(info["record_types_without_base"]))
    except ValueError:
        pass
    C.sh("%s %s > %s" % (VDRV, os.path.join(d, "cases.txt"), os.path.join(d, "model.txt")), timeout=3000)
    m = open(os.path.join(d, "model.txt")).read().splitlines()
    i = open(os.path.join(d, "impl.txt")).read().splitlines()
    c = open(os.path.join(d, "cases.txt")).read().splitlines()
    n = min(len(m), len(i), len(c))
    if not (len(m) == len(i) == len(c)):
        ctx.diag.append("valid => width correspondence: %d cases, %d model lines, %d implementation lines" % (len(c), len(m), len(i)))
    rec = {"m": [], "i": [], "c": []}
    bat = {"m": [], "i": [], "c": []}
    skipped = 0
    for k in range(n):
        if c[k].startswith("V "):
            # UNK: a check of unrecognised shape mentions the varied field; OUTSIDE: a hand-modelled accessor outside its model
            if m[k] in ("UNK", "OUTSIDE"):
                skipped += 1
                continue
            rec["m"].append(m[k]); rec["i"].append(i[k]); rec["c"].append(c[k][:400])
        else:
            # batch level: the entry rules are necessary conditions of Batch.Validate(), which checks much more:
            # accepted by the implementation => accepted by the model
            ok = not (i[k] == "ACC" and m[k] != "ACC")
            bat["m"].append("ok" if ok else "model=" + m[k]); bat["i"].append("ok" if ok else "impl=" + i[k]); bat["c"].append(c[k][:400])
    ctx.cov["valid_cases_with_unmodelled_check"] = skipped
    for name, part in (("rec", rec), ("bat", bat)):
        for kk, ext in (("m", "model"), ("i", "impl"), ("c", "cases")):
            with open(os.path.join(d, "%s.%s.txt" % (name, ext)), "w") as fh:
                fh.write("\n".join(part[kk]) + "\n")
    ctx.compare("regenerated record rules (rec_validb) vs Validate() of the 26 record types, one field varied",
                os.path.join(d, "rec.model.txt"), os.path.join(d, "rec.impl.txt"), os.path.join(d, "rec.cases.txt"))
    ctx.compare("regenerated batch-level entry rules vs Batch.Validate() (accepted by the code => accepted by the rules)",
                os.path.join(d, "bat.model.txt"), os.path.join(d, "bat.impl.txt"), os.path.join(d, "bat.cases.txt"))
    return plan


def valid_oracle(ctx, plan, n, sub="voracle"):
    d = os.path.join(ctx.rundir, sub)
    os.makedirs(d, exist_ok=True)
    if not plan:
        plan = valid_plan(d)
    if not plan:
        return None
    rc, out = C.sh([os.path.join(C.BIN, "c02valid"), "oracle", "-plan", plan, "-out", d, "-n", str(n),
                    "-corpus", os.path.join(C.VERIF, "corpus", "C02")], timeout=3000)
    ctx.log("valid oracle", out[-800:])
    if rc != 0:
        ctx.diag.append("valid => width oracle crashed rc=%d: %s" % (rc, out[-300:]))
    before = len(ctx.fails)
    summ = ctx.read_jsonl(os.path.join(d, "oracle.jsonl"))
    for f in ctx.fails[before:]:
        f["input"] = f.get("case")
    return summ


def oracle(ctx, n, ntext, sub="oracle"):
    d = os.path.join(ctx.rundir, sub)
    os.makedirs(d, exist_ok=True)
    rc, out = C.sh([os.path.join(C.BIN, "c02"), "oracle", "-out", d, "-n", str(n), "-ntext", str(ntext), "-repo", C.REPO,
                    "-corpus", os.path.join(C.VERIF, "corpus", "C02")], timeout=3000)
    ctx.log("oracle", out[-2000:])
    if rc != 0:
        ctx.diag.append("oracle crashed rc=%d: %s" % (rc, out[-300:]))
    before = len(ctx.fails)
    summ = ctx.read_jsonl(os.path.join(d, "oracle.jsonl"))
    for f in ctx.fails[before:]:
        f["input"] = f.get("case")
    return summ


def search(ctx, factor):
    before = len(ctx.fails)
    oracle(ctx, ctx.scale(400, 4000) * factor, ctx.scale(1500, 20000) * factor, "search")
    if os.path.exists(VDRV):
        valid_oracle(ctx, None, ctx.scale(1500, 15000) * factor, "vsearch")
    if os.path.exists(os.path.join(C.BIN, "c02counts")):
        counts_oracle(ctx, ctx.scale(600, 6000) * factor, "csearch")
    if os.path.exists(os.path.join(C.BIN, "c02reader")):
        reader_run(ctx, ctx.scale(60, 400) * factor, ctx.scale(2400, 24000) * factor, "rsearch", compare=False)
    found = ctx.fails[before:]
    del ctx.fails[before:]
    return found


def run(ctx):
    ctx.search = search
    ctx.trusted += ["writer-order translator (translator/writerorder.go) and layout translator (translator/layouts.go)"]
    ctx.assumptions += ["bufio.Writer delivers the bytes it is given (C16 covers failures)"]
    if not build(ctx):
        return
    drv = os.path.join(C.BUILD, "ocaml", "c02", "driver")
    d = os.path.join(ctx.rundir, "corr")
    os.makedirs(d, exist_ok=True)
    rc, out = C.sh([os.path.join(C.BIN, "c02"), "corr", "-out", d, "-n", str(ctx.scale(300, 3000))], timeout=3000)
    ctx.log("corr", out[-500:])
    if rc == 0 and os.path.exists(drv):
        C.sh("%s %s > %s" % (drv, os.path.join(d, "cases.txt"), os.path.join(d, "model.txt")), timeout=3000)
        ctx.compare("structural reader vs ach.Reader on written files (fillers as written / removed / in excess)",
                    os.path.join(d, "model.txt"), os.path.join(d, "impl.txt"))
    else:
        ctx.diag.append("correspondence could not run: " + out[-300:])
    summ = oracle(ctx, ctx.scale(400, 4000), ctx.scale(1500, 20000))
    ctx.add_summary(summ, "physical well-formedness oracle")
    if os.path.exists(os.path.join(C.COQ, "Extract", "C02V.v")):
        ctx.trusted += ["validation-rule translator (translator/recvalid.go -> Gen/RecRules.v), default ValidateOpts"]
        plan = valid_corr(ctx)
        summ = valid_oracle(ctx, plan, ctx.scale(1500, 15000))
        ctx.add_summary(summ, "valid => width oracle")
    if os.path.exists(os.path.join(C.COQ, "Extract", "C02COUNTS.v")):
        ctx.trusted += ["count-statement translator (translator/countstmts.go -> Gen/CountStmts.v)"]
        counts_corr(ctx)
        summ = counts_oracle(ctx, ctx.scale(600, 6000))
        ctx.add_summary(summ, "control counts oracle")
    if os.path.exists(os.path.join(C.COQ, "Extract", "C02READER.v")):
        ctx.assumptions += ["charset.NewReader (in front of the framing: windows-1252 for sniffed non-UTF-8 input, U+FFFD replacement under a declared UTF-8) is outside the model; the statement quantifies over all byte strings, hence over its output (C02_reader_domain_decoded); for texts that are not UTF-8 the model reads what the real decoder delivers",
                            "time.Now().Format(\"1504\") is four characters of valid UTF-8 (the clock of C02_reader_domain)"]
        summ = reader_run(ctx, ctx.scale(60, 400), ctx.scale(2600, 24000))
        ctx.add_summary(summ, "reader domain oracle")


def replay(path):
    ok, out = C.build_harness()
    if not ok:
        print(out[-2000:])
        return 1
    try:
        rp = C.json.load(open(path))
        src = (rp.get("input") or {}).get("source")
        counts_text = str(rp.get("key", "")).startswith("c02:count:") and bool((rp.get("input") or {}).get("output"))
    except (OSError, ValueError, AttributeError):
        src, counts_text = None, False
    if src in ("counts", "counts-gen") or counts_text:
        rc, out = C.sh([os.path.join(C.BIN, "c02counts"), "replay", path], timeout=600)
        print(out)
        return 1 if rc != 0 else 0
    if src == "reader-domain":
        rc, out = C.sh([os.path.join(C.BIN, "c02reader"), "replay", path], timeout=600)
        print(out)
        return 1 if rc != 0 else 0
    if src == "valid-width":
        rc, out = C.sh([os.path.join(C.BIN, "c02valid"), "replay", path], timeout=600)
        print(out)
        return 1 if rc != 0 else 0
    rc, out = C.sh([os.path.join(C.BIN, "c02"), "replay", path], timeout=600)
    print(out)
    return 1 if rc != 0 else 0

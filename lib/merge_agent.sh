#!/bin/bash
# usage: merge_agent.sh <branch> -- merges /verif branch and cherry-picks the agent's /repo commits onto /repo main
set -e
x=$1
cd /verif
git merge --no-edit $x 2>&1 | tail -3 || { echo "MERGE CONFLICT"; git status --short | head -20; exit 1; }
# repo commits (skip merge commits and commits already on main by patch-id)
cd /repo
for c in $(git rev-list --reverse --no-merges main..verif-$x 2>/dev/null); do
  msg=$(git log --format=%s -1 $c)
  if git log main --format=%s | grep -qxF "$msg"; then echo "skip (already on main): $msg"; continue; fi
  echo "cherry-pick $c $msg"
  git cherry-pick $c >/dev/null 2>&1 || { echo "CHERRY-PICK CONFLICT on $c"; git cherry-pick --abort; exit 1; }
done
git log --oneline | head -5

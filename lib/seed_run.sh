#!/bin/bash
# usage: seed_run.sh <seed id> [PROP ...] — applies the seeded change to /repo, runs the property's quick check(s), restores /repo
id=$1; shift
props="$@"; [ -z "$props" ] && props=${id%%_*}
cd /repo && git status --short | grep -q . && { echo "/repo dirty, abort"; exit 2; }
git apply /verif/seeded/$id/patch.diff || { echo "patch failed"; exit 2; }
cd /verif
for p in $props; do
  out=$(./check $p 2>&1); rc=$?
  echo "$out" | grep -v "^KNOWN-FINDING" | tail -4
  echo "SEED $id vs $p: rc=$rc"
done
git -C /repo checkout -- . ; git -C /repo status --short | head -3; git -C /verif checkout -- evidence/ 2>/dev/null

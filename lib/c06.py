"""C06 — No input makes the library or the HTTP server panic or hang."""
import json
import os

import common as C


def build(ctx):
    ok, out = C.translate()
    ctx.log("translate", out)
    if not ok:
        ctx.diag.append("translator failed: " + out[-300:])
    C.prove(ctx, ["Props/C06.v", "Props/C06Ops.v", "Props/C06Reader.v"],
            ["Oblig/C06Obl.v", "Model/TotalityFacts.v", "Model/PartialTable.v",
             "Oblig/C06OpsObl.v", "Model/TotalOpsFacts.v", "Model/TotalJsonFacts.v", "Model/OpSiteTable.v",
             "Oblig/C06ReaderObl.v", "Model/ReaderShapeFacts.v", "Model/ReaderSiteTable.v", "Model/ReaderTextFacts.v"])
    ok, out = C.build_harness()
    ctx.log("go build", out)
    if not ok:
        ctx.diag.append("harness does not build against /repo: " + out[-600:])
        return False
    ok, out = C.build_ocaml("c06")
    ctx.log("ocaml", out[-3000:])
    if not ok:
        ctx.diag.append("extracted model does not build: " + out[-600:])
    ok, out = C.build_ocaml("c06ops")
    ctx.log("ocaml c06ops", out[-3000:])
    if not ok:
        ctx.diag.append("extracted shape model does not build: " + out[-600:])
    ok, out = C.build_ocaml("c06reader")
    ctx.log("ocaml c06reader", out[-3000:])
    if not ok:
        ctx.diag.append("extracted reader model does not build: " + out[-600:])
    return True


def oracle(ctx, n, sub="oracle"):
    d = os.path.join(ctx.rundir, sub)
    os.makedirs(d, exist_ok=True)
    args = [os.path.join(C.BIN, "c06"), "oracle", "-out", d, "-n", str(n), "-corpus", os.path.join(C.VERIF, "corpus", "C06")]
    if ctx.tier == "thorough":
        args.append("-thorough")
    rc, out = C.sh(args, timeout=ctx.scale(900, 7200))
    ctx.log("oracle", out[-2000:])
    if rc != 0:
        ctx.diag.append("oracle crashed rc=%d: %s" % (rc, out[-300:]))
    before = len(ctx.fails)
    summ = ctx.read_jsonl(os.path.join(d, "oracle.jsonl"))
    for f in ctx.fails[before:]:
        f["input"] = f.get("case")
    return summ


def reader_corr(ctx, n, orders, sample, sub="readercorr", compare=True):
    """Phase 5: the shape model of the Reader's state machine (ReaderShape.v) against the real Reader on
    structure-aware line sequences: every order of 9 record kinds up to `orders` lines exhaustively, sampled
    orders up to 6 lines, generated valid files of every SEC code, and `n` files with deleted / duplicated /
    moved / foreign / retyped lines.  Observed: the verdict of every line, the reader's state after the last
    line (current batch, current IAT batch, file: by reflection through the verif hook), accept / reject and the
    shape of the file Read returns.  A panic of the Reader is a failure of the property (key panic:reader:<frame>)."""
    d = os.path.join(ctx.rundir, sub)
    os.makedirs(d, exist_ok=True)
    rc, out = C.sh([os.path.join(C.BIN, "c06reader"), "corr", "-out", d, "-n", str(n), "-orders", str(orders), "-sample", str(sample),
                    "-corpus", os.path.join(C.VERIF, "corpus", "C06")], timeout=3000)
    ctx.log("c06reader corr", out[-1000:])
    drv = os.path.join(C.BUILD, "ocaml", "c06reader", "driver")
    if rc != 0 or not os.path.exists(drv):
        ctx.diag.append("reader correspondence could not run: " + out[-300:])
        return None
    summ = ctx.read_jsonl(os.path.join(d, "fails.jsonl"))
    if compare:
        rc2, out2 = C.sh("%s %s %s > %s" % (drv, os.path.join(d, "cases.txt"), os.path.join(d, "stats.txt"), os.path.join(d, "model.txt")), timeout=3000)
        if rc2 != 0:
            ctx.diag.append("extracted reader model crashed: " + out2[-300:])
        try:
            stats = {a[0]: int(a[1]) for a in (l.split() for l in open(os.path.join(d, "stats.txt"))) if len(a) == 2}
        except (OSError, ValueError):
            stats = {}
        ctx.compare("reader shape model: line verdicts, reader state, returned file", os.path.join(d, "model.txt"), os.path.join(d, "impl.txt"), os.path.join(d, "cases.txt"))
    if summ:
        ctx.cov["reader_correspondence"] = {"cases": summ.get("evaluations"), "distribution": summ.get("distribution"), "panics_by_frame": summ.get("panics")}
        if compare:
            ctx.cov["reader_correspondence"]["model_lines"] = stats
    return summ


def search(ctx, factor):
    before = len(ctx.fails)
    reader_corr(ctx, ctx.scale(5000, 60000) * factor, 5, 20000, "readersearch", compare=False)
    shape_corr(ctx, ctx.scale(500, 6000) * factor, "opssearch")
    oracle(ctx, ctx.scale(3000, 60000) * factor, "search")
    found = ctx.fails[before:]
    del ctx.fails[before:]
    return found


def shape_corr(ctx, n, sub="opscorr"):
    """Phase 2: the shape model (TotalOps.v / TotalJson.v) against the real operations on files, JSON
    documents and request lists built to have exactly that shape.  A panic of the implementation on a
    well-formed shape is a failure of the property; panics on ill-formed shapes (nil elements that no reader,
    decoder or operation produces) lie outside the property's domain and are only counted; any observation the model does not reproduce is a correspondence failure."""
    d = os.path.join(ctx.rundir, sub)
    os.makedirs(d, exist_ok=True)
    rc, out = C.sh([os.path.join(C.BIN, "c06ops"), "corr", "-out", d, "-n", str(n), "-corpus", os.path.join(C.VERIF, "corpus", "C06")], timeout=1800)
    ctx.log("c06ops corr", out[-1000:])
    drv = os.path.join(C.BUILD, "ocaml", "c06ops", "driver")
    if rc != 0 or not os.path.exists(drv):
        ctx.diag.append("shape correspondence could not run: " + out[-300:])
        return
    rc2, out2 = C.sh("%s %s %s > %s" % (drv, os.path.join(d, "cases.txt"), os.path.join(d, "stats.txt"), os.path.join(d, "model.txt")), timeout=3000)
    if rc2 != 0:
        ctx.diag.append("extracted shape model crashed: " + out2[-300:])
    ctx.compare("shape model: operations, FileFromJSON, routes", os.path.join(d, "model.txt"), os.path.join(d, "impl.txt"), os.path.join(d, "cases.txt"))
    counts, cls = {}, {}
    try:
        for l in open(os.path.join(d, "stats.txt")):
            a = l.split()
            if a and a[0] == "count":
                counts[" ".join(a[1:-1])] = int(a[-1])
            elif a and a[0] == "case":
                cls[int(a[1])] = a[2]
    except OSError:
        pass
    per_key = {}
    outside = {}
    panics_wf = 0
    try:
        for l in open(os.path.join(d, "cases.jsonl")):
            c = json.loads(l)
            if c.get("impl") != "PANIC":
                continue
            k = cls.get(c["id"], "?")
            frame = c.get("frame", "?")
            kind = c.get("ops", ["?"])[0]
            if kind == "FromJSON":
                key = "panic:json:" + frame
            elif kind == "HTTP":
                key = "panic:http:" + frame
            elif k.startswith("nil-"):
                key = "panic:shape:" + k
            elif k == "wf+sec" and "mergeableBatcher" in frame:
                key = "panic:ach.mergeableBatcher.Consume"
            else:
                key = "panic:wf-shape:" + frame
                panics_wf += 1
            per_key[key] = per_key.get(key, 0) + 1
            if key.startswith("panic:shape:"):
                # an ill-formed shape (nil Batcher / header / control / entry / addenda element): no reader,
                # FileFromJSON or operation returns one (C06_json_result_wf, C06_ops_result_total_partial),
                # so it is outside the property's domain; the model reproduces the panic (correspondence)
                outside[key] = outside.get(key, 0) + 1
                continue
            if per_key[key] <= 40:
                inp = {x: c[x] for x in c if x not in ("id", "impl", "frame")}
                ctx.fails.append({"kind": "fail", "key": key, "what": "panic in %s on a shape of class %s (%s)" % (frame, k, ",".join(c.get("ops", []))), "input": inp})
    except OSError:
        pass
    try:
        summ = json.load(open(os.path.join(d, "summary.json")))
    except (OSError, ValueError):
        summ = {}
    ctx.cov["shape_correspondence"] = {"cases": summ.get("cases"), "distribution": summ.get("distribution"),
                                        "model_vs_impl": counts, "panics_by_key": per_key, "panics_on_wellformed_shapes": panics_wf,
                                        "panics_on_shapes_outside_the_domain": outside}


def site_stats(ctx):
    """Measured counts of the regenerated table (informational, from the generated file)."""
    try:
        txt = open(os.path.join(C.COQ, "Gen", "PartialSites.v")).read()
    except OSError:
        return
    rows = [l for l in txt.splitlines() if "mksite " in l]
    kinds = {}
    for l in rows:
        parts = l.split('"')
        if len(parts) > 3:
            key = parts[3] + "/" + parts[-2]
            kinds[key] = kinds.get(key, 0) + 1
    ctx.cov["partial_sites"] = {"total": len(rows), "by_kind_class": kinds}
    try:
        acc = open(os.path.join(C.COQ, "Model", "PartialAccounted.v")).read()
        ents = [l for l in acc.splitlines() if l.lstrip().startswith("mkacct ")]
        ctx.cov["partial_sites"]["accounted_entries"] = len(ents)
        by = {}
        for l in ents:
            why = l.split('" "')[-1]
            k = why.split(":")[0].split(" ")[0]
            by[k] = by.get(k, 0) + 1
        ctx.cov["partial_sites"]["accounted_by_reason"] = by
        ctx.cov["partial_sites"]["accounted_search_only"] = by.get("search-only", 0)
        ctx.cov["partial_sites"]["accounted_by_model_theorem"] = by.get("model", 0)
        ctx.cov["partial_sites"]["accounted_unguarded_known"] = by.get("UNGUARDED", 0)
        # phase 1 left 192 entries to search; what phase 2 discharges
        ctx.cov["partial_sites"]["phase2_discharged_by_shape_model"] = by.get("ops-model", 0)
        ctx.cov["partial_sites"]["phase2_discharged_by_type_aware_table"] = sum(by.get(k, 0) for k in ("value", "map", "nil-safe", "loop-bound", "sort-less", "last"))
        ctx.cov["partial_sites"]["phase5_discharged_by_reader_model"] = by.get("reader-model", 0)
    except OSError:
        pass
    try:
        txt = open(os.path.join(C.COQ, "Gen", "OpSites.v")).read()
        kinds = {}
        for l in txt.splitlines():
            if "mkosite " in l:
                body = l.split("mkosite ", 1)[1].replace('""', "")
                parts = body.split('"')
                if len(parts) >= 12:
                    key = parts[3] + "/" + parts[11]
                    kinds[key] = kinds.get(key, 0) + 1
        ctx.cov["op_sites"] = {"total": sum(kinds.values()), "by_kind_class": kinds}
    except OSError:
        pass


def run(ctx):
    ctx.search = search
    ctx.trusted += [
        "partial-site analysis of the translator (translator/partial.go: syntactic; guard facts = conditions of enclosing if/else, earlier terminating ifs, tagless switch cases; aliases n := len(x) / utf8.RuneCountInString(x) / []rune(x) of single-assignment variables; re-assignment of the operand between guard and use is not tracked)",
        "verif build-tag hook verif_export_c06.go (exports aba8, first, trimSpacesFromLongLine, rightPadShortLine, Reader.readLine unchanged)",
        "coq/Model/PartialAccounted.v: hand-reviewed reasons for sites the table does not discharge ('reviewed', 'loop index'); entries marked 'search-only' are NOT proved",
        "type resolution of translator/opsites.go (syntactic: struct, method, function and variable declarations; local variables by their defining assignment; no aliasing analysis); the semantics of Go for its classes value / map / nil-safe / loop-bound / sort-less / last",
        "coq/Model/OpsCovered.v: which definition of the shape model stands for which Go function (checked for completeness against Gen/OpSites.v, not for the body of the transcription: that is the correspondence c06ops)",
        "contract of encoding/json (struct decoding and MarshalJSON never panic on nil pointers / nil interfaces) and of sort.Slice (less receives indexes in range)",
        "coq/Model/ReaderSiteTable.v: which site kind of the reader model stands for which dereference of reader.go (checked for completeness and exact counts against Gen/OpSites.v); coq/Model/ReaderEffectsTable.v: the control skeleton and state effects of the reader functions, pinned as text against Gen/ReaderEffects.v (translator/readereffects.go, syntactic)",
        "verif build-tag hook verif_export_c06reader.go (Reader.VerifStep = lineNum++ and readLine, VerifCurrent, VerifSkipBatchAccumulation); harness/cmd/c06reader computes the line descriptors with the library's own record parsers",
    ]
    ctx.assumptions += [
        "PARTIAL: the slice / index theorems cover the modelled logic (reader line handling, value-dependent accessors and the validators calling them, padded-field slices, rune-guarded Parse functions); hangs are covered by the watchdog oracle only",
        "C06_ops_total_partial: call sequences never panic on WELL-FORMED shapes (header, matching control, no nil entry / addenda element, no nil Batcher); the statement over ALL shapes is refuted (C06_ops_total_refuted); ill-formed shapes are produced by no reader, decoder or operation (C06_json_result_wf, C06_ops_result_total_partial) and are outside the property's domain; FlattenBatches included (C06_ops_total_all_partial; until fix 7eb521a1 it needed SEC codes NewBatch accepts)",
        "C06_json_total_partial: the struct decoding is encoding/json's; C06_handlers_total (phase 5): NACHA-text bodies are ANY line sequence read by the shape model of the Reader (C06_reader_inv, C06_reader_total, C06_reader_result_wf: the reader's 16 invariant-dependent entries are proved; 2 search-only entries remain: ReadFiles out[i], CheckRoutingNumber last byte); repository aliasing after POST …/balance is idealised as a copy",
        "reader model: a line is its record type plus the data the control flow reads from it; the line splitting of Read (bufio.ScanRunes, 94 runes, blank lines) and the fixed-width first line are phase 1 (C06_read_line_total…); a fixed-width first line is a line sequence that stops at the first record in error",
        "shapes abstract data: every data-dependent check of the source is an oracle bit; the theorems quantify over all oracles",
        "the first line handed to Reader.readLine has at most 94 runes (Reader.Read cuts lines at 94 runes); the fixed-width branch for longer first lines is modelled and checked by correspondence, not proved",
        "panics inside encoding/json, gorilla/mux, go-kit, x/net/html/charset and memory exhaustion are outside the model",
        "guard facts of the table hold at the site as the translator extracted them (no re-assignment of the guarded operand in between)",
    ]
    if not build(ctx):
        return
    site_stats(ctx)
    # correspondence: model slicers / reader line preparation vs the real code (PANIC / ERR / OK + value)
    d = os.path.join(ctx.rundir, "corr")
    os.makedirs(d, exist_ok=True)
    rc, out = C.sh([os.path.join(C.BIN, "c06"), "corr", "-out", d, "-random", str(ctx.scale(1500, 20000))], timeout=900)
    ctx.log("corr", out[-1000:])
    drv = os.path.join(C.BUILD, "ocaml", "c06", "driver")
    if rc == 0 and os.path.exists(drv):
        rc2, out2 = C.sh("%s %s > %s" % (drv, os.path.join(d, "cases.txt"), os.path.join(d, "model.txt")), timeout=3000)
        if rc2 != 0:
            ctx.diag.append("extracted model crashed: " + out2[-300:])
        ctx.compare("slicers/validators/readLine", os.path.join(d, "model.txt"), os.path.join(d, "impl.txt"), os.path.join(d, "cases.txt"))
    else:
        ctx.diag.append("correspondence could not run: " + out[-300:])
    shape_corr(ctx, ctx.scale(500, 6000))
    rsumm = reader_corr(ctx, ctx.scale(5000, 60000), ctx.scale(5, 6), ctx.scale(3000, 0))
    ctx.add_summary(rsumm, "reader shape correspondence")
    summ = oracle(ctx, ctx.scale(3000, 60000))
    ctx.add_summary(summ, "recover+watchdog oracle")
    if ctx.tier == "thorough":
        fuzz(ctx)
        ctx.cov["forbidden_vernacular"] = C.forbidden_vernacular()


def fuzz(ctx):
    """Go native fuzzing (coverage guided) of the reader and the JSON entry point, a few minutes."""
    h = os.path.join(C.VERIF, "harness")
    mod = os.path.join(C.BUILD, "harness.go.mod")
    res = {}
    for target in ("FuzzRead", "FuzzJSON"):
        cache = os.path.join(C.BUILD, "fuzzcache")
        os.makedirs(cache, exist_ok=True)
        rc, out = C.sh(["go", "test", "-modfile", mod, "-tags", "verif", "./cmd/c06/", "-run", "^$", "-fuzz", "^%s$" % target,
                        "-fuzztime", os.environ.get("C06_FUZZTIME", "90s"), "-test.fuzzcachedir", cache], cwd=h, timeout=1200)
        ctx.log("fuzz " + target, out[-3000:])
        execs = 0
        for line in out.splitlines():
            if "execs:" in line:
                try:
                    execs = int(line.split("execs:")[1].split()[0])
                except ValueError:
                    pass
        res[target] = {"rc": rc, "execs": execs}
        crasher = "--- FAIL" in out or "Failing input written" in out
        if rc != 0 and not crasher:
            ctx.diag.append("go test -fuzz %s could not run (rc=%d): %s" % (target, rc, out[-300:]))
        if crasher:
            key = "fuzz:" + target
            for line in out.splitlines():
                if "github.com/moov-io/ach" in line and "(" in line:
                    key = "panic:" + line.strip().split("(")[0].replace("github.com/moov-io/", "")
                    break
            key = "offset:upsert" if "upsertOffsets" in out else key
            ctx.fails.append({"kind": "fail", "key": key, "what": "go test -fuzz %s found a crasher: %s" % (target, out[-800:]), "input": {"kind": "fuzz", "target": target}})
    ctx.cov["go_native_fuzzing"] = res


def replay(path):
    ok, out = C.build_harness()
    if not ok:
        print(out[-2000:])
        return 1
    binary = "c06"
    try:
        rp = json.load(open(path))
        inp = rp.get("input", rp)
        if isinstance(inp, dict) and ("muts" in inp or "edits" in inp or "reqs" in inp) and "data" not in inp:
            binary = "c06ops"
        if isinstance(inp, dict) and inp.get("kind") == "reader" and "lines" in inp:
            binary = "c06reader"
    except (OSError, ValueError):
        pass
    rc, out = C.sh([os.path.join(C.BIN, binary), "replay", path], timeout=600)
    print(out)
    return 1 if rc != 0 else 0

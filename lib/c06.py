"""C06 — No input makes the library or the HTTP server panic or hang."""
import os

import common as C


def build(ctx):
    ok, out = C.translate()
    ctx.log("translate", out)
    if not ok:
        ctx.diag.append("translator failed: " + out[-300:])
    C.prove(ctx, ["Props/C06.v"], ["Oblig/C06Obl.v", "Model/TotalityFacts.v", "Model/PartialTable.v"])
    ok, out = C.build_harness()
    ctx.log("go build", out)
    if not ok:
        ctx.diag.append("harness does not build against /repo: " + out[-600:])
        return False
    ok, out = C.build_ocaml("c06")
    ctx.log("ocaml", out[-3000:])
    if not ok:
        ctx.diag.append("extracted model does not build: " + out[-600:])
    return True


def oracle(ctx, n, sub="oracle"):
    d = os.path.join(ctx.rundir, sub)
    os.makedirs(d, exist_ok=True)
    args = [os.path.join(C.BIN, "c06"), "oracle", "-out", d, "-n", str(n), "-corpus", os.path.join(C.VERIF, "corpus", "C06")]
    if ctx.tier == "thorough":
        args.append("-thorough")
    rc, out = C.sh(args, timeout=ctx.scale(900, 7200))
    ctx.log("oracle", out[-2000:])
    if rc != 0:
        ctx.diag.append("oracle crashed rc=%d: %s" % (rc, out[-300:]))
    before = len(ctx.fails)
    summ = ctx.read_jsonl(os.path.join(d, "oracle.jsonl"))
    for f in ctx.fails[before:]:
        f["input"] = f.get("case")
    return summ


def search(ctx, factor):
    before = len(ctx.fails)
    oracle(ctx, ctx.scale(3000, 60000) * factor, "search")
    found = ctx.fails[before:]
    del ctx.fails[before:]
    return found


def site_stats(ctx):
    """Measured counts of the regenerated table (informational, from the generated file)."""
    try:
        txt = open(os.path.join(C.COQ, "Gen", "PartialSites.v")).read()
    except OSError:
        return
    rows = [l for l in txt.splitlines() if "mksite " in l]
    kinds = {}
    for l in rows:
        parts = l.split('"')
        if len(parts) > 3:
            key = parts[3] + "/" + parts[-2]
            kinds[key] = kinds.get(key, 0) + 1
    ctx.cov["partial_sites"] = {"total": len(rows), "by_kind_class": kinds}
    try:
        acc = open(os.path.join(C.COQ, "Model", "PartialAccounted.v")).read()
        ctx.cov["partial_sites"]["accounted_entries"] = acc.count("mkacct ")
        ctx.cov["partial_sites"]["accounted_search_only"] = acc.count('"search-only:')
        ctx.cov["partial_sites"]["accounted_by_model_theorem"] = acc.count('"model:')
        ctx.cov["partial_sites"]["accounted_unguarded_known"] = acc.count('"UNGUARDED')
    except OSError:
        pass


def run(ctx):
    ctx.search = search
    ctx.trusted += [
        "partial-site analysis of the translator (translator/partial.go: syntactic; guard facts = conditions of enclosing if/else, earlier terminating ifs, tagless switch cases; aliases n := len(x) / utf8.RuneCountInString(x) / []rune(x) of single-assignment variables; re-assignment of the operand between guard and use is not tracked)",
        "verif build-tag hook verif_export_c06.go (exports aba8, first, trimSpacesFromLongLine, rightPadShortLine, Reader.readLine unchanged)",
        "coq/Model/PartialAccounted.v: hand-reviewed reasons for sites the table does not discharge ('reviewed', 'loop index'); entries marked 'search-only' are NOT proved",
    ]
    ctx.assumptions += [
        "PARTIAL: the theorems cover the modelled slicing / indexing / optional-record logic (reader line handling, value-dependent accessors and the validators calling them, padded-field slices, rune-guarded Parse functions); JSON decoding, call sequences, merge/flatten/segment, the 18 HTTP routes and hangs are covered by the recover()+watchdog oracle only",
        "the first line handed to Reader.readLine has at most 94 runes (Reader.Read cuts lines at 94 runes); the fixed-width branch for longer first lines is modelled and checked by correspondence, not proved",
        "panics inside encoding/json, gorilla/mux, go-kit, x/net/html/charset and memory exhaustion are outside the model",
        "guard facts of the table hold at the site as the translator extracted them (no re-assignment of the guarded operand in between)",
    ]
    if not build(ctx):
        return
    site_stats(ctx)
    # correspondence: model slicers / reader line preparation vs the real code (PANIC / ERR / OK + value)
    d = os.path.join(ctx.rundir, "corr")
    os.makedirs(d, exist_ok=True)
    rc, out = C.sh([os.path.join(C.BIN, "c06"), "corr", "-out", d, "-random", str(ctx.scale(1500, 20000))], timeout=900)
    ctx.log("corr", out[-1000:])
    drv = os.path.join(C.BUILD, "ocaml", "c06", "driver")
    if rc == 0 and os.path.exists(drv):
        rc2, out2 = C.sh("%s %s > %s" % (drv, os.path.join(d, "cases.txt"), os.path.join(d, "model.txt")), timeout=3000)
        if rc2 != 0:
            ctx.diag.append("extracted model crashed: " + out2[-300:])
        ctx.compare("slicers/validators/readLine", os.path.join(d, "model.txt"), os.path.join(d, "impl.txt"), os.path.join(d, "cases.txt"))
    else:
        ctx.diag.append("correspondence could not run: " + out[-300:])
    summ = oracle(ctx, ctx.scale(3000, 60000))
    ctx.add_summary(summ, "recover+watchdog oracle")
    if ctx.tier == "thorough":
        fuzz(ctx)
        ctx.cov["forbidden_vernacular"] = C.forbidden_vernacular()


def fuzz(ctx):
    """Go native fuzzing (coverage guided) of the reader and the JSON entry point, a few minutes."""
    h = os.path.join(C.VERIF, "harness")
    mod = os.path.join(C.BUILD, "harness.go.mod")
    res = {}
    for target in ("FuzzRead", "FuzzJSON"):
        cache = os.path.join(C.BUILD, "fuzzcache")
        os.makedirs(cache, exist_ok=True)
        rc, out = C.sh(["go", "test", "-modfile", mod, "-tags", "verif", "./cmd/c06/", "-run", "^$", "-fuzz", "^%s$" % target,
                        "-fuzztime", os.environ.get("C06_FUZZTIME", "90s"), "-test.fuzzcachedir", cache], cwd=h, timeout=1200)
        ctx.log("fuzz " + target, out[-3000:])
        execs = 0
        for line in out.splitlines():
            if "execs:" in line:
                try:
                    execs = int(line.split("execs:")[1].split()[0])
                except ValueError:
                    pass
        res[target] = {"rc": rc, "execs": execs}
        crasher = "--- FAIL" in out or "Failing input written" in out
        if rc != 0 and not crasher:
            ctx.diag.append("go test -fuzz %s could not run (rc=%d): %s" % (target, rc, out[-300:]))
        if crasher:
            key = "fuzz:" + target
            for line in out.splitlines():
                if "github.com/moov-io/ach" in line and "(" in line:
                    key = "panic:" + line.strip().split("(")[0].replace("github.com/moov-io/", "")
                    break
            key = "offset:upsert" if "upsertOffsets" in out else key
            ctx.fails.append({"kind": "fail", "key": key, "what": "go test -fuzz %s found a crasher: %s" % (target, out[-800:]), "input": {"kind": "fuzz", "target": target}})
    ctx.cov["go_native_fuzzing"] = res


def replay(path):
    ok, out = C.build_harness()
    if not ok:
        print(out[-2000:])
        return 1
    rc, out = C.sh([os.path.join(C.BIN, "c06"), "replay", path], timeout=600)
    print(out)
    return 1 if rc != 0 else 0

"""Phase 2 (C05/C09/C11/C12/C13, clause "the result passes validation"): the extracted validator
model of C03 (Arith.validate_file / read_validate / validate_batch, ocaml/c03/driver.ml) is run on
the numeric skeleton of what the REAL Create / Reversal / FlattenBatches / MergeFiles / SegmentFile
return on generated valid files (harness/cmd/validout) and

  * compared with the real Validate() of the same object (rule enum, the five hooked checks, the
    library's own recomputation of the totals and the hash), and
  * required to ACCEPT every output whose input satisfies the hypotheses of the Coq theorem for that
    transformation (Props/C05Valid.v ... C13Valid.v): the theorem's conclusion observed on the
    implementation.  A rejected output is reported as a broken obligation; the property's own oracle
    then looks for the concrete failing input (common.Ctx.finish)."""
import json
import os

import common as C
import c03

WHAT = {
    "create": "Batch.Create / File.Create",
    "reversal": "File.Reversal",
    "flatten": "FlattenBatches",
    "merge": "MergeFiles",
    "segment": "SegmentFile",
}


def run(ctx, only):
    binary = os.path.join(C.BIN, "validout")
    ok, out = C.build_ocaml("c03")
    ctx.log("ocaml c03 (validator model)", out[-1500:])
    drv = os.path.join(C.BUILD, "ocaml", "c03", "driver")
    if not ok or not os.path.exists(drv) or not os.path.exists(binary):
        ctx.diag.append("validout: extracted validator model or harness command missing: " + out[-300:])
        return
    d = os.path.join(ctx.rundir, "validout")
    os.makedirs(d, exist_ok=True)
    rc, out = C.sh([binary, "corr", "-out", d, "-files", str(ctx.scale(240, 3000)), "-only", only], timeout=3000)
    ctx.log("validout corr", out[-1500:])
    if rc != 0:
        ctx.diag.append("validout: harness crashed rc=%d: %s" % (rc, out[-300:]))
        return
    try:
        stats = json.loads(out.strip().splitlines()[-1])
    except (ValueError, IndexError):
        stats = {}
    mp, ip, cp = os.path.join(d, "model.txt"), os.path.join(d, "impl.txt"), os.path.join(d, "cases.txt")
    rc2, out2 = C.sh("%s %s > %s" % (drv, cp, mp), timeout=3000)
    if rc2 != 0:
        ctx.diag.append("validout: extracted validator crashed: " + out2[-300:])
        return
    label = "Arith.validate on outputs of the real %s vs Validate()" % WHAT.get(only, only)
    # the theorem's conclusion on the implementation: expected outputs are accepted by the model
    try:
        model = open(mp).read().splitlines()
        impl = open(ip).read().splitlines()
        expect = open(os.path.join(d, "expect.txt")).read().splitlines()
        desc = open(os.path.join(d, "desc.txt")).read().splitlines()
        cases = open(cp).read().splitlines()
    except OSError as ex:
        ctx.diag.append("validout: missing output (%s)" % ex)
        return
    expected = rejected = impl_other = 0
    first = None
    for k in range(min(len(model), len(expect))):
        if expect[k] != "1":
            continue
        expected += 1
        mt = model[k].split(" ")
        it = impl[k].split(" ") if k < len(impl) else []
        if "99" in it[:2]:
            impl_other += 1
        okm = mt[0] == "0" and (len(mt) == 2 and mt[1] == "0" or len(mt) > 2 and mt[1:6] == ["1"] * 5)
        if not okm:
            rejected += 1
            if first is None:
                first = {"what": desc[k] if k < len(desc) else "?", "model": model[k][:200], "impl": impl[k][:200] if k < len(impl) else "?",
                         "case": cases[k][:600] if k < len(cases) else "?"}
    other = c03.normalise_other(mp, ip)
    ctx.compare(label, mp, ip, cp)
    info = ctx.cov.setdefault("correspondence", {}).setdefault(label, {})
    info.update({"expected_valid": expected, "rejected_by_model": rejected, "rule_not_modelled": other,
                 "expected_but_validate_stops_at_unmodelled_rule": impl_other, "harness": stats})
    if rejected:
        ctx.diag.append("validout: the extracted validator rejects %d of %d outputs of the real %s whose inputs satisfy the theorem's hypotheses (conclusion of Props/*Valid.v not observed), first: %s"
                        % (rejected, expected, WHAT.get(only, only), json.dumps(first)))
    errs = stats.get(only + ":error", 0)
    if errs:
        # the transformations validate their own result: an error on a generated valid input means the result
        # did not pass (SegmentFile's known finding segment:batch-number-collision is counted separately)
        ctx.diag.append("validout: the real %s returned an error on %d generated valid input(s) on which the unchanged tree succeeds" % (WHAT.get(only, only), errs))
    if expected == 0:
        ctx.diag.append("validout: no output of the real %s qualified for the theorem's hypotheses (vacuous run)" % WHAT.get(only, only))

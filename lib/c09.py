"""C09 — merged files are valid and respect the line and dollar limits."""
import merge_common as M
import validout
import c0913x


def run(ctx):
    M.run(ctx, "C09", ["Props/C09.v", "Props/C09Valid.v", "Props/C09Opts.v"],
          ["Oblig/C08Obl.v", "Oblig/C09Obl.v", "Oblig/ValidMergeObl.v", "Oblig/C08OptsObl.v", "Oblig/C09OptsObl.v"])
    validout.run(ctx, "merge")
    # phase 5: outputs valid under the options they carry (Props/C09Opts.v), tied on files valid only under their options
    base = ctx.search
    ctx.search = lambda c, factor: base(c, factor) + c0913x.search(c, "merge", factor)
    if c0913x.build(ctx, "merge"):
        c0913x.run(ctx, "merge")


def replay(path):
    if c0913x.is_case(path):
        return c0913x.replay(path)
    return M.replay("C09", path)

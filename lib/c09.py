"""C09 — merged files are valid and respect the line and dollar limits."""
import merge_common as M
import validout


def run(ctx):
    M.run(ctx, "C09", ["Props/C09.v", "Props/C09Valid.v"], ["Oblig/C08Obl.v", "Oblig/C09Obl.v", "Oblig/ValidMergeObl.v"])
    validout.run(ctx, "merge")


def replay(path):
    return M.replay("C09", path)

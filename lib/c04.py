"""C04 — tampered or truncated files are never accepted as something else."""
import json
import os

import common as C
import c03

PROP_FILES = ["Props/C04.v", "Props/C04Text.v", "Props/C04Utf8.v"]
# the tamper theorems transferred to the model of the default reader (Codec/ReaderValid.v, phase 3)
if os.path.exists(os.path.join(C.COQ, "Props", "C04Valid.v")):
    PROP_FILES.append("Props/C04Valid.v")
OBLIG_FILES = ["Oblig/C04Obl.v", "Oblig/C03Obl.v", "Model/TamperFacts.v", "Model/TruncFacts.v", "Model/ArithFacts.v", "Model/ArithTable.v",
               "Oblig/C04TextObl.v", "Model/TamperTextFacts.v", "Model/TamperTextLift.v", "Model/TruncBytes.v", "Model/TruncCtl.v",
               "Oblig/C04Utf8Obl.v", "Model/Utf8Prefix.v", "Model/TruncUtf8Facts.v"]
if os.path.exists(os.path.join(C.COQ, "Oblig", "C01ValidObl.v")):
    OBLIG_FILES.append("Oblig/C01ValidObl.v")
# phase 6: the text-level theorems transferred to the validating reader (Codec/ReaderSkel*.v)
if os.path.exists(os.path.join(C.COQ, "Props", "C04ValidText.v")):
    PROP_FILES.append("Props/C04ValidText.v")
    OBLIG_FILES += ["Oblig/C04ValidTextObl.v", "Codec/ReaderSkelFacts.v", "Model/TamperValidFacts.v"]
# phase 7: the two text-level theorems without the extra hypotheses (list surgery, truncation classes)
if os.path.exists(os.path.join(C.COQ, "Props", "C04ValidTextFull.v")):
    PROP_FILES.append("Props/C04ValidTextFull.v")
    OBLIG_FILES += ["Oblig/C04ValidTextFullObl.v", "Oblig/C04ValidTruncObl.v", "Oblig/C04ValidFullEx.v",
                    "Model/TamperValidSurgery.v", "Model/TruncValidFacts.v"]

# perturbation kinds of harness/internal/arith/perturb.go that change exactly one protected field
PROTECTED_KINDS = "0,1,2,3,4,5,6,8,9,10,12,13,20,21,22,23,24"


def oracle(ctx, files, fixtures, sub="oracle", first=0):
    d = os.path.join(ctx.rundir, sub)
    os.makedirs(d, exist_ok=True)
    rc, out = C.sh([os.path.join(C.BIN, "c04"), "oracle", "-out", d, "-files", str(files), "-fixtures", str(fixtures),
                    "-first", str(first), "-corpus", os.path.join(C.VERIF, "corpus", "C04")], timeout=6000)
    ctx.log("oracle", out[-2000:])
    if rc != 0:
        ctx.diag.append("oracle crashed rc=%d: %s" % (rc, out[-300:]))
    before = len(ctx.fails)
    summ = ctx.read_jsonl(os.path.join(d, "oracle.jsonl"))
    for f in ctx.fails[before:]:
        f["input"] = f.get("case")
    return summ


def search(ctx, factor):
    before = len(ctx.fails)
    oracle(ctx, ctx.scale(52, 260) * min(factor, 5), 20, "search", first=ctx.scale(52, 400))
    found = ctx.fails[before:]
    del ctx.fails[before:]
    return found


def memory_tamper(ctx):
    """Model and implementation on in-memory single-field tampers of valid files: must agree,
    and (read+validate view, second token of an F line) must both reject."""
    d = os.path.join(ctx.rundir, "corr")
    c03.correspondence(ctx, "c03", "in-memory tamper (model vs Validate)", "corr",
                       ["-files", str(ctx.scale(150, 1500)), "-perturb", str(ctx.scale(40, 80)), "-tamper", "-only", PROTECTED_KINDS])
    try:
        cases = open(os.path.join(d, "cases.txt")).read().splitlines()
        impl = open(os.path.join(d, "impl.txt")).read().splitlines()
        desc = open(os.path.join(d, "desc.txt")).read().splitlines()
    except OSError:
        return
    accepted = 0
    for k in range(min(len(cases), len(impl))):
        if cases[k].startswith("F "):
            t = impl[k].split(" ")
            if len(t) == 2 and t[1] == "0":
                accepted += 1
                what = desc[k] if k < len(desc) else "?"
                kind = what.split(": ", 1)[-1].rsplit(" (", 1)[0]
                ctx.fails.append({"kind": "fail", "key": "memory-tamper-accepted:" + kind,
                                  "what": "every batch and the file validate after: " + what,
                                  "input": {"mode": "memory", "case": cases[k][:4000], "description": what}})
    ctx.cov["memory_tampers_accepted"] = accepted


def text_correspondence(ctx):
    """Extracted text model (framing, padding, record dispatch, Parse through the regenerated
    layouts, skeleton, read_validate; coq/Model/TamperText.v) against Reader.Read + Validate on
    the same bytes: originals (LF, CRLF), one replaced digit per protected field, truncations
    (every offset around the file control record, a stride elsewhere).  Both sides print
    "A <skeleton>" (accepted, with the protected fields as read) or "R"."""
    ok, out = C.build_ocaml("c04text")
    ctx.log("ocaml c04text", out[-3000:])
    if not ok:
        ctx.diag.append("extracted text model does not build: " + out[-600:])
        return
    d = os.path.join(ctx.rundir, "corrtext")
    os.makedirs(d, exist_ok=True)
    rc, out = C.sh([os.path.join(C.BIN, "c04text"), "corr", "-out", d, "-files", str(ctx.scale(13, 52)),
                    "-stride", str(ctx.scale(29, 7))], timeout=3000)
    ctx.log("corr text", out[-2500:])
    drv = os.path.join(C.BUILD, "ocaml", "c04text", "driver")
    if rc != 0 or not os.path.exists(drv):
        ctx.diag.append("text correspondence could not run: " + out[-300:])
        return
    mp, ip, cp = os.path.join(d, "model.txt"), os.path.join(d, "impl.txt"), os.path.join(d, "cases.txt")
    rc2, out2 = C.sh("%s %s > %s" % (drv, cp, mp), timeout=3000)
    if rc2 != 0:
        ctx.diag.append("extracted text model crashed: " + out2[-300:])
    label = "text model vs Read+Validate"
    ctx.compare(label, mp, ip, cp)
    try:
        impl = open(ip).read().splitlines()
        desc = open(os.path.join(d, "desc.txt")).read().splitlines()
        acc = {"tamper": 0, "truncate": 0, "original": 0, "sign": 0}
        tot = {"tamper": 0, "truncate": 0, "original": 0, "set_digit": 0, "sign": 0}
        for k in range(min(len(impl), len(desc))):
            for key in tot:
                if ": " + key in desc[k]:
                    tot[key] += 1
                    if key in acc and impl[k].startswith("A"):
                        acc[key] += 1
        ctx.cov["correspondence"][label]["by_kind"] = tot
        ctx.cov["correspondence"][label]["accepted_by_impl"] = acc
    except (OSError, KeyError):
        pass


def utf8_correspondence(ctx):
    """The UTF-8 truncation statements (Props/C04Utf8.v; coq/Model/TruncUtf8.v extracted): valid files
    WITH multi-byte characters (2-byte characters from the generator, 2/3/4-byte characters spliced into
    the last columns of the file header and of the file control record), LF and CRLF, cut at every byte
    offset inside a multi-byte character, at the character boundaries, at every offset of the file control
    record and at a stride elsewhere: extracted text model vs Reader.Read + Validate ("A <skeleton>" / "R");
    the characters bufio.ScanRunes yields on every byte prefix of random well-formed strings vs the model's
    chars and its closed form; the closed form of the lines of a cut record."""
    ok, out = C.build_ocaml("c04x")
    ctx.log("ocaml c04x", out[-3000:])
    if not ok:
        ctx.diag.append("extracted UTF-8 truncation model does not build: " + out[-600:])
        return
    d = os.path.join(ctx.rundir, "corrutf8")
    os.makedirs(d, exist_ok=True)
    rc, out = C.sh([os.path.join(C.BIN, "c04x"), "corr", "-out", d, "-files", str(ctx.scale(12, 96)),
                    "-stride", str(ctx.scale(37, 7)), "-strings", str(ctx.scale(100, 600))], timeout=3000)
    ctx.log("corr utf8", out[-2500:])
    drv = os.path.join(C.BUILD, "ocaml", "c04x", "driver")
    if rc != 0 or not os.path.exists(drv):
        ctx.diag.append("UTF-8 truncation correspondence could not run: " + out[-300:])
        return
    mp, ip, cp = os.path.join(d, "model.txt"), os.path.join(d, "impl.txt"), os.path.join(d, "cases.txt")
    rc2, out2 = C.sh("%s %s > %s" % (drv, cp, mp), timeout=3000)
    if rc2 != 0:
        ctx.diag.append("extracted UTF-8 truncation model crashed: " + out2[-300:])
    label = "utf-8 truncation: text model vs Read+Validate, chars vs ScanRunes"
    ctx.compare(label, mp, ip, cp)
    # the property itself on the implementation's observations: a truncated text that Read+Validate
    # accept must carry the protected fields of the text it was cut from
    try:
        impl = open(ip).read().splitlines()
        desc = open(os.path.join(d, "desc.txt")).read().splitlines()
        cases = open(cp).read().splitlines()
        orig = {}
        for k in range(min(len(impl), len(desc))):
            if desc[k].endswith(": original, LF") or desc[k].endswith(": original, CRLF"):
                orig[desc[k].rsplit(": original", 1)[0]] = (impl[k], cases[k])
        checked = bad = 0
        for k in range(min(len(impl), len(desc))):
            if ": truncate " in desc[k] and impl[k].startswith("A"):
                key = desc[k].split(": truncate ", 1)[0]
                o = orig.get(key) or orig.get(key.split(", file ", 1)[0])
                if o is None:
                    continue
                checked += 1
                if o[0] != impl[k]:
                    bad += 1
                    ctx.fails.append({"kind": "fail", "key": "truncate-utf8:accepted-as-different-file",
                                      "what": "a truncated text is accepted with protected fields that differ from the original's: " + desc[k],
                                      "input": {"mode": "utf8", "description": desc[k], "text_hex": cases[k][2:], "original_hex": o[1][2:],
                                                "accepted": impl[k], "original": o[0]}})
        ctx.cov["correspondence"][label]["accepted_truncations_checked_against_original"] = checked
        ctx.cov["correspondence"][label]["accepted_as_different_file"] = bad
    except (OSError, KeyError, IndexError):
        pass
    try:
        dist = {}
        for line in out.splitlines():
            if ": " in line:
                k, v = line.rsplit(": ", 1)
                dist[k] = int(v)
        ctx.cov["correspondence"][label]["distribution"] = dist
    except (ValueError, KeyError):
        pass


def valid_text_correspondence(ctx):
    """Props/C04ValidText.v: the extracted model of Reader.Read WITH its validation followed by
    File.Validate() (Codec/ReaderSkel.v accept_code = read_text_valid + validate_file over the regenerated
    layouts, record rules and arithmetic tables) against the real code on the same bytes: generated valid
    files of every kind (21 SEC codes, IAT, IAT corrections, ADV, mixed), the first digit and random digits
    of every protected field of every protected line replaced, characters outside the protected columns,
    truncations around the file control record.  Both sides print "A" or "R".  A tampered text the
    implementation accepts is reported as a violation of the property itself."""
    ok, out = C.build_ocaml("c04valid")
    ctx.log("ocaml c04valid", out[-3000:])
    if not ok:
        ctx.diag.append("extracted validating-reader model does not build: " + out[-600:])
        return
    d = os.path.join(ctx.rundir, "corrvalid")
    os.makedirs(d, exist_ok=True)
    rc, out = C.sh([os.path.join(C.BIN, "c04valid"), "corr", "-out", d, "-files", str(ctx.scale(26, 130)),
                    "-iatcor", str(ctx.scale(8, 40)), "-samples", str(ctx.scale(3, 5)), "-stride", str(ctx.scale(19, 5))], timeout=3000)
    ctx.log("corr valid text", out[-2500:])
    drv = os.path.join(C.BUILD, "ocaml", "c04valid", "driver")
    if rc != 0 or not os.path.exists(drv):
        ctx.diag.append("validating-reader text correspondence could not run: " + out[-300:])
        return
    mp, ip, cp = os.path.join(d, "model.txt"), os.path.join(d, "impl.txt"), os.path.join(d, "cases.txt")
    rc2, out2 = C.sh("%s %s > %s" % (drv, cp, mp), timeout=3000)
    if rc2 != 0:
        ctx.diag.append("extracted validating-reader model crashed: " + out2[-300:])
    label = "validating reader model (Read+Validate) vs ach.NewReader.Read + File.Validate on tampered texts"
    ctx.compare(label, mp, ip, cp)
    try:
        impl = open(ip).read().splitlines()
        desc = open(os.path.join(d, "desc.txt")).read().splitlines()
        cases = open(cp).read().splitlines()
        tampers = accepted = 0
        for k in range(min(len(impl), len(desc))):
            if ": tamper" in desc[k]:
                tampers += 1
                if impl[k] == "A":
                    accepted += 1
                    fld = desc[k].split(": tamper", 1)[1].split(" ")[1]
                    ctx.fails.append({"kind": "fail", "key": "tamper-valid-reader:" + fld,
                                      "what": "Read + Validate accept a text with one digit of a protected column replaced: " + desc[k],
                                      "input": {"mode": "validtext", "description": desc[k], "text_hex": cases[k][2:]}})
        ctx.cov["correspondence"][label]["tampered_texts"] = tampers
        ctx.cov["correspondence"][label]["tampered_texts_accepted_by_impl"] = accepted
        dist = {}
        for line in out.splitlines():
            if ": " in line:
                k, v = line.rsplit(": ", 1)
                dist[k] = int(v)
        ctx.cov["correspondence"][label]["distribution"] = dist
    except (OSError, KeyError, IndexError, ValueError):
        pass


def run(ctx):
    ctx.search = search
    ctx.trusted += ["tables emitter translator/tables.go and verif hook verif_export_c03.go (shared with C03)",
                    "column positions of the protected fields per record type in harness/cmd/c04 and cmd/c04text (checked against the reader by the oracle itself: a wrong position would tamper an unprotected column and be accepted); the model's own table (Model/TamperText.v protected_columns) is not trusted: pcol_ok by reflection over Gen/Layouts.v",
                    "extraction of text_verdict (ocaml/c04text) and the skeleton encoder of harness/internal/arith"]
    ctx.assumptions += ["theorems are about the arithmetic skeleton (Model/Arith.v, same model as C03) of the file re-parsed through the regenerated layouts (Model/TamperText.v skel), the framing model of C01 (Codec/Framing.v) and the structural reader (Codec/FileStruct.v)",
                        "byte-offset truncation theorem (C04_truncation_bytes, Props/C04Utf8.v): record lines of 94 characters of well-formed UTF-8; the input is decoded as UTF-8 (bufio.ScanRunes on the raw bytes: x/net charset sniffing picks UTF-8 when the first 1024 bytes hold a non-ASCII character and are valid UTF-8 - the generator puts one into the file header; a file whose first non-ASCII byte comes later is re-decoded as windows-1252, C01 known finding, outside this model)",
                        "numeric protected columns: written value below max_int64 (strconv.Atoi clamps on overflow; relevant for the 20-digit ADV totals only)",
                        "entry amount theorem for IAT/ADV batches and the routing number theorem carry the side conditions of C03 (codes_regular, 8-digit routing numbers)",
                        "the file control's block count is not protected by the library and is excluded (as in the property text)"]
    if not c03.build(ctx, PROP_FILES, OBLIG_FILES):
        return
    memory_tamper(ctx)
    text_correspondence(ctx)
    utf8_correspondence(ctx)
    if os.path.exists(os.path.join(C.COQ, "Extract", "C04VALID.v")):
        valid_text_correspondence(ctx)
    summ = oracle(ctx, ctx.scale(52, 520), ctx.scale(3, 40))
    ctx.add_summary(summ, "text tamper / truncation oracle")
    if summ:
        ctx.cov["exhaustive"] = False
        ctx.cov["exhaustive_per_file"] = True
    if ctx.tier == "thorough":
        ctx.cov["forbidden_vernacular"] = C.forbidden_vernacular()


def replay(path):
    ok, out = C.build_harness()
    if not ok:
        print(out[-2000:])
        return 1
    try:
        doc = json.load(open(path))
    except (OSError, ValueError):
        doc = {}
    inp = doc.get("input") or {}
    if inp.get("mode") == "utf8":
        print(inp.get("description"))
        rc, out = C.sh([os.path.join(C.BIN, "c04x"), "replay", path], timeout=600)
        print(out)
        return 1 if rc != 0 else 0
    if inp.get("mode") == "validtext":
        rc, out = C.sh([os.path.join(C.BIN, "c04valid"), "replay", path], timeout=600)
        print(out)
        return 1 if rc != 0 else 0
    if inp.get("mode") == "memory":
        print("in-memory tamper accepted by every batch's Validate() and File.Validate():")
        print(inp.get("description"))
        print(inp.get("case"))
        return 1
    rc, out = C.sh([os.path.join(C.BIN, "c04"), "replay", path], timeout=600)
    print(out)
    return 1 if rc != 0 else 0

"""C01 — write then read returns the same file, for every physical line layout."""
import json
import os

import common as C

PROPS = ["Props/C01.v"]
OBLIG = ["Oblig/C01Frame.v"]
# the record-level codec proofs (layout checker + generic theorems) are added when present
# ... and the file-level composition (typed file tree, reader dispatch tables regenerated from reader.go)
# ... and the model of the DEFAULT reader (record dispatch + regenerated record rules + batch arithmetic; phase 3)
for extra_p, extra_o in (("Props/C01Records.v", "Oblig/C01Obl.v"), ("Props/C01File.v", "Oblig/C01FileObl.v"),
                         ("Props/C01Valid.v", "Oblig/C01ValidObl.v")):
    if os.path.exists(os.path.join(C.COQ, extra_p)):
        PROPS.append(extra_p)
        OBLIG.append(extra_o)


def build(ctx):
    ok, out = C.translate()
    ctx.log("translate", out)
    if not ok:
        ctx.diag.append("translator failed: " + out[-300:])
    C.prove(ctx, PROPS, OBLIG)
    ok, out = C.build_harness()
    ctx.log("go build", out)
    if not ok:
        ctx.diag.append("harness does not build against the repository: " + out[-600:])
        return False
    ok, out = C.build_ocaml("c01")
    ctx.log("ocaml", out[-3000:])
    if not ok:
        ctx.diag.append("extracted model does not build: " + out[-600:])
    if os.path.exists(os.path.join(C.COQ, "Extract", "C01FILE.v")):
        ok, out = C.build_ocaml("c01file")
        ctx.log("ocaml c01file", out[-3000:])
        if not ok:
            ctx.diag.append("extracted whole-file model does not build: " + out[-600:])
    if os.path.exists(os.path.join(C.COQ, "Extract", "C01VALID.v")):
        ok, out = C.build_ocaml("c01valid")
        ctx.log("ocaml c01valid", out[-3000:])
        if not ok:
            ctx.diag.append("extracted validating-reader model does not build: " + out[-600:])
    return True


def varied_field(desc):
    """'field Kind.Field := …' -> Field; '' for line-level cases."""
    t = desc.split(" ")
    if len(t) >= 2 and t[0].startswith("field") and "." in t[1]:
        return t[1].split(".", 1)[1]
    return ""


def valid_corr(ctx, d):
    """(4) the DEFAULT reader: extracted ReaderValid.read_text_valid (dispatch + regenerated record rules + batch
    arithmetic) vs ach.NewReader(...).Read() with default validation on generated valid files of every SEC code,
    single-field changes of them (rendered record by record) and line-level changes of the written text:
    accept / reject / accepted-with-an-unclosed-batch, on acceptance the file record by record and the rule class
    of File.Validate().  The model knows fewer rules than the code (unrecognised checks of Gen/RecRules.v, the SEC
    specific batch rules): a case the code rejects ONLY for such a rule while the model accepts is counted and
    skipped; everything else must agree."""
    drv = os.path.join(C.BUILD, "ocaml", "c01valid", "driver")
    exe = os.path.join(C.BIN, "c01valid")
    if not (os.path.exists(drv) and os.path.exists(exe)):
        ctx.diag.append("validating-reader correspondence could not run (driver or harness missing)")
        return
    rc, out = C.sh([exe, "corr", "-out", d, "-n", str(ctx.scale(2, 10)), "-nmut", str(ctx.scale(5, 8)), "-nline", str(ctx.scale(3, 6))],
                   timeout=3000)
    ctx.log("corr valid", out[-2500:])
    if rc != 0:
        ctx.diag.append("validating-reader correspondence crashed rc=%d: %s" % (rc, out[-300:]))
        return
    rc, out2 = C.sh("%s %s > %s" % (drv, os.path.join(d, "vcases.txt"), os.path.join(d, "vmodel.txt")), timeout=3000)
    if rc != 0:
        ctx.diag.append("extracted validating-reader model crashed: " + out2[-300:])
    valid_compare(ctx, d, out)
    # the witnesses of Props/C01Valid.v on the real code (known findings: blank-only mandatory field, creation date)
    rc, out = C.sh([exe, "witness", "-out", d, "-n", str(ctx.scale(6, 40))], timeout=3000)
    ctx.log("valid witness", out[-500:])
    if rc != 0:
        ctx.diag.append("validating-reader witnesses crashed rc=%d: %s" % (rc, out[-300:]))
        return
    before = len(ctx.fails)
    summ = ctx.read_jsonl(os.path.join(d, "witness.jsonl"))
    for f in ctx.fails[before:]:
        f["input"] = f.get("case")
    ctx.add_summary(summ, "default-reader witnesses")


def valid_compare(ctx, d, out=""):
    """Normalise vmodel.txt / vimpl.txt (see valid_corr) and compare them line by line."""
    try:
        m = open(os.path.join(d, "vmodel.txt")).read().splitlines()
        i = open(os.path.join(d, "vimpl.txt")).read().splitlines()
        ds = open(os.path.join(d, "vdesc.txt")).read().splitlines()
    except OSError as ex:
        ctx.diag.append("validating-reader correspondence: missing output (%s)" % ex)
        return
    cnt = {"accepted_same": 0, "unclosed_batch_same": 0, "rejected_same": 0, "skipped_batch_rule_not_modelled": 0,
           "skipped_unrecognised_record_rule": 0, "file_validate_rule_not_modelled": 0,
           "rejected_by_record_rule": 0, "rejected_by_batch_arithmetic": 0, "rejected_structure": 0}
    mo, io, co = [], [], []
    unknown_fields = set()
    for k in range(min(len(m), len(i))):
        a, b = m[k], i[k]
        if a.startswith("U") and b == "U":
            unknown_fields = set(a.split(" ")[1:])
            a = "U"
        at, bt = a.split(" ", 3), b.split(" ", 2)
        if at[0] in ("OK", "LINGER") and len(at) == 4:
            u, rule, tree = at[1], at[2], at[3]
            a = "%s %s %s" % (at[0], rule, tree)
            if bt[0] == at[0] and len(bt) == 3:
                if bt[1] == "99":           # File.Validate() stopped at a rule the arithmetic model does not have
                    cnt["file_validate_rule_not_modelled"] += 1
                    a = "%s 99 %s" % (at[0], tree)
                if a == b:
                    cnt["accepted_same" if at[0] == "OK" else "unclosed_batch_same"] += 1
            elif bt[0] == "ERR":
                cl = b.split(" ")[1:]
                if cl and all(c == "B99" for c in cl):
                    cnt["skipped_batch_rule_not_modelled"] += 1
                    a = b = "SKIP"
                elif u == "1" and any(c.startswith("R:") for c in cl):
                    cnt["skipped_unrecognised_record_rule"] += 1
                    a = b = "SKIP"
                elif any(c.startswith("R:") and c[2:] in unknown_fields and c[2:] != varied_field(ds[k]) for c in cl):
                    # the code reports a field OTHER than the varied one (a line-level change, or a changed type /
                    # return / change code made the reader parse the record as another type) that an unrecognised
                    # check of some record type mentions
                    cnt["skipped_unrecognised_record_rule"] += 1
                    a = b = "SKIP"
        elif at[0] == "ERR" and bt[0] == "ERR":
            # the model names the layer that rejects: a record rule => the code reports a record (field) error,
            # the batch arithmetic alone => the code reports a batch error
            cl = b.split(" ")[1:]
            why = at[1] if len(at) > 1 else "00"
            if why[0] == "1" and not any(c.startswith("R:") for c in cl):
                a, b = "ERR record-rule", "ERR " + " ".join(cl)
            elif why[1:2] == "1" and not any(c.startswith("B") or c.startswith("R:") for c in cl):
                # (a record error of the code may come from a rule the model does not recognise: the record is then
                # not attached and the batch the model rejects never comes about)
                a, b = "ERR batch-arithmetic", "ERR " + " ".join(cl)
            else:
                cnt["rejected_same"] += 1
                cnt["rejected_by_record_rule" if why[0] == "1" else "rejected_by_batch_arithmetic" if why[1:2] == "1" else "rejected_structure"] += 1
                a = b = "ERR"
        mo.append(a)
        io.append(b)
        co.append((ds[k] if k < len(ds) else "?")[:300])
    for name, rows in (("vmodel.f.txt", mo), ("vimpl.f.txt", io), ("vcases.f.txt", co)):
        with open(os.path.join(d, name), "w") as fh:
            fh.write("\n".join(rows) + "\n")
    label = "default reader (dispatch + record rules + batch arithmetic vs ach.Reader with validation)"
    ctx.compare(label, os.path.join(d, "vmodel.f.txt"), os.path.join(d, "vimpl.f.txt"), os.path.join(d, "vcases.f.txt"))
    try:
        ctx.cov["correspondence"][label].update(cnt)
        ctx.cov["valid_reader_corr"] = json.loads(out.strip().splitlines()[-1])
    except (KeyError, ValueError, IndexError):
        pass


def file_corr(ctx, d):
    """(3) whole files: extracted Dispatch.read_text over the regenerated layouts vs ach.NewReader on the
    writer's output for generated valid files of every SEC code, and on structural variants (SkipAll)."""
    drv = os.path.join(C.BUILD, "ocaml", "c01file", "driver")
    exe = os.path.join(C.BIN, "c01file")
    if not (os.path.exists(drv) and os.path.exists(exe)):
        ctx.diag.append("whole-file correspondence could not run (driver or harness missing)")
        return
    rc, out = C.sh([exe, "files", "-out", d, "-n", str(ctx.scale(2, 12)), "-nvar", str(ctx.scale(3, 6))], timeout=3000)
    ctx.log("corr files", out[-1500:])
    if rc != 0:
        ctx.diag.append("whole-file correspondence crashed rc=%d: %s" % (rc, out[-300:]))
        return
    try:
        ctx.cov["file_corr"] = json.loads(out.strip().splitlines()[-1])
    except (ValueError, IndexError):
        pass
    C.sh("%s %s > %s" % (drv, os.path.join(d, "filecases.txt"), os.path.join(d, "filemodel.txt")), timeout=3000)
    # long hex texts: keep the case column short in the evidence
    c = open(os.path.join(d, "filecases.txt")).read().splitlines()
    with open(os.path.join(d, "filecases.short.txt"), "w") as fh:
        fh.write("\n".join(x[:2000] for x in c) + "\n")
    ctx.compare("whole file read (typed reader model vs ach.Reader)", os.path.join(d, "filemodel.txt"),
                os.path.join(d, "fileimpl.txt"), os.path.join(d, "filecases.short.txt"))


def oracle(ctx, n, ntext, sub="oracle"):
    d = os.path.join(ctx.rundir, sub)
    os.makedirs(d, exist_ok=True)
    rc, out = C.sh([os.path.join(C.BIN, "c01"), "oracle", "-out", d, "-n", str(n), "-ntext", str(ntext), "-repo", C.REPO,
                    "-corpus", os.path.join(C.VERIF, "corpus", "C01")], timeout=3000)
    ctx.log("oracle", out[-2000:])
    if rc != 0:
        ctx.diag.append("oracle crashed rc=%d: %s" % (rc, out[-300:]))
    before = len(ctx.fails)
    summ = ctx.read_jsonl(os.path.join(d, "oracle.jsonl"))
    for f in ctx.fails[before:]:
        f["input"] = f.get("case")
    return summ


def search(ctx, factor):
    before = len(ctx.fails)
    oracle(ctx, ctx.scale(600, 6000) * factor, ctx.scale(600, 6000) * factor, "search")
    found = ctx.fails[before:]
    del ctx.fails[before:]
    return found


def run(ctx):
    ctx.search = search
    ctx.trusted += ["reader-dispatch translator (translator/readerdispatch.go: switch cases, code lists, SEC list, detection columns, guard texts of reader.go -> Gen/ReaderDispatch.v); the hand-modelled control flow of Codec/Dispatch.v (step1..step9) is validated by the whole-file correspondence",
                    "layout translator (translator/layouts.go: Parse/String/…Field of the 26 record types -> Gen/Layouts.v), validated by the record correspondence",
                    "validating reader (Codec/ReaderValid.v): the placement of the record / batch checks is pinned to reader.go by translator/readervalid.go (Gen/ReaderValidSites.v) and validated by the default-reader correspondence; the record rules are those of Gen/RecRules.v (C02), the batch arithmetic Model/Arith.v over Gen/Tables.v (C03)",
                    "golang.org/x/net charset sniffing, bufio.Scanner (ScanRunes) — modelled as 'yield the decoded characters', not verified"]
    ctx.assumptions += ["input is valid UTF-8 (the charset stage is outside the model; late non-ASCII is a known finding)",
                        "record validators are not part of the C01 model: the oracle supplies valid files",
                        "file-level theorems of Props/C01File.v: the typed reader is Reader.Read with record/batch validation skipped (ValidateOpts.SkipAll); a batch without control (accepted by Go) is outside the file tree (model: None)",
                        "Props/C01Valid.v: the default reader's validation is modelled as far as Gen/RecRules.v recognises the record rules (isAlphanumeric, ISO code look-ups and a few others are 'unknown': the model accepts there) and Model/Arith.v the batch rules (SEC specific rules are outside): the model accepts a superset of what the code accepts"]
    if not build(ctx):
        return
    drv = os.path.join(C.BUILD, "ocaml", "c01", "driver")
    d = os.path.join(ctx.rundir, "corr")
    os.makedirs(d, exist_ok=True)
    # (1) layout interpreter + regenerated tables vs real String()/Parse() of the 26 records
    rc, out = C.sh([os.path.join(C.BIN, "c01"), "records", "-out", d, "-n", str(ctx.scale(200, 3000))], timeout=3000)
    # (2) framing loop vs Reader.Read's observable line reports
    rc2, out2 = C.sh([os.path.join(C.BIN, "c01"), "framing", "-out", d, "-n", str(ctx.scale(3000, 60000))], timeout=3000)
    ctx.log("corr", out[-500:] + out2[-500:])
    if rc == 0 and rc2 == 0 and os.path.exists(drv):
        C.sh("%s %s > %s" % (drv, os.path.join(d, "cases.txt"), os.path.join(d, "model.txt")), timeout=3000)
        C.sh("%s %s > %s" % (drv, os.path.join(d, "fcases.txt"), os.path.join(d, "fmodel.txt")), timeout=3000)
        # records the model does not cover (time.Now / ISO-8601 creation dates) are skipped, and counted
        m = open(os.path.join(d, "model.txt")).read().splitlines()
        i = open(os.path.join(d, "impl.txt")).read().splitlines()
        keep = [k for k in range(min(len(m), len(i))) if m[k] != "OUTSIDE"]
        ctx.cov["records_outside_model"] = len(m) - len(keep)
        with open(os.path.join(d, "model.f.txt"), "w") as fh:
            fh.write("\n".join(m[k] for k in keep) + "\n")
        with open(os.path.join(d, "impl.f.txt"), "w") as fh:
            fh.write("\n".join(i[k] for k in keep) + "\n")
        c = open(os.path.join(d, "cases.txt")).read().splitlines()
        with open(os.path.join(d, "cases.f.txt"), "w") as fh:
            fh.write("\n".join(c[k][:300] for k in keep) + "\n")
        ctx.compare("record String/Parse (26 layouts)", os.path.join(d, "model.f.txt"), os.path.join(d, "impl.f.txt"), os.path.join(d, "cases.f.txt"))
        ctx.compare("reader framing", os.path.join(d, "fmodel.txt"), os.path.join(d, "fimpl.txt"), os.path.join(d, "fcases.txt"))
        file_corr(ctx, d)
        valid_corr(ctx, d)
    else:
        ctx.diag.append("correspondence could not run: " + (out + out2)[-300:])
    summ = oracle(ctx, ctx.scale(600, 6000), ctx.scale(600, 6000))
    ctx.add_summary(summ, "write/8 layouts/read/write oracle")


def replay(path):
    ok, out = C.build_harness()
    if not ok:
        print(out[-2000:])
        return 1
    rc, out = C.sh([os.path.join(C.BIN, "c01"), "replay", path], timeout=600)
    print(out)
    return 1 if rc != 0 else 0
